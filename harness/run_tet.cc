// run_tet.cc -- executes tet scripts (kernel script language + TAddCellV/TAddCell4/THalfEdge/THalfFaceV/
// THalfFace/TCollapse + the Q* queries) on GeometricTetrahedralMeshV3d of the library rebuilt from /repo and
// prints the canonical text of ocaml/thdriver.ml.  With --oracle C15 the impl-side brute-force oracles run
// after every operation (independent of the Coq model; they only use definitions and the public API).
#include "th_common.hh"
#include <OpenVolumeMesh/Unstable/Topology/TetTopology.hh>
#include <OpenVolumeMesh/Unstable/Topology/TriangleTopology.hh>
#include <array>
#include <optional>
#include <cstring>

using namespace ovmv;
typedef GeometricTetrahedralMeshV3d TetMesh;
typedef World<TetMesh> W;
using TT = TetTopology;

static Oracles g_orc;

// ------------------------------------------------------------------------------------ label tables
// The names are the specification: label "XY" is the halfedge from X to Y, "XYZ" the halfface on X, Y, Z
// in that rotation (inner: a halfface of the cell, outer: the opposite one).
#define HEL_LIST(X) X(AB) X(BC) X(CA) X(CD) X(AD) X(BD) X(BA) X(CB) X(AC) X(DC) X(DA) X(DB)
#define HFL_LIST(X) X(OppA) X(BDC) X(CBD) X(DCB) X(OppB) X(ACD) X(CDA) X(DAC) X(OppC) X(ADB) X(BAD) X(DBA) \
    X(OppD) X(ABC) X(BCA) X(CAB) X(OuterOppA) X(BCD) X(CDB) X(DBC) X(OuterOppB) X(ADC) X(CAD) X(DCA) \
    X(OuterOppC) X(ABD) X(BDA) X(DAB) X(OuterOppD) X(ACB) X(BAC) X(CBA)

struct HelEntry { TT::HalfEdgeLabel l; const char *name; };
struct HflEntry { TT::HalfFaceLabel l; const char *name; };
#define HE_ENT(x) {TT::x, #x},
#define HF_ENT(x) {TT::x, #x},
static const HelEntry HELS[12] = { HEL_LIST(HE_ENT) };
static const HflEntry HFLS[32] = { HFL_LIST(HF_ENT) };

static std::array<VH, 4> tt_vhs(const TT &t) { return {t.vh<TT::A>(), t.vh<TT::B>(), t.vh<TT::C>(), t.vh<TT::D>()}; }
static std::array<HEH, 12> tt_hehs(const TT &t) {
#define HE_GET(x) t.heh<TT::x>(),
    return { HEL_LIST(HE_GET) };
}
static std::array<HFH, 32> tt_hfhs(const TT &t) {
#define HF_GET(x) t.hfh<TT::x>(),
    return { HFL_LIST(HF_GET) };
}
static bool has_start_name(const char *n) { return strlen(n) == 3; }
static int vl_of(char c) { return c - 'A'; }

template <class L> static long lbl(const std::optional<L> &o) { return o ? (long)*o : -1; }

static void dump_tri(QOut &q, const TriangleTopology &t) { q.h(t.a()); q.h(t.b()); q.h(t.c()); q.h(t.ab()); q.h(t.bc()); q.h(t.ca()); }

static void dump_tt(QOut &q, const TT &t) {
    auto vs = tt_vhs(t); auto hes = tt_hehs(t); auto hfs = tt_hfhs(t);
    for (auto v : vs) q.h(v);
    for (auto h : hes) q.h(h);
    for (auto h : hfs) q.h(h);
    for (auto v : vs) q.val(v.is_valid() ? lbl(t.get_label(v)) : -1);
    for (auto h : hes) q.val(h.is_valid() ? lbl(t.get_label(h)) : -1);
    for (auto h : hfs) q.val(h.is_valid() ? lbl(t.get_label(h)) : -1);
    for (int i = 0; i < 32; ++i) {
        if (!has_start_name(HFLS[i].name)) { q.val(-1); continue; }
        VH first = vs[vl_of(HFLS[i].name[0])];
        // the start vertex through the library's own table is compared by the model; here: by the label's name
        q.val(hfs[i].is_valid() && first.is_valid() ? lbl(t.get_label(hfs[i], first)) : -1);
    }
    for (int i = 0; i < 32; ++i) {
        if (!has_start_name(HFLS[i].name)) continue;
        dump_tri(q, t.triangle_topology(HFLS[i].l));
    }
}

// ------------------------------------------------------------------------------------ brute-force definitions

static std::vector<int> hf_verts(W &w, HFH hf) {
    // total, with the defaults of the model (an out-of-range face has no halfedges, an out-of-range edge is (0,0))
    std::vector<int> r;
    if (hf.idx() < 0 || hf.idx() >= 2 * (int)w.mesh.n_faces()) return r;
    for (auto he : w.mesh.halfface(hf).halfedges())
        r.push_back(he.idx() >= 0 && he.idx() < 2 * (int)w.mesh.n_edges() ? w.mesh.halfedge(he).from_vertex().idx() : 0);
    return r;
}

// a well-formed tetrahedron, from the definitions only
static bool wf_tet(W &w, CH c, std::vector<int> *verts = nullptr) {
    auto &m = w.mesh;
    if (m.is_deleted(c)) return false;
    const auto &hfs = m.cell(c).halffaces();
    if (hfs.size() != 4) return false;
    std::set<int> vs, hes;
    for (auto hf : hfs) {
        if (!hf.is_valid() || hf.idx() >= 2 * (int)m.n_faces() || m.is_deleted(hf.face_handle())) return false;
        auto f = m.halfface(hf).halfedges();
        if (f.size() != 3) return false;
        for (int i = 0; i < 3; ++i) {
            if (m.is_deleted(f[i].edge_handle())) return false;
            if (m.halfedge(f[i]).to_vertex() != m.halfedge(f[(i + 1) % 3]).from_vertex()) return false;
            if (!hes.insert(f[i].idx()).second) return false;
            vs.insert(m.halfedge(f[i]).from_vertex().idx());
        }
        auto v = hf_verts(w, hf);
        if (v[0] == v[1] || v[1] == v[2] || v[0] == v[2]) return false;
        if (m.has_face_bottom_up_incidences() && m.incident_cell(hf) != c) return false;
    }
    if (vs.size() != 4) return false;
    for (int h : hes) if (!hes.count(h ^ 1)) return false;
    if (verts) verts->assign(vs.begin(), vs.end());
    return true;
}

static bool is_rotation(const std::vector<int> &a, const std::vector<int> &b) {
    if (a.size() != b.size()) return false;
    for (size_t k = 0; k < a.size(); ++k) {
        bool ok = true;
        for (size_t i = 0; i < a.size() && ok; ++i) ok = a[(i + k) % a.size()] == b[i];
        if (ok) return true;
    }
    return a.empty();
}

// TetTopology consistency from the label NAMES (the specification), independent of the library's label functions
static bool tt_consistent(W &w, CH c, const TT &t, std::string *why = nullptr) {
    auto &m = w.mesh;
    auto vs = tt_vhs(t); auto hes = tt_hehs(t); auto hfs = tt_hfhs(t);
    auto bad = [&](const std::string &s) { if (why) *why = s; return false; };
    for (int i = 0; i < 4; ++i) { if (!vs[i].is_valid()) return bad("invalid vertex"); for (int j = 0; j < i; ++j) if (vs[i] == vs[j]) return bad("vertices not distinct"); }
    for (int i = 0; i < 12; ++i) {
        if (!hes[i].is_valid()) return bad(std::string("invalid halfedge ") + HELS[i].name);
        if (m.halfedge(hes[i]).from_vertex() != vs[vl_of(HELS[i].name[0])] || m.halfedge(hes[i]).to_vertex() != vs[vl_of(HELS[i].name[1])])
            return bad(std::string("halfedge ") + HELS[i].name + " does not join its labelled vertices");
        auto l = t.get_label(hes[i]);
        if (!l || *l != HELS[i].l) return bad(std::string("get_label does not invert heh<") + HELS[i].name + ">");
    }
    const auto &chfs = m.cell(c).halffaces();
    for (int i = 0; i < 32; ++i) {
        if (!hfs[i].is_valid()) return bad(std::string("invalid halfface ") + HFLS[i].name);
        bool inner = i < 16;
        HFH in_cell = inner ? hfs[i] : hfs[i].opposite_handle();
        if (std::find(chfs.begin(), chfs.end(), in_cell) == chfs.end()) return bad(std::string("halfface ") + HFLS[i].name + " is not the cell's / the opposite of the cell's");
        if (has_start_name(HFLS[i].name)) {
            std::vector<int> want = {vs[vl_of(HFLS[i].name[0])].idx(), vs[vl_of(HFLS[i].name[1])].idx(), vs[vl_of(HFLS[i].name[2])].idx()};
            if (!is_rotation(hf_verts(w, hfs[i]), want)) return bad(std::string("halfface ") + HFLS[i].name + " is not on its labelled vertices in that rotation");
            auto l = t.get_label(hfs[i], vs[vl_of(HFLS[i].name[0])]);
            if (!l || *l != HFLS[i].l) return bad(std::string("get_label(hf, first) does not invert hfh<") + HFLS[i].name + ">");
        } else {
            auto l = t.get_label(hfs[i]);
            if (!l || *l != HFLS[i].l) return bad(std::string("get_label(hf) does not invert hfh<") + HFLS[i].name + ">");
        }
    }
    for (int i = 0; i < 4; ++i) { auto l = t.get_label(vs[i]); if (!l || (int)*l != i) return bad("get_label does not invert vh"); }
    return true;
}

// ------------------------------------------------------------------------------------ queries

static void q_tet_cell(W &w, QOut &q, int c) {
    auto &m = w.mesh;
    CH ch(c);
    auto hfs = m.cell(ch).halffaces();          // copy
    std::vector<int> vs;
    for (auto hf : hfs) for (int v : hf_verts(w, hf)) if (std::find(vs.begin(), vs.end(), v) == vs.end()) vs.push_back(v);
    q.begin("cv", {c}); q.hs(m.get_cell_vertices(ch)); q.end();
    q.begin("tvi", {c, 2}); for (auto it = m.tv_iter(ch, 2); it.valid(); ++it) q.h(*it); q.end();
    q.begin("ttc", {c}); dump_tt(q, TT(m, ch)); q.end();
    for (int v : vs) {
        q.begin("cvv", {c, v}); q.hs(m.get_cell_vertices(ch, VH(v))); q.end();
        q.begin("voh", {c, v}); q.h(m.vertex_opposite_halfface(ch, VH(v))); q.end();
        q.begin("ttcv", {c, v}); dump_tt(q, TT(m, ch, VH(v))); q.end();
    }
    for (auto hf : hfs) {
        HFH o = hf.opposite_handle();
        q.begin("cvh", {hf.idx()}); q.hs(m.get_cell_vertices(hf)); q.end();
        q.begin("hov", {hf.idx()}); q.h(m.halfface_opposite_vertex(hf)); q.end();
        q.begin("cvh", {o.idx()}); q.hs(m.get_cell_vertices(o)); q.end();
        q.begin("hov", {o.idx()}); q.h(m.halfface_opposite_vertex(o)); q.end();
        q.begin("tri", {hf.idx()}); dump_tri(q, TriangleTopology(m, hf)); q.end();
        for (auto he : m.halfface(hf).halfedges()) { q.begin("cvhe", {hf.idx(), he.idx()}); q.hs(m.get_cell_vertices(hf, he)); q.end(); }
        for (int v : hf_verts(w, hf)) {
            q.begin("tt", {c, hf.idx(), v}); dump_tt(q, TT(m, ch, hf, VH(v))); q.end();
            q.begin("ttok", {c, hf.idx(), v}); { TT t(m, ch, hf, VH(v)); q.val(tt_consistent(w, ch, t) ? 1 : 0); } q.end();
            q.begin("tth", {hf.idx(), v}); dump_tt(q, TT(m, hf, VH(v))); q.end();
            q.begin("tri", {hf.idx(), v}); dump_tri(q, TriangleTopology(m, hf, VH(v))); q.end();
        }
    }
}

// returns false if the line is not a query
static bool exec_query(W &w, const std::vector<std::string> &toks, int lineno, std::ostream &o) {
    auto &m = w.mesh;
    bool abs = toks[0][0] == '@';
    std::string name = abs ? toks[0].substr(1) : toks[0];
    if (name.size() < 2 || name[0] != 'Q') return false;
    Args<TetMesh> a(m, abs, toks);
    bool f = m.has_face_bottom_up_incidences();
    auto lvo = [&](int v) { return v < 0 || live_v(m, v); };
    std::string e; bool ok = false; std::function<void(QOut &)> fn;
    if (name == "QCV") { int c = a.c(1); e = echo(name, {c}); ok = f && live_c(m, c);
        fn = [&m, c](QOut &q) { q.begin("cv", {c}); q.hs(m.get_cell_vertices(CH(c))); q.end(); }; }
    else if (name == "QCVV") { int c = a.c(1), v = a.v(2); e = echo(name, {c, v}); ok = f && live_c(m, c) && live_v(m, v);
        fn = [&m, c, v](QOut &q) { q.begin("cvv", {c, v}); q.hs(m.get_cell_vertices(CH(c), VH(v))); q.end(); }; }
    else if (name == "QCVH") { int h = a.hf(1); e = echo(name, {h}); ok = f && live_hf(m, h);
        fn = [&m, h](QOut &q) { q.begin("cvh", {h}); q.hs(m.get_cell_vertices(HFH(h))); q.end(); }; }
    else if (name == "QCVHE") { int h = a.hf(1), he = a.he(2); e = echo(name, {h, he}); ok = f && live_hf(m, h) && live_he(m, he);
        fn = [&m, h, he](QOut &q) { q.begin("cvhe", {h, he}); q.hs(m.get_cell_vertices(HFH(h), HEH(he))); q.end(); }; }
    else if (name == "QHOV") { int h = a.hf(1); e = echo(name, {h}); ok = f && live_hf(m, h);
        fn = [&m, h](QOut &q) { q.begin("hov", {h}); q.h(m.halfface_opposite_vertex(HFH(h))); q.end(); }; }
    else if (name == "QVOH") { int c = a.c(1), v = a.v(2); e = echo(name, {c, v}); ok = f && live_c(m, c) && live_v(m, v);
        fn = [&m, c, v](QOut &q) { q.begin("voh", {c, v}); q.h(m.vertex_opposite_halfface(CH(c), VH(v))); q.end(); }; }
    else if (name == "QTVI") { int c = a.c(1); long l = a.L(2); e = echo(name, {c, l}); ok = f && live_c(m, c) && l >= 1 && l <= 3;
        fn = [&m, c, l](QOut &q) { q.begin("tvi", {c, l}); for (auto it = m.tv_iter(CH(c), (int)l); it.valid(); ++it) q.h(*it); q.end(); }; }
    else if (name == "QTT" || name == "QTTOK") { int c = a.c(1), h = a.hf(2), v = a.ov(3); e = echo(name, {c, h, v}); ok = f && live_c(m, c) && live_hf(m, h) && lvo(v);
        bool okq = name == "QTTOK";
        fn = [&w, &m, c, h, v, okq](QOut &q) { q.begin(okq ? "ttok" : "tt", {c, h, v}); TT t(m, CH(c), HFH(h), VH(v));
            if (okq) q.val(tt_consistent(w, CH(c), t) ? 1 : 0); else dump_tt(q, t); q.end(); }; }
    else if (name == "QTTH") { int h = a.hf(1), v = a.ov(2); e = echo(name, {h, v}); ok = f && live_hf(m, h) && lvo(v);
        fn = [&m, h, v](QOut &q) { q.begin("tth", {h, v}); dump_tt(q, TT(m, HFH(h), VH(v))); q.end(); }; }
    else if (name == "QTTCV") { int c = a.c(1), v = a.v(2); e = echo(name, {c, v}); ok = f && live_c(m, c) && live_v(m, v);
        fn = [&m, c, v](QOut &q) { q.begin("ttcv", {c, v}); dump_tt(q, TT(m, CH(c), VH(v))); q.end(); }; }
    else if (name == "QTTC") { int c = a.c(1); e = echo(name, {c}); ok = f && live_c(m, c);
        fn = [&m, c](QOut &q) { q.begin("ttc", {c}); dump_tt(q, TT(m, CH(c))); q.end(); }; }
    else if (name == "QTRI") { int h = a.hf(1), v = a.ov(2); e = echo(name, {h, v}); ok = f && live_hf(m, h) && lvo(v);
        fn = [&m, h, v](QOut &q) { q.begin("tri", {h, v}); if (v < 0) dump_tri(q, TriangleTopology(m, HFH(h))); else dump_tri(q, TriangleTopology(m, HFH(h), VH(v))); q.end(); }; }
    else if (name == "QTetAll") { e = name; ok = f;
        fn = [&w, &m](QOut &q) { for (int c = 0; c < (int)m.n_cells(); ++c) if (!m.is_deleted(CH(c))) q_tet_cell(w, q, c); }; }
    else { fprintf(stderr, "bad query %s\n", name.c_str()); exit(3); }
    if (!ok) { header(o, lineno, e, "Rejected"); return true; }
    header(o, lineno, e, "Ok -");
    o << run_isolated(fn);
    return true;
}

// ------------------------------------------------------------------------------------ tet operations

static bool exec_tet(W &w, const std::vector<std::string> &toks, Result &res) {
    auto &m = w.mesh;
    bool abs = toks[0][0] == '@';
    std::string name = abs ? toks[0].substr(1) : toks[0];
    Args<TetMesh> a(m, abs, toks);
    auto set = [&](auto h) { res.has = h.is_valid(); res.r = h.idx(); };
    if (name == "TAddCellV") {
        long c = a.L(1); std::vector<long> e{c}; std::vector<VH> vs; bool ok = true;
        for (size_t i = 2; i < toks.size(); ++i) { int v = a.v(i); e.push_back(v); vs.push_back(VH(v)); ok = ok && live_v(m, v); }
        res.echo = echo(name, e);
        if (!ok) { res.rejected = true; return true; }
        set(m.add_cell(vs, c != 0)); return true;
    }
    if (name == "TAddCell4") {
        long c = a.L(1); int v0 = a.v(2), v1 = a.v(3), v2 = a.v(4), v3 = a.v(5);
        res.echo = echo(name, {c, v0, v1, v2, v3});
        if (!live_v(m, v0) || !live_v(m, v1) || !live_v(m, v2) || !live_v(m, v3)) { res.rejected = true; return true; }
        set(m.add_cell(VH(v0), VH(v1), VH(v2), VH(v3), c != 0)); return true;
    }
    if (name == "THalfEdge") {
        int x = a.v(1), y = a.v(2); res.echo = echo(name, {x, y});
        if (!live_v(m, x) || !live_v(m, y)) { res.rejected = true; return true; }
        set(m.add_halfedge(VH(x), VH(y))); return true;
    }
    if (name == "THalfFaceV") {
        long c = a.L(1); int x = a.v(2), y = a.v(3), z = a.v(4); res.echo = echo(name, {c, x, y, z});
        if (!live_v(m, x) || !live_v(m, y) || !live_v(m, z)) { res.rejected = true; return true; }
        set(m.add_halfface(VH(x), VH(y), VH(z), c != 0)); return true;
    }
    if (name == "THalfFace") {
        long c = a.L(1); std::vector<long> e{c}; std::vector<HEH> hs; bool ok = true;
        for (size_t i = 2; i < toks.size(); ++i) { int h = a.he(i); e.push_back(h); hs.push_back(HEH(h)); ok = ok && live_he(m, h); }
        res.echo = echo(name, e);
        if (!ok || hs.size() < 2) { res.rejected = true; return true; }
        set(m.add_halfface(hs, c != 0)); return true;
    }
    if (name == "TCollapse") {
        int h = a.he(1); res.echo = echo(name, {h});
        if (!live_he(m, h) || !m.has_full_bottom_up_incidences()) { res.rejected = true; return true; }
        set(m.collapse_edge(HEH(h))); return true;
    }
    return false;
}

// ------------------------------------------------------------------------------------ oracles (C15)

static void mark_new(W &w, int old_nv) {
    for (int i = old_nv; i < (int)w.mesh.n_vertices(); ++i) w.mesh.set_vertex(VH(i), Vec3d((double)(++w.next_vid), 0, 0));
}
static int tok(W &w, int v) { return (int)w.mesh.vertex(VH(v))[0]; }

// oriented vertex 4-tuple of a wf tet, from the definitions: first halfface's cycle + the remaining vertex
static std::array<int, 4> tet_tuple(W &w, CH c) {
    auto &m = w.mesh;
    auto v = hf_verts(w, m.cell(c).halffaces()[0]);
    std::vector<int> all; wf_tet(w, c, &all);
    int apex = -1; for (int x : all) if (x != v[0] && x != v[1] && x != v[2]) apex = x;
    return {v[0], v[1], v[2], apex};
}
// canonical representative under even permutations
static std::array<int, 4> canon(std::array<int, 4> t) {
    std::array<int, 4> best = t; bool first = true;
    int p[4] = {0, 1, 2, 3};
    std::sort(p, p + 4);
    do {
        int inv = 0; for (int i = 0; i < 4; ++i) for (int j = i + 1; j < 4; ++j) if (p[i] > p[j]) ++inv;
        if (inv % 2) continue;
        std::array<int, 4> c = {t[p[0]], t[p[1]], t[p[2]], t[p[3]]};
        if (first || c < best) { best = c; first = false; }
    } while (std::next_permutation(p, p + 4));
    return best;
}

typedef std::vector<int> Key;      // an entity named by the identity tokens of its vertices

struct CollapsePre {
    bool applicable = false;     // clean simplicial complex AND link condition
    bool simplicial = false;     // clean simplicial complex: vertex-token tuples name the entities
    int tok_a = 0, tok_b = 0;
    std::multiset<std::array<int, 4>> expected;
    size_t n_expected_cells = 0;
    // property tokens before the call, per kind and property, keyed by entity identity
    std::vector<std::map<Key, long>> P[7];
    bool amb[7] = {false, false, false, false, false, false, false};
    std::map<Key, int> he_uses, hf_uses;     // how many rebuilt tets list the halfedge / halfface
    std::set<Key> rebuilt;                   // cells incident to a that do not contain b
};

static Key key_sorted(Key k) { std::sort(k.begin(), k.end()); return k; }
static Key key_rot(Key k) { auto m = std::min_element(k.begin(), k.end()); std::rotate(k.begin(), m, k.end()); return k; }
static Key tokens(W &w, const std::vector<int> &vs) { Key k; for (int v : vs) k.push_back((int)w.mesh.vertex(VH(v))[0]); return k; }
static Key he_key(W &w, HEH h) { auto e = w.mesh.halfedge(h); return tokens(w, {e.from_vertex().idx(), e.to_vertex().idx()}); }
static Key hf_key(W &w, HFH h) { std::vector<int> vs; for (auto he : w.mesh.halfface(h).halfedges()) vs.push_back(w.mesh.halfedge(he).from_vertex().idx()); return key_rot(tokens(w, vs)); }
static Key cell_key(W &w, CH c) { std::set<int> vs; for (auto hf : w.mesh.cell(c).halffaces()) for (auto he : w.mesh.halfface(hf).halfedges()) vs.insert(w.mesh.halfedge(he).from_vertex().idx()); return key_sorted(tokens(w, std::vector<int>(vs.begin(), vs.end()))); }

// snapshot of every property value by entity identity (live entities only)
// amb[k]: two live entities of kind k carry the same name (e.g. two cells on the same four vertices after a collapse that
// violated the link condition): the values of that kind cannot be attributed and are not judged
static void snap_props(W &w, std::vector<std::map<Key, long>> P[7], bool amb[7]) {
    auto &m = w.mesh;
    for (int k = 0; k < 7; ++k) { P[k].clear(); P[k].resize(w.props[k].size()); amb[k] = false; }
    { std::set<Key> seen;
      for (int i = 0; i < (int)m.n_edges(); ++i) if (!m.is_deleted(EH(i)) && !seen.insert(key_sorted(he_key(w, HEH(2 * i)))).second) amb[1] = amb[2] = true; }
    { std::set<Key> seen;
      for (int i = 0; i < (int)m.n_faces(); ++i) if (!m.is_deleted(FH(i)) && !seen.insert(key_sorted(hf_key(w, HFH(2 * i)))).second) amb[3] = amb[4] = true; }
    { std::set<Key> seen;
      for (int i = 0; i < (int)m.n_cells(); ++i) if (!m.is_deleted(CH(i)) && !seen.insert(cell_key(w, CH(i))).second) amb[5] = true; }
    for (int k = 0; k < 7; ++k) for (size_t p = 0; p < w.props[k].size(); ++p) {
        auto &pr = *w.props[k][p]; auto &M = P[k][p];
        switch (k) {
        case 0: for (int i = 0; i < (int)m.n_vertices(); ++i) if (!m.is_deleted(VH(i)) && (size_t)i < pr.size()) M[tokens(w, {i})] = pr.get(i); break;
        case 1: for (int i = 0; i < (int)m.n_edges(); ++i) if (!m.is_deleted(EH(i)) && (size_t)i < pr.size()) M[key_sorted(he_key(w, HEH(2 * i)))] = pr.get(i); break;
        case 2: for (int i = 0; i < 2 * (int)m.n_edges(); ++i) if (!m.is_deleted(EH(i / 2)) && (size_t)i < pr.size()) M[he_key(w, HEH(i))] = pr.get(i); break;
        case 3: for (int i = 0; i < (int)m.n_faces(); ++i) if (!m.is_deleted(FH(i)) && (size_t)i < pr.size()) M[key_sorted(hf_key(w, HFH(2 * i)))] = pr.get(i); break;
        case 4: for (int i = 0; i < 2 * (int)m.n_faces(); ++i) if (!m.is_deleted(FH(i / 2)) && (size_t)i < pr.size()) M[hf_key(w, HFH(i))] = pr.get(i); break;
        case 5: for (int i = 0; i < (int)m.n_cells(); ++i) if (!m.is_deleted(CH(i)) && (size_t)i < pr.size()) M[cell_key(w, CH(i))] = pr.get(i); break;
        default: if (pr.size() > 0) M[Key{}] = pr.get(0); break;
        }
    }
}

// brute-force: is the mesh a clean simplicial tet complex and does a->b satisfy the link condition?
static CollapsePre collapse_pre(W &w, int heh) {
    auto &m = w.mesh; CollapsePre r;
    int a = m.halfedge(HEH(heh)).from_vertex().idx(), b = m.halfedge(HEH(heh)).to_vertex().idx();
    if (a == b) return r;
    std::set<std::pair<int, int>> edges; std::set<std::array<int, 3>> tris; std::set<std::array<int, 4>> tets;
    for (int e = 0; e < (int)m.n_edges(); ++e) if (!m.is_deleted(EH(e))) {
        int x = m.edge(EH(e)).from_vertex().idx(), y = m.edge(EH(e)).to_vertex().idx();
        if (x == y || m.is_deleted(VH(x)) || m.is_deleted(VH(y))) return r;
        if (!edges.insert({std::min(x, y), std::max(x, y)}).second) return r;          // parallel edges
    }
    for (int f = 0; f < (int)m.n_faces(); ++f) if (!m.is_deleted(FH(f))) {
        auto v = hf_verts(w, FH(f).halfface_handle(0));
        if (v.size() != 3) return r;
        auto hes = m.face(FH(f)).halfedges();
        for (int i = 0; i < 3; ++i) if (m.halfedge(hes[i]).to_vertex() != m.halfedge(hes[(i + 1) % 3]).from_vertex() || m.is_deleted(hes[i].edge_handle())) return r;
        std::array<int, 3> t = {v[0], v[1], v[2]}; std::sort(t.begin(), t.end());
        if (t[0] == t[1] || t[1] == t[2]) return r;
        if (!tris.insert(t).second) return r;                                            // duplicate faces
    }
    std::vector<std::array<int, 4>> oriented;
    for (int c = 0; c < (int)m.n_cells(); ++c) if (!m.is_deleted(CH(c))) {
        std::vector<int> vs;
        if (!wf_tet(w, CH(c), &vs)) return r;
        std::array<int, 4> t = {vs[0], vs[1], vs[2], vs[3]};
        if (!tets.insert(t).second) return r;
        oriented.push_back(tet_tuple(w, CH(c)));
    }
    // the mesh is a clean simplicial complex: take the property picture (token oracle, C03 / C15)
    r.simplicial = true; r.tok_a = tok(w, a); r.tok_b = tok(w, b);
    snap_props(w, r.P, r.amb);
    for (int c = 0; c < (int)m.n_cells(); ++c) if (!m.is_deleted(CH(c))) {
        std::vector<int> vs; wf_tet(w, CH(c), &vs);
        bool ha = std::find(vs.begin(), vs.end(), a) != vs.end(), hb = std::find(vs.begin(), vs.end(), b) != vs.end();
        if (!ha || hb) continue;
        r.rebuilt.insert(cell_key(w, CH(c)));
        for (auto hf : m.cell(CH(c)).halffaces()) { r.hf_uses[hf_key(w, hf)]++; for (auto he : m.halfface(hf).halfedges()) r.he_uses[he_key(w, he)]++; }
    }
    auto has_e = [&](int x, int y) { return edges.count({std::min(x, y), std::max(x, y)}) > 0; };
    auto has_t = [&](int x, int y, int z) { std::array<int, 3> t = {x, y, z}; std::sort(t.begin(), t.end()); return tris.count(t) > 0; };
    auto has_c = [&](int x, int y, int z, int u) { std::array<int, 4> t = {x, y, z, u}; std::sort(t.begin(), t.end()); return tets.count(t) > 0; };
    // link condition (closed-star form; boundary treated as is): common neighbours span a face with ab,
    // common link edges span a cell with ab
    int nv = (int)m.n_vertices();
    for (int x = 0; x < nv; ++x) if (x != a && x != b && !m.is_deleted(VH(x)) && has_e(a, x) && has_e(b, x) && !has_t(a, b, x)) return r;
    for (auto &e : edges) { int x = e.first, y = e.second; if (x == a || x == b || y == a || y == b) continue;
        if (has_t(a, x, y) && has_t(b, x, y) && !has_c(a, b, x, y)) return r; }
    for (auto &t : tris) { if (t[0] == a || t[1] == a || t[2] == a || t[0] == b || t[1] == b || t[2] == b) continue;
        if (has_c(a, t[0], t[1], t[2]) && has_c(b, t[0], t[1], t[2])) return r; }
    r.applicable = true;
    int ta = tok(w, a);
    for (auto o : oriented) {
        bool ha = false, hb = false; for (int x : o) { ha = ha || x == a; hb = hb || x == b; }
        if (ha && hb) continue;
        std::array<int, 4> tt; for (int i = 0; i < 4; ++i) tt[i] = tok(w, o[i]) == ta ? r.tok_b : tok(w, o[i]);
        r.expected.insert(canon(tt)); ++r.n_expected_cells;
    }
    return r;
}

static void oracle_collapse_post(W &w, const CollapsePre &pre, int ret, StepOut &out) {
    auto &m = w.mesh;
    if (!pre.applicable) { stat_event("collapse_link_condition_not_met"); return; }
    stat_event(m.deferred_deletion_enabled() ? (m.fast_deletion_enabled() ? "collapse_oracle_deferred_fast" : "collapse_oracle_deferred_slow")
                                             : (m.fast_deletion_enabled() ? "collapse_oracle_immediate_fast" : "collapse_oracle_immediate_slow"));
    if (ret < 0 || ret >= (int)m.n_vertices() || m.is_deleted(VH(ret)) || tok(w, ret) != pre.tok_b) {
        out.fail("C15", "collapse_edge: the returned handle " + std::to_string(ret) + " does not designate the surviving vertex b"); }
    std::multiset<std::array<int, 4>> got; size_t n = 0;
    for (int c = 0; c < (int)m.n_cells(); ++c) if (!m.is_deleted(CH(c))) {
        ++n;
        if (!wf_tet(w, CH(c))) { out.fail("C15", "collapse_edge under the link condition left a cell that is not a tetrahedron: cell " + std::to_string(c)); return; }
        auto t = tet_tuple(w, CH(c)); std::array<int, 4> tt; for (int i = 0; i < 4; ++i) tt[i] = tok(w, t[i]);
        got.insert(canon(tt));
    }
    if (n != pre.n_expected_cells) out.fail("C15", "collapse_edge: cell count " + std::to_string(n) + " but expected " + std::to_string(pre.n_expected_cells));
    else if (got != pre.expected) out.fail("C15", "collapse_edge: resulting cells (as oriented vertex tuples) differ from the former cells without {a,b} with a replaced by b");
}

// Property tokens across collapse_edge ("values stay attached", C03; collapse part of C15).  Entities are named by vertex
// identity tokens.  Strict: every entity that exists before and after and does not take part in the merge keeps its value
// (this is where a self-swap that clears a bool shows); a rebuilt cell carries its cell value.  Half-entities (b,x..) that
// are the image of (a,x..): the value must be the pre-existing one's own value if the target existed, else the carried
// value of (a,x..).  The library swaps once per rebuilt tet, so with an even number of rebuilt tets on (a,x) the value is
// dropped / with an odd number a pre-existing target is overwritten: exactly that outcome is reported as
// KNOWN[collapse-props-parity]; any other value is a violation.
static void oracle_collapse_props(W &w, const CollapsePre &pre, StepOut &out, const std::vector<const char *> &as) {
    if (!pre.simplicial) return;
    auto &m = w.mesh;
    std::vector<std::map<Key, long>> Q[7];
    bool qamb[7];
    snap_props(w, Q, qamb);
    stat_event("collapse_props_oracle");
    static const char *KN[7] = {"vertex", "edge", "halfedge", "face", "halfface", "cell", "mesh"};
    auto kstr = [](const Key &k) { std::string s = "("; for (size_t i = 0; i < k.size(); ++i) { if (i) s += ","; s += std::to_string(k[i]); } return s + ")"; };
    int nfail = 0, nknown = 0;
    auto fail = [&](const std::string &msg) { if (nfail++ < 3) for (auto a : as) out.fail(a, "collapse_edge property values: " + msg); };
    auto known = [&](const std::string &msg) { if (nknown++ < 1) for (auto a : as) out.fail(a, "KNOWN[collapse-props-parity] " + msg); };
    auto subst = [&](Key k, bool rot) { for (auto &x : k) if (x == pre.tok_b) x = pre.tok_a; return rot ? key_rot(k) : k; };
    for (int k = 0; k < 7; ++k) for (size_t p = 0; p < w.props[k].size() && p < pre.P[k].size(); ++p) {
        if (pre.amb[k] || qamb[k]) continue;
        long def = w.props[k][p]->def();
        const auto &A = pre.P[k][p]; const auto &B = Q[k][p];
        for (auto &kv : B) {
            const Key &key = kv.first; long val = kv.second;
            bool has_b = std::find(key.begin(), key.end(), pre.tok_b) != key.end();
            auto own = A.find(key);
            std::string where = std::string(KN[k]) + " property " + std::to_string(p) + " on " + kstr(key);
            if (k == 2 || k == 4) {
                Key src = subst(key, k == 4);
                auto sv = has_b ? A.find(src) : A.end();
                const auto &uses = k == 2 ? pre.he_uses : pre.hf_uses;
                auto u = uses.find(src); int n = u == uses.end() ? 0 : u->second;
                if (!has_b || sv == A.end() || n == 0) {
                    if (own != A.end() && val != own->second) fail(where + " changed from " + std::to_string(own->second) + " to " + std::to_string(val) + " although the entity does not take part in the merge");
                    continue;
                }
                long spec = own != A.end() ? own->second : sv->second;
                long parity = (n % 2) ? sv->second : (own != A.end() ? own->second : def);
                if (val == spec) continue;
                if (val == parity) { known(where + ": " + std::to_string(n) + " rebuilt tets use the collapsed half-entity; value " + std::to_string(val) + " instead of " + std::to_string(spec)); continue; }
                fail(where + " is " + std::to_string(val) + ", neither its own / the carried value " + std::to_string(spec) + " nor the once-per-tet swap result " + std::to_string(parity));
            } else if (k == 5) {
                if (own != A.end() && !pre.rebuilt.count(key)) { if (val != own->second) fail(where + " changed from " + std::to_string(own->second) + " to " + std::to_string(val)); continue; }
                if (!pre.applicable || !has_b) continue;
                Key src = key_sorted(subst(key, false));
                auto sv = A.find(src);
                if (sv != A.end() && pre.rebuilt.count(src) && val != sv->second) fail(where + " is " + std::to_string(val) + " but the rebuilt cell carried " + std::to_string(sv->second));
            } else {
                // vertices, edges, faces, mesh: whole entities are never merged by value - what existed keeps its value
                if (own != A.end() && val != own->second) fail(where + " changed from " + std::to_string(own->second) + " to " + std::to_string(val));
            }
        }
    }
}

// C01's quantifier, inherited by the reachable states of C15: no halfface is used by two live cells (see run_hex.cc)
static bool halfface_in_two_live_cells(W &w) {
    auto &m = w.mesh;
    std::set<int> owner;
    for (int c = 0; c < (int)m.n_cells(); ++c) if (!m.is_deleted(CH(c))) for (auto hf : m.cell(CH(c)).halffaces())
        if (hf.is_valid() && !owner.insert(hf.idx()).second) return true;
    return false;
}

static void oracle_shape(W &w, StepOut &out, bool modified_by_set) {
    auto &m = w.mesh;
    if (modified_by_set) return;       // set_face / set_cell are not tet operations (the property does not list them)
    for (int f = 0; f < (int)m.n_faces(); ++f) if (!m.is_deleted(FH(f)) && m.face(FH(f)).halfedges().size() != 3) {
        out.fail("C15", "live face " + std::to_string(f) + " has " + std::to_string(m.face(FH(f)).halfedges().size()) + " halfedges"); return; }
    for (int c = 0; c < (int)m.n_cells(); ++c) if (!m.is_deleted(CH(c)) && m.cell(CH(c)).halffaces().size() != 4) {
        out.fail("C15", "live cell " + std::to_string(c) + " has " + std::to_string(m.cell(CH(c)).halffaces().size()) + " halffaces"); return; }
}

// contracts of the query functions on every well-formed tet, recomputed from the definitions
static void oracle_tet_queries(W &w, StepOut &out) {
    auto &m = w.mesh;
    if (!m.has_face_bottom_up_incidences()) return;
    for (int ci = 0; ci < (int)m.n_cells(); ++ci) {
        CH c(ci); std::vector<int> all;
        if (!wf_tet(w, c, &all)) continue;
        stat_event("wf_tet_checked");
        auto fail = [&](const std::string &s) { out.fail("C15", "cell " + std::to_string(ci) + ": " + s); };
        auto hfs = m.cell(c).halffaces();
        auto apex_of = [&](HFH hf) { auto v = hf_verts(w, hf); for (int x : all) if (x != v[0] && x != v[1] && x != v[2]) return x; return -1; };
        auto ids = [](const std::vector<VH> &v) { std::vector<int> r; for (auto x : v) r.push_back(x.idx()); return r; };
        // get_cell_vertices(hf), (hf, he), opposite maps
        for (auto hf : hfs) {
            auto v = hf_verts(w, hf); int ap = apex_of(hf);
            if (ids(m.get_cell_vertices(hf)) != std::vector<int>{v[0], v[1], v[2], ap}) { fail("get_cell_vertices(hf) is not the halfface cycle + apex"); return; }
            auto hes = m.halfface(hf).halfedges();
            for (int i = 0; i < 3; ++i) {
                std::vector<int> want = {v[i], v[(i + 1) % 3], v[(i + 2) % 3], ap};
                if (ids(m.get_cell_vertices(hf, hes[i])) != want) { fail("get_cell_vertices(hf, he) does not start at the halfedge"); return; }
            }
            if (m.halfface_opposite_vertex(hf).idx() != ap) { fail("halfface_opposite_vertex is not the vertex outside the halfface"); return; }
            if (m.vertex_opposite_halfface(c, VH(ap)) != hf) { fail("vertex_opposite_halfface(halfface_opposite_vertex(hf)) != hf"); return; }
        }
        for (int v : all) {
            HFH hf = m.vertex_opposite_halfface(c, VH(v));
            if (!hf.is_valid() || m.halfface_opposite_vertex(hf).idx() != v) { fail("halfface_opposite_vertex(vertex_opposite_halfface(v)) != v"); return; }
            auto hv = hf_verts(w, hf); if (std::find(hv.begin(), hv.end(), v) != hv.end()) { fail("vertex_opposite_halfface contains the vertex"); return; }
        }
        // get_cell_vertices(c), (c, v), iterator
        auto base = ids(m.get_cell_vertices(c));
        auto v0 = hf_verts(w, hfs[0]); int ap0 = apex_of(hfs[0]);
        if (base != std::vector<int>{v0[0], v0[1], v0[2], ap0}) { fail("get_cell_vertices(c) is not the first halfface's cycle + apex"); return; }
        std::vector<int> it; for (auto i = m.tv_iter(c); i.valid(); ++i) it.push_back(i->idx());
        if (it != base) { fail("the tet vertex iterator differs from get_cell_vertices(c)"); return; }
        for (int i = 0; i < 3; ++i) {
            std::vector<int> want = {v0[i], v0[(i + 1) % 3], v0[(i + 2) % 3], ap0};
            if (ids(m.get_cell_vertices(c, VH(v0[i]))) != want) { fail("get_cell_vertices(c, v) does not start at v in the first halfface's cyclic order"); return; }
        }
        { auto r = ids(m.get_cell_vertices(c, VH(ap0)));
          std::array<int, 4> ra = {r[0], r[1], r[2], r[3]}, ba = {base[0], base[1], base[2], base[3]};
          if (r[0] != ap0 || canon(ra) != canon(ba)) { fail("get_cell_vertices(c, apex) does not start at the apex with the orientation preserved"); return; } }
        // TetTopology for all 12 (halfface, start) choices
        for (auto hf : hfs) for (int v : hf_verts(w, hf)) {
            const TT t(m, c, hf, VH(v)); std::string why;
            if (t.vh<TT::A>().idx() != v || t.hfh<TT::ABC>() != hf) { fail("TetTopology(c, hf, a) does not start at (hf, a)"); return; }
            if (!tt_consistent(w, c, t, &why)) { fail("TetTopology(c," + std::to_string(hf.idx()) + "," + std::to_string(v) + ") inconsistent: " + why); return; }
        }
    }
}

// ------------------------------------------------------------------------------------ script execution

static void run_script(const std::vector<std::string> &lines) {
    W w;
    bool orc = g_orc.has("C15");
    bool orc03 = g_orc.has("C03");
    std::vector<const char *> prop_names;
    if (g_orc.on.count("C15") || g_orc.on.count("all")) prop_names.push_back("C15");
    if (g_orc.on.count("C03") || g_orc.on.count("all")) prop_names.push_back("C03");
    bool tainted = false;          // a set_* / swap made shape statements inapplicable (not tet operations)
    int lineno = 0;
    for (auto &line : lines) {
        ++lineno;
        auto toks = split_ws(line);
        std::ostringstream o;
        std::string nm = toks[0][0] == '@' ? toks[0].substr(1) : toks[0];
        try {
            if (nm == "Mesh") { header(o, lineno, "Mesh " + toks.at(1), "Ok -"); if (toks.at(1) != "tet") { fprintf(stderr, "run_tet: not a tet script\n"); exit(3); } dump_state(w, o); }
            else if (exec_query(w, toks, lineno, o)) {}
            else {
                int old_nv = (int)w.mesh.n_vertices();
                CollapsePre pre;
                Result r;
                // operands of TCollapse are resolved here once more only to take the oracle's "before" picture
                if ((orc || orc03) && nm == "TCollapse") { Args<TetMesh> a(w.mesh, toks[0][0] == '@', toks); int h = a.he(1);
                    if (live_he(w.mesh, h) && w.mesh.has_full_bottom_up_incidences()) pre = collapse_pre(w, h); }
                if (!exec_tet(w, toks, r)) r = exec_line(w, toks);
                mark_new(w, old_nv);
                header(o, lineno, r.echo, r.rejected ? "Rejected" : (r.has ? ("Ok " + std::to_string(r.r)).c_str() : "Ok -"));
                dump_state(w, o);
                if (nm == "SetF" || nm == "SetC" || nm == "SetE") tainted = true;
                if (nm == "Clear") tainted = false;
                if (halfface_in_two_live_cells(w)) tainted = true;        // out of the contract of the shape statement from here on (until Clear)
                if ((orc || orc03) && !r.rejected) {
                    StepOut so;
                    if (orc) { oracle_shape(w, so, tainted); oracle_tet_queries(w, so); }
                    // a cell accepted WITH topology check is a tetrahedron: exactly four distinct vertices
                    if (orc && r.has && (nm == "AddC" || nm == "TAddCell4") && toks.at(1) == "1" && r.r >= 0 && r.r < (long)w.mesh.n_cells()) {
                        std::set<int> vs;
                        for (auto hf : w.mesh.cell(CH((int)r.r)).halffaces()) for (int v : hf_verts(w, hf)) vs.insert(v);
                        if (vs.size() != 4) so.fail("C15", "the topology-checked add_cell accepted a cell with " + std::to_string(vs.size()) + " distinct vertices");
                    }
                    if (orc && nm == "TCollapse") oracle_collapse_post(w, pre, (int)r.r, so);
                    if (nm == "TCollapse") oracle_collapse_props(w, pre, so, prop_names);
                    o << so.o.str();
                }
            }
        } catch (Unresolvable &) {
            header(o, lineno, trim(line), "Unresolvable");
            dump_state(w, o);
        }
        std::string s = o.str();
        fwrite(s.data(), 1, s.size(), stdout);
        fflush(stdout);
    }
}

int main(int argc, char **argv) { return script_main(argc, argv, g_orc, run_script); }
