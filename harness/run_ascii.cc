// run_ascii.cc -- OVM-ASCII (.ovm) harness for the ASCII half of C06 / C07: feeds byte strings to the REAL
// FileManager::readStream / readFile and runs the REAL writeStream / writeFile on meshes built from kernel scripts,
// printing canonical text that lib/checks_ascii.py compares line by line with the extracted Coq model
// (ocaml/asciidriver.ml).  Also: a token-level differential mode for the istream-lite (coq/IO/AsciiStream.v).
//
// Modes
//   run_ascii --tokens <maxlen>         every token of length <= maxlen over "0123456789+-.exa " extracted by a real
//                                       std::istringstream as each of the modelled types (twice in a row), printing
//                                       value / state bits / characters consumed
//   run_ascii [file]                    case file (or stdin):
//     case <id> mode=read mesh=poly|tet|hex check=0|1 bu=0|1 api=stream|path [aslimit=<MB>]
//     hex <hex bytes>                   (repeatable; concatenated; "hex -" = empty)
//     end
//     case <id> mode=write mesh=poly|tet|hex
//     k <kernel script line>            (harness/kernel_exec.hh)
//     rawF <he>* / rawC <hf>*           (faces / cells the script layer treats as out of contract)
//     pos <v> <hex64 x> <hex64 y> <hex64 z>
//     prop <kind V|E|HE|F|HF|C|M> <ascii type> <name hex> [<canonical value>]*      (first n elements)
//     end
// Output per case: "== <id>", then
//   read:  "result=true|false|exn:<what> st=<g|[e][f][b]|->", the canonical mesh block (also after `false`: the partially
//          built mesh is part of the lock step), "!O ..." lines of the impl-side oracles (mesh_valid on success)
//   write: "pending=<0|1>", the observed mesh block with properties in WRITER order ("W" lines), "text <hex>",
//          "file=<same|differs|error>", "rt=<ok|-|...>" (+ "!O ..." oracle lines: write->read->write fixpoint)
// Each case runs in a forked child with a 2 s alarm: crash / sanitizer abort -> "!! CRASH", timeout -> "!! TIMEOUT".
#include "probe.hh"
#include "kernel_exec.hh"
#include <OpenVolumeMesh/FileManager/FileManager.hh>
#include <OpenVolumeMesh/Core/detail/internal_type_name.hh>
#include <fstream>
#include <iostream>
#include <sstream>
#include <algorithm>
#include <cstring>
#include <csignal>
#include <cinttypes>
#include <fcntl.h>
#include <sys/resource.h>
#include <tuple>

using namespace ovmv;
using OpenVolumeMesh::IO::FileManager;
using Geometry::VectorT;

typedef GeometryKernel<Vec3d, TopologyKernel> PolyMesh;
typedef GeometryKernel<Vec3d, TetrahedralMeshTopologyKernel> TetMesh;
typedef GeometryKernel<Vec3d, HexahedralMeshTopologyKernel> HexMesh;

// ------------------------------------------------------------------------------------------------ hex helpers
static std::string to_hex(const std::string &s) {
    static const char *d = "0123456789abcdef";
    std::string o; o.reserve(2 * s.size());
    for (unsigned char c : s) { o.push_back(d[c >> 4]); o.push_back(d[c & 15]); }
    return o;
}
static std::string hex_or_dash(const std::string &s) { return s.empty() ? "-" : to_hex(s); }
static int hv(char c) { if (c >= '0' && c <= '9') return c - '0'; if (c >= 'a' && c <= 'f') return c - 'a' + 10; if (c >= 'A' && c <= 'F') return c - 'A' + 10; return -1; }
static std::string from_hex(const std::string &h) {
    if (h == "-") return "";
    std::string o;
    for (size_t i = 0; i + 1 < h.size(); i += 2) { int a = hv(h[i]), b = hv(h[i + 1]); if (a < 0 || b < 0) { fprintf(stderr, "bad hex\n"); exit(3); } o.push_back((char)(a * 16 + b)); }
    return o;
}
static std::string bits64(double x) { uint64_t u; std::memcpy(&u, &x, 8); char b[32]; snprintf(b, sizeof b, "%016" PRIx64, u); return b; }
static std::string bits32(float x) { uint32_t u; std::memcpy(&u, &x, 4); char b[32]; snprintf(b, sizeof b, "%08" PRIx32, u); return b; }
static double from_bits64(const std::string &s) { uint64_t u = strtoull(s.c_str(), nullptr, 16); double x; std::memcpy(&x, &u, 8); return x; }
static float from_bits32(const std::string &s) { uint32_t u = (uint32_t)strtoul(s.c_str(), nullptr, 16); float x; std::memcpy(&x, &u, 4); return x; }

// ------------------------------------------------------------------------------------------------ canonical values
// integers: decimal; char/uchar: the byte value in decimal; bool: 0/1; float/double: bit pattern (8/16 hex digits);
// string: 's' + hex; vector: [a,b,..]; map: {k:v,..}; VecN: (a,b,..).  No whitespace inside a value.
// rt=true: floating point printed the way a classic-locale ostream prints it (round-trip comparison "to printed precision").
typedef std::map<HalfEdgeHandle, int> MapHI;
typedef std::vector<double> VD;
typedef std::vector<VertexHandle> VVH;
typedef std::vector<HalfFaceHandle> VHFH;
typedef std::vector<std::vector<HalfFaceHandle>> VVHFH;
typedef VectorT<float, 2> V2f; typedef VectorT<double, 2> V2d; typedef VectorT<int, 2> V2i; typedef VectorT<unsigned int, 2> V2u;
typedef VectorT<float, 3> V3f; typedef VectorT<double, 3> V3d; typedef VectorT<int, 3> V3i; typedef VectorT<unsigned int, 3> V3u;
typedef VectorT<float, 4> V4f; typedef VectorT<double, 4> V4d; typedef VectorT<int, 4> V4i; typedef VectorT<unsigned int, 4> V4u;

#define ASCII_TYPES(X) \
    X("int", int) X("uint", unsigned int) X("short", short) X("long", long) X("ulong", unsigned long) \
    X("char", char) X("uchar", unsigned char) X("bool", bool) X("float", float) X("double", double) X("string", std::string) \
    X("map_heh_int", MapHI) X("vector_double", VD) X("vector_vh", VVH) X("vector_hfh", VHFH) X("vector_vector_hfh", VVHFH) \
    X("vec2f", V2f) X("vec2d", V2d) X("vec2i", V2i) X("vec2ui", V2u) \
    X("vec3f", V3f) X("vec3d", V3d) X("vec3i", V3i) X("vec3ui", V3u) \
    X("vec4f", V4f) X("vec4d", V4d) X("vec4i", V4i) X("vec4ui", V4u)

static bool g_rt = false;
static std::string fmt_rt(double x) { std::ostringstream o; o.imbue(std::locale::classic()); o << x; return o.str(); }

template <class T, class = void> struct CV;
template <class T> struct CV<T, std::enable_if_t<std::is_integral_v<T> && !std::is_same_v<T, bool> && !std::is_same_v<T, char> && !std::is_same_v<T, unsigned char>>> {
    static std::string to(const T &v) { return std::to_string(v); }
    static T from(const char *&p) { char *e; T r; if (std::is_signed_v<T>) r = (T)strtoll(p, &e, 10); else r = (T)strtoull(p, &e, 10); p = e; return r; }
};
template <> struct CV<char> {
    static std::string to(const char &v) { return std::to_string((int)(unsigned char)v); }
    static char from(const char *&p) { char *e; long r = strtol(p, &e, 10); p = e; return (char)(unsigned char)r; }
};
template <> struct CV<unsigned char> {
    static std::string to(const unsigned char &v) { return std::to_string((int)v); }
    static unsigned char from(const char *&p) { char *e; long r = strtol(p, &e, 10); p = e; return (unsigned char)r; }
};
template <> struct CV<bool> {
    static std::string to(const bool &v) { return v ? "1" : "0"; }
    static bool from(const char *&p) { bool r = *p == '1'; if (*p) ++p; return r; }
};
template <> struct CV<double> {
    static std::string to(const double &v) { return g_rt ? fmt_rt(v) : bits64(v); }
    static double from(const char *&p) { std::string s(p, strnlen(p, 16)); p += s.size(); return from_bits64(s); }
};
template <> struct CV<float> {
    static std::string to(const float &v) { return g_rt ? fmt_rt(v) : bits32(v); }
    static float from(const char *&p) { std::string s(p, strnlen(p, 8)); p += s.size(); return from_bits32(s); }
};
template <> struct CV<std::string> {
    static std::string to(const std::string &v) { return "s" + to_hex(v); }
    static std::string from(const char *&p) { if (*p == 's') ++p; const char *q = p; while (hv(*q) >= 0) ++q; std::string r = from_hex(std::string(p, q - p)); p = q; return r; }
};
template <class T> struct CV<T, std::enable_if_t<is_handle_v<T>>> {
    static std::string to(const T &v) { return std::to_string(v.idx()); }
    static T from(const char *&p) { char *e; long r = strtol(p, &e, 10); p = e; return T((int)r); }
};
template <class T> struct CV<std::vector<T>> {
    static std::string to(const std::vector<T> &v) { std::string s = "["; for (size_t i = 0; i < v.size(); ++i) { if (i) s += ","; s += CV<T>::to(v[i]); } return s + "]"; }
    static std::vector<T> from(const char *&p) { std::vector<T> r; if (*p == '[') ++p; while (*p && *p != ']') { r.push_back(CV<T>::from(p)); if (*p == ',') ++p; } if (*p == ']') ++p; return r; }
};
template <class K, class V> struct CV<std::map<K, V>> {
    static std::string to(const std::map<K, V> &m) { std::string s = "{"; bool f = true; for (auto &kv : m) { if (!f) s += ","; f = false; s += CV<K>::to(kv.first) + ":" + CV<V>::to(kv.second); } return s + "}"; }
    static std::map<K, V> from(const char *&p) { std::map<K, V> r; if (*p == '{') ++p; while (*p && *p != '}') { K k = CV<K>::from(p); if (*p == ':') ++p; V v = CV<V>::from(p); r[k] = v; if (*p == ',') ++p; } if (*p == '}') ++p; return r; }
};
template <class S, int N> struct CV<VectorT<S, N>> {
    static std::string to(const VectorT<S, N> &v) { std::string s = "("; for (int i = 0; i < N; ++i) { if (i) s += ","; s += CV<S>::to(v[i]); } return s + ")"; }
    static VectorT<S, N> from(const char *&p) { VectorT<S, N> r; for (int i = 0; i < N; ++i) r[i] = S(); if (*p == '(') ++p; for (int i = 0; i < N && *p && *p != ')'; ++i) { r[i] = CV<S>::from(p); if (*p == ',') ++p; } if (*p == ')') ++p; return r; }
};

// ------------------------------------------------------------------------------------------------ property dump
static const char *ENT_NAMES[7] = {"V", "E", "HE", "F", "HF", "C", "M"};   // writer order (writeProps calls in writeStream)

struct PropDump { int ent; std::string name, type; std::vector<std::string> vals; size_t size; };

template <class T> static void dump_typed(const char *tn, PropertyStorageBase *p, PropDump &d) {
    auto *s = p->cast_to_StorageT<T>();
    d.type = tn;
    const auto &vec = s->data_vector();
    d.size = vec.size();
    for (size_t i = 0; i < vec.size(); ++i) { T v = vec[i]; d.vals.push_back(CV<T>::to(v)); }
}
static bool dump_prop(PropertyStorageBase *p, PropDump &d) {
    d.name = p->name();
#define X(tn, T) if (p->internal_type_name() == OpenVolumeMesh::detail::internal_type_name<T>()) { dump_typed<T>(tn, p, d); return true; }
    ASCII_TYPES(X)
#undef X
    return false;
}
template <class M, class Tag> static void collect_props(M &m, int ent, std::vector<PropDump> &out) {
    for (auto it = m.template persistent_props_begin<Tag>(); it != m.template persistent_props_end<Tag>(); ++it) {
        PropDump d; d.ent = ent;
        PropertyStorageBase *sp = *it;
        if (!dump_prop(sp, d)) { d.type = "?"; d.name = sp->name(); d.size = sp->size(); }
        out.push_back(std::move(d));
    }
}
template <class M> static std::vector<PropDump> all_props(M &m) {
    std::vector<PropDump> v;
    collect_props<M, Entity::Vertex>(m, 0, v); collect_props<M, Entity::Edge>(m, 1, v); collect_props<M, Entity::HalfEdge>(m, 2, v);
    collect_props<M, Entity::Face>(m, 3, v); collect_props<M, Entity::HalfFace>(m, 4, v); collect_props<M, Entity::Cell>(m, 5, v);
    collect_props<M, Entity::Mesh>(m, 6, v);
    return v;
}
template <class M> static size_t ent_count(M &m, int ent) {
    switch (ent) { case 0: return m.n_vertices(); case 1: return m.n_edges(); case 2: return m.n_halfedges(); case 3: return m.n_faces();
                   case 4: return m.n_halffaces(); case 5: return m.n_cells(); default: return 1; }
}

// canonical mesh block.  writer_order=false: properties sorted by (entity, name, type) as "P" lines; true: writer order as "W" lines
template <class M> static void mesh_block(Probe<M> &m, std::ostream &o, bool writer_order, bool caches = true) {
    Probe<M> &mm = m;
    o << "nv " << m.n_vertices() << "\n";
    o << "E";
    for (size_t i = 0; i < m.n_edges(); ++i) { auto e = m.edge(EdgeHandle((int)i)); o << " " << e.from_vertex().idx() << "," << e.to_vertex().idx(); }
    o << "\nF";
    for (size_t i = 0; i < m.n_faces(); ++i) o << " " << hlist(m.face(FaceHandle((int)i)).halfedges());
    o << "\nC";
    for (size_t i = 0; i < m.n_cells(); ++i) o << " " << hlist(m.cell(CellHandle((int)i)).halffaces());
    o << "\nPOS";
    { const auto &pp = mm.vertex_positions();
      for (size_t i = 0; i < pp.size(); ++i) { Vec3d p = pp[VertexHandle((int)i)]; o << " " << CV<double>::to(p[0]) << "," << CV<double>::to(p[1]) << "," << CV<double>::to(p[2]); } }
    o << "\ndel V:";
    for (size_t i = 0; i < m.n_vertices(); ++i) o << (m.is_deleted(VertexHandle((int)i)) ? "1" : "0");
    o << " E:";
    for (size_t i = 0; i < m.n_edges(); ++i) o << (m.is_deleted(EdgeHandle((int)i)) ? "1" : "0");
    o << " F:";
    for (size_t i = 0; i < m.n_faces(); ++i) o << (m.is_deleted(FaceHandle((int)i)) ? "1" : "0");
    o << " C:";
    for (size_t i = 0; i < m.n_cells(); ++i) o << (m.is_deleted(CellHandle((int)i)) ? "1" : "0");
    o << "\n";
    if (caches) {
        o << "flags v=" << m.has_vertex_bottom_up_incidences() << " e=" << m.has_edge_bottom_up_incidences() << " f=" << m.has_face_bottom_up_incidences() << "\n";
        o << "OUT";
        for (auto &l : m.outgoing_hes_per_vertex_) o << " " << hlist(l);
        o << "\nHFS";
        for (auto &l : m.incident_hfs_per_he_) o << " " << hlist(l);
        o << "\nCELL";
        for (auto c : m.incident_cell_per_hf_) { if (c.is_valid()) o << " " << c.idx(); else o << " -"; }
        o << "\n";
    }
    auto props = all_props(mm);
    if (!writer_order)
        std::stable_sort(props.begin(), props.end(), [](const PropDump &a, const PropDump &b) {
            return std::make_tuple(a.ent, a.name, a.type) < std::make_tuple(b.ent, b.name, b.type); });
    for (auto &d : props) {
        o << (writer_order ? "W " : "P ") << ENT_NAMES[d.ent] << " " << hex_or_dash(d.name) << " " << d.type << " n=" << d.size << " :";
        for (auto &v : d.vals) o << " " << v;
        o << "\n";
    }
}

// impl-side oracle (independent of the model): every stored handle designates an existing entity, every property
// (persistent ones and the position property) has one element per entity
template <class M> static std::string mesh_valid(M &m) {
    size_t nv = m.n_vertices(), ne = m.n_edges(), nf = m.n_faces();
    for (size_t i = 0; i < ne; ++i) { auto e = m.edge(EdgeHandle((int)i)); if (e.from_vertex().idx() < 0 || (size_t)e.from_vertex().idx() >= nv || e.to_vertex().idx() < 0 || (size_t)e.to_vertex().idx() >= nv) return "edge " + std::to_string(i) + " stores a vertex handle out of range"; }
    for (size_t i = 0; i < nf; ++i) for (auto h : m.face(FaceHandle((int)i)).halfedges()) if (h.idx() < 0 || (size_t)h.idx() >= 2 * ne) return "face " + std::to_string(i) + " stores a halfedge handle out of range";
    for (size_t i = 0; i < m.n_cells(); ++i) for (auto h : m.cell(CellHandle((int)i)).halffaces()) if (h.idx() < 0 || (size_t)h.idx() >= 2 * nf) return "cell " + std::to_string(i) + " stores a halfface handle out of range";
    if (m.vertex_positions().size() != nv) return "position property has " + std::to_string(m.vertex_positions().size()) + " elements for " + std::to_string(nv) + " vertices";
    for (auto &d : all_props(m)) if (d.size != ent_count(m, d.ent)) return std::string("property ") + ENT_NAMES[d.ent] + "/" + to_hex(d.name) + " has " + std::to_string(d.size) + " elements for " + std::to_string(ent_count(m, d.ent)) + " entities";
    return "";
}

// ------------------------------------------------------------------------------------------------ cases
struct Case {
    std::string id, mode = "read", mesh = "poly", api = "stream";
    int check = 1, bu = 1;
    long aslimit = 0;
    std::string bytes;
    std::vector<std::string> klines;
    std::vector<std::vector<std::string>> pos, props;
};

static std::string state_bits(std::ios &s) {
    std::string r;
    if (s.eof()) r += "e";
    if (s.fail() && !s.bad()) r += "f";
    if (s.bad()) r += "b";
    return r.empty() ? "g" : r;
}

template <class M> static void do_read(const Case &c, std::ostream &o, const std::string &scratch) {
    Probe<M> mesh;
    FileManager fm; fm.setVerbosityLevel(0);
    bool res = false; std::string st = "-", exn;
    try {
        if (c.api == "path") {
            std::string p = scratch + "/case-" + std::to_string(getpid()) + ".ovm";
            { std::ofstream f(p, std::ios::binary); f.write(c.bytes.data(), (std::streamsize)c.bytes.size()); }
            try { res = fm.readFile(p, mesh, c.check != 0, c.bu != 0); } catch (...) { std::remove(p.c_str()); throw; }
            std::remove(p.c_str());
        } else {
            std::istringstream is(c.bytes, std::ios::in | std::ios::binary);
            try { res = fm.readStream(is, mesh, c.check != 0, c.bu != 0); } catch (...) { st = state_bits(is); throw; }
            st = state_bits(is);
        }
    } catch (std::length_error &) { exn = "length_error";
    } catch (std::bad_alloc &) { exn = "bad_alloc";
    } catch (std::runtime_error &) { exn = "runtime_error";
    } catch (std::exception &) { exn = "other";
    }
    if (!exn.empty()) { o << "result=exn:" << exn << " st=" << st << "\n"; return; }
    o << "result=" << (res ? "true" : "false") << " st=" << st << "\n";
    mesh_block(mesh, o, false);
    if (res) {
        std::string bad = mesh_valid(mesh);
        if (!bad.empty()) o << "!O mesh_valid " << bad << "\n";
        if (c.bu && !(mesh.has_vertex_bottom_up_incidences() && mesh.has_edge_bottom_up_incidences() && mesh.has_face_bottom_up_incidences())) o << "!O bottom_up requested but not enabled\n";
        if (!c.bu && (mesh.has_vertex_bottom_up_incidences() || mesh.has_edge_bottom_up_incidences() || mesh.has_face_bottom_up_incidences())) o << "!O bottom_up not requested but enabled\n";
    }
}

template <class M, class T, class Tag> static bool make_typed_prop(M &m, const std::vector<std::string> &t) {
    auto p = m.template create_persistent_property<T, Tag>(from_hex(t[3]), T());
    if (!p) return false;
    using H = typename PropertyPtr<T, Tag>::EntityHandleT;
    for (size_t i = 4; i < t.size() && i - 4 < p->size(); ++i) { const char *q = t[i].c_str(); (*p)[H((int)(i - 4))] = CV<T>::from(q); }
    return true;
}
template <class M, class Tag> static bool make_prop_on(M &m, const std::vector<std::string> &t) {
#define X(tn, T) if (t[2] == tn) return make_typed_prop<M, T, Tag>(m, t);
    ASCII_TYPES(X)
#undef X
    if (t[2] == "unsupported") {   // a persistent property of a type without typeName: the writer must skip it
        auto p = m.template create_persistent_property<std::vector<int>, Tag>(from_hex(t[3]), std::vector<int>());
        return (bool)p;
    }
    fprintf(stderr, "unknown prop type %s\n", t[2].c_str()); exit(3);
}
template <class M> static bool make_prop_any(M &m, const std::vector<std::string> &t) {
    const std::string &k = t[1];
    if (k == "V") return make_prop_on<M, Entity::Vertex>(m, t);
    if (k == "E") return make_prop_on<M, Entity::Edge>(m, t);
    if (k == "HE") return make_prop_on<M, Entity::HalfEdge>(m, t);
    if (k == "F") return make_prop_on<M, Entity::Face>(m, t);
    if (k == "HF") return make_prop_on<M, Entity::HalfFace>(m, t);
    if (k == "C") return make_prop_on<M, Entity::Cell>(m, t);
    if (k == "M") return make_prop_on<M, Entity::Mesh>(m, t);
    fprintf(stderr, "bad kind %s\n", k.c_str()); exit(3);
}

template <class M> static std::string canon(Probe<M> &m, bool rt) {
    g_rt = rt; std::ostringstream s; mesh_block(m, s, false, false); g_rt = false;
    // unsupported-type properties are not written: drop them from round-trip comparisons
    std::string a = s.str(), a2;
    std::istringstream is(a); std::string l;
    while (std::getline(is, l)) { auto t = split_ws(l); if (t.size() > 3 && t[0] == "P" && t[3] == "?") continue; a2 += l + "\n"; }
    return a2;
}
template <class M> static std::string write_text(const M &m) {
    FileManager fm; fm.setVerbosityLevel(0);
    std::ostringstream os(std::ios::out | std::ios::binary);
    fm.writeStream(os, m);
    return os.str();
}
template <class M> static bool read_text(const std::string &t, M &m) {
    FileManager fm; fm.setVerbosityLevel(0);
    std::istringstream is(t, std::ios::in | std::ios::binary);
    return fm.readStream(is, m, false, false);
}

template <class M> static void do_write(const Case &c, std::ostream &o, const std::string &scratch) {
    World<M> w;
    for (auto &l : c.klines) {
        auto toks = split_ws(l);
        if (toks.empty()) continue;
        if (toks[0] == "rawF") { std::vector<HalfEdgeHandle> hs; for (size_t i = 1; i < toks.size(); ++i) hs.push_back(HalfEdgeHandle(std::stoi(toks[i]))); w.mesh.add_face(hs, false); continue; }
        if (toks[0] == "rawC") { std::vector<HalfFaceHandle> hs; for (size_t i = 1; i < toks.size(); ++i) hs.push_back(HalfFaceHandle(std::stoi(toks[i]))); w.mesh.add_cell(hs, false); continue; }
        try { Result r = exec_line(w, toks); if (r.rejected) o << "# rejected: " << l << "\n"; } catch (Unresolvable &) { o << "# unresolvable: " << l << "\n"; }
    }
    Probe<M> &m = w.mesh;
    for (auto &p : c.pos) {
        int v = std::stoi(p[1]);
        if (v < 0 || (size_t)v >= m.n_vertices()) continue;
        m.set_vertex(VertexHandle(v), Vec3d(from_bits64(p[2]), from_bits64(p[3]), from_bits64(p[4])));
    }
    for (auto &p : c.props) if (!make_prop_any(m, p)) o << "# property not created (exists): " << p[1] << " " << p[3] << "\n";
    bool pending = m.needs_garbage_collection();
    o << "pending=" << (pending ? 1 : 0) << "\n";
    mesh_block(m, o, true, false);
    std::string text = write_text(m);
    o << "text " << hex_or_dash(text) << "\n";
    {   // path API must produce the same bytes
        FileManager fm; fm.setVerbosityLevel(0);
        std::string p = scratch + "/wcase-" + std::to_string(getpid()) + ".ovm";
        bool ok = fm.writeFile(p, m);
        std::ifstream f(p, std::ios::binary); std::stringstream ss; ss << f.rdbuf();
        std::remove(p.c_str());
        // property order inside one entity kind follows a std::set of pointers and is the same for both calls on one mesh
        o << "file=" << (!ok ? "error" : ss.str() == text ? "same" : "differs") << "\n";
        if (ok && ss.str() != text) o << "!O writeFile and writeStream produce different text\n";
    }
    // impl-side oracle: write -> read -> write fixpoint.  Without pending deletions the text must read back (true) to the
    // same counts, definitions, properties (floating point to printed precision), and a second round trip changes nothing.
    // With pending deletions the writer does not refuse, so the text must read back as the logical content (here: as the
    // mesh after garbage collection).
    Probe<M> m1;
    bool r1 = false;
    try { r1 = read_text(text, m1); } catch (std::exception &) { r1 = false; }
    if (!r1) { o << "rt=readfail\n"; o << "!O roundtrip reading the writer's output fails" << (pending ? " (mesh with pending deletions)" : "") << "\n"; return; }
    std::string want;
    if (pending) { Probe<M> g(m); g.collect_garbage(); want = canon(g, true); } else want = canon(m, true);
    std::string got = canon(m1, true);
    if (want != got) { o << "rt=differs\n"; o << "!O roundtrip the mesh read back differs from the " << (pending ? "logical content of the " : "") << "mesh written\n"; return; }
    std::string t2 = write_text(m1);
    Probe<M> m2;
    bool r2 = false;
    try { r2 = read_text(t2, m2); } catch (std::exception &) { r2 = false; }
    if (!r2) { o << "rt=readfail2\n"; o << "!O roundtrip second reading fails\n"; return; }
    if (canon(m1, false) != canon(m2, false)) { o << "rt=unstable\n"; o << "!O roundtrip the second round trip changes the mesh\n"; return; }
    o << "rt=ok\n";
}

static void run_case(const Case &c, std::ostream &o, const std::string &scratch) {
    if (c.mode == "read") {
        if (c.mesh == "poly") do_read<PolyMesh>(c, o, scratch);
        else if (c.mesh == "tet") do_read<TetMesh>(c, o, scratch);
        else do_read<HexMesh>(c, o, scratch);
    } else {
        if (c.mesh == "poly") do_write<PolyMesh>(c, o, scratch);
        else if (c.mesh == "tet") do_write<TetMesh>(c, o, scratch);
        else do_write<HexMesh>(c, o, scratch);
    }
}

struct FdBuf : std::streambuf {
    int fd; std::string buf;
    explicit FdBuf(int f) : fd(f) {}
    void flushbuf() { size_t off = 0; while (off < buf.size()) { ssize_t k = write(fd, buf.data() + off, buf.size() - off); if (k <= 0) break; off += (size_t)k; } buf.clear(); }
    int overflow(int c) override { if (c != EOF) { buf.push_back((char)c); if (c == '\n') flushbuf(); } return c; }
    int sync() override { flushbuf(); return 0; }
};

static void run_forked(const Case &c, const std::string &scratch, bool nofork, bool verbose) {
    std::cout << "== " << c.id << "\n";
    if (nofork) { std::ostringstream o; run_case(c, o, scratch); std::cout << o.str(); std::cout.flush(); return; }
    std::cout.flush();
    int fd[2];
    if (pipe(fd) != 0) { perror("pipe"); exit(3); }
    pid_t pid = fork();
    if (pid == 0) {
        close(fd[0]);
        if (!verbose) { int dn = open("/dev/null", O_WRONLY); if (dn >= 0) { dup2(dn, 2); } }
        if (c.aslimit > 0) { struct rlimit rl; rl.rlim_cur = rl.rlim_max = (rlim_t)c.aslimit << 20; setrlimit(RLIMIT_AS, &rl); }
        alarm(2);
        FdBuf fb(fd[1]);
        std::ostream o(&fb);
        run_case(c, o, scratch);
        o << "<<done>>\n";
        o.flush(); fb.flushbuf();
        close(fd[1]);
        _exit(0);
    }
    close(fd[1]);
    std::string out; char buf[65536]; ssize_t k;
    while ((k = read(fd[0], buf, sizeof buf)) > 0) out.append(buf, (size_t)k);
    close(fd[0]);
    int st = 0; waitpid(pid, &st, 0);
    const std::string done = "<<done>>\n";
    bool complete = out.size() >= done.size() && out.compare(out.size() - done.size(), done.size(), done) == 0;
    // what the child printed before dying is kept (complete lines only): a write case whose round-trip oracle hangs still shows its text
    auto partial = [&]() { size_t e = out.rfind('\n'); return e == std::string::npos ? std::string() : out.substr(0, e + 1); };
    if (WIFSIGNALED(st) && WTERMSIG(st) == SIGALRM) std::cout << partial() << "!! TIMEOUT\n";
    else if (!complete || !WIFEXITED(st) || WEXITSTATUS(st) != 0) std::cout << partial() << "!! CRASH\n";
    else std::cout << out.substr(0, out.size() - done.size());
    std::cout.flush();
}

// ------------------------------------------------------------------------------------------------ token differential
static const char ALPHABET[] = "0123456789+-.exa ";
static std::string bits_of(std::istream &s) { std::string r; if (s.eof()) r += "e"; if (s.fail()) r += "f"; return r.empty() ? "g" : r; }
static long consumed_of(std::istringstream &s, size_t len) { auto st = s.rdstate(); s.clear(); long p = (long)s.tellg(); s.clear(st); (void)len; return p; }

template <class T> static std::string show(const T &v) { return CV<T>::to(v); }

template <class T> static void tok_one(const char *tn, const std::string &tok, T sentinel, std::ostream &o) {
    std::istringstream is(tok);
    is.imbue(std::locale::classic());
    T a = sentinel, b = sentinel;
    is >> a;
    std::string s1 = bits_of(is); long c1 = consumed_of(is, tok.size());
    is >> b;
    std::string s2 = bits_of(is); long c2 = consumed_of(is, tok.size());
    o << hex_or_dash(tok) << " " << tn << " " << show(a) << " " << s1 << " " << c1 << " | " << show(b) << " " << s2 << " " << c2 << "\n";
}

static void tok_all(const std::string &tok, std::ostream &o) {
    tok_one<unsigned int>("unsigned", tok, 77u, o);
    tok_one<uint64_t>("uint64", tok, 77u, o);
    tok_one<int>("int", tok, 77, o);
    tok_one<size_t>("size_t", tok, 77u, o);
    tok_one<short>("short", tok, 77, o);
    tok_one<long>("long", tok, 77, o);
    tok_one<bool>("bool", tok, false, o);
    tok_one<char>("char", tok, 'M', o);
    tok_one<unsigned char>("uchar", tok, (unsigned char)'M', o);
    tok_one<double>("double", tok, 77.0, o);
    tok_one<float>("float", tok, 77.0f, o);
    tok_one<std::string>("word", tok, std::string("M"), o);
    {   // getline twice
        std::istringstream is(tok); std::string a = "M", b = "M";
        std::getline(is, a); std::string s1 = bits_of(is); long c1 = consumed_of(is, tok.size());
        std::getline(is, b); std::string s2 = bits_of(is); long c2 = consumed_of(is, tok.size());
        o << hex_or_dash(tok) << " getline " << show(a) << " " << s1 << " " << c1 << " | " << show(b) << " " << s2 << " " << c2 << "\n";
    }
}

static void tokens_rec(std::string &cur, int maxlen, const std::string &alpha, std::ostream &o) {
    tok_all(cur, o);
    if ((int)cur.size() == maxlen) return;
    for (char ch : alpha) { cur.push_back(ch); tokens_rec(cur, maxlen, alpha, o); cur.pop_back(); }
}

int main(int argc, char **argv) {
    std::string scratch = "/verif/build/run";
    bool nofork = false, verbose = false;
    const char *file = nullptr;
    for (int i = 1; i < argc; ++i) {
        std::string a = argv[i];
        if (a == "--nofork") nofork = true;
        else if (a == "--verbose") verbose = true;
        else if (a == "--scratch" && i + 1 < argc) scratch = argv[++i];
        else if (a == "--tokens" && i + 1 < argc) {
            int n = std::stoi(argv[++i]);
            std::string alpha = ALPHABET;
            if (i + 1 < argc) alpha = from_hex(argv[++i]);
            std::string cur; std::ostringstream o; tokens_rec(cur, n, alpha, o); std::cout << o.str(); return 0;
        }
        else if (a == "--toklist") {      // tokens given one per line as hex on stdin
            std::string l; std::ostringstream o;
            while (std::getline(std::cin, l)) { if (l.empty()) continue; tok_all(from_hex(l), o); }
            std::cout << o.str(); return 0;
        }
        else file = argv[i];
    }
    std::ifstream fin;
    if (file) { fin.open(file); if (!fin) { fprintf(stderr, "cannot open %s\n", file); return 3; } }
    std::istream &in = file ? static_cast<std::istream &>(fin) : std::cin;
    std::string line;
    Case cur; bool open = false;
    while (std::getline(in, line)) {
        if (line.empty() || line[0] == '#') continue;
        auto t = split_ws(line);
        if (t.empty()) continue;
        if (t[0] == "case") {
            cur = Case(); open = true; cur.id = t.at(1);
            for (size_t i = 2; i < t.size(); ++i) {
                auto eq = t[i].find('=');
                if (eq == std::string::npos) continue;
                std::string k = t[i].substr(0, eq), v = t[i].substr(eq + 1);
                if (k == "mode") cur.mode = v; else if (k == "mesh") cur.mesh = v; else if (k == "check") cur.check = std::stoi(v);
                else if (k == "bu") cur.bu = std::stoi(v); else if (k == "api") cur.api = v; else if (k == "aslimit") cur.aslimit = std::stol(v);
            }
        } else if (!open) continue;
        else if (t[0] == "hex") { if (t.size() > 1) cur.bytes += from_hex(t[1]); }
        else if (t[0] == "k") { cur.klines.push_back(line.substr(line.find('k') + 1)); }
        else if (t[0] == "rawF" || t[0] == "rawC") { cur.klines.push_back(line); }
        else if (t[0] == "pos") { if (t.size() >= 5) cur.pos.push_back(t); }
        else if (t[0] == "prop") { if (t.size() >= 4) cur.props.push_back(t); }
        else if (t[0] == "end") { run_forked(cur, scratch, nofork, verbose); open = false; }
    }
    return 0;
}
