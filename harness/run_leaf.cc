// run_leaf.cc -- evaluates the compiled handle-conversion leaves of /repo on the inputs given on
// stdin (one "name a b" per line) and prints "name a b -> value", for comparison with the
// translated leaves (coq/Gen/Handles.v, extracted).  With "--sweep" checks the C08 conversion
// algebra on every index 0 <= i < 2^30 (impl-side oracle, thorough tier).
#include <OpenVolumeMesh/Core/Handles.hh>
#include <OpenVolumeMesh/Core/TopologyKernel.hh>
#include <iostream>
#include <sstream>
#include <string>
#include <cstring>
using namespace OpenVolumeMesh;

static long eval(const std::string &n, long a, long b, bool &ok) {
    ok = true;
    if (n == "HEH_subidx") return HEH((int)a).subidx();
    if (n == "HEH_full") return HEH((int)a).edge_handle().idx();
    if (n == "HEH_opp") return HEH((int)a).opposite_handle().idx();
    if (n == "HFH_subidx") return HFH((int)a).subidx();
    if (n == "HFH_full") return HFH((int)a).face_handle().idx();
    if (n == "HFH_opp") return HFH((int)a).opposite_handle().idx();
    if (n == "EH_half") return EH((int)a).halfedge_handle((int)b).idx();
    if (n == "FH_half") return FH((int)a).halfface_handle((int)b).idx();
    if (n == "Handle_is_valid") return VH((int)a).is_valid() ? 1 : 0;
    if (n == "TK_halfedge_handle") return TopologyKernel::halfedge_handle(EH((int)a), (unsigned char)b).idx();
    if (n == "TK_halfface_handle") return TopologyKernel::halfface_handle(FH((int)a), (unsigned char)b).idx();
    if (n == "TK_edge_handle") return TopologyKernel::edge_handle(HEH((int)a)).idx();
    if (n == "TK_face_handle") return TopologyKernel::face_handle(HFH((int)a)).idx();
    if (n == "TK_opposite_halfedge_handle") return TopologyKernel::opposite_halfedge_handle(HEH((int)a)).idx();
    if (n == "TK_opposite_halfface_handle") return TopologyKernel::opposite_halfface_handle(HFH((int)a)).idx();
    if (n == "VCorr_correctValue") { VH h((int)b); VHandleCorrection c{VH((int)a)}; c.correctValue(h); return h.idx(); }
    if (n == "HECorr_correctValue") { HEH h((int)b); HEHandleCorrection c{HEH((int)a)}; c.correctValue(h); return h.idx(); }
    if (n == "HFCorr_correctValue") { HFH h((int)b); HFHandleCorrection c{HFH((int)a)}; c.correctValue(h); return h.idx(); }
    if (n == "CCorr_correctValue") { CH h((int)b); CHandleCorrection c{CH((int)a)}; c.correctValue(h); return h.idx(); }
    ok = false; return 0;
}

int main(int argc, char **argv) {
    if (argc > 1 && !strcmp(argv[1], "--sweep")) {
        long stride = argc > 2 ? atol(argv[2]) : 1;
        long bad = 0, n = 0;
        for (long i = 0; i < (1L << 30); i += stride) {
            for (int s = 0; s < 2; ++s) {
                HEH h = EH((int)i).halfedge_handle(s);
                HFH g = FH((int)i).halfface_handle(s);
                bool good = h.idx() == 2 * i + s && h.edge_handle().idx() == i && h.subidx() == s &&
                            h.opposite_handle() == EH((int)i).halfedge_handle(1 - s) &&
                            h.opposite_handle().opposite_handle() == h && h.opposite_handle() != h &&
                            g.idx() == 2 * i + s && g.face_handle().idx() == i && g.subidx() == s &&
                            g.opposite_handle() == FH((int)i).halfface_handle(1 - s) &&
                            g.opposite_handle().opposite_handle() == g &&
                            TopologyKernel::halfedge_handle(EH((int)i), (unsigned char)s) == h &&
                            TopologyKernel::halfface_handle(FH((int)i), (unsigned char)s) == g &&
                            TopologyKernel::edge_handle(h).idx() == i && TopologyKernel::face_handle(g).idx() == i &&
                            TopologyKernel::opposite_halfedge_handle(h) == h.opposite_handle() &&
                            TopologyKernel::opposite_halfface_handle(g) == g.opposite_handle();
                if (!good) { if (bad < 5) printf("!O C08 conversion algebra fails at index %ld side %d\n", i, s); ++bad; }
                ++n;
            }
        }
        printf("sweep checked=%ld bad=%ld\n", n, bad);
        return 0;
    }
    std::string line;
    while (std::getline(std::cin, line)) {
        std::istringstream is(line);
        std::string n; long a = 0, b = 0;
        if (!(is >> n >> a)) continue;
        is >> b;
        bool ok;
        long v = eval(n, a, b, ok);
        if (!ok) { printf("%s %ld %ld -> ?\n", n.c_str(), a, b); continue; }
        printf("%s %ld %ld -> %ld\n", n.c_str(), a, b, v);
    }
    return 0;
}
