#pragma once

#define  OVM_ENABLE_DEPRECATED_APIS 0

