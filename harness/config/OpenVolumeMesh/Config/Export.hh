
#ifndef OVM_EXPORT_H
#define OVM_EXPORT_H

#ifdef OVM_STATIC_DEFINE
#  define OVM_EXPORT
#  define OVM_NO_EXPORT
#else
#  ifndef OVM_EXPORT
#    ifdef OpenVolumeMesh_EXPORTS
        /* We are building this library */
#      define OVM_EXPORT 
#    else
        /* We are using this library */
#      define OVM_EXPORT 
#    endif
#  endif

#  ifndef OVM_NO_EXPORT
#    define OVM_NO_EXPORT 
#  endif
#endif

#ifndef CMAKE_OVM_DEPRECATED
#  define CMAKE_OVM_DEPRECATED __attribute__ ((__deprecated__))
#endif

#ifndef CMAKE_OVM_DEPRECATED_EXPORT
#  define CMAKE_OVM_DEPRECATED_EXPORT OVM_EXPORT CMAKE_OVM_DEPRECATED
#endif

#ifndef CMAKE_OVM_DEPRECATED_NO_EXPORT
#  define CMAKE_OVM_DEPRECATED_NO_EXPORT OVM_NO_EXPORT CMAKE_OVM_DEPRECATED
#endif

/* NOLINTNEXTLINE(readability-avoid-unconditional-preprocessor-if) */
#if 0 /* DEFINE_NO_DEPRECATED */
#  ifndef CMAKE_OVM_NO_DEPRECATED
#    define CMAKE_OVM_NO_DEPRECATED
#  endif
#endif

#endif /* OVM_EXPORT_H */
