#!/usr/bin/env python3
"""Build the OpenVolumeMesh library objects and harness binaries from /repo's *current working
tree*, with an object cache keyed by the hash of the preprocessed translation unit + flags.

Usage (library):   build.py <variant> <harness-name> [...]
Python API:        build(variant, harness) -> path of the binary (raises BuildError)

Variants:
  san    clang++ -O1 -g, ASan+UBSan (no vptr), -D_GLIBCXX_ASSERTIONS, -DNDEBUG
  plain  clang++ -O1, -D_GLIBCXX_ASSERTIONS, -DNDEBUG   (no sanitizers: allocation failures, timing)
  tsan   clang++ -O1 -g -fsanitize=thread
"""
import hashlib, os, subprocess, sys, concurrent.futures as cf, re, json, time

VERIF = os.path.dirname(os.path.dirname(os.path.abspath(__file__)))
REPO = os.environ.get("VERIF_REPO", "/repo")
SRC = os.path.join(REPO, "src")
BUILD = os.path.join(VERIF, "build")
OBJ = os.path.join(BUILD, "obj")
BIN = os.path.join(BUILD, "bin")
GUARD = "OVM_VERIF_HOOKS"

COMMON = ["-std=c++17", "-DNDEBUG", "-D_GLIBCXX_ASSERTIONS", "-D" + GUARD, "-DOVM_STATIC_DEFINE",
          "-I" + SRC, "-I" + os.path.join(VERIF, "harness", "config"), "-I" + os.path.join(VERIF, "harness"),
          "-w"]
VARIANTS = {
    "san":   ["clang++", "-O1", "-g", "-fsanitize=address,undefined", "-fno-sanitize=vptr",
              "-fno-sanitize-recover=undefined", "-fno-omit-frame-pointer"],
    "plain": ["clang++", "-O1"],
    "tsan":  ["clang++", "-O1", "-g", "-fsanitize=thread"],
}

class BuildError(Exception):
    def __init__(self, what, log):
        super().__init__(what)
        self.what, self.log = what, log

def lib_sources():
    """SOURCE_FILES of /repo/src/CMakeLists.txt (Iterators.cc #includes the iterator .cc files)."""
    txt = open(os.path.join(SRC, "CMakeLists.txt")).read()
    m = re.search(r"SET\(SOURCE_FILES(.*?)\)", txt, re.S)
    if not m:
        raise BuildError("cannot find SOURCE_FILES in src/CMakeLists.txt", "")
    return [os.path.join(SRC, l.strip()) for l in m.group(1).split() if l.strip()]

# library TUs grouped so that a kernel-only harness does not wait for the 70 s PropertyCodecs.cc
def lib_group(path):
    rel = os.path.relpath(path, SRC)
    if "/IO/" in rel or rel.endswith("FileManager/FileManager.cc"):
        return "io"
    return "core"

def compile_tu(variant, src):
    cmd = VARIANTS[variant] + COMMON
    pre = subprocess.run(cmd + ["-E", src], capture_output=True)
    if pre.returncode != 0:
        raise BuildError("preprocess failed: " + src, pre.stderr.decode(errors="replace"))
    h = hashlib.sha256()
    h.update(" ".join(cmd).encode())
    h.update(pre.stdout)
    d = os.path.join(OBJ, variant)
    os.makedirs(d, exist_ok=True)
    obj = os.path.join(d, h.hexdigest()[:32] + ".o")
    if not os.path.exists(obj):
        tmp = obj + ".%d.tmp" % os.getpid()
        r = subprocess.run(cmd + ["-c", src, "-o", tmp], capture_output=True)
        if r.returncode != 0:
            raise BuildError("compile failed: " + src, r.stderr.decode(errors="replace"))
        os.replace(tmp, obj)
    else:
        os.utime(obj)
    return obj

HARNESSES = {
    # name: (sources relative to harness/, library groups)
    "run_kernel": (["run_kernel.cc"], ["core"]),
    "run_iter": (["run_iter.cc"], ["core"]),
    "run_lookup": (["run_lookup.cc"], ["core"]),
    "run_leaf": (["run_leaf.cc"], ["core"]),
    "run_registry": (["run_registry.cc"], ["core"]),
    "run_tet": (["run_tet.cc"], ["core"]),
    "run_hex": (["run_hex.cc"], ["core"]),
    "run_geo": (["run_geo.cc"], ["core"]),
    "run_conc": (["run_conc.cc"], ["core"]),
    "run_io": (["run_io.cc"], ["core", "io"]),
    "run_ascii": (["run_ascii.cc"], ["core", "io"]),
}

def build(variant, harness, jobs=16):
    srcs, groups = HARNESSES[harness]
    tus = [s for s in lib_sources() if lib_group(s) in groups]
    tus += [os.path.join(VERIF, "harness", s) for s in srcs]
    with cf.ThreadPoolExecutor(max_workers=jobs) as ex:
        objs = list(ex.map(lambda s: compile_tu(variant, s), tus))
    os.makedirs(os.path.join(BIN, variant), exist_ok=True)
    h = hashlib.sha256(" ".join(objs).encode()).hexdigest()[:16]
    out = os.path.join(BIN, variant, harness + "-" + h)
    if not os.path.exists(out):
        tmp = out + ".%d.tmp" % os.getpid()
        r = subprocess.run(VARIANTS[variant] + objs + ["-o", tmp, "-lpthread"], capture_output=True)
        if r.returncode != 0:
            raise BuildError("link failed: " + harness, r.stderr.decode(errors="replace"))
        os.replace(tmp, out)
    link = os.path.join(BIN, variant, harness)
    try:
        if os.path.islink(link) or os.path.exists(link):
            os.remove(link)
        os.symlink(out, link)
    except OSError:
        pass
    return out

def prune(max_age_s=3 * 86400, max_files=4000):
    """Drop cache entries not used for a while (keeps the disk bounded)."""
    now = time.time()
    for root in (OBJ, BIN):
        for dp, _, fs in os.walk(root):
            for f in fs:
                p = os.path.join(dp, f)
                try:
                    if not os.path.islink(p) and now - os.path.getmtime(p) > max_age_s:
                        os.remove(p)
                except OSError:
                    pass

if __name__ == "__main__":
    variant = sys.argv[1]
    t0 = time.time()
    try:
        for hname in sys.argv[2:]:
            print(build(variant, hname))
    except BuildError as e:
        print("BUILD-ERROR", e.what)
        print(e.log[-4000:])
        sys.exit(2)
    print("build wall %.1fs" % (time.time() - t0), file=sys.stderr)
