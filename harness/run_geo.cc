// run_geo.cc -- C19: evaluates every operator of OpenVolumeMesh::Geometry::VectorT (Vector11T.hh) and the
// geometric queries of GeometryKernel (GeometryKernel.hh) on inputs read from a file and prints canonical
// text, for comparison with the extracted model (ocaml/geodriver.ml).
//
//   run_geo --vec  <cases>    one case per line: "<ty> <dim> <kind> <mask> values..."  (gen/geogen.py)
//   run_geo --mesh <scripts>  kernel scripts ("#### name", "@AddV", "@AddFV ..", "Pos v x y z", "PosB v <bits>*3", "Q")
//   run_geo --fvec / --fmesh  the same formats for the floating-point leg (see g_fleg below)
//
// Output lines "<lineno> <op> <values>" (vec) / the echo + query dump (mesh) are the correspondence.
// Lines starting with "!O C19" are IMPL-SIDE ORACLE failures: the library result differs from the defining
// formula evaluated here with plain loops (independent of the model).  Scalars: int/unsigned decimal,
// double "x<16 hex digits of the bit pattern>", float "y<8 hex digits>".
#include <OpenVolumeMesh/Geometry/VectorT.hh>
#include <OpenVolumeMesh/Attribs/NormalAttrib.hh>
#include "probe.hh"
#include "kernel_exec.hh"
#include <cmath>
#include <cstring>
#include <cstdint>
#include <fstream>
#include <iostream>
#include <limits>
#include <set>
#include <type_traits>

using namespace OpenVolumeMesh;
using OpenVolumeMesh::Geometry::VectorT;

// ------------------------------------------------------------------------------------ scalar I/O
template <class S> struct Sc;
template <> struct Sc<int> {
    static int parse(const std::string &t) { return (int)std::stol(t); }
    static std::string show(int x) { return std::to_string(x); }
};
template <> struct Sc<unsigned> {
    static unsigned parse(const std::string &t) { return (unsigned)std::stoul(t); }
    static std::string show(unsigned x) { return std::to_string(x); }
};
template <> struct Sc<double> {
    static double parse(const std::string &t) { uint64_t b = std::stoull(t.substr(1), nullptr, 16); double d; memcpy(&d, &b, 8); return d; }
    static std::string show(double x) { uint64_t b; memcpy(&b, &x, 8); char buf[32]; snprintf(buf, sizeof buf, "x%016llx", (unsigned long long)b); return buf; }
};
template <> struct Sc<float> {
    static float parse(const std::string &t) { uint32_t b = (uint32_t)std::stoul(t.substr(1), nullptr, 16); float d; memcpy(&d, &b, 4); return d; }
    static std::string show(float x) { uint32_t b; memcpy(&b, &x, 4); char buf[32]; snprintf(buf, sizeof buf, "y%08x", b); return buf; }
};
template <class S> std::string show(S x) { return Sc<S>::show(x); }
static std::string show(bool b) { return b ? "1" : "0"; }
template <class S, int D> std::string showv(const VectorT<S, D> &v) {
    std::string s;
    for (int i = 0; i < D; ++i) { if (i) s += " "; s += show(v[i]); }
    return s;
}
template <class S> const char *tyname();
template <> const char *tyname<int>() { return "i"; }
template <> const char *tyname<unsigned>() { return "u"; }
template <> const char *tyname<float>() { return "f"; }
template <> const char *tyname<double>() { return "d"; }

static long g_line = 0;
static long g_oracle_fails = 0;
// floating-point leg (--fvec / --fmesh): the results are compared BIT FOR BIT with the Flocq model evaluated in Coq
// (coq/Geo/FloatModel.v), on inputs that include signed zeros, subnormals, overflow, infinities and NaN; the
// tolerance oracles below do not apply there (they are switched off) and the operations that --vec skips on a zero
// divisor / zero vector are evaluated (x/0, 0/0 are defined in IEEE-754).
static bool g_fleg = false;
static void emit(const char *op, const std::string &val) { printf("%ld %s %s\n", g_line, op, val.c_str()); }

// ------------------------------------------------------------------------------------ oracle helpers
template <class S> bool same_scalar(S a, S b) {
    if constexpr (std::is_floating_point<S>::value) { if (std::isnan(a) && std::isnan(b)) return true; }
    return a == b;
}
template <class S, int D> bool same_vec(const VectorT<S, D> &a, const VectorT<S, D> &b) {
    for (int i = 0; i < D; ++i) if (!same_scalar(a[i], b[i])) return false;
    return true;
}
template <class S, int D>
static void ofail(const char *op, const std::string &in, const std::string &got, const std::string &want, const std::string &extra = "") {
    if (g_fleg) return;
    ++g_oracle_fails;
    printf("!O C19 op=%s ty=%s d=%d line=%ld in=[%s] got=[%s] want=[%s]%s\n", op, tyname<S>(), D, g_line, in.c_str(), got.c_str(), want.c_str(), extra.c_str());
}
// a reduction computed here in a wider type W (long double for floating point, S itself for integers)
template <class S> using Wide = typename std::conditional<std::is_floating_point<S>::value, long double, S>::type;
template <class S, int D> bool close_scalar(S got, Wide<S> want, Wide<S> mag, bool finite_inputs) {
    if constexpr (std::is_floating_point<S>::value) {
        if (!finite_inputs || !std::isfinite((double)want)) return std::isnan(got) == std::isnan((double)want) || !std::isfinite(got);
        long double tol = 8.0L * D * std::numeric_limits<S>::epsilon() * std::fabs(mag) + std::numeric_limits<S>::denorm_min() * 4.0L * D;
        return std::fabs((long double)got - want) <= tol;
    } else {
        return got == want;
    }
}
template <class S> S sabs(S x) {
    if constexpr (std::is_unsigned<S>::value) return x; else return x < 0 ? (S)-x : x;
}
template <class S, int D> bool all_finite(const VectorT<S, D> &v) {
    if constexpr (std::is_floating_point<S>::value) { for (int i = 0; i < D; ++i) if (!std::isfinite(v[i])) return false; }
    return true;
}

template <class S, int D> VectorT<S, D> parse_vec(const std::vector<std::string> &t, size_t at) {
    VectorT<S, D> v;
    for (int i = 0; i < D; ++i) v[i] = Sc<S>::parse(t.at(at + i));
    return v;
}

// ------------------------------------------------------------------------------------ unary
template <class S, int D> void run_unary(const std::string &mask, const std::vector<std::string> &t) {
    using V = VectorT<S, D>;
    const V a = parse_vec<S, D>(t, 4);
    const std::string in = showv(a);
    const bool fin = all_finite(a);
    const bool has_abs = !std::is_unsigned<S>::value;
    if (mask.find('x') != std::string::npos) {
        S mx = a.max(), mn = a.min();
        emit("max", show(mx)); emit("min", show(mn));
        S wmx = a[0], wmn = a[0];
        for (int i = 1; i < D; ++i) { if (wmx < a[i]) wmx = a[i]; if (a[i] < wmn) wmn = a[i]; }
        if (!same_scalar(mx, wmx)) ofail<S, D>("max", in, show(mx), show(wmx));
        if (!same_scalar(mn, wmn)) ofail<S, D>("min", in, show(mn), show(wmn));
    }
    if (mask.find('a') != std::string::npos) {
        V ng = -a;
        emit("neg", showv(ng));
        { V w; for (int i = 0; i < D; ++i) w[i] = (S)(-a[i]); if (!same_vec(ng, w)) ofail<S, D>("neg", in, showv(ng), showv(w)); }
        auto sq = a.sqrnorm();
        emit("sqrnorm", show((S)sq));
        { Wide<S> w = 0; for (int i = 0; i < D; ++i) w += (Wide<S>)a[i] * (Wide<S>)a[i];
          if (!close_scalar<S, D>((S)sq, w, w, fin)) ofail<S, D>("sqrnorm", in, show((S)sq), show((S)w)); }
        S l1 = a.l1_norm();
        emit("l1_norm", show(l1));
        { Wide<S> w = 0, plain = 0; for (int i = 0; i < D; ++i) { w += (Wide<S>)sabs(a[i]); plain += (Wide<S>)a[i]; }
          if (!close_scalar<S, D>(l1, w, w, fin))
              ofail<S, D>("l1_norm", in, show(l1), show((S)w), close_scalar<S, D>(l1, plain, w, fin) ? " deviation=equals_plain_sum" : " deviation=other"); }
        S me = a.mean();
        emit("mean", show(me));
        { Wide<S> sum = 0, mag = 0; for (int i = 0; i < D; ++i) { sum += (Wide<S>)a[i]; mag += (Wide<S>)sabs(a[i]); }
          Wide<S> w = sum / (Wide<S>)D; Wide<S> m = mag / (Wide<S>)D;
          if constexpr (!std::is_floating_point<S>::value) m = w;
          if (!close_scalar<S, D>(me, w, m, fin)) ofail<S, D>("mean", in, show(me), show((S)w)); }
        if constexpr (has_abs) {
            S ma = a.max_abs(), mi = a.min_abs(), l8 = a.l8_norm(), mab = a.mean_abs();
            emit("max_abs", show(ma)); emit("min_abs", show(mi)); emit("l8_norm", show(l8)); emit("mean_abs", show(mab));
            S wma = sabs(a[0]), wmi = sabs(a[0]); Wide<S> ws = 0;
            for (int i = 0; i < D; ++i) { S x = sabs(a[i]); if (wma < x) wma = x; if (x < wmi) wmi = x; ws += (Wide<S>)x; }
            if (fin) {
                if (!same_scalar(ma, wma)) ofail<S, D>("max_abs", in, show(ma), show(wma));
                if (!same_scalar(mi, wmi)) ofail<S, D>("min_abs", in, show(mi), show(wmi));
                if (!same_scalar(l8, wma)) ofail<S, D>("l8_norm", in, show(l8), show(wma));
            }
            Wide<S> w = ws / (Wide<S>)D;
            if (!close_scalar<S, D>(mab, w, w, fin)) ofail<S, D>("mean_abs", in, show(mab), show((S)w));
        }
        // norm / length: sqrt of the squared norm (double for integer scalars)
        auto nr = a.norm(); auto ln = a.length();
        emit("norm", show(nr));
        if (!same_scalar(nr, ln)) ofail<S, D>("length", in, show(ln), show(nr));
        { long double w = 0; for (int i = 0; i < D; ++i) w += (long double)a[i] * (long double)a[i];
          // integer scalars: the radicand is the integer sqrnorm (checked above; unsigned wraps by definition)
          if constexpr (!std::is_floating_point<S>::value) w = (long double)sq;
          long double r = std::sqrt(w);
          using R = decltype(nr);
          if (fin && std::isfinite((double)w) && std::fabs((long double)nr - r) > 8.0L * D * std::numeric_limits<R>::epsilon() * r + 1e-300L)
              ofail<S, D>("norm", in, show(nr), show((R)r)); }
    }
    if (mask.find('d') != std::string::npos) {
        if constexpr (D == 4) {
            if (g_fleg || a[3] != 0) {
                auto h = a.homogenized();
                V hv; for (int i = 0; i < 4; ++i) hv[i] = h[i];
                emit("homogenized", showv(hv));
                V w(a[0] / a[3], a[1] / a[3], a[2] / a[3], (S)1);
                if (!same_vec(hv, w)) ofail<S, D>("homogenized", in, showv(hv), showv(w));
            }
        }
        if constexpr (std::is_floating_point<S>::value) {
            bool zero = true; for (int i = 0; i < D; ++i) if (a[i] != 0) zero = false;
            V nc = a; nc.normalize_cond();
            emit("normalize_cond", showv(nc));
            if (zero) { if (!same_vec(nc, a)) ofail<S, D>("normalize_cond", in, showv(nc), showv(a)); }
            if (!zero || g_fleg) {
                V n1 = a.normalized(); V n2 = a; n2.normalize();
                emit("normalized", showv(n1));
                if (!same_vec(n1, n2)) ofail<S, D>("normalize", in, showv(n2), showv(n1));
                if (!same_vec(n1, nc)) ofail<S, D>("normalize_cond", in, showv(nc), showv(n1));
                long double w = 0; for (int i = 0; i < D; ++i) w += (long double)a[i] * (long double)a[i];
                long double r = std::sqrt(w);
                if (fin && std::isfinite((double)w) && r > 0) {
                    V want; bool ok = true;
                    for (int i = 0; i < D; ++i) { want[i] = (S)((long double)a[i] / r);
                        if (std::fabs((long double)n1[i] - (long double)a[i] / r) > 16.0L * D * std::numeric_limits<S>::epsilon()) ok = false; }
                    if (!ok) ofail<S, D>("normalized", in, showv(n1), showv(want));
                }
            }
        }
    }
}

// ------------------------------------------------------------------------------------ binary
template <class S, int D> void run_binary(const std::string &mask, const std::vector<std::string> &t) {
    using V = VectorT<S, D>;
    const V a = parse_vec<S, D>(t, 4), b = parse_vec<S, D>(t, 4 + D);
    const std::string in = showv(a) + " | " + showv(b);
    const bool fin = all_finite(a) && all_finite(b);
    if (mask.find('x') != std::string::npos) {
        bool eq = (a == b), ne = (a != b), lt = (a < b);
        emit("eq", show(eq)); emit("neq", show(ne)); emit("lt", show(lt));
        bool weq = true; for (int i = 0; i < D; ++i) if (!(a[i] == b[i])) weq = false;
        bool wlt = false; for (int i = 0; i < D; ++i) { if (a[i] < b[i]) { wlt = true; break; } if (b[i] < a[i]) break; }
        if (eq != weq) ofail<S, D>("eq", in, show(eq), show(weq));
        if (ne != !weq) ofail<S, D>("neq", in, show(ne), show(!weq));
        if (lt != wlt) ofail<S, D>("lt", in, show(lt), show(wlt));
        V mi = a; mi.minimize(b); V ma = a; ma.maximize(b);
        V mi2 = a.min(b), ma2 = a.max(b);
        V mid = a; bool fmi = mid.minimized(b); V mad = a; bool fma = mad.maximized(b);
        emit("minimize", showv(mi)); emit("maximize", showv(ma));
        emit("min2", showv(mi2)); emit("max2", showv(ma2));
        emit("minimized", show(fmi) + " " + showv(mid)); emit("maximized", show(fma) + " " + showv(mad));
        V wmi, wma; bool wfmi = false, wfma = false;
        for (int i = 0; i < D; ++i) {
            wmi[i] = b[i] < a[i] ? b[i] : a[i]; wma[i] = a[i] < b[i] ? b[i] : a[i];
            if (!(a[i] < b[i])) wfmi = true;
            if (!(a[i] > b[i])) wfma = true;
        }
        if (!same_vec(mi, wmi)) ofail<S, D>("minimize", in, showv(mi), showv(wmi));
        if (!same_vec(ma, wma)) ofail<S, D>("maximize", in, showv(ma), showv(wma));
        if (!same_vec(mi2, wmi)) ofail<S, D>("min2", in, showv(mi2), showv(wmi));
        if (!same_vec(ma2, wma)) ofail<S, D>("max2", in, showv(ma2), showv(wma));
        if (fin) {
            if (!same_vec(mid, wmi) || fmi != wfmi) ofail<S, D>("minimized", in, show(fmi) + " " + showv(mid), show(wfmi) + " " + showv(wmi));
            if (!same_vec(mad, wma) || fma != wfma) ofail<S, D>("maximized", in, show(fma) + " " + showv(mad), show(wfma) + " " + showv(wma));
        }
    }
    if (mask.find('a') != std::string::npos) {
        V s1 = a + b, s2 = a; s2 += b;
        V d1 = a - b, d2 = a; d2 -= b;
        V m1 = a * b, m2 = a; m2 *= b;
        emit("add", showv(s1)); emit("sub", showv(d1)); emit("mul", showv(m1));
        V ws, wd, wm;
        for (int i = 0; i < D; ++i) { ws[i] = (S)(a[i] + b[i]); wd[i] = (S)(a[i] - b[i]); wm[i] = (S)(a[i] * b[i]); }
        if (!same_vec(s1, ws) || !same_vec(s2, ws)) ofail<S, D>("add", in, showv(s1) + " / " + showv(s2), showv(ws));
        if (!same_vec(d1, wd) || !same_vec(d2, wd)) ofail<S, D>("sub", in, showv(d1) + " / " + showv(d2), showv(wd));
        if (!same_vec(m1, wm) || !same_vec(m2, wm)) ofail<S, D>("mul", in, showv(m1) + " / " + showv(m2), showv(wm));
        S dt = (S)(a | b), dt2 = (S)a.dot(b), dt3 = Geometry::dot(a, b);
        emit("dot", show(dt));
        { Wide<S> w = 0, mag = 0; for (int i = 0; i < D; ++i) { w += (Wide<S>)a[i] * (Wide<S>)b[i]; mag += (Wide<S>)sabs(a[i]) * (Wide<S>)sabs(b[i]); }
          if constexpr (!std::is_floating_point<S>::value) mag = w;
          if (!close_scalar<S, D>(dt, w, mag, fin) || !same_scalar(dt, dt2) || !same_scalar(dt, dt3))
              ofail<S, D>("dot", in, show(dt) + " / " + show(dt2) + " / " + show(dt3), show((S)w)); }
        if constexpr (D == 3) {
            V c1 = a % b, c2 = a.cross(b), c3 = Geometry::cross(a, b);
            emit("cross", showv(c1));
            bool ok = same_vec(c1, c2) && same_vec(c1, c3);
            V want;
            for (int i = 0; i < 3; ++i) {
                int j = (i + 1) % 3, k = (i + 2) % 3;
                Wide<S> w = (Wide<S>)a[j] * (Wide<S>)b[k] - (Wide<S>)a[k] * (Wide<S>)b[j];
                Wide<S> mag = (Wide<S>)sabs(a[j]) * (Wide<S>)sabs(b[k]) + (Wide<S>)sabs(a[k]) * (Wide<S>)sabs(b[j]);
                if constexpr (!std::is_floating_point<S>::value) mag = w;
                want[i] = (S)w;
                if (!close_scalar<S, D>(c1[i], w, mag, fin)) ok = false;
            }
            if (!ok) ofail<S, D>("cross", in, showv(c1) + " / " + showv(c2) + " / " + showv(c3), showv(want));
        }
    }
    if (mask.find('d') != std::string::npos) {
        bool nz = true; for (int i = 0; i < D; ++i) if (b[i] == 0) nz = false;
        if (nz || g_fleg) {
            V q1 = a / b, q2 = a; q2 /= b;
            emit("div", showv(q1));
            V w; for (int i = 0; i < D; ++i) w[i] = (S)(a[i] / b[i]);
            if (!same_vec(q1, w) || !same_vec(q2, w)) ofail<S, D>("div", in, showv(q1) + " / " + showv(q2), showv(w));
        }
    }
}

// ------------------------------------------------------------------------------------ vector (op) scalar
template <class S, int D> void run_scalar(const std::string &mask, const std::vector<std::string> &t) {
    using V = VectorT<S, D>;
    const V a = parse_vec<S, D>(t, 4);
    const S s = Sc<S>::parse(t.at(4 + D));
    const std::string in = showv(a) + " | " + show(s);
    if (mask.find('x') != std::string::npos) {
        V v1 = a; v1.vectorize(s); V v2 = V::vectorized(s); V v3(s);
        emit("vectorize", showv(v1));
        V w; for (int i = 0; i < D; ++i) w[i] = s;
        if (!same_vec(v1, w) || !same_vec(v2, w) || !same_vec(v3, w)) ofail<S, D>("vectorize", in, showv(v1) + " / " + showv(v2) + " / " + showv(v3), showv(w));
    }
    if (mask.find('a') != std::string::npos) {
        V m1 = a * s, m2 = s * a, m3 = a; m3 *= s;
        emit("smul", showv(m1)); emit("smul_left", showv(m2));
        V w; for (int i = 0; i < D; ++i) w[i] = (S)(a[i] * s);
        if (!same_vec(m1, w) || !same_vec(m2, w) || !same_vec(m3, w)) ofail<S, D>("smul", in, showv(m1) + " / " + showv(m2) + " / " + showv(m3), showv(w));
    }
    if (mask.find('d') != std::string::npos && (g_fleg || s != 0)) {
        V q1 = a / s, q2 = a; q2 /= s;
        emit("sdiv", showv(q1));
        V w; for (int i = 0; i < D; ++i) w[i] = (S)(a[i] / s);
        if (!same_vec(q1, w) || !same_vec(q2, w)) ofail<S, D>("sdiv", in, showv(q1) + " / " + showv(q2), showv(w));
    }
}

// ------------------------------------------------------------------------------------ conversions
template <class S, class To, int D> void conv_one(const VectorT<S, D> &a, const char *name) {
    VectorT<To, D> c1(a);            // explicit copy & cast constructor
    VectorT<To, D> c2; c2 = a;       // cast assignment
    emit(name, showv(c1));
    VectorT<To, D> w; for (int i = 0; i < D; ++i) w[i] = static_cast<To>(a[i]);
    if (!same_vec(c1, w) || !same_vec(c2, w)) ofail<S, D>(name, showv(a), showv(c1) + " / " + showv(c2), showv(w));
}
template <class S, int D> void run_conv(const std::string &mask, const std::vector<std::string> &t) {
    const VectorT<S, D> a = parse_vec<S, D>(t, 4);
    if (mask.find('i') != std::string::npos) conv_one<S, int, D>(a, "conv_i");
    if (mask.find('u') != std::string::npos) conv_one<S, unsigned, D>(a, "conv_u");
    if (mask.find('f') != std::string::npos) conv_one<S, float, D>(a, "conv_f");
    if (mask.find('d') != std::string::npos) conv_one<S, double, D>(a, "conv_d");
}

// ------------------------------------------------------------------------------------ streams
template <class S, int D> void run_stream(const std::string &, const std::vector<std::string> &t) {
    using V = VectorT<S, D>;
    const V a = parse_vec<S, D>(t, 4), b = parse_vec<S, D>(t, 4 + D);
    std::ostringstream os;
    os.precision(std::numeric_limits<S>::max_digits10);
    os << a << " " << b;
    std::string text = os.str();
    if constexpr (!std::is_floating_point<S>::value) {
        std::string u = text; for (auto &c : u) if (c == ' ') c = '_';
        emit("stream_text", u);
    }
    std::istringstream is(text);
    V a2, b2; a2.vectorize((S)7); b2.vectorize((S)7);
    is >> a2 >> b2;
    emit("stream_in", showv(a2) + " " + showv(b2));
    std::string rest; bool more = (bool)(is >> rest);
    if (!same_vec(a, a2) || !same_vec(b, b2) || is.bad() || more) ofail<S, D>("stream", showv(a) + " | " + showv(b), showv(a2) + " | " + showv(b2) + " text=" + text, "round trip");
    // "stream output agrees with the component-wise definition" must hold for whatever format state the destination stream carries
    // (the definition is  os << v[0] << " " << v[1] ...  on THAT stream): compare under a set of format configurations
    {
        typedef void (*Cfg)(std::ostream &);
        static const Cfg cfgs[] = {
            [](std::ostream &) {},
            [](std::ostream &o) { o.setf(std::ios::fixed, std::ios::floatfield); o.precision(3); },
            [](std::ostream &o) { o.setf(std::ios::scientific, std::ios::floatfield); o.precision(4); o.setf(std::ios::uppercase); },
            [](std::ostream &o) { o.setf(std::ios::showpos); o.setf(std::ios::showpoint); },
            [](std::ostream &o) { o.setf(std::ios::hex, std::ios::basefield); o.setf(std::ios::showbase); },
            [](std::ostream &o) { o.setf(std::ios::oct, std::ios::basefield); },
            [](std::ostream &o) { o.width(9); o.fill('*'); },
            [](std::ostream &o) { o.width(7); o.fill('_'); o.setf(std::ios::left, std::ios::adjustfield); },
            [](std::ostream &o) { o.width(8); o.fill('0'); o.setf(std::ios::internal, std::ios::adjustfield); o.setf(std::ios::showpos); },
        };
        int k = 0;
        for (Cfg c : cfgs) {
            std::ostringstream o1, o2;
            c(o1); c(o2);
            o1 << a;
            o2 << a[0]; for (int i = 1; i < D; ++i) o2 << " " << a[i];
            if (o1.str() != o2.str() || o1.width() != o2.width() || o1.flags() != o2.flags() || o1.precision() != o2.precision())
                ofail<S, D>("stream_fmt", showv(a) + " config " + std::to_string(k), o1.str(), "component-wise insertion into the same stream gives " + o2.str());
            ++k;
        }
    }
    // too few numbers: the extraction fails
    std::ostringstream o2; o2.precision(std::numeric_limits<S>::max_digits10);
    for (int i = 0; i + 1 < D; ++i) { if (i) o2 << " "; o2 << a[i]; }
    std::istringstream i2(o2.str());
    V a3; a3.vectorize((S)7);
    i2 >> a3;
    emit("stream_fail", show((bool)i2.fail()));
    if (!i2.fail()) ofail<S, D>("stream_fail", showv(a), "read succeeded", "failbit");
}

template <class S, int D> void run_case(char kind, const std::string &mask, const std::vector<std::string> &t) {
    switch (kind) {
    case 'U': run_unary<S, D>(mask, t); break;
    case 'B': run_binary<S, D>(mask, t); break;
    case 'S': run_scalar<S, D>(mask, t); break;
    case 'C': run_conv<S, D>(mask, t); break;
    case 'T': run_stream<S, D>(mask, t); break;
    default: fprintf(stderr, "bad kind %c\n", kind); exit(3);
    }
}
template <class S> void run_dim(int d, char kind, const std::string &mask, const std::vector<std::string> &t) {
    switch (d) {
    case 2: run_case<S, 2>(kind, mask, t); break;
    case 3: run_case<S, 3>(kind, mask, t); break;
    case 4: run_case<S, 4>(kind, mask, t); break;
    default: fprintf(stderr, "bad dim %d\n", d); exit(3);
    }
}

static int run_vec_file(const char *path) {
    setvbuf(stdout, nullptr, _IOLBF, 0);      // so that a sanitizer abort is located to the case being evaluated
    std::ifstream in(path);
    if (!in) { fprintf(stderr, "cannot open %s\n", path); return 2; }
    std::string line;
    while (std::getline(in, line)) {
        ++g_line;
        auto t = ovmv::split_ws(line);
        if (t.empty() || t[0][0] == '%') continue;
        // "<ty> <dim> <kind> <mask> values..."
        const std::string &ty = t.at(0); int d = std::stoi(t.at(1)); char kind = t.at(2)[0]; const std::string &mask = t.at(3);
        if (ty == "i") run_dim<int>(d, kind, mask, t);
        else if (ty == "u") run_dim<unsigned>(d, kind, mask, t);
        else if (ty == "f") run_dim<float>(d, kind, mask, t);
        else if (ty == "d") run_dim<double>(d, kind, mask, t);
        else { fprintf(stderr, "bad type %s\n", ty.c_str()); return 3; }
    }
    printf("done oracle_fails=%ld\n", g_oracle_fails);
    return 0;
}

// ------------------------------------------------------------------------------------ meshes
typedef GeometryKernel<Geometry::Vec3d, TopologyKernel> Mesh;
using ovmv::World;
using Geometry::Vec3d;

static std::string showd3(const Vec3d &v) { return showv(v); }
static void mfail(const char *what, const std::string &where, const std::string &got, const std::string &want) {
    if (g_fleg) return;
    ++g_oracle_fails;
    printf("!O C19 op=%s at=%s got=[%s] want=[%s]\n", what, where.c_str(), got.c_str(), want.c_str());
}
static bool near3(const Vec3d &a, const Vec3d &b, double tol) {
    for (int i = 0; i < 3; ++i) { if (std::isnan(a[i]) != std::isnan(b[i])) return false; if (!std::isnan(a[i]) && std::fabs(a[i] - b[i]) > tol) return false; }
    return true;
}
// brute force, from the stored definitions only
static std::vector<int> face_loop_vertices(Mesh &m, int f) {
    std::vector<int> vs;
    for (auto h : m.face(FaceHandle(f)).halfedges()) {
        auto e = m.edge(EdgeHandle(h.idx() / 2));
        vs.push_back(h.idx() % 2 == 0 ? e.from_vertex().idx() : e.to_vertex().idx());
    }
    return vs;
}
static Vec3d cross3(const Vec3d &a, const Vec3d &b) { return Vec3d(a[1] * b[2] - a[2] * b[1], a[2] * b[0] - a[0] * b[2], a[0] * b[1] - a[1] * b[0]); }

static void query_dump(World<Mesh> &w) {
    Mesh &m = w.mesh;
    auto P = [&](int v) { return m.vertex(VertexHandle(v)); };
    for (int e = 0; e < (int)m.n_edges(); ++e) {
        if (m.is_deleted(EdgeHandle(e))) continue;
        EdgeHandle eh(e);
        Vec3d ve = m.vector(eh), vh0 = m.vector(eh.halfedge_handle(0)), vh1 = m.vector(eh.halfedge_handle(1));
        printf("vec_e %d %s\n", e, showd3(ve).c_str());
        printf("vec_he %d %s\n", 2 * e, showd3(vh0).c_str());
        printf("vec_he %d %s\n", 2 * e + 1, showd3(vh1).c_str());
        printf("len_e %d %s\n", e, show(m.length(eh)).c_str());
        printf("len_he %d %s\n", 2 * e + 1, show(m.length(eh.halfedge_handle(1))).c_str());
        printf("bary_e %d %s\n", e, showd3(m.barycenter(eh)).c_str());
        auto ed = m.edge(eh);
        Vec3d a = P(ed.from_vertex().idx()), b = P(ed.to_vertex().idx());
        Vec3d want(b[0] - a[0], b[1] - a[1], b[2] - a[2]);
        if (!same_vec(ve, want) || !same_vec(vh0, want)) mfail("vector", "e" + std::to_string(e), showd3(ve) + " / " + showd3(vh0), showd3(want));
        Vec3d wn(-want[0], -want[1], -want[2]);
        if (!near3(vh1, wn, 0)) mfail("vector", "he" + std::to_string(2 * e + 1), showd3(vh1), showd3(wn));
        double l2 = want[0] * want[0] + want[1] * want[1] + want[2] * want[2];
        if (std::fabs(m.length(eh) - std::sqrt(l2)) > 1e-12 * (1 + std::sqrt(l2)) || m.length(eh) != m.length(eh.halfedge_handle(1)))
            mfail("length", "e" + std::to_string(e), show(m.length(eh)), show(std::sqrt(l2)));
        Vec3d wb((a[0] + b[0]) / 2, (a[1] + b[1]) / 2, (a[2] + b[2]) / 2);
        if (!near3(m.barycenter(eh), wb, 1e-12 * (1 + std::fabs(wb[0]) + std::fabs(wb[1]) + std::fabs(wb[2])))) mfail("barycenter_edge", "e" + std::to_string(e), showd3(m.barycenter(eh)), showd3(wb));
    }
    OpenVolumeMesh::NormalAttrib<Mesh> nattr(m);
    bool have_attr = m.has_face_bottom_up_incidences();
    if (have_attr) { std::streambuf *old = std::cerr.rdbuf(nullptr); nattr.update_face_normals(); std::cerr.rdbuf(old); }
    for (int f = 0; f < (int)m.n_faces(); ++f) {
        if (m.is_deleted(FaceHandle(f))) continue;
        FaceHandle fh(f);
        std::string vs;
        std::vector<int> it_vs;
        for (auto it = m.hfv_iter(fh.halfface_handle(0)); it.valid(); ++it) { vs += " " + std::to_string((*it).idx()); it_vs.push_back((*it).idx()); }
        printf("fverts %d%s\n", f, vs.c_str());
        auto loop = face_loop_vertices(m, f);
        if (loop != it_vs) mfail("face_vertices", "f" + std::to_string(f), vs, "from-vertices of the stored halfedges");
        size_t n = loop.size();
        if (n == 0) continue;            // barycenter would divide by zero; outside the generated inputs
        Vec3d bc = m.barycenter(fh);
        printf("bary_f %d %s\n", f, showd3(bc).c_str());
        Vec3d sum(0.0, 0.0, 0.0);
        for (int v : loop) { sum[0] += P(v)[0]; sum[1] += P(v)[1]; sum[2] += P(v)[2]; }
        Vec3d wb(sum[0] / n, sum[1] / n, sum[2] / n);
        if (!near3(bc, wb, 1e-12 * (1 + std::fabs(wb[0]) + std::fabs(wb[1]) + std::fabs(wb[2])))) mfail("barycenter_face", "f" + std::to_string(f), showd3(bc), showd3(wb));
        // normals of both sides
        Vec3d nn[2];
        for (int side = 0; side < 2; ++side) {
            HalfFaceHandle hf = fh.halfface_handle(side);
            printf("ndeg %d %d\n", hf.idx(), n < 3 ? 1 : 0);
            std::streambuf *old = std::cerr.rdbuf(nullptr);     // "Warning: Degenerate face" goes to cerr
            nn[side] = m.normal(hf);
            std::cerr.rdbuf(old);
            printf("normal %d %s\n", hf.idx(), showd3(nn[side]).c_str());
        }
        if (n < 3) {
            if (!same_vec(nn[0], Vec3d(0.0, 0.0, 0.0)) || !same_vec(nn[1], Vec3d(0.0, 0.0, 0.0))) mfail("normal_degenerate", "f" + std::to_string(f), showd3(nn[0]) + " / " + showd3(nn[1]), "0 0 0");
            continue;
        }
        // is the loop closed, planar and strictly convex?  (exact: positions are small integers)
        bool closed = true;
        { auto &hes = m.face(fh).halfedges();
          for (size_t i = 0; i < n; ++i) if (m.halfedge(hes[i]).to_vertex() != m.halfedge(hes[(i + 1) % n]).from_vertex()) closed = false; }
        std::vector<Vec3d> corners;
        for (size_t i = 0; i < n; ++i) {
            Vec3d p = P(loop[i]), q = P(loop[(i + 1) % n]), r = P(loop[(i + 2) % n]);
            corners.push_back(cross3(Vec3d(q[0] - p[0], q[1] - p[1], q[2] - p[2]), Vec3d(r[0] - q[0], r[1] - q[1], r[2] - q[2])));
        }
        bool pc = closed;
        for (size_t i = 0; i < n && pc; ++i) {
            Vec3d x = cross3(corners[0], corners[i]);
            double dt = corners[0][0] * corners[i][0] + corners[0][1] * corners[i][1] + corners[0][2] * corners[i][2];
            if (x[0] != 0 || x[1] != 0 || x[2] != 0 || !(dt > 0)) pc = false;
        }
        // side 0 is the normalised first corner whenever that corner is not the zero vector
        double l0 = std::sqrt(corners[0][0] * corners[0][0] + corners[0][1] * corners[0][1] + corners[0][2] * corners[0][2]);
        if (closed && l0 > 0) {
            Vec3d want(corners[0][0] / l0, corners[0][1] / l0, corners[0][2] / l0);
            if (!near3(nn[0], want, 1e-12)) mfail("normal", "hf" + std::to_string(2 * f), showd3(nn[0]), showd3(want));
        }
        if (pc || (closed && n == 3 && l0 > 0)) {
            Vec3d neg(-nn[0][0], -nn[0][1], -nn[0][2]);
            if (!near3(nn[1], neg, 1e-12)) mfail("normals_opposite", "f" + std::to_string(f), showd3(nn[1]), showd3(neg));
            printf("nopp %d 1\n", f);
        }
        if (have_attr) {
            Vec3d fa = nattr[fh], h0 = nattr[fh.halfface_handle(0)], h1 = nattr[fh.halfface_handle(1)];
            Vec3d neg(-fa[0], -fa[1], -fa[2]);
            if (!same_vec(fa, nn[0]) || !same_vec(h0, nn[0]) || !near3(h1, neg, 0)) mfail("normal_attrib", "f" + std::to_string(f), showd3(fa) + " / " + showd3(h0) + " / " + showd3(h1), showd3(nn[0]));
        }
    }
    for (int c = 0; c < (int)m.n_cells(); ++c) {
        if (m.is_deleted(CellHandle(c))) continue;
        CellHandle ch(c);
        std::string vs; std::vector<int> it_vs;
        for (auto it = m.cv_iter(ch); it.valid(); ++it) { vs += " " + std::to_string((*it).idx()); it_vs.push_back((*it).idx()); }
        printf("cverts %d%s\n", c, vs.c_str());
        std::set<int> want_set;
        for (auto hf : m.cell(ch).halffaces()) for (int v : face_loop_vertices(m, hf.idx() / 2)) want_set.insert(v);
        if (std::vector<int>(want_set.begin(), want_set.end()) != it_vs) mfail("cell_vertices", "c" + std::to_string(c), vs, "sorted set of the vertices of the cell's faces");
        if (it_vs.empty()) continue;
        Vec3d bc = m.barycenter(ch);
        printf("bary_c %d %s\n", c, showd3(bc).c_str());
        Vec3d sum(0.0, 0.0, 0.0);
        for (int v : want_set) { sum[0] += P(v)[0]; sum[1] += P(v)[1]; sum[2] += P(v)[2]; }
        double n = (double)want_set.size();
        Vec3d wb(sum[0] / n, sum[1] / n, sum[2] / n);
        if (!near3(bc, wb, 1e-12 * (1 + std::fabs(wb[0]) + std::fabs(wb[1]) + std::fabs(wb[2])))) mfail("barycenter_cell", "c" + std::to_string(c), showd3(bc), showd3(wb));
    }
}

static void run_script(const std::vector<std::string> &lines) {
    World<Mesh> w;
    int lineno = 0;
    for (auto &line : lines) {
        ++lineno;
        auto toks = ovmv::split_ws(line);
        if (toks[0] == "Pos") {
            int v = std::stoi(toks.at(1));
            long x = std::stol(toks.at(2)), y = std::stol(toks.at(3)), z = std::stol(toks.at(4));
            printf("== %d Pos %d %ld %ld %ld -> ", lineno, v, x, y, z);
            if (v < 0 || v >= (int)w.mesh.n_vertices()) printf("Rejected\n");
            else { w.mesh.set_vertex(VertexHandle(v), Vec3d((double)x, (double)y, (double)z)); printf("Ok -\n"); }
        } else if (toks[0] == "PosB") {       // position given as three binary64 bit patterns "x<16 hex digits>"
            int v = std::stoi(toks.at(1));
            printf("== %d PosB %d %s %s %s -> ", lineno, v, toks.at(2).c_str(), toks.at(3).c_str(), toks.at(4).c_str());
            if (v < 0 || v >= (int)w.mesh.n_vertices()) printf("Rejected\n");
            else { w.mesh.set_vertex(VertexHandle(v), Vec3d(Sc<double>::parse(toks.at(2)), Sc<double>::parse(toks.at(3)), Sc<double>::parse(toks.at(4)))); printf("Ok -\n"); }
        } else if (toks[0] == "Q") {
            printf("== %d Q\n", lineno);
            query_dump(w);
        } else {
            ovmv::Result r = ovmv::exec_line(w, toks);
            printf("== %d %s -> ", lineno, r.echo.c_str());
            if (r.rejected) printf("Rejected\n"); else if (r.has) printf("Ok %ld\n", r.r); else printf("Ok -\n");
        }
        fflush(stdout);
    }
}

static int run_mesh_file(const char *path) {
    std::ifstream in(path);
    if (!in) { fprintf(stderr, "cannot open %s\n", path); return 2; }
    std::string line, name;
    std::vector<std::string> cur;
    bool have = false;
    auto flush_script = [&]() {
        if (!have) return;
        printf("%s\n", name.c_str());
        fflush(stdout);
        pid_t pid = fork();
        if (pid == 0) { run_script(cur); fflush(stdout); _exit(0); }
        int st = 0;
        waitpid(pid, &st, 0);
        if (!(WIFEXITED(st) && WEXITSTATUS(st) == 0)) { printf("!! CRASH status=%d\n", WIFSIGNALED(st) ? 1000 + WTERMSIG(st) : WEXITSTATUS(st)); fflush(stdout); }
    };
    while (std::getline(in, line)) {
        size_t b = line.find_first_not_of(" \t\r");
        if (b == std::string::npos || line[b] == '%') continue;
        if (line.compare(b, 4, "####") == 0) {
            flush_script();
            name = line.substr(b); while (!name.empty() && (name.back() == '\r' || name.back() == ' ')) name.pop_back();
            cur.clear(); have = true;
        } else cur.push_back(line);
    }
    flush_script();
    return 0;
}

int main(int argc, char **argv) {
    if (argc == 3 && !strcmp(argv[1], "--vec")) return run_vec_file(argv[2]);
    if (argc == 3 && !strcmp(argv[1], "--mesh")) return run_mesh_file(argv[2]);
    if (argc == 3 && !strcmp(argv[1], "--fvec")) { g_fleg = true; return run_vec_file(argv[2]); }
    if (argc == 3 && !strcmp(argv[1], "--fmesh")) { g_fleg = true; return run_mesh_file(argv[2]); }
    fprintf(stderr, "usage: run_geo --vec <cases> | --mesh <scripts> | --fvec <cases> | --fmesh <scripts>\n");
    return 2;
}
