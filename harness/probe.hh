// probe.hh -- harness-side access to the protected bottom-up caches of TopologyKernel and the
// canonical state printer shared by the kernel / iterator / tet / hex harnesses.
#pragma once
#include <OpenVolumeMesh/Mesh/PolyhedralMesh.hh>
#include <OpenVolumeMesh/Mesh/TetrahedralMesh.hh>
#include <OpenVolumeMesh/Mesh/HexahedralMesh.hh>
#include <sstream>
#include <string>
#include <vector>
#include <memory>
#include <map>
#include <cstdio>
#include <cstdlib>
#include <unistd.h>
#include <sys/wait.h>

namespace ovmv {
using namespace OpenVolumeMesh;
using Vec3d = Geometry::Vec3d;

template <class MeshT>
struct Probe : public MeshT {
    using MeshT::outgoing_hes_per_vertex_;
    using MeshT::incident_hfs_per_he_;
    using MeshT::incident_cell_per_hf_;
};

// ---- token <-> value maps, one per value type (injective on the tokens scripts use)
template <class T> struct Tok;
template <> struct Tok<int>         { static int to(long v) { return (int)v; } static long from(int x) { return x; } };
template <> struct Tok<bool>        { static bool to(long v) { return v != 0; } static long from(bool x) { return x ? 1 : 0; } };
template <> struct Tok<double>      { static double to(long v) { return (double)v + 0.25; } static long from(double x) { return (long)(x - 0.25); } };
template <> struct Tok<std::string> { static std::string to(long v) { return "s" + std::to_string(v); } static long from(const std::string &x) { return std::stol(x.substr(1)); } };
template <> struct Tok<Vec3d>       { static Vec3d to(long v) { return Vec3d((double)v, (double)v + 1, (double)v + 2); } static long from(const Vec3d &x) { return (long)x[0]; } };
template <> struct Tok<VertexHandle>{ static VertexHandle to(long v) { return VertexHandle((int)v - 1); } static long from(VertexHandle x) { return x.idx() + 1; } };

struct PropBase {
    virtual ~PropBase() {}
    virtual size_t size() const = 0;
    virtual void set(size_t i, long v) = 0;
    virtual long get(size_t i) const = 0;
    virtual long def() const = 0;
};
template <class T, class E>
struct PropT : PropBase {
    PropertyPtr<T, E> p;
    explicit PropT(PropertyPtr<T, E> q) : p(std::move(q)) {}
    size_t size() const override { return p.size(); }
    using H = typename PropertyPtr<T, E>::EntityHandleT;
    void set(size_t i, long v) override { p[H((int)i)] = Tok<T>::to(v); }
    long get(size_t i) const override { return Tok<T>::from(p[H((int)i)]); }
    long def() const override { return Tok<T>::from(p.def()); }
};

template <class E, class M>
std::unique_ptr<PropBase> make_prop_e(M &m, const std::string &type, long def, int seq) {
    // private (anonymous) properties: the registry semantics are C14's business, not the kernel's
    if (type == "int") return std::make_unique<PropT<int, E>>(m.template create_private_property<int, E>("", Tok<int>::to(def)));
    if (type == "bool") return std::make_unique<PropT<bool, E>>(m.template create_private_property<bool, E>("", Tok<bool>::to(def)));
    if (type == "double") return std::make_unique<PropT<double, E>>(m.template create_private_property<double, E>("", Tok<double>::to(def)));
    if (type == "string") return std::make_unique<PropT<std::string, E>>(m.template request_property<std::string, E>("sh" + std::to_string(seq), Tok<std::string>::to(def)));
    if (type == "vec3d") return std::make_unique<PropT<Vec3d, E>>(m.template request_property<Vec3d, E>("sh" + std::to_string(seq), Tok<Vec3d>::to(def)));
    if (type == "vh") return std::make_unique<PropT<VertexHandle, E>>(m.template create_private_property<VertexHandle, E>("", Tok<VertexHandle>::to(def)));
    fprintf(stderr, "unknown prop type %s\n", type.c_str());
    exit(3);
}

static const char *KIND_NAMES[7] = {"V", "E", "HE", "F", "HF", "C", "M"};
inline int kind_index(const std::string &k) {
    for (int i = 0; i < 7; ++i) if (k == KIND_NAMES[i]) return i;
    fprintf(stderr, "bad kind %s\n", k.c_str());
    exit(3);
}

template <class M>
std::unique_ptr<PropBase> make_prop(M &m, int kind, const std::string &type, long def, int seq) {
    if (type == "pos") {
        if (kind != 0) { fprintf(stderr, "pos only on V\n"); exit(3); }
        return std::make_unique<PropT<Vec3d, Entity::Vertex>>(m.vertex_positions());
    }
    switch (kind) {
    case 0: return make_prop_e<Entity::Vertex>(m, type, def, seq);
    case 1: return make_prop_e<Entity::Edge>(m, type, def, seq);
    case 2: return make_prop_e<Entity::HalfEdge>(m, type, def, seq);
    case 3: return make_prop_e<Entity::Face>(m, type, def, seq);
    case 4: return make_prop_e<Entity::HalfFace>(m, type, def, seq);
    case 5: return make_prop_e<Entity::Cell>(m, type, def, seq);
    default: return make_prop_e<Entity::Mesh>(m, type, def, seq);
    }
}

template <class M>
struct World {
    Probe<M> mesh;
    std::vector<std::unique_ptr<PropBase>> props[7];
    int seq = 0;
    int next_vid = 0;   // identity tokens handed to new vertices by the oracles (oracle_kernel.hh)
};

template <class H>
std::string hlist(const std::vector<H> &v) {
    std::string s = "[";
    for (size_t i = 0; i < v.size(); ++i) { if (i) s += " "; s += std::to_string(v[i].idx()); }
    return s + "]";
}

template <class M>
void dump_state(World<M> &w, std::ostream &o) {
    auto &m = w.mesh;
    o << "nv " << m.n_vertices() << "\n";
    o << "E ";
    for (size_t i = 0; i < m.n_edges(); ++i) { if (i) o << " "; auto e = m.edge(EdgeHandle((int)i)); o << e.from_vertex().idx() << "," << e.to_vertex().idx(); }
    o << "\nF ";
    for (size_t i = 0; i < m.n_faces(); ++i) { if (i) o << " "; o << hlist(m.face(FaceHandle((int)i)).halfedges()); }
    o << "\nC ";
    for (size_t i = 0; i < m.n_cells(); ++i) { if (i) o << " "; o << hlist(m.cell(CellHandle((int)i)).halffaces()); }
    o << "\ndel V:";
    for (size_t i = 0; i < m.n_vertices(); ++i) o << (m.is_deleted(VertexHandle((int)i)) ? "1" : "0");
    o << " E:";
    for (size_t i = 0; i < m.n_edges(); ++i) o << (m.is_deleted(EdgeHandle((int)i)) ? "1" : "0");
    o << " F:";
    for (size_t i = 0; i < m.n_faces(); ++i) o << (m.is_deleted(FaceHandle((int)i)) ? "1" : "0");
    o << " C:";
    for (size_t i = 0; i < m.n_cells(); ++i) o << (m.is_deleted(CellHandle((int)i)) ? "1" : "0");
    o << "\ncnt " << (m.n_vertices() - m.n_logical_vertices()) << " " << (m.n_edges() - m.n_logical_edges()) << " "
      << (m.n_faces() - m.n_logical_faces()) << " " << (m.n_cells() - m.n_logical_cells()) << "\n";
    o << "flags v=" << m.has_vertex_bottom_up_incidences() << " e=" << m.has_edge_bottom_up_incidences()
      << " f=" << m.has_face_bottom_up_incidences() << " def=" << m.deferred_deletion_enabled()
      << " fast=" << m.fast_deletion_enabled() << "\n";
    o << "OUT ";
    { bool first = true; for (auto &l : m.outgoing_hes_per_vertex_) { if (!first) o << " "; first = false; o << hlist(l); } }
    o << "\nHFS ";
    { bool first = true; for (auto &l : m.incident_hfs_per_he_) { if (!first) o << " "; first = false; o << hlist(l); } }
    o << "\nCELL ";
    { bool first = true; for (auto c : m.incident_cell_per_hf_) { if (!first) o << " "; first = false; if (c.is_valid()) o << c.idx(); else o << "-"; } }
    o << "\n";
    for (int k = 0; k < 7; ++k)
        for (size_t i = 0; i < w.props[k].size(); ++i) {
            auto &p = *w.props[k][i];
            o << "P " << KIND_NAMES[k] << " " << i << " def=" << p.def() << " : ";
            for (size_t j = 0; j < p.size(); ++j) { if (j) o << " "; o << p.get(j); }
            o << "\n";
        }
}

// ---- operand resolution, identical to ocaml/kdriver.ml
struct Unresolvable {};
template <class M>
struct Resolver {
    bool abs;
    std::vector<int> vs, es, fs, cs;
    int nvv, nee, nff, ncc;
    Resolver(Probe<M> &m, bool a) : abs(a) {
        nvv = (int)m.n_vertices(); nee = (int)m.n_edges(); nff = (int)m.n_faces(); ncc = (int)m.n_cells();
        for (int i = 0; i < nvv; ++i) if (!m.is_deleted(VertexHandle(i))) vs.push_back(i);
        for (int i = 0; i < nee; ++i) if (!m.is_deleted(EdgeHandle(i))) es.push_back(i);
        for (int i = 0; i < nff; ++i) if (!m.is_deleted(FaceHandle(i))) fs.push_back(i);
        for (int i = 0; i < ncc; ++i) if (!m.is_deleted(CellHandle(i))) cs.push_back(i);
    }
    static int pick(const std::vector<int> &l, long k) { if (l.empty()) throw Unresolvable(); return l[k % (long)l.size()]; }
    static int modn(int n, long k) { if (n == 0) throw Unresolvable(); return (int)(k % n); }
    int lv(long k) { return abs ? (int)k : pick(vs, k); }
    int le(long k) { return abs ? (int)k : pick(es, k); }
    int lf(long k) { return abs ? (int)k : pick(fs, k); }
    int lc(long k) { return abs ? (int)k : pick(cs, k); }
    int lhe(long k) { return abs ? (int)k : 2 * pick(es, k / 2) + (int)(k & 1); }
    int lhf(long k) { return abs ? (int)k : 2 * pick(fs, k / 2) + (int)(k & 1); }
    int av(long k) { return abs ? (int)k : modn(nvv, k); }
    int ae(long k) { return abs ? (int)k : modn(nee, k); }
    int af(long k) { return abs ? (int)k : modn(nff, k); }
    int ac(long k) { return abs ? (int)k : modn(ncc, k); }
};

// documented preconditions ("valid arguments"), same predicates as Kernel/Ops.v valid_op
template <class M> bool live_v(M &m, int v) { return v >= 0 && v < (int)m.n_vertices() && !m.is_deleted(VertexHandle(v)); }
template <class M> bool live_e(M &m, int v) { return v >= 0 && v < (int)m.n_edges() && !m.is_deleted(EdgeHandle(v)); }
template <class M> bool live_f(M &m, int v) { return v >= 0 && v < (int)m.n_faces() && !m.is_deleted(FaceHandle(v)); }
template <class M> bool live_c(M &m, int v) { return v >= 0 && v < (int)m.n_cells() && !m.is_deleted(CellHandle(v)); }
template <class M> bool live_he(M &m, int h) { return h >= 0 && live_e(m, h / 2); }
template <class M> bool live_hf(M &m, int h) { return h >= 0 && live_f(m, h / 2); }

inline std::vector<std::string> split_ws(const std::string &line) {
    std::istringstream is(line);
    std::vector<std::string> t;
    std::string x;
    while (is >> x) t.push_back(x);
    return t;
}

} // namespace ovmv
