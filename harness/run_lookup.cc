// run_lookup.cc -- executes kernel scripts on the real library (rebuilt from /repo's working tree) and,
// on a line "QLookup <seed> <mask>", prints the result of EVERY lookup query on an exhaustive batch of
// arguments derived from the current state, in the format of ocaml/lookupdriver.ml (which prints the same
// lines from the Gallina models of coq/Kernel2/LookupModel.v).
//
// Impl-side oracles, independent of the model (they only read edge()/face()/cell()/is_deleted() and the
// lookup results), enabled with --oracle C10 and/or C09:
//   C10  for every lookup f and argument tuple of the batch: the brute-force relation R_f over the stored
//        definitions of not-deleted entities; soundness (a returned handle satisfies R_f) and completeness
//        (R_f has a solution => the lookup returns a valid handle).
//   C09  (a) after EVERY operation of a script that has not executed set_edge/set_face/set_cell: for every
//        live edge that this oracle itself classifies as a single fan (brute-force sigma-graph one cycle or
//        one chain), the sigma-successor rule on hehf_iter's order and the mirrored order of the opposite
//        halfedge; (b) at QLookup: adjacent_halfface_in_cell on closed cells returns the unique other
//        halfface at the edge, is an involution, and accepts the flipped halfedge when unambiguous.
// One forked child per script: a crash / sanitizer abort ends only that script ("!! CRASH").
#include "probe.hh"
#include "kernel_exec.hh"
#include <algorithm>
#include <fstream>
#include <iostream>
#include <set>
#include <map>

using namespace ovmv;
typedef GeometryKernel<Vec3d, TopologyKernel> Mesh;

static std::set<std::string> g_oracles;
static bool on(const char *p) { return g_oracles.count(p) || g_oracles.count("all"); }

// ---------------------------------------------------------------- brute-force view of the stored definitions
struct Brute {
    int nv = 0;
    std::vector<std::pair<int, int>> E;
    std::vector<std::vector<int>> F, C;
    std::vector<char> vd, ed, fd, cd;
    bool vbu = false, ebu = false, fbu = false;
    int ne() const { return (int)E.size(); }
    int nf() const { return (int)F.size(); }
    int nc() const { return (int)C.size(); }
    bool live_e(int e) const { return e >= 0 && e < ne() && !ed[e]; }
    bool live_f(int f) const { return f >= 0 && f < nf() && !fd[f]; }
    bool live_c(int c) const { return c >= 0 && c < nc() && !cd[c]; }
    int from(int h) const { return (h & 1) ? E[h / 2].second : E[h / 2].first; }
    int to(int h) const { return (h & 1) ? E[h / 2].first : E[h / 2].second; }
    std::vector<int> halfface(int hf) const {
        std::vector<int> r = F[hf / 2];
        if (hf & 1) { std::reverse(r.begin(), r.end()); for (auto &h : r) h ^= 1; }
        return r;
    }
    std::vector<int> hfv(int hf) const { std::vector<int> r; for (int h : halfface(hf)) r.push_back(from(h)); return r; }
};

static Brute brute(World<Mesh> &w) {
    auto &m = w.mesh;
    Brute s;
    s.nv = (int)m.n_vertices();
    for (size_t i = 0; i < m.n_edges(); ++i) { auto e = m.edge(EdgeHandle((int)i)); s.E.push_back({e.from_vertex().idx(), e.to_vertex().idx()}); }
    for (size_t i = 0; i < m.n_faces(); ++i) { std::vector<int> l; for (auto h : m.face(FaceHandle((int)i)).halfedges()) l.push_back(h.idx()); s.F.push_back(l); }
    for (size_t i = 0; i < m.n_cells(); ++i) { std::vector<int> l; for (auto h : m.cell(CellHandle((int)i)).halffaces()) l.push_back(h.idx()); s.C.push_back(l); }
    for (int i = 0; i < s.nv; ++i) s.vd.push_back(m.is_deleted(VertexHandle(i)));
    for (int i = 0; i < s.ne(); ++i) s.ed.push_back(m.is_deleted(EdgeHandle(i)));
    for (int i = 0; i < s.nf(); ++i) s.fd.push_back(m.is_deleted(FaceHandle(i)));
    for (int i = 0; i < s.nc(); ++i) s.cd.push_back(m.is_deleted(CellHandle(i)));
    s.vbu = m.has_vertex_bottom_up_incidences(); s.ebu = m.has_edge_bottom_up_incidences(); s.fbu = m.has_face_bottom_up_incidences();
    return s;
}

static bool contains(const std::vector<int> &v, int x) { return std::find(v.begin(), v.end(), x) != v.end(); }
static int count_of(const std::vector<int> &v, int x) { return (int)std::count(v.begin(), v.end(), x); }
static bool nodup(std::vector<int> v) { std::sort(v.begin(), v.end()); return std::adjacent_find(v.begin(), v.end()) == v.end(); }

struct Fails {
    std::ostringstream buf;    // oracle lines are emitted after the block, never inside a Q line
    int n = 0;
    void fail(const char *prop, const std::string &msg) { if (n++ < 6) buf << "!O " << prop << " " << msg << "\n"; }
};

static std::string ho(int h) { return h < 0 ? "-" : std::to_string(h); }
static std::string commas(const std::vector<int> &v) { std::string s; for (size_t i = 0; i < v.size(); ++i) { if (i) s += ","; s += std::to_string(v[i]); } return s; }
static std::string spaced(const std::vector<int> &v) { std::string s; for (size_t i = 0; i < v.size(); ++i) { if (i) s += " "; s += std::to_string(v[i]); } return s; }
static std::vector<VertexHandle> vhs(const std::vector<int> &v) { std::vector<VertexHandle> r; for (int x : v) r.push_back(VertexHandle(x)); return r; }
static std::vector<int> idxs(const std::vector<VertexHandle> &v) { std::vector<int> r; for (auto x : v) r.push_back(x.idx()); return r; }

// the matches adjacent_halfface_in_cell can see: halffaces of cell c other than hf and its opposite that contain
// the opposite of he, one entry per occurrence
static std::vector<int> matches(const Brute &b, int c, int hf, int he) {
    std::vector<int> r;
    for (int hfh : b.C[c]) {
        if (hfh == hf || hfh == (hf ^ 1)) continue;
        for (int heh : b.halfface(hfh)) if ((heh ^ 1) == he) r.push_back(hfh);
    }
    return r;
}

// the "closed cell" contract: the face->cell cache sends the halffaces of c to c, and every halfedge of every
// halfface of c is matched exactly once by its opposite within c
static bool closed_cell(World<Mesh> &w, const Brute &b, int c) {
    for (int hf : b.C[c]) {
        if (w.mesh.incident_cell(HalfFaceHandle(hf)).idx() != c) return false;
        for (int he : b.halfface(hf)) if (matches(b, c, hf, he).size() != 1) return false;
    }
    return true;
}

// ---------------------------------------------------------------- argument tuples (same as lookupdriver.ml)
static unsigned long long g_lcg = 1;
static int lcg_next(int k) {
    g_lcg = (g_lcg * 1103515245ULL + 12345ULL) & 0x7fffffffULL;
    return k <= 0 ? 0 : (int)((g_lcg >> 8) % (unsigned long long)k);
}

static std::vector<std::vector<int>> vertex_tuples(const Brute &b, long seed) {
    std::vector<std::vector<int>> out;
    int nff = b.nf();
    for (int hf = 0; hf < 2 * nff; ++hf) {
        if (!b.live_f(hf / 2)) continue;
        auto vs = b.hfv(hf);
        int len = (int)vs.size();
        if (len < 3) continue;
        std::vector<int> other = b.hfv((hf + 2) % (2 * nff));
        int w = other.empty() ? 0 : other[0];
        for (int k = 0; k < len; ++k) {
            std::vector<int> r;
            for (int j = 0; j < len; ++j) r.push_back(vs[(j + k) % len]);
            out.push_back(r);
            if (len > 3) out.push_back(std::vector<int>(r.begin(), r.begin() + 3));
        }
        { auto t = vs; t[2] = w; out.push_back(t); }
        { auto t = vs; t[0] = w; out.push_back(t); }
        { auto t = vs; t.push_back(w); out.push_back(t); }
    }
    g_lcg = ((unsigned long long)seed & 0x7fffffffULL) | 1ULL;
    if (b.nv > 0)
        for (int r = 0; r < 24; ++r) {
            int len = 3 + lcg_next(2);
            std::vector<int> t;
            for (int j = 0; j < len; ++j) t.push_back(lcg_next(b.nv));
            out.push_back(t);
        }
    size_t cnt = out.size();
    if (cnt <= 400) return out;
    size_t stride = (cnt + 399) / 400;
    std::vector<std::vector<int>> sel;
    for (size_t j = 0; j < cnt; ++j) if (j % stride == 0) sel.push_back(out[j]);
    return sel;
}

// ---------------------------------------------------------------- C10 oracles (brute-force relations)
static std::vector<int> live_hes(const Brute &b, int v1, int v2) {
    std::vector<int> r;
    for (int h = 0; h < 2 * b.ne(); ++h) if (b.live_e(h / 2) && b.from(h) == v1 && b.to(h) == v2) r.push_back(h);
    return r;
}

// R_doc of find_halfface(vertices): a live halfface containing a live halfedge v0->v1 and a live halfedge v1->v2
static bool r_fhf_doc(const Brute &b, const std::vector<int> &vs, int hf) {
    if (hf < 0 || hf >= 2 * b.nf() || !b.live_f(hf / 2)) return false;
    auto hes = b.halfface(hf);
    bool a = false, c = false;
    for (int h : hes) if (b.live_e(h / 2)) { if (b.from(h) == vs[0] && b.to(h) == vs[1]) a = true; if (b.from(h) == vs[1] && b.to(h) == vs[2]) c = true; }
    return a && c;
}
// R of find_halfface_extensive: vs is a rotation of the vertex cycle of the live halfface hf; k = a rotation that works (or -1)
static int r_ext(const Brute &b, const std::vector<int> &vs, int hf) {
    if (hf < 0 || hf >= 2 * b.nf() || !b.live_f(hf / 2)) return -1;
    auto v = b.hfv(hf);
    size_t n = v.size();
    if (n != vs.size() || n == 0) return -1;
    for (size_t k = 0; k < n; ++k) {
        bool okk = true;
        for (size_t i = 0; i < n && okk; ++i) okk = v[(i + k) % n] == vs[i];
        if (okk) return (int)k;
    }
    return -1;
}
// R of find_halfface_in_cell: a halfface of the cell with v0,v1,v2 consecutive (as halfedges v0->v1 followed by ->v2)
static bool r_fhfc(const Brute &b, const std::vector<int> &vs, int c, int hf) {
    if (!contains(b.C[c], hf)) return false;
    auto hes = b.halfface(hf);
    size_t n = hes.size();
    for (size_t i = 0; i < n; ++i)
        if (b.from(hes[i]) == vs[0] && b.to(hes[i]) == vs[1] && b.to(hes[(i + 1) % n]) == vs[2]) return true;
    return false;
}

// ---------------------------------------------------------------- the query batch
static void qlookup(World<Mesh> &w, long seed, int mask, std::ostream &o, Fails &fl) {
    auto &m = w.mesh;
    Brute b = brute(w);
    const int NV = b.nv, NE = b.ne(), NF = b.nf(), NC = b.nc();
    const bool o10 = on("C10"), o09 = on("C09");
    std::ostringstream qx;
    std::vector<char> closed(NC, 0);
    if (b.fbu) for (int c = 0; c < NC; ++c) closed[c] = closed_cell(w, b, c);
    if (mask & 1) {
        // find_halfedge
        for (int v1 = 0; v1 < NV; ++v1) {
            o << "Q fhe " << v1 << " :";
            for (int v2 = 0; v2 < NV; ++v2) {
                int r = m.find_halfedge(VertexHandle(v1), VertexHandle(v2)).idx();
                o << " " << ho(r);
                if (o10 && b.vbu) {
                    auto L = live_hes(b, v1, v2);
                    if (r >= 0 && !contains(L, r)) fl.fail("C10", "find_halfedge(" + std::to_string(v1) + "," + std::to_string(v2) + ") = " + std::to_string(r) + " is not a live halfedge between these vertices in this direction");
                    if (r < 0 && !L.empty()) fl.fail("C10", "find_halfedge(" + std::to_string(v1) + "," + std::to_string(v2) + ") is invalid but live halfedge " + std::to_string(L[0]) + " exists");
                }
            }
            o << "\n";
        }
        // find_halfedge_in_cell
        for (int c = 0; c < NC; ++c) {
            if (!b.live_c(c)) continue;
            for (int v1 = 0; v1 < NV; ++v1) {
                o << "Q fhec " << c << " " << v1 << " :";
                for (int v2 = 0; v2 < NV; ++v2) {
                    int r = m.find_halfedge_in_cell(VertexHandle(v1), VertexHandle(v2), CellHandle(c)).idx();
                    o << " " << ho(r);
                    if (o10) {
                        std::vector<int> S;
                        for (int hf : b.C[c]) for (int h : b.halfface(hf)) {
                            if (b.from(h) == v1 && b.to(h) == v2) S.push_back(h);
                            if (b.from(h) == v2 && b.to(h) == v1) S.push_back(h ^ 1);
                        }
                        std::string call = "find_halfedge_in_cell(" + std::to_string(v1) + "," + std::to_string(v2) + "," + std::to_string(c) + ")";
                        if (r >= 0 && (!contains(S, r) || !b.live_e(r / 2))) fl.fail("C10", call + " = " + std::to_string(r) + " is not a live halfedge of the cell from the first to the second vertex");
                        if (r < 0 && !S.empty()) fl.fail("C10", call + " is invalid but the cell has halfedge " + std::to_string(S[0]));
                    }
                }
                o << "\n";
            }
        }
        // find_halfface(vertices) / _extensive / _in_cell
        auto tuples = vertex_tuples(b, seed);
        for (auto &t : tuples) {
            int r = m.find_halfface(vhs(t)).idx();
            int x = m.find_halfface_extensive(vhs(t)).idx();
            o << "Q fhf " << commas(t) << " : " << ho(r) << " " << ho(x) << "\n";
            if (o10 && b.vbu && b.ebu) {
                std::string call = "(" + commas(t) + ")";
                size_t p01 = live_hes(b, t[0], t[1]).size(), p12 = live_hes(b, t[1], t[2]).size();
                if (r >= 0 && !r_fhf_doc(b, t, r)) fl.fail("C10", "find_halfface" + call + " = " + std::to_string(r) + " is not a live halfface containing halfedges v0->v1 and v1->v2");
                if (r < 0 && p01 <= 1 && p12 <= 1)     // with parallel edges completeness is known to fail (KNOWN_SIGNATURES: parallel-edges)
                    for (int hf = 0; hf < 2 * NF; ++hf) if (r_fhf_doc(b, t, hf)) { fl.fail("C10", "find_halfface" + call + " is invalid but halfface " + std::to_string(hf) + " contains v0->v1 and v1->v2"); break; }
                if (x >= 0 && r_ext(b, t, x) < 0) fl.fail("C10", "find_halfface_extensive" + call + " = " + std::to_string(x) + " is not a live halfface with exactly this vertex cycle");
                if (x < 0 && p01 <= 1)
                    for (int hf = 0; hf < 2 * NF; ++hf) {
                        int k = r_ext(b, t, hf);
                        if (k < 0) continue;
                        auto hes = b.halfface(hf);
                        // simple closed faces only: the code locates the start by the halfedge v0->v1
                        if (!nodup(hes) || b.to(hes[k]) != t[1] || !b.live_e(hes[k] / 2)) continue;
                        fl.fail("C10", "find_halfface_extensive" + call + " is invalid but halfface " + std::to_string(hf) + " has exactly this vertex cycle"); break;
                    }
            }
        }
        if (b.fbu)
            for (int c = 0; c < NC; ++c) {
                if (!b.live_c(c)) continue;
                bool simple = true;
                for (int hf : b.C[c]) simple = simple && nodup(b.halfface(hf));
                for (auto &t : tuples) {
                    int r = m.find_halfface_in_cell(vhs(t), CellHandle(c)).idx();
                    (closed[c] ? (std::ostream &)o : (std::ostream &)qx) << (closed[c] ? "Q" : "QX") << " fhfc " << c << " " << commas(t) << " : " << ho(r) << "\n";
                    if (o10 && closed[c]) {
                        std::string call = "find_halfface_in_cell((" + commas(t) + ")," + std::to_string(c) + ")";
                        if (r >= 0 && !r_fhfc(b, t, c, r)) fl.fail("C10", call + " = " + std::to_string(r) + " is not a halfface of the cell with v0,v1,v2 consecutive");
                        if (r < 0 && simple) for (int hf : b.C[c]) if (r_fhfc(b, t, c, hf)) { fl.fail("C10", call + " is invalid but halfface " + std::to_string(hf) + " of the cell has v0,v1,v2 consecutive"); break; }
                    }
                }
            }
        // find_halfface(halfedges)
        for (int h0 = 0; h0 < 2 * NE; ++h0) {
            o << "Q fhfh " << h0 << " :";
            for (int h1 = 0; h1 < 2 * NE; ++h1) {
                std::vector<HalfEdgeHandle> hv{HalfEdgeHandle(h0), HalfEdgeHandle(h1)};
                int r = m.find_halfface(hv).idx();
                o << " " << ho(r);
                if (o10 && b.ebu) {
                    int wit = -1;
                    for (int hf = 0; hf < 2 * NF && wit < 0; ++hf) if (b.live_f(hf / 2)) { auto hes = b.halfface(hf); if (contains(hes, h0) && contains(hes, h1)) wit = hf; }
                    std::string call = "find_halfface(halfedges " + std::to_string(h0) + "," + std::to_string(h1) + ")";
                    if (r >= 0) { bool okk = r < 2 * NF && b.live_f(r / 2); if (okk) { auto hes = b.halfface(r); okk = contains(hes, h0) && contains(hes, h1); } if (!okk) fl.fail("C10", call + " = " + std::to_string(r) + " is not a live halfface containing both halfedges"); }
                    if (r < 0 && wit >= 0) fl.fail("C10", call + " is invalid but halfface " + std::to_string(wit) + " contains both");
                }
            }
            o << "\n";
        }
        // get_halfface_vertices
        for (int hf = 0; hf < 2 * NF; ++hf) {
            auto expect = b.hfv(hf);
            auto rotated = [&](int v) { auto it = std::find(expect.begin(), expect.end(), v); std::vector<int> r = expect; if (it != expect.end()) std::rotate(r.begin(), r.begin() + (it - expect.begin()), r.end()); return r; };
            auto g = idxs(m.get_halfface_vertices(HalfFaceHandle(hf)));
            o << "Q ghv " << hf << " : " << spaced(g) << "\n";
            if (o10 && g != expect) fl.fail("C10", "get_halfface_vertices(" + std::to_string(hf) + ") differs from the from-vertices of the stored halfedges");
            o << "Q ghvv " << hf << " :";
            for (int v = 0; v < NV; ++v) {
                auto gv = idxs(m.get_halfface_vertices(HalfFaceHandle(hf), VertexHandle(v)));
                o << (v ? " [" : " [") << spaced(gv) << "]";
                if (o10 && gv != rotated(v)) fl.fail("C10", "get_halfface_vertices(" + std::to_string(hf) + ", vertex " + std::to_string(v) + ") is not the vertex cycle rotated to start at that vertex");
            }
            o << "\n";
            o << "Q ghvh " << hf << " :";
            for (int h = 0; h < 2 * NE; ++h) {
                auto gh = idxs(m.get_halfface_vertices(HalfFaceHandle(hf), HalfEdgeHandle(h)));
                o << " [" << spaced(gh) << "]";
                if (o10 && gh != rotated(b.from(h))) fl.fail("C10", "get_halfface_vertices(" + std::to_string(hf) + ", halfedge " + std::to_string(h) + ") is not the vertex cycle rotated to start at the halfedge's from-vertex");
            }
            o << "\n";
        }
        // is_incident
        for (int f = 0; f < NF; ++f) {
            o << "Q inc " << f << " : ";
            for (int e = 0; e < NE; ++e) {
                bool r = m.is_incident(FaceHandle(f), EdgeHandle(e));
                o << (r ? "1" : "0");
                bool ex = false;
                for (int h : b.F[f]) ex = ex || h / 2 == e;
                if (o10 && r != ex) fl.fail("C10", "is_incident(face " + std::to_string(f) + ", edge " + std::to_string(e) + ") = " + std::to_string(r) + " contradicts the stored face");
            }
            o << "\n";
        }
        // n_vertices_in_cell
        o << "Q nvc :";
        for (int c = 0; c < NC; ++c) {
            size_t r = m.n_vertices_in_cell(CellHandle(c));
            o << " " << r;
            if (o10) {
                std::vector<int> tos, ends;
                bool closed_faces = true;
                for (int hf : b.C[c]) { auto hes = b.halfface(hf); for (size_t i = 0; i < hes.size(); ++i) { tos.push_back(b.to(hes[i])); ends.push_back(b.to(hes[i])); ends.push_back(b.from(hes[i])); closed_faces = closed_faces && b.to(hes[i]) == b.from(hes[(i + 1) % hes.size()]); } }
                std::sort(tos.begin(), tos.end()); tos.erase(std::unique(tos.begin(), tos.end()), tos.end());
                std::sort(ends.begin(), ends.end()); ends.erase(std::unique(ends.begin(), ends.end()), ends.end());
                if (r != tos.size() || (closed_faces && r != ends.size())) fl.fail("C10", "n_vertices_in_cell(" + std::to_string(c) + ") = " + std::to_string(r) + " but the cell's halfedges touch " + std::to_string(ends.size()) + " distinct vertices");
            }
        }
        o << "\n";
        // next / prev_halfedge_in_halfface
        for (int hf = 0; hf < 2 * NF; ++hf) {
            auto hes = b.halfface(hf);
            std::vector<int> args = hes;
            for (int h = 0; h < 2 * NE; ++h) if (!contains(hes, h)) { args.push_back(h); break; }
            o << "Q nxt " << hf << " :";
            for (int h : args) {
                int nx = m.next_halfedge_in_halfface(HalfEdgeHandle(h), HalfFaceHandle(hf)).idx();
                int pv = m.prev_halfedge_in_halfface(HalfEdgeHandle(h), HalfFaceHandle(hf)).idx();
                o << " " << h << "=" << ho(nx) << "/" << ho(pv);
                if (o10) {
                    auto it = std::find(hes.begin(), hes.end(), h);
                    int enx = -1, epv = -1;
                    if (it != hes.end()) { size_t i = it - hes.begin(), n = hes.size(); enx = hes[(i + 1) % n]; epv = hes[(i + n - 1) % n]; }
                    if (nx != enx || pv != epv) fl.fail("C10", "next/prev_halfedge_in_halfface(" + std::to_string(h) + "," + std::to_string(hf) + ") = " + std::to_string(nx) + "/" + std::to_string(pv) + " but the stored cycle gives " + std::to_string(enx) + "/" + std::to_string(epv));
                }
            }
            o << "\n";
        }
    }
    if (b.fbu) { o << "Q closed : "; for (int c = 0; c < NC; ++c) o << (closed[c] ? "1" : "0"); o << "\n"; }
    else o << "Q closed off\n";
    if (mask & 2) {
        if (b.fbu) {
            for (int hf = 0; hf < 2 * NF; ++hf) {
                auto hes = b.halfface(hf);
                std::vector<int> args = hes;
                for (int h : hes) args.push_back(h ^ 1);
                o << "Q adj " << hf << " :";
                for (int h : args) o << " " << h << "=" << ho(m.adjacent_halfface_in_cell(HalfFaceHandle(hf), HalfEdgeHandle(h)).idx());
                o << "\n";
            }
            if (o09)
                for (int c = 0; c < NC; ++c) {
                    if (!b.live_c(c) || !closed[c]) continue;
                    for (int hf : b.C[c]) {
                        auto hes = b.halfface(hf);
                        for (int he : hes) {
                            int expect = matches(b, c, hf, he)[0];
                            int r = m.adjacent_halfface_in_cell(HalfFaceHandle(hf), HalfEdgeHandle(he)).idx();
                            std::string call = "adjacent_halfface_in_cell(" + std::to_string(hf) + "," + std::to_string(he) + ") in closed cell " + std::to_string(c);
                            if (r != expect) { fl.fail("C09", call + " = " + std::to_string(r) + " but the unique other halfface at that edge is " + std::to_string(expect)); continue; }
                            int back = m.adjacent_halfface_in_cell(HalfFaceHandle(r), HalfEdgeHandle(he ^ 1)).idx();
                            if (back != hf) fl.fail("C09", call + " = " + std::to_string(r) + " but applying it again across the same edge gives " + std::to_string(back));
                            if (!contains(hes, he ^ 1)) {
                                int flipped = m.adjacent_halfface_in_cell(HalfFaceHandle(hf), HalfEdgeHandle(he ^ 1)).idx();
                                if (flipped != expect) fl.fail("C09", call + ": with the opposite halfedge (unambiguous) the result is " + std::to_string(flipped) + " instead of " + std::to_string(expect));
                            }
                        }
                    }
                }
        } else o << "Q adj off\n";
    }
    o << qx.str();
}

// ---------------------------------------------------------------- C09 fan oracle (after every operation)
// Classifies every live edge by brute force over the stored definitions (never calling adjacent_halfface_in_cell)
// and checks the rotational order of the halfedge->halfface circulator on the edges that are single fans.
static void oracle_fans(World<Mesh> &w, Fails &fl, long *nfans, long *nfan_big) {
    auto &m = w.mesh;
    Brute b = brute(w);
    if (!b.ebu || !b.fbu) return;
    const int NF = b.nf(), NC = b.nc();
    // live cells containing each halfface (with multiplicity)
    std::vector<std::vector<int>> cells_of(2 * NF);
    for (int c = 0; c < NC; ++c) if (b.live_c(c)) for (int hf : b.C[c]) if (hf >= 0 && hf < 2 * NF) cells_of[hf].push_back(c);
    for (int e = 0; e < b.ne(); ++e) {
        if (!b.live_e(e)) continue;
        int h = 2 * e;
        std::vector<int> B;
        bool fan = true;
        for (int hf = 0; hf < 2 * NF && fan; ++hf) {
            if (!b.live_f(hf / 2)) continue;
            auto hes = b.halfface(hf);
            int k = count_of(hes, h);
            if (k > 1 || (k == 1 && count_of(hes, h ^ 1) > 0)) fan = false;   // not a simple face at this edge
            if (k == 1) B.push_back(hf);
        }
        if (!fan || B.empty()) continue;
        // sigma and its inverse, by brute force
        std::map<int, int> sig;          // hf -> sigma(hf); absent = boundary
        int nb = 0, last = -1;
        for (int hf : B) {
            if (cells_of[hf].size() > 1 || cells_of[hf ^ 1].size() > 1) { fan = false; break; }
            if (cells_of[hf].empty()) { ++nb; last = hf; continue; }
            int c = cells_of[hf][0];
            auto ms = matches(b, c, hf, h);
            if (ms.size() != 1) { fan = false; break; }
            int y = ms[0] ^ 1;
            if (!contains(B, y)) { fan = false; break; }
            // backward consistency: from the other side of the same cell we come back, uniquely
            auto back = matches(b, c, ms[0], h ^ 1);
            if (back.size() != 1 || back[0] != hf) { fan = false; break; }
            sig[hf] = y;
        }
        if (!fan) continue;
        size_t n = B.size();
        std::vector<int> walk;
        bool cycle = nb == 0;
        if (cycle) {
            int cur = B[0];
            for (size_t i = 0; i < n; ++i) { if (contains(walk, cur)) { fan = false; break; } walk.push_back(cur); cur = sig[cur]; }
            if (fan && cur != B[0]) fan = false;
        } else if (nb == 1) {
            std::set<int> images;
            for (auto &kv : sig) images.insert(kv.second);
            std::vector<int> starts;
            for (int hf : B) if (!images.count(hf)) starts.push_back(hf);
            if (starts.size() != 1 || !cells_of[starts[0] ^ 1].empty()) fan = false;
            else {
                int cur = starts[0];
                for (size_t i = 0; i < n; ++i) {
                    if (contains(walk, cur)) { fan = false; break; }
                    walk.push_back(cur);
                    if (i + 1 < n) { if (!sig.count(cur)) { fan = false; break; } cur = sig[cur]; }
                }
                if (fan && walk.back() != last) fan = false;
            }
        } else fan = false;
        if (!fan || walk.size() != n) continue;
        ++*nfans; if (n >= 3) ++*nfan_big;
        // the circulator's order
        std::vector<int> L, L2;
        for (auto it = m.hehf_iter(HalfEdgeHandle(h)); it.valid(); ++it) L.push_back(it->idx());
        for (auto it = m.hehf_iter(HalfEdgeHandle(h ^ 1)); it.valid(); ++it) L2.push_back(it->idx());
        std::string where = "edge " + std::to_string(e) + " (" + (cycle ? "closed ring" : "open chain") + " of " + std::to_string(n) + " halffaces): halfedge_halffaces(" + std::to_string(h) + ") = [" + spaced(L) + "]";
        if (L.size() != n) { fl.fail("C09", where + " does not list the " + std::to_string(n) + " incident halffaces"); continue; }
        bool okk = true;
        if (cycle) { for (size_t i = 0; i < n && okk; ++i) okk = contains(B, L[i]) && sig[L[i]] == L[(i + 1) % n]; }
        else okk = L == walk;
        if (!okk) { fl.fail("C09", where + " is not in rotational order; the fan is [" + spaced(walk) + "]"); continue; }
        std::vector<int> mir;
        for (size_t i = 0; i < n; ++i) mir.push_back(L[n - 1 - i] ^ 1);
        if (L2 != mir) fl.fail("C09", where + " but the opposite halfedge lists [" + spaced(L2) + "] instead of the mirrored reverse [" + spaced(mir) + "]");
    }
}

static void run_script(const std::vector<std::string> &lines) {
    World<Mesh> w;
    bool tainted = false;     // set_edge / set_face / set_cell executed: the code documents that they do not reorder
    long nfans = 0, nfan_big = 0;
    int lineno = 0;
    for (auto &line : lines) {
        ++lineno;
        auto toks = split_ws(line);
        std::ostringstream o;
        Fails fl;
        if (toks[0] == "QLookup") {
            long seed = std::stol(toks.at(1)); int mask = std::stoi(toks.at(2));
            o << "== " << lineno << " QLookup " << toks[1] << " " << toks[2] << " -> Ok -\n";
            dump_state(w, o);
            qlookup(w, seed, mask, o, fl);
        } else {
            try {
                Result r = exec_line(w, toks);
                o << "== " << lineno << " " << r.echo << " -> ";
                if (r.rejected) o << "Rejected\n";
                else if (r.has) o << "Ok " << r.r << "\n";
                else o << "Ok -\n";
                if (!r.rejected) { auto op = split_ws(r.echo)[0]; if (op == "SetE" || op == "SetF" || op == "SetC") tainted = true; if (op == "Clear") tainted = false; }
            } catch (Unresolvable &) {
                std::string t = line;
                size_t bb = t.find_first_not_of(" \t"), e = t.find_last_not_of(" \t\r\n");
                o << "== " << lineno << " " << t.substr(bb, e - bb + 1) << " -> Unresolvable\n";
            }
            dump_state(w, o);
            if (on("C09") && !tainted) oracle_fans(w, fl, &nfans, &nfan_big);
        }
        o << fl.buf.str();
        std::string s = o.str();
        fwrite(s.data(), 1, s.size(), stdout);
        fflush(stdout);
    }
    if (on("C09")) fprintf(stderr, "FANS %ld %ld\n", nfans, nfan_big);
}

int main(int argc, char **argv) {
    if (argc < 2) { fprintf(stderr, "usage: run_lookup [--oracle C09,C10|all] <scripts>\n"); return 2; }
    int ai = 1;
    if (std::string(argv[1]) == "--oracle" && argc >= 4) {
        std::string l = argv[2]; size_t p = 0;
        while (p <= l.size()) { size_t q = l.find(',', p); if (q == std::string::npos) q = l.size(); if (q > p) g_oracles.insert(l.substr(p, q - p)); p = q + 1; }
        ai = 3;
    }
    std::ifstream in(argv[ai]);
    std::string line, name;
    std::vector<std::string> cur;
    bool have = false;
    auto flush_script = [&]() {
        if (!have) return;
        printf("%s\n", name.c_str());
        fflush(stdout);
        pid_t pid = fork();
        if (pid == 0) { run_script(cur); fflush(stdout); _exit(0); }
        int st = 0;
        waitpid(pid, &st, 0);
        if (!(WIFEXITED(st) && WEXITSTATUS(st) == 0)) {
            printf("!! CRASH status=%d\n", WIFSIGNALED(st) ? 1000 + WTERMSIG(st) : WEXITSTATUS(st));
            fflush(stdout);
        }
    };
    while (std::getline(in, line)) {
        size_t b = line.find_first_not_of(" \t\r");
        if (b == std::string::npos || line[b] == '%') continue;
        if (line.compare(b, 4, "####") == 0) {
            flush_script();
            name = line.substr(b); while (!name.empty() && (name.back() == '\r' || name.back() == ' ')) name.pop_back();
            cur.clear(); have = true;
        } else cur.push_back(line);
    }
    flush_script();
    return 0;
}
