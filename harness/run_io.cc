// run_io.cc -- OVMB binary format harness (C06 / C07 / C18): feeds byte strings to the REAL reader and runs the REAL
// writer on meshes built from kernel scripts, printing canonical text that lib/checks_ovmb.py compares line by line
// with the extracted Coq model (ocaml/ovmbdriver.ml).
//
// Input (file argv[1] or stdin): a sequence of cases
//   case <id> mode=read mesh=poly|tet|hex check=0|1 bu=0|1 api=stream|path fault=none|read@<k>
//   hex <hex bytes>                    (may be repeated; concatenated;  "hex -" = empty)
//   end
//   case <id> mode=write mesh=poly|tet|hex topo=auto|poly|tet|hex fault=none|write@<k>
//   k <kernel script line>             (harness/kernel_exec.hh: AddVs 4 / @AddE 0 1 1 / @AddF 0 0 2 4 / @AddC 0 ... / @DelV 0 / GC)
//   rawE a b / rawF h.. / rawC h..     (direct add_edge(a,b,true) / add_face(..,false) / add_cell(..,false): big meshes, empty cells)
//   pos <v> <hex64 x> <hex64 y> <hex64 z>
//   prop <kind V|E|HE|F|HF|C|M> <ovmb type> <name hex|-> <default hex|-> [<value hex|->]*   (values: first n elements)
//   end
// Output per case:  "== <id>", then for read:  "result=<ReadResult> state=<ReadState|->" [+ mesh block when Ok] [+ "!O ..." oracle lines]
//                                   for write: "wresult=<WriteResult>", the observed mesh block with properties in WRITER order
//                                              ("W ..." lines), "bytes <hex>", "rt=<ok|...>" [+ "!O ..." lines]
// Cases run in a forked worker (alarm 2 s per case): a crash / sanitizer abort / timeout is reported as "!! CRASH" / "!! TIMEOUT"
// for that case only and a fresh worker continues with the next case.
#include "probe.hh"
#include "kernel_exec.hh"
#include "faultstream.hh"
#include <OpenVolumeMesh/IO/ovmb_read.hh>
#include <OpenVolumeMesh/IO/ovmb_write.hh>
#include <OpenVolumeMesh/IO/PropertyCodecs.hh>
#include <fstream>
#include <iostream>
#include <sstream>
#include <algorithm>
#include <cstring>
#include <csignal>
#include <fcntl.h>

using namespace ovmv;
namespace IO = OpenVolumeMesh::IO;
using IO::detail::BinaryFileReader;

// ---- legal access to the private state_ of BinaryFileReader (explicit instantiation may name private members)
template <typename Tag, typename Tag::type M> struct Rob { friend typename Tag::type get(Tag) { return M; } };
struct StateTag { typedef IO::ReadState BinaryFileReader::*type; friend type get(StateTag); };
template struct Rob<StateTag, &BinaryFileReader::state_>;

typedef GeometryKernel<Vec3d, TopologyKernel> PolyMesh;
typedef GeometryKernel<Vec3d, TetrahedralMeshTopologyKernel> TetMesh;
typedef GeometryKernel<Vec3d, HexahedralMeshTopologyKernel> HexMesh;

// ------------------------------------------------------------------------------------------------ hex helpers
static std::string to_hex(const std::string &s) {
    static const char *d = "0123456789abcdef";
    std::string o; o.reserve(2 * s.size());
    for (unsigned char c : s) { o.push_back(d[c >> 4]); o.push_back(d[c & 15]); }
    return o;
}
static std::string hex_or_dash(const std::string &s) { return s.empty() ? "-" : to_hex(s); }
static int hv(char c) { if (c >= '0' && c <= '9') return c - '0'; if (c >= 'a' && c <= 'f') return c - 'a' + 10; if (c >= 'A' && c <= 'F') return c - 'A' + 10; return -1; }
static std::string from_hex(const std::string &h) {
    if (h == "-") return "";
    std::string o;
    for (size_t i = 0; i + 1 < h.size(); i += 2) { int a = hv(h[i]), b = hv(h[i + 1]); if (a < 0 || b < 0) { fprintf(stderr, "bad hex\n"); exit(3); } o.push_back((char)(a * 16 + b)); }
    return o;
}

// ------------------------------------------------------------------------------------------------ values <-> bytes
// canonical value representation = little-endian bytes of the C++ value (independent of the library's codecs)
using Geometry::VectorT;
template <class T, class = void> struct VB;
template <class T> struct VB<T, std::enable_if_t<std::is_arithmetic_v<T> && !std::is_same_v<T, bool>>> {
    static std::string to(const T &v) { std::string s(sizeof(T), 0); std::memcpy(&s[0], &v, sizeof(T)); return s; }
    static T from(const std::string &s) { T v{}; std::memcpy(&v, s.data(), std::min(sizeof(T), s.size())); return v; }
};
template <> struct VB<bool> {
    static std::string to(bool v) { return std::string(1, v ? 1 : 0); }
    static bool from(const std::string &s) { return !s.empty() && s[0] != 0; }
};
template <> struct VB<std::string> {
    static std::string to(const std::string &v) { return v; }
    static std::string from(const std::string &s) { return s; }
};
template <class T> struct VB<T, std::enable_if_t<is_handle_v<T>>> {
    static std::string to(const T &v) { return VB<int32_t>::to(v.idx()); }
    static T from(const std::string &s) { return T(VB<int32_t>::from(s)); }
};
template <class S, int N> struct VB<VectorT<S, N>> {
    static std::string to(const VectorT<S, N> &v) { std::string s; for (int i = 0; i < N; ++i) s += VB<S>::to(v[i]); return s; }
    static VectorT<S, N> from(const std::string &s) { VectorT<S, N> v; for (int i = 0; i < N; ++i) v[i] = VB<S>::from(s.size() >= (size_t)(i + 1) * sizeof(S) ? s.substr(i * sizeof(S), sizeof(S)) : std::string()); return v; }
};

typedef VectorT<double, 2> V2d; typedef VectorT<double, 3> V3d; typedef VectorT<double, 4> V4d;
typedef VectorT<float, 2> V2f; typedef VectorT<float, 3> V3f; typedef VectorT<float, 4> V4f;
typedef VectorT<uint32_t, 2> V2u; typedef VectorT<uint32_t, 3> V3u; typedef VectorT<uint32_t, 4> V4u;
typedef VectorT<int32_t, 2> V2i; typedef VectorT<int32_t, 3> V3i; typedef VectorT<int32_t, 4> V4i;
#define OVMB_TYPES(X) \
    X("b", bool) X("u8", uint8_t) X("u16", uint16_t) X("u32", uint32_t) X("u64", uint64_t) \
    X("i8", int8_t) X("i16", int16_t) X("i32", int32_t) X("i64", int64_t) X("f", float) X("d", double) \
    X("s32", std::string) X("vh", VH) X("eh", EH) X("heh", HEH) X("fh", FH) X("hfh", HFH) X("ch", CH) \
    X("2d", V2d) X("3d", V3d) X("4d", V4d) X("2f", V2f) X("3f", V3f) X("4f", V4f) \
    X("2u32", V2u) X("3u32", V3u) X("4u32", V4u) X("2i32", V2i) X("3i32", V3i) X("4i32", V4i)

// entity order of the writer (for_each_entity) and OVMB PropertyEntity numbering
static const char *ENT_NAMES[7] = {"V", "E", "HE", "F", "HF", "C", "M"};          // for_each_entity order
static int ovmb_entity_code(int k) { static const int c[7] = {0, 1, 4, 2, 5, 3, 6}; return c[k]; }

struct PropDump { int ent; std::string name, type, def; std::vector<std::string> vals; size_t size; };

template <class T>
static void dump_typed(const char *tn, PropertyStorageBase *p, PropDump &d) {
    auto *s = p->cast_to_StorageT<T>();
    d.type = tn;
    d.def = VB<T>::to(s->def());
    const auto &vec = s->data_vector();
    d.size = vec.size();
    for (size_t i = 0; i < vec.size(); ++i) { T v = vec[i]; d.vals.push_back(VB<T>::to(v)); }
}
static bool dump_prop(PropertyStorageBase *p, PropDump &d) {
    d.name = p->name();
#define X(tn, T) if (p->internal_type_name() == OpenVolumeMesh::detail::internal_type_name<T>()) { dump_typed<T>(tn, p, d); return true; }
    OVMB_TYPES(X)
#undef X
    return false;
}

template <class M, class Tag> static void collect_props(M &m, int ent, std::vector<PropDump> &out, bool values = true) {
    for (auto it = m.template persistent_props_begin<Tag>(); it != m.template persistent_props_end<Tag>(); ++it) {
        PropDump d; d.ent = ent;
        PropertyStorageBase *sp = *it;
        if (!values) { d.type = "-"; d.name = sp->name(); d.size = sp->size(); }
        else if (!dump_prop(sp, d)) { d.type = "?"; d.name = sp->name(); d.size = sp->size(); }
        out.push_back(std::move(d));
    }
}
template <class M> static std::vector<PropDump> all_props(M &m, bool values = true) {
    std::vector<PropDump> v;
    collect_props<M, Entity::Vertex>(m, 0, v, values); collect_props<M, Entity::Edge>(m, 1, v, values); collect_props<M, Entity::HalfEdge>(m, 2, v, values);
    collect_props<M, Entity::Face>(m, 3, v, values); collect_props<M, Entity::HalfFace>(m, 4, v, values); collect_props<M, Entity::Cell>(m, 5, v, values);
    collect_props<M, Entity::Mesh>(m, 6, v, values);
    return v;
}

template <class M> static size_t ent_count(M &m, int ent) {
    switch (ent) { case 0: return m.n_vertices(); case 1: return m.n_edges(); case 2: return m.n_halfedges(); case 3: return m.n_faces();
                   case 4: return m.n_halffaces(); case 5: return m.n_cells(); default: return 1; }
}

// canonical mesh block.  writer_order=false: properties sorted by (entity, name, type) as "P" lines; true: writer order as "W" lines
template <class M> static void mesh_block(M &m, std::ostream &o, bool writer_order) {
    o << "nv " << m.n_vertices() << "\n";
    o << "E";
    for (size_t i = 0; i < m.n_edges(); ++i) { auto e = m.edge(EdgeHandle((int)i)); o << " " << e.from_vertex().idx() << "," << e.to_vertex().idx(); }
    o << "\nF";
    for (size_t i = 0; i < m.n_faces(); ++i) o << " " << hlist(m.face(FaceHandle((int)i)).halfedges());
    o << "\nC";
    for (size_t i = 0; i < m.n_cells(); ++i) o << " " << hlist(m.cell(CellHandle((int)i)).halffaces());
    o << "\nPOS";
    { const auto &pp = m.vertex_positions();
      for (size_t i = 0; i < pp.size(); ++i) { Vec3d p = pp[VertexHandle((int)i)]; o << " " << to_hex(VB<double>::to(p[0])) << "," << to_hex(VB<double>::to(p[1])) << "," << to_hex(VB<double>::to(p[2])); } }
    o << "\n";
    auto props = all_props(m);
    if (!writer_order)
        std::stable_sort(props.begin(), props.end(), [](const PropDump &a, const PropDump &b) {
            return std::make_tuple(a.ent, a.name, a.type) < std::make_tuple(b.ent, b.name, b.type); });
    for (auto &d : props) {
        o << (writer_order ? "W " : "P ") << ENT_NAMES[d.ent] << " " << hex_or_dash(d.name) << " " << d.type << " def=" << hex_or_dash(d.def) << " n=" << d.size << " :";
        for (auto &v : d.vals) o << " " << hex_or_dash(v);
        o << "\n";
    }
}

// impl-side oracle (independent of the model): every stored handle designates an existing entity, every property
// (persistent ones and the position property) has one element per entity
template <class M> static std::string mesh_valid(M &m) {
    size_t nv = m.n_vertices(), ne = m.n_edges(), nf = m.n_faces();
    for (size_t i = 0; i < ne; ++i) { auto e = m.edge(EdgeHandle((int)i)); if (e.from_vertex().idx() < 0 || (size_t)e.from_vertex().idx() >= nv || e.to_vertex().idx() < 0 || (size_t)e.to_vertex().idx() >= nv) return "edge " + std::to_string(i) + " stores a vertex handle out of range"; }
    for (size_t i = 0; i < nf; ++i) for (auto h : m.face(FaceHandle((int)i)).halfedges()) if (h.idx() < 0 || (size_t)h.idx() >= 2 * ne) return "face " + std::to_string(i) + " stores a halfedge handle out of range";
    for (size_t i = 0; i < m.n_cells(); ++i) for (auto h : m.cell(CellHandle((int)i)).halffaces()) if (h.idx() < 0 || (size_t)h.idx() >= 2 * nf) return "cell " + std::to_string(i) + " stores a halfface handle out of range";
    if (m.vertex_positions().size() != nv) return "position property has " + std::to_string(m.vertex_positions().size()) + " elements for " + std::to_string(nv) + " vertices";
    for (auto &d : all_props(m, false)) if (d.size != ent_count(m, d.ent)) return std::string("property ") + ENT_NAMES[d.ent] + "/" + to_hex(d.name) + " has " + std::to_string(d.size) + " elements for " + std::to_string(ent_count(m, d.ent)) + " entities";
    return "";
}

// ------------------------------------------------------------------------------------------------ cases
struct Case {
    std::string id, mode = "read", mesh = "poly", api = "stream", fault = "none", topo = "auto";
    int check = 1, bu = 1;
    std::string bytes;
    std::vector<std::string> klines;
    std::vector<std::vector<std::string>> pos, props;
};

static const char *nm(const char *s) { return s ? s : "?"; }
static unsigned g_alarm = 2;      // --alarm <seconds>: per-case time limit
static bool g_nomesh = false;   // --nomesh: result + oracles only (files declaring millions of entities)

template <class M> static void do_read(const Case &c, std::ostream &o, const std::string &scratch) {
    M mesh;
    IO::ReadOptions opt; opt.topology_check = c.check != 0; opt.bottom_up_incidences = c.bu != 0;
    IO::ReadResult res; std::string state = "-";
    if (c.api == "path") {
        std::string p = scratch + "/case-" + std::to_string(getpid()) + ".ovmb";
        { std::ofstream f(p, std::ios::binary); f.write(c.bytes.data(), (std::streamsize)c.bytes.size()); }
        res = IO::ovmb_read(std::filesystem::path(p), mesh, opt);
        std::remove(p.c_str());
    } else {
        std::unique_ptr<std::streambuf> sb;
        if (c.fault.rfind("read@", 0) == 0) sb = std::make_unique<FaultInBuf>(c.bytes, (size_t)std::stoull(c.fault.substr(5)));
        else sb = std::make_unique<std::stringbuf>(c.bytes, std::ios::in | std::ios::binary);
        std::istream is(sb.get());
        // exactly the body of IO::ovmb_read(std::istream&, ...), keeping the reader to observe its final state
        auto reader = IO::make_ovmb_reader(is, opt, IO::g_default_property_codecs);
        res = reader->read_file(mesh);
        state = nm(IO::to_string((*reader).*get(StateTag())));
    }
    o << "result=" << nm(IO::to_string(res)) << " state=" << state << "\n";
    if (res == IO::ReadResult::Ok) {
        if (!g_nomesh) mesh_block(mesh, o, false);
        std::string bad = mesh_valid(mesh);
        if (!bad.empty()) o << "!O mesh_valid " << bad << "\n";
        if (c.bu && !(mesh.has_vertex_bottom_up_incidences() && mesh.has_edge_bottom_up_incidences() && mesh.has_face_bottom_up_incidences())) o << "!O bottom_up requested but not enabled\n";
        if (!c.bu && (mesh.has_vertex_bottom_up_incidences() || mesh.has_edge_bottom_up_incidences() || mesh.has_face_bottom_up_incidences())) o << "!O bottom_up not requested but enabled\n";
    }
}

template <class M, class T, class Tag> static bool make_typed_prop(M &m, const std::vector<std::string> &t) {
    auto p = m.template create_persistent_property<T, Tag>(from_hex(t[3]), VB<T>::from(from_hex(t[4])));
    if (!p) return false;
    using H = typename PropertyPtr<T, Tag>::EntityHandleT;
    for (size_t i = 5; i < t.size() && i - 5 < p->size(); ++i) (*p)[H((int)(i - 5))] = VB<T>::from(from_hex(t[i]));
    return true;
}
template <class M, class Tag> static bool make_prop_on(M &m, const std::vector<std::string> &t) {
#define X(tn, T) if (t[2] == tn) return make_typed_prop<M, T, Tag>(m, t);
    OVMB_TYPES(X)
#undef X
    if (t[2] == "unsupported") {   // a persistent property of a type without codec: the writer must skip it
        auto p = m.template create_persistent_property<std::vector<int>, Tag>(from_hex(t[3]), std::vector<int>());
        return (bool)p;
    }
    fprintf(stderr, "unknown prop type %s\n", t[2].c_str()); exit(3);
}
template <class M> static bool make_prop_any(M &m, const std::vector<std::string> &t) {
    const std::string &k = t[1];
    if (k == "V") return make_prop_on<M, Entity::Vertex>(m, t);
    if (k == "E") return make_prop_on<M, Entity::Edge>(m, t);
    if (k == "HE") return make_prop_on<M, Entity::HalfEdge>(m, t);
    if (k == "F") return make_prop_on<M, Entity::Face>(m, t);
    if (k == "HF") return make_prop_on<M, Entity::HalfFace>(m, t);
    if (k == "C") return make_prop_on<M, Entity::Cell>(m, t);
    if (k == "M") return make_prop_on<M, Entity::Mesh>(m, t);
    fprintf(stderr, "bad kind %s\n", k.c_str()); exit(3);
}

template <class M> static std::string canon(M &m) { std::ostringstream s; mesh_block(m, s, false); return s.str(); }

template <class M> static void do_write(const Case &c, std::ostream &o) {
    World<M> w;
    for (auto &l : c.klines) {
        auto toks = split_ws(l);
        if (toks.empty()) continue;
        // faces / cells the kernel-script layer treats as out of contract (empty lists): added through the API directly
        if (toks[0] == "rawE") { w.mesh.add_edge(VertexHandle(std::stoi(toks.at(1))), VertexHandle(std::stoi(toks.at(2))), true); continue; }
        if (toks[0] == "rawF") { std::vector<HalfEdgeHandle> hs; for (size_t i = 1; i < toks.size(); ++i) hs.push_back(HalfEdgeHandle(std::stoi(toks[i]))); w.mesh.add_face(hs, false); continue; }
        if (toks[0] == "rawC") { std::vector<HalfFaceHandle> hs; for (size_t i = 1; i < toks.size(); ++i) hs.push_back(HalfFaceHandle(std::stoi(toks[i]))); w.mesh.add_cell(hs, false); continue; }
        try { Result r = exec_line(w, toks); if (r.rejected) o << "# rejected: " << l << "\n"; } catch (Unresolvable &) { o << "# unresolvable: " << l << "\n"; }
    }
    auto &m = w.mesh;
    for (auto &p : c.pos) {
        int v = std::stoi(p[1]);
        if (v < 0 || (size_t)v >= m.n_vertices()) continue;
        m.set_vertex(VertexHandle(v), Vec3d(VB<double>::from(from_hex(p[2])), VB<double>::from(from_hex(p[3])), VB<double>::from(from_hex(p[4]))));
    }
    for (auto &p : c.props) if (!make_prop_any(m, p)) o << "# property not created (exists): " << p[1] << " " << p[3] << "\n";
    IO::WriteOptions wo;
    if (c.topo == "poly") wo.topology_type = IO::WriteOptions::TopologyType::Polyhedral;
    if (c.topo == "tet") wo.topology_type = IO::WriteOptions::TopologyType::Tetrahedral;
    if (c.topo == "hex") wo.topology_type = IO::WriteOptions::TopologyType::Hexahedral;
    std::string bytes; IO::WriteResult wr;
    if (c.fault.rfind("write@", 0) == 0) {
        FaultOutBuf fb((size_t)std::stoull(c.fault.substr(6)));
        std::ostream os(&fb);
        wr = IO::ovmb_write(os, m, wo);
        bytes = fb.written();
    } else {
        std::ostringstream os(std::ios::out | std::ios::binary);
        wr = IO::ovmb_write(os, m, wo);
        bytes = os.str();
    }
    o << "wresult=" << nm(IO::to_string(wr)) << "\n";
    o << "pending=" << (m.needs_garbage_collection() ? 1 : 0) << "\n";
    o << "topo=" << (c.topo != "auto" ? c.topo : (std::is_base_of_v<TetrahedralMeshTopologyKernel, M> ? "tet" : std::is_base_of_v<HexahedralMeshTopologyKernel, M> ? "hex" :
                      IO::detail::mesh_is_tetrahedral(m) ? "tet" : IO::detail::mesh_is_hexahedral(m) ? "hex" : "poly")) << "\n";
    mesh_block(m, o, true);
    o << "bytes " << hex_or_dash(bytes) << "\n";
    // impl-side oracle: write -> read -> compare (only for complete, successful writes)
    if (wr == IO::WriteResult::Ok && c.fault == "none") {
        M back;
        IO::ReadOptions ro; ro.topology_check = false; ro.bottom_up_incidences = false;
        std::istringstream is(bytes, std::ios::in | std::ios::binary);
        auto rr = IO::ovmb_read(is, back, ro);
        if (rr != IO::ReadResult::Ok) { o << "rt=" << nm(IO::to_string(rr)) << "\n"; o << "!O roundtrip reading the writer's output gives " << nm(IO::to_string(rr)) << "\n"; }
        else {
            // unsupported-type properties are not written: drop them from the comparison
            std::string a = canon(m), b = canon(back), a2;
            { std::istringstream s(a); std::string l; while (std::getline(s, l)) { auto t = split_ws(l); if (t.size() > 3 && t[0] == "P" && t[3] == "?") continue; a2 += l + "\n"; } }
            if (a2 == b) o << "rt=ok\n"; else { o << "rt=differs\n"; o << "!O roundtrip the mesh read back differs from the mesh written\n"; }
        }
    } else o << "rt=-\n";
}

static void run_case(const Case &c, std::ostream &o, const std::string &scratch) {
    if (c.mode == "read") {
        if (c.mesh == "poly") do_read<PolyMesh>(c, o, scratch);
        else if (c.mesh == "tet") do_read<TetMesh>(c, o, scratch);
        else do_read<HexMesh>(c, o, scratch);
    } else {
        if (c.mesh == "poly") do_write<PolyMesh>(c, o);
        else if (c.mesh == "tet") do_write<TetMesh>(c, o);
        else do_write<HexMesh>(c, o);
    }
}

// A worker child runs the cases from `from` on, one after the other (alarm 2 s per case), framing each case's output with
// begin/done markers on a pipe.  If the worker dies (crash, sanitizer abort, alarm) the case in flight is reported as
// "!! CRASH" / "!! TIMEOUT" and a new worker continues with the next case: a failure is confined to its case.
static size_t run_worker(const std::vector<Case> &cases, size_t from, const std::string &scratch, bool verbose) {
    int fd[2];
    if (pipe(fd) != 0) { perror("pipe"); exit(3); }
    std::cout.flush();
    pid_t pid = fork();
    if (pid == 0) {
        close(fd[0]);
        if (!verbose) { int dn = open("/dev/null", O_WRONLY); if (dn >= 0) { dup2(dn, 2); } }
        auto put = [&](const std::string &s) { size_t off = 0; while (off < s.size()) { ssize_t k = write(fd[1], s.data() + off, s.size() - off); if (k <= 0) _exit(4); off += (size_t)k; } };
        for (size_t i = from; i < cases.size(); ++i) {
            put("<<begin " + std::to_string(i) + ">>\n");
            alarm(g_alarm);
            std::ostringstream o;
            run_case(cases[i], o, scratch);
            alarm(0);
            put(o.str());
            put("<<done " + std::to_string(i) + ">>\n");
        }
        close(fd[1]);
        _exit(0);
    }
    close(fd[1]);
    std::string pending; char buf[65536]; ssize_t k;
    long in_flight = -1; size_t next = from; std::string cur;
    auto process_lines = [&]() {
        size_t pos;
        while ((pos = pending.find('\n')) != std::string::npos) {
            std::string line = pending.substr(0, pos); pending.erase(0, pos + 1);
            if (line.rfind("<<begin ", 0) == 0) { in_flight = std::stol(line.substr(8)); cur.clear(); }
            else if (line.rfind("<<done ", 0) == 0) {
                std::cout << "== " << cases[(size_t)in_flight].id << "\n" << cur; std::cout.flush();
                next = (size_t)in_flight + 1; in_flight = -1; cur.clear();
            } else cur += line + "\n";
        }
    };
    while ((k = read(fd[0], buf, sizeof buf)) > 0) { pending.append(buf, (size_t)k); process_lines(); }
    close(fd[0]);
    int st = 0; waitpid(pid, &st, 0);
    if (in_flight >= 0) {
        std::cout << "== " << cases[(size_t)in_flight].id << "\n";
        if (WIFSIGNALED(st) && WTERMSIG(st) == SIGALRM) std::cout << "!! TIMEOUT\n"; else std::cout << "!! CRASH\n";
        std::cout.flush();
        next = (size_t)in_flight + 1;
    } else if (!(WIFEXITED(st) && WEXITSTATUS(st) == 0) && next < cases.size()) {
        // died between two cases: attribute it to the next one
        std::cout << "== " << cases[next].id << "\n!! CRASH\n"; std::cout.flush();
        next += 1;
    }
    return next;
}

int main(int argc, char **argv) {
    std::string scratch = "/verif/build/run";
    bool nofork = false, verbose = false;
    const char *file = nullptr;
    for (int i = 1; i < argc; ++i) {
        std::string a = argv[i];
        if (a == "--nofork") nofork = true;
        else if (a == "--verbose") verbose = true;
        else if (a == "--nomesh") g_nomesh = true;
        else if (a == "--alarm" && i + 1 < argc) g_alarm = (unsigned)std::stoul(argv[++i]);
        else if (a == "--scratch" && i + 1 < argc) scratch = argv[++i];
        else file = argv[i];
    }
    std::ifstream fin;
    if (file) { fin.open(file); if (!fin) { fprintf(stderr, "cannot open %s\n", file); return 3; } }
    std::istream &in = file ? static_cast<std::istream &>(fin) : std::cin;
    std::string line;
    Case cur; bool open = false; std::vector<Case> all;
    while (std::getline(in, line)) {
        if (line.empty() || line[0] == '#') continue;
        auto t = split_ws(line);
        if (t.empty()) continue;
        if (t[0] == "case") {
            cur = Case(); open = true; cur.id = t.at(1);
            for (size_t i = 2; i < t.size(); ++i) {
                auto eq = t[i].find('=');
                if (eq == std::string::npos) continue;
                std::string k = t[i].substr(0, eq), v = t[i].substr(eq + 1);
                if (k == "mode") cur.mode = v; else if (k == "mesh") cur.mesh = v; else if (k == "check") cur.check = std::stoi(v);
                else if (k == "bu") cur.bu = std::stoi(v); else if (k == "api") cur.api = v; else if (k == "fault") cur.fault = v;
                else if (k == "topo") cur.topo = v;
            }
        } else if (!open) continue;
        else if (t[0] == "hex") { if (t.size() > 1) cur.bytes += from_hex(t[1]); }
        else if (t[0] == "k") { cur.klines.push_back(line.substr(line.find('k') + 1)); }
        else if (t[0] == "rawE" || t[0] == "rawF" || t[0] == "rawC") { cur.klines.push_back(line); }
        else if (t[0] == "pos") { if (t.size() >= 5) cur.pos.push_back(t); }
        else if (t[0] == "prop") { if (t.size() >= 5) cur.props.push_back(t); }
        else if (t[0] == "end") { all.push_back(cur); open = false; }
    }
    if (nofork) { for (auto &c : all) { std::cout << "== " << c.id << "\n"; std::ostringstream o; run_case(c, o, scratch); std::cout << o.str(); std::cout.flush(); } return 0; }
    size_t i = 0;
    while (i < all.size()) i = run_worker(all, i, scratch, verbose);
    return 0;
}
