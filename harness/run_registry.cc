// run_registry.cc -- multi-mesh script interpreter over the REAL library (rebuilt from /repo's working tree) for
// C13 (copy/assignment deep and independent) and C14 (property registry).  Prints after every operation the
// canonical dump that ocaml/regdriver.ml prints from the extracted model (coq/Reg/RegistryModel.v):
//   per live mesh : n_props / n_persistent_props per kind, the kernel state, every tracked storage, the
//                   persistent set, the position property   (storage lines SORTED: the std::set<pointer> order is
//                   never compared)
//   per handle    : attached/detached + the storage line
// and, with --oracle, impl-side oracles that do not use the model:
//   !O IND ...   something outside the footprint of the operation changed (snapshot before/after)
//   !O INV ...   persistent -> shared -> named and unique; persistent set = tracked storages flagged persistent
//   !O CPY ...   after a copy / assignment: kernel state, persistent properties and positions equal, nothing else
//                carried over, no storage shared, old storages of the target resized and no longer findable
// One forked child per script: a crash / sanitizer abort ends only that script ("!! CRASH").
#include "probe.hh"
#include "kernel_exec.hh"
#include <algorithm>
#include <fstream>
#include <iostream>
#include <set>
#include <stdexcept>

using namespace ovmv;

typedef GeometryKernel<Vec3d, TopologyKernel> PolyM;
typedef GeometryKernel<Vec3d, TetrahedralMeshTopologyKernel> TetM;
typedef GeometryKernel<Vec3d, HexahedralMeshTopologyKernel> HexM;

static bool g_oracle = false;

// ------------------------------------------------------------------------------------------- names, types
static std::string name_of(long tok) {
    if (tok == 0) return "";
    if (tok == 1) return "ovm:position";
    return "n" + std::to_string(tok);
}
static std::string tok_of_name(const std::string &n) {
    if (n.empty()) return "0";
    if (n == "ovm:position") return "1";
    if (n.size() > 1 && n[0] == 'n' && n.find_first_not_of("0123456789", 1) == std::string::npos) return n.substr(1);
    return "?" + n;
}
static const char *TYPE_NAMES[5] = {"int", "bool", "double", "string", "vec3d"};

template <class T> static void values_of(const PropertyStorageBase *b, std::ostream &o) {
    const PropertyStorageT<T> *s = b->cast_to_StorageT<T>();
    o << " def=" << Tok<T>::from(s->def()) << " :";
    const auto &v = s->data_vector();
    for (size_t i = 0; i < v.size(); ++i) o << " " << Tok<T>::from(v[i]);
}

// "<kind> <type> <name> sh= pe= n= def= : values"
static std::string storage_line(const PropertyStorageBase *b) {
    std::ostringstream o;
    o << KIND_NAMES[(int)b->entity_type()] << " ";
    const std::string &tn = b->internal_type_name();
    int ty = -1;
    if (tn == detail::internal_type_name<int>()) ty = 0;
    else if (tn == detail::internal_type_name<bool>()) ty = 1;
    else if (tn == detail::internal_type_name<double>()) ty = 2;
    else if (tn == detail::internal_type_name<std::string>()) ty = 3;
    else if (tn == detail::internal_type_name<Vec3d>()) ty = 4;
    o << (ty < 0 ? "?" : TYPE_NAMES[ty]) << " " << tok_of_name(b->name()) << " sh=" << (int)b->shared() << " pe=" << (int)b->persistent()
      << " n=" << b->size();
    switch (ty) {
    case 0: values_of<int>(b, o); break;
    case 1: values_of<bool>(b, o); break;
    case 2: values_of<double>(b, o); break;
    case 3: values_of<std::string>(b, o); break;
    case 4: values_of<Vec3d>(b, o); break;
    default: break;
    }
    return o.str();
}

template <class T, class F> static void by_kind(int kind, F &&f) {
    switch (kind) {
    case 0: f(T{}, Entity::Vertex{}); break;
    case 1: f(T{}, Entity::Edge{}); break;
    case 2: f(T{}, Entity::HalfEdge{}); break;
    case 3: f(T{}, Entity::Face{}); break;
    case 4: f(T{}, Entity::HalfFace{}); break;
    case 5: f(T{}, Entity::Cell{}); break;
    default: f(T{}, Entity::Mesh{}); break;
    }
}
template <class F> static void by_type_kind(const std::string &t, int kind, F &&f) {
    if (t == "int") by_kind<int>(kind, f);
    else if (t == "bool") by_kind<bool>(kind, f);
    else if (t == "double") by_kind<double>(kind, f);
    else if (t == "string") by_kind<std::string>(kind, f);
    else if (t == "vec3d") by_kind<Vec3d>(kind, f);
    else { fprintf(stderr, "bad type %s\n", t.c_str()); exit(3); }
}

// ------------------------------------------------------------------------------------------- handles
struct HBase {
    virtual ~HBase() {}
    virtual HBase *copy() = 0;
    virtual HBase *move_out() = 0;
    virtual PropertyStorageBase *raw() = 0;
    virtual bool attached() = 0;
    virtual size_t size() = 0;
    virtual void set(size_t i, long v) = 0;
    virtual void set_name(const std::string &n) = 0;
    virtual void set_shared(ResourceManager &m, bool b) = 0;
    virtual void set_persistent(ResourceManager &m, bool b) = 0;
};
template <class T, class E>
struct HT : HBase {
    struct P : PropertyPtr<T, E> {
        P(const PropertyPtr<T, E> &q) : PropertyPtr<T, E>(q) {}
        P(PropertyPtr<T, E> &&q) : PropertyPtr<T, E>(std::move(q)) {}
        PropertyStorageBase *raw() { return this->PropertyStoragePtr<T>::storage().get(); }
    } p;
    explicit HT(const PropertyPtr<T, E> &q) : p(q) {}
    struct MoveTag {};
    HT(PropertyPtr<T, E> &&q, MoveTag) : p(std::move(q)) {}
    HBase *copy() override { return new HT<T, E>(static_cast<const PropertyPtr<T, E> &>(p)); }
    HBase *move_out() override { return new HT<T, E>(std::move(static_cast<PropertyPtr<T, E> &>(p)), MoveTag{}); }
    PropertyStorageBase *raw() override { return p.raw(); }
    bool attached() override { return (bool)static_cast<const PropertyPtr<T, E> &>(p); }
    size_t size() override { return p.size(); }
    using H = typename PropertyPtr<T, E>::EntityHandleT;
    void set(size_t i, long v) override { p[H((int)i)] = Tok<T>::to(v); }
    void set_name(const std::string &n) override { p.set_name(n); }
    void set_shared(ResourceManager &m, bool b) override { m.set_shared<T, E>(p, b); }
    void set_persistent(ResourceManager &m, bool b) override { m.set_persistent<T, E>(p, b); }
};

// ------------------------------------------------------------------------------------------- meshes
template <class M> struct RegMesh : M { using M::storage_tracker; };

struct MeshBase {
    char type = 'P';
    virtual ~MeshBase() {}
    virtual ResourceManager &rm() = 0;
    virtual std::vector<PropertyStorageBase *> tracked(int kind) = 0;
    virtual std::vector<PropertyStorageBase *> persistent(int kind) = 0;
    virtual PropertyPtr<Vec3d, Entity::Vertex> &pos() = 0;
    virtual std::string kdump() = 0;
    virtual Result kexec(const std::vector<std::string> &toks) = 0;
    virtual MeshBase *clone() = 0;
    virtual void assign_from(MeshBase &src) = 0;
    virtual size_t count(int kind) = 0;
};

template <class M> struct MeshT;
template <class M> static const M &as_mesh(MeshBase &b);

template <class M>
struct MeshT : MeshBase {
    typedef RegMesh<M> RM;
    World<RM> w;
    MeshT(char t) { type = t; }
    MeshT(const MeshT &o) : w{Probe<RM>(o.w.mesh)} { type = o.type; }
    ResourceManager &rm() override { return w.mesh; }
    std::vector<PropertyStorageBase *> tracked(int kind) override {
        std::vector<PropertyStorageBase *> r;
        for (auto p : w.mesh.storage_tracker((EntityType)kind)) r.push_back(p);
        return r;
    }
    template <class E> void pers_e(std::vector<PropertyStorageBase *> &r) {
        auto it = w.mesh.template persistent_props_begin<E>();
        auto en = w.mesh.template persistent_props_end<E>();
        for (; it != en; ++it) r.push_back(*it);
    }
    std::vector<PropertyStorageBase *> persistent(int kind) override {
        std::vector<PropertyStorageBase *> r;
        switch (kind) {
        case 0: pers_e<Entity::Vertex>(r); break;
        case 1: pers_e<Entity::Edge>(r); break;
        case 2: pers_e<Entity::HalfEdge>(r); break;
        case 3: pers_e<Entity::Face>(r); break;
        case 4: pers_e<Entity::HalfFace>(r); break;
        case 5: pers_e<Entity::Cell>(r); break;
        default: pers_e<Entity::Mesh>(r); break;
        }
        return r;
    }
    PropertyPtr<Vec3d, Entity::Vertex> &pos() override { return w.mesh.vertex_positions(); }
    std::string kdump() override { std::ostringstream o; dump_state(w, o); return o.str(); }
    Result kexec(const std::vector<std::string> &toks) override { return exec_line(w, toks); }
    MeshBase *clone() override { return new MeshT<M>(*this); }
    void assign_from(MeshBase &src) override {
        M &me = w.mesh;
        switch (src.type) {
        case 'P': me = as_mesh<PolyM>(src); break;
        case 'T': me = as_mesh<TetM>(src); break;
        default: me = as_mesh<HexM>(src); break;
        }
    }
    size_t count(int kind) override {
        auto &m = w.mesh;
        switch (kind) {
        case 0: return m.n_vertices();
        case 1: return m.n_edges();
        case 2: return m.n_halfedges();
        case 3: return m.n_faces();
        case 4: return m.n_halffaces();
        case 5: return m.n_cells();
        default: return 1;
        }
    }
};
template <class M> static const M &as_mesh(MeshBase &b) { return static_cast<MeshT<M> &>(b).w.mesh; }

static MeshBase *make_mesh(char t) {
    if (t == 'P') return new MeshT<PolyM>('P');
    if (t == 'T') return new MeshT<TetM>('T');
    if (t == 'H') return new MeshT<HexM>('H');
    fprintf(stderr, "bad mesh type %c\n", t);
    exit(3);
}

// ------------------------------------------------------------------------------------------- interpreter state
struct State {
    std::map<long, std::unique_ptr<MeshBase>> meshes;   // script variable -> live mesh
    std::map<long, std::unique_ptr<HBase>> handles;     // script variable -> live handle
};

static std::string sorted_lines(std::vector<std::string> v, const std::string &prefix) {
    std::sort(v.begin(), v.end());
    std::string s;
    for (auto &l : v) s += prefix + l + "\n";
    return s;
}

static std::string mesh_block(long var, MeshBase &m) {
    std::ostringstream o;
    std::string pre = "M " + std::to_string(var) + " ";
    ResourceManager &rm = m.rm();
    size_t np[7] = {rm.n_props<Entity::Vertex>(), rm.n_props<Entity::Edge>(), rm.n_props<Entity::HalfEdge>(), rm.n_props<Entity::Face>(),
                    rm.n_props<Entity::HalfFace>(), rm.n_props<Entity::Cell>(), rm.n_props<Entity::Mesh>()};
    size_t pp[7] = {rm.n_persistent_props<Entity::Vertex>(), rm.n_persistent_props<Entity::Edge>(), rm.n_persistent_props<Entity::HalfEdge>(),
                    rm.n_persistent_props<Entity::Face>(), rm.n_persistent_props<Entity::HalfFace>(), rm.n_persistent_props<Entity::Cell>(),
                    rm.n_persistent_props<Entity::Mesh>()};
    o << pre << "cnt nprops=";
    for (int k = 0; k < 7; ++k) o << (k ? "," : "") << np[k];
    o << " npers=";
    for (int k = 0; k < 7; ++k) o << (k ? "," : "") << pp[k];
    o << "\n";
    {
        std::istringstream is(m.kdump());
        std::string l;
        while (std::getline(is, l)) o << pre << "k " << l << "\n";
    }
    std::vector<std::string> S, PS;
    for (int k = 0; k < 7; ++k) {
        for (auto p : m.tracked(k)) S.push_back(storage_line(p));
        for (auto p : m.persistent(k)) PS.push_back(storage_line(p));
    }
    o << sorted_lines(S, pre + "S ") << sorted_lines(PS, pre + "PS ");
    o << pre << "pos " << storage_line(static_cast<HT<Vec3d, Entity::Vertex>::P>(m.pos()).raw()) << "\n";
    return o.str();
}

static std::string handle_block(long var, HBase &h) {
    return "H " + std::to_string(var) + " att=" + (h.attached() ? "1 " : "0 ") + storage_line(h.raw()) + "\n";
}

// ------------------------------------------------------------------------------------------- oracles (impl only)
struct Snap {
    std::map<long, std::string> mesh, handle;
    std::map<long, std::set<PropertyStorageBase *>> tracked;   // per mesh var
    std::map<long, PropertyStorageBase *> hraw;
};
static Snap take_snap(State &st) {
    Snap s;
    for (auto &kv : st.meshes) {
        s.mesh[kv.first] = mesh_block(kv.first, *kv.second);
        for (int k = 0; k < 7; ++k) for (auto p : kv.second->tracked(k)) s.tracked[kv.first].insert(p);
    }
    for (auto &kv : st.handles) { s.handle[kv.first] = handle_block(kv.first, *kv.second); s.hraw[kv.first] = kv.second->raw(); }
    return s;
}

static void oracle_inv(State &st, std::ostream &o) {
    for (auto &kv : st.meshes) {
        MeshBase &m = *kv.second;
        std::string mv = "mesh " + std::to_string(kv.first) + ": ";
        for (int k = 0; k < 7; ++k) {
            auto tr = m.tracked(k);
            auto pe = m.persistent(k);
            std::set<PropertyStorageBase *> trs(tr.begin(), tr.end());
            std::set<std::string> keys;
            size_t nflag = 0;
            for (auto p : tr) {
                if (!(bool)*p) o << "!O INV " << mv << "tracked storage reports detached\n";
                if ((int)p->entity_type() != k) o << "!O INV " << mv << "storage tracked under the wrong entity kind\n";
                if (p->persistent()) { ++nflag; if (!p->shared()) o << "!O INV persistent_not_shared " << mv << KIND_NAMES[k] << " " << tok_of_name(p->name()) << "\n"; }
                if (p->shared()) {
                    if (p->anonymous()) o << "!O INV shared_anonymous " << mv << KIND_NAMES[k] << " property is shared but has no name\n";
                    std::string key = p->internal_type_name() + "\x01" + p->name();
                    if (!keys.insert(key).second) o << "!O INV shared_duplicate " << mv << "two shared " << KIND_NAMES[k] << " properties with the same type and name " << tok_of_name(p->name()) << "\n";
                }
            }
            for (auto p : pe) {
                if (!trs.count(p)) o << "!O INV " << mv << "persistent set holds a storage that is not tracked by this mesh\n";
                if (!p->persistent()) o << "!O INV " << mv << "persistent set holds a storage not flagged persistent\n";
            }
            if (nflag != pe.size()) o << "!O INV " << mv << "tracked storages flagged persistent (" << nflag << ") != n_persistent_props (" << pe.size() << ") for kind " << KIND_NAMES[k] << "\n";
        }
    }
    // every live handle refers to a storage that is either detached or tracked by exactly one live mesh
    for (auto &hv : st.handles) {
        PropertyStorageBase *p = hv.second->raw();
        int owners = 0;
        for (auto &kv : st.meshes) for (auto q : kv.second->tracked((int)p->entity_type())) if (q == p) ++owners;
        if (hv.second->attached() ? owners != 1 : owners != 0)
            o << "!O INV handle " << hv.first << ": attached=" << hv.second->attached() << " but tracked by " << owners << " live meshes\n";
    }
}

// footprint: meshes/handles the operation is allowed to change
static void oracle_ind(const Snap &a, const Snap &b, const std::set<long> &ok_meshes, const std::set<long> &ok_handles, const std::string &op, std::ostream &o) {
    for (auto &kv : a.mesh) {
        if (ok_meshes.count(kv.first)) continue;
        auto it = b.mesh.find(kv.first);
        if (it == b.mesh.end()) { o << "!O IND mesh " << kv.first << " disappeared during " << op << "\n"; continue; }
        if (it->second != kv.second) {
            // first differing line
            std::istringstream x(kv.second), y(it->second); std::string lx, ly;
            while (true) { bool gx = (bool)std::getline(x, lx), gy = (bool)std::getline(y, ly); if (!gx && !gy) break; if (lx != ly || gx != gy) break; }
            o << "!O IND mesh " << kv.first << " changed by " << op << " : was [" << lx << "] now [" << ly << "]\n";
        }
    }
    for (auto &kv : a.handle) {
        if (ok_handles.count(kv.first)) continue;
        auto it = b.handle.find(kv.first);
        if (it == b.handle.end()) { o << "!O IND handle " << kv.first << " disappeared during " << op << "\n"; continue; }
        if (it->second != kv.second) o << "!O IND handle " << kv.first << " changed by " << op << " : was [" << kv.second.substr(0, kv.second.size() - 1) << "] now [" << it->second.substr(0, it->second.size() - 1) << "]\n";
    }
}

static std::vector<std::string> grep_lines(const std::string &block, const std::string &tag) {
    std::vector<std::string> r;
    std::istringstream is(block); std::string l;
    while (std::getline(is, l)) {
        // "M <var> <tag> rest"
        size_t p = l.find(' ', 2);
        if (p == std::string::npos) continue;
        if (l.compare(p + 1, tag.size() + 1, tag + " ") == 0) r.push_back(l.substr(p + 2 + tag.size()));
    }
    return r;
}
// "V vec3d 1 sh=1 pe=0 n=3 def=0 : 1 2 3" -> the part after "n="
static std::string size_and_values(const std::string &line) { size_t p = line.find(" n="); return p == std::string::npos ? line : line.substr(p); }

static void oracle_cpy(State &st, long dst, long src, bool is_assign, const Snap &before, std::ostream &o) {
    MeshBase &d = *st.meshes[dst], &s = *st.meshes[src];
    std::string bd = mesh_block(dst, d), bs = mesh_block(src, s);
    if (grep_lines(bd, "k") != grep_lines(bs, "k")) o << "!O CPY kernel state (entities, deletion flags, modes, incidences) of the copy differs from the source\n";
    if (grep_lines(bd, "PS") != grep_lines(bs, "PS")) o << "!O CPY persistent properties of the copy are not equal-valued copies of the source's\n";
    auto pd = grep_lines(bd, "pos"), ps = grep_lines(bs, "pos");
    if (pd.empty() || ps.empty() || size_and_values(pd[0]) != size_and_values(ps[0])) o << "!O CPY vertex positions of the copy differ from the source\n";
    std::set<PropertyStorageBase *> ds, ss, dp;
    for (int k = 0; k < 7; ++k) {
        for (auto p : d.tracked(k)) ds.insert(p);
        for (auto p : s.tracked(k)) ss.insert(p);
        for (auto p : d.persistent(k)) dp.insert(p);
    }
    for (auto p : ds) if (ss.count(p)) o << "!O CPY the two meshes share a property storage\n";
    PropertyStorageBase *dpos = static_cast<HT<Vec3d, Entity::Vertex>::P>(d.pos()).raw();
    if (!ds.count(dpos)) o << "!O CPY the position property of the copy is not tracked by it\n";
    auto old = before.tracked.find(dst);
    for (auto p : ds) {
        if (dp.count(p) || p == dpos) continue;
        // carried over although not persistent?
        if (!is_assign) { o << "!O CPY the copy holds a property that is neither persistent in the source nor its position property: " << storage_line(p) << "\n"; continue; }
        // assignment: only storages the target already had (kept alive by handles) may remain
        if (old == before.tracked.end() || !old->second.count(p)) { o << "!O CPY a non-persistent property was carried over by the assignment: " << storage_line(p) << "\n"; continue; }
        if (p->shared() || p->persistent()) o << "!O CPY an old property of the assigned-to mesh is still shared/persistent (findable): " << storage_line(p) << "\n";
        if (p->size() != d.count((int)p->entity_type())) o << "!O CPY an old property of the assigned-to mesh is not sized to the new entity count: " << storage_line(p) << "\n";
    }
    // old handles stay attached to the target
    for (auto &hv : st.handles) {
        auto it = before.hraw.find(hv.first);
        if (it == before.hraw.end() || old == before.tracked.end() || !old->second.count(it->second)) continue;
        if (!hv.second->attached() || !ds.count(hv.second->raw())) o << "!O CPY handle " << hv.first << " into the assigned-to mesh is no longer tracked by it\n";
    }
}

// ------------------------------------------------------------------------------------------- one script
static long L(const std::vector<std::string> &t, size_t i) { return std::stol(t.at(i)); }

static void run_script(const std::vector<std::string> &lines) {
    State st;
    int lineno = 0;
    for (auto &line : lines) {
        ++lineno;
        auto t = split_ws(line);
        std::ostringstream o;
        std::string echo;
        for (size_t i = 0; i < t.size(); ++i) echo += (i ? " " : "") + t[i];
        std::string res;
        const std::string &op = t[0];
        Snap a;
        if (g_oracle) a = take_snap(st);
        std::set<long> okm, okh;
        auto mesh = [&](size_t i) -> MeshBase * { auto it = st.meshes.find(L(t, i)); return it == st.meshes.end() ? nullptr : it->second.get(); };
        auto hand = [&](size_t i) -> HBase * { auto it = st.handles.find(L(t, i)); return it == st.handles.end() ? nullptr : it->second.get(); };
        auto touch_mesh = [&](long var) {
            okm.insert(var);
            auto tr = a.tracked.find(var);
            if (tr != a.tracked.end()) for (auto &hr : a.hraw) if (tr->second.count(hr.second)) okh.insert(hr.first);
        };
        auto touch_handle = [&](long var) {
            okh.insert(var);
            auto it = a.hraw.find(var);
            if (it == a.hraw.end()) return;
            for (auto &hr : a.hraw) if (hr.second == it->second) okh.insert(hr.first);
            for (auto &tr : a.tracked) if (tr.second.count(it->second)) touch_mesh(tr.first);
        };
        long cpy_dst = -1, cpy_src = -1; bool cpy_assign = false;
        try {
            if (op == "NewMesh") {
                long v = L(t, 1);
                if (st.meshes.count(v)) res = "Rejected";
                else { st.meshes[v].reset(make_mesh(t.at(2)[0])); okm.insert(v); res = "Ok mesh"; }
            } else if (op == "CopyMesh") {
                long v = L(t, 1); MeshBase *s = mesh(2);
                if (!s || st.meshes.count(v)) res = "Rejected";
                else { st.meshes[v].reset(s->clone()); okm.insert(v); res = "Ok mesh"; cpy_dst = v; cpy_src = L(t, 2); }
            } else if (op == "Assign") {
                MeshBase *d = mesh(1), *s = mesh(2);
                if (!d || !s) res = "Rejected";
                else {
                    touch_mesh(L(t, 1));
                    d->assign_from(*s); res = "Ok";
                    if (d != s) { cpy_dst = L(t, 1); cpy_src = L(t, 2); cpy_assign = true; }
                }
            } else if (op == "DelMesh") {
                if (!mesh(1)) res = "Rejected";
                else { touch_mesh(L(t, 1)); st.meshes.erase(L(t, 1)); res = "Ok"; }
            } else if (op == "K") {
                MeshBase *m = mesh(1);
                std::vector<std::string> kt(t.begin() + 2, t.end());
                std::string kn = kt.at(0)[0] == '@' ? kt[0].substr(1) : kt[0];
                if (!m) res = "Rejected";
                else if (kn == "PCreate" || kn == "PSet" || kn == "PDrop") res = "Rejected";
                else if (m->type != 'P' && (kn == "AddF" || kn == "AddFV" || kn == "AddC")) res = "Unsupported";
                else {
                    touch_mesh(L(t, 1));
                    try {
                        Result r = m->kexec(kt);
                        echo = "K " + t[1] + " " + r.echo;
                        if (r.rejected) res = "Rejected";
                        else if (r.has) res = "Ok " + std::to_string(r.r);
                        else res = "Ok -";
                    } catch (Unresolvable &) { res = "Unresolvable"; }
                }
            } else if (op == "Request" || op == "CreateShared" || op == "CreatePersistent" || op == "CreatePrivate") {
                long hv = L(t, 1); MeshBase *m = mesh(2);
                if (!m || st.handles.count(hv)) res = "Rejected";
                else {
                    touch_mesh(L(t, 2));
                    int kind = kind_index(t.at(3)); std::string nm = name_of(L(t, 5)); long def = L(t, 6);
                    ResourceManager &rm = m->rm();
                    HBase *nh = nullptr;
                    by_type_kind(t.at(4), kind, [&](auto tv, auto ev) {
                        using T = decltype(tv); using E = decltype(ev);
                        if (op == "Request") nh = new HT<T, E>(rm.request_property<T, E>(nm, Tok<T>::to(def)));
                        else if (op == "CreatePrivate") nh = new HT<T, E>(rm.create_private_property<T, E>(nm, Tok<T>::to(def)));
                        else {
                            auto r = op == "CreateShared" ? rm.create_shared_property<T, E>(nm, Tok<T>::to(def))
                                                          : rm.create_persistent_property<T, E>(nm, Tok<T>::to(def));
                            if (r.has_value()) nh = new HT<T, E>(*r);
                        }
                    });
                    if (nh) { st.handles[hv].reset(nh); okh.insert(hv); res = "Ok handle"; } else res = "Ok none";
                }
            } else if (op == "Get") {
                long hv = L(t, 1); MeshBase *m = mesh(2);
                if (!m || st.handles.count(hv)) res = "Rejected";
                else {
                    int kind = kind_index(t.at(3)); std::string nm = name_of(L(t, 5));
                    ResourceManager &rm = m->rm();
                    HBase *nh = nullptr;
                    by_type_kind(t.at(4), kind, [&](auto tv, auto ev) {
                        using T = decltype(tv); using E = decltype(ev);
                        auto r = rm.get_property<T, E>(nm);
                        if (r.has_value()) nh = new HT<T, E>(*r);
                    });
                    if (nh) { st.handles[hv].reset(nh); okh.insert(hv); res = "Ok handle"; } else res = "Ok none";
                }
            } else if (op == "Exists") {
                MeshBase *m = mesh(1);
                if (!m) res = "Rejected";
                else {
                    int kind = kind_index(t.at(2)); std::string nm = name_of(L(t, 4));
                    const ResourceManager &rm = m->rm();
                    bool ex = false;
                    by_type_kind(t.at(3), kind, [&](auto tv, auto ev) {
                        using T = decltype(tv); using E = decltype(ev);
                        ex = rm.property_exists<T, E>(nm);
                    });
                    res = ex ? "Ok 1" : "Ok 0";
                }
            } else if (op == "SetShared" || op == "SetPersistent") {
                MeshBase *m = mesh(1); HBase *h = hand(2);
                if (!m || !h) res = "Rejected";
                else {
                    touch_mesh(L(t, 1)); touch_handle(L(t, 2));
                    if (op == "SetShared") h->set_shared(m->rm(), L(t, 3) != 0); else h->set_persistent(m->rm(), L(t, 3) != 0);
                    res = "Ok";
                }
            } else if (op == "SetName") {
                HBase *h = hand(1);
                if (!h) res = "Rejected";
                else { touch_handle(L(t, 1)); h->set_name(name_of(L(t, 2))); res = "Ok"; }
            } else if (op == "HCopy" || op == "HMove") {
                long hv = L(t, 1); HBase *h = hand(2);
                if (!h || st.handles.count(hv)) res = "Rejected";
                else if (op == "HCopy") { st.handles[hv].reset(h->copy()); okh.insert(hv); res = "Ok handle"; }
                else {
                    HBase *n = h->move_out();
                    st.handles.erase(L(t, 2));        // the moved-from object goes out of scope
                    st.handles[hv].reset(n); okh.insert(hv); okh.insert(L(t, 2)); res = "Ok handle";
                }
            } else if (op == "HDrop") {
                if (!hand(1)) res = "Rejected";
                else { touch_handle(L(t, 1)); st.handles.erase(L(t, 1)); res = "Ok"; }
            } else if (op == "HSet") {
                HBase *h = hand(1);
                if (!h || L(t, 2) < 0 || (size_t)L(t, 2) >= h->size()) res = "Rejected";
                else { touch_handle(L(t, 1)); h->set((size_t)L(t, 2), L(t, 3)); res = "Ok"; }
            } else if (op == "Pos") {
                long hv = L(t, 1); MeshBase *m = mesh(2);
                if (!m || st.handles.count(hv)) res = "Rejected";
                else { st.handles[hv].reset(new HT<Vec3d, Entity::Vertex>(static_cast<const PropertyPtr<Vec3d, Entity::Vertex> &>(m->pos()))); okh.insert(hv); res = "Ok handle"; }
            } else if (op == "ClearProps") {
                MeshBase *m = mesh(1);
                if (!m) res = "Rejected";
                else {
                    touch_mesh(L(t, 1));
                    ResourceManager &rm = m->rm();
                    switch (kind_index(t.at(2))) {
                    case 0: rm.clear_vertex_props(); break;
                    case 1: rm.clear_edge_props(); break;
                    case 2: rm.clear_halfedge_props(); break;
                    case 3: rm.clear_face_props(); break;
                    case 4: rm.clear_halfface_props(); break;
                    case 5: rm.clear_cell_props(); break;
                    default: rm.clear_mesh_props(); break;
                    }
                    res = "Ok";
                }
            } else if (op == "ClearAll") {
                MeshBase *m = mesh(1);
                if (!m) res = "Rejected";
                else { touch_mesh(L(t, 1)); m->rm().clear_all_props(); res = "Ok"; }
            } else if (op == "NProps" || op == "NPers") {
                MeshBase *m = mesh(1);
                if (!m) res = "Rejected";
                else {
                    int kind = kind_index(t.at(2));
                    size_t n = 0;
                    by_kind<int>(kind, [&](auto, auto ev) { using E = decltype(ev); n = op == "NProps" ? m->rm().n_props<E>() : m->rm().n_persistent_props<E>(); });
                    res = "Ok " + std::to_string(n);
                }
            } else {
                fprintf(stderr, "bad op %s\n", op.c_str());
                exit(3);
            }
        } catch (std::runtime_error &) {
            res = "Throw";
        }
        o << "== " << lineno << " " << echo << " -> " << res << "\n";
        for (auto &kv : st.meshes) o << mesh_block(kv.first, *kv.second);
        for (auto &kv : st.handles) o << handle_block(kv.first, *kv.second);
        if (g_oracle) {
            Snap b = take_snap(st);
            oracle_ind(a, b, okm, okh, echo, o);
            oracle_inv(st, o);
            if (cpy_dst >= 0 && res.compare(0, 2, "Ok") == 0) oracle_cpy(st, cpy_dst, cpy_src, cpy_assign, a, o);
            if (res == "Throw" || res == "Rejected" || res == "Ok none") {
                // a refused / throwing transition changes nothing at all
                std::set<long> none;
                std::ostringstream oo;
                oracle_ind(a, b, none, none, echo, oo);
                std::string s = oo.str();
                size_t p = 0;
                while ((p = s.find("!O IND", p)) != std::string::npos) { s.replace(p, 6, "!O UNCH"); p += 7; }
                o << s;
            }
        }
        std::string s = o.str();
        fwrite(s.data(), 1, s.size(), stdout);
        fflush(stdout);
    }
    // end of script: destroy handles and meshes in an order derived from the script (exercises ~Tracker/~Tracked in both orders)
    if (lines.size() % 2 == 0) { st.handles.clear(); st.meshes.clear(); } else { st.meshes.clear(); st.handles.clear(); }
}

int main(int argc, char **argv) {
    if (argc < 2) { fprintf(stderr, "usage: run_registry [--oracle] <scripts>\n"); return 2; }
    int ai = 1;
    if (std::string(argv[1]) == "--oracle") { g_oracle = true; ai = 2; }
    std::ifstream in(argv[ai]);
    std::string line, name;
    std::vector<std::string> cur;
    bool have = false;
    auto flush_script = [&]() {
        if (!have) return;
        printf("%s\n", name.c_str());
        fflush(stdout);
        pid_t pid = fork();
        if (pid == 0) { run_script(cur); fflush(stdout); _exit(0); }
        int stt = 0;
        waitpid(pid, &stt, 0);
        if (!(WIFEXITED(stt) && WEXITSTATUS(stt) == 0)) {
            printf("!! CRASH status=%d\n", WIFSIGNALED(stt) ? 1000 + WTERMSIG(stt) : WEXITSTATUS(stt));
            fflush(stdout);
        }
    };
    while (std::getline(in, line)) {
        size_t b = line.find_first_not_of(" \t\r");
        if (b == std::string::npos || line[b] == '%') continue;
        if (line.compare(b, 4, "####") == 0) {
            flush_script();
            name = line.substr(b);
            while (!name.empty() && (name.back() == '\r' || name.back() == ' ')) name.pop_back();
            cur.clear(); have = true;
        } else cur.push_back(line);
    }
    flush_script();
    return 0;
}
