// th_common.hh -- shared by run_tet.cc and run_hex.cc: script loop (one forked child per script), query
// execution in a forked grand-child (a crash of a const query becomes the line "Q ... : UB" and the script goes
// on), canonical "Q" line printing.  Formats are those of ocaml/thdriver.ml.
#pragma once
#include "probe.hh"
#include "kernel_exec.hh"
#include <fstream>
#include <iostream>
#include <functional>
#include <set>
#include <algorithm>

namespace ovmv {

// ---- Q line printer: the prefix is flushed BEFORE the library is called, so that a crash inside the call
// leaves an incomplete line which the parent completes with " UB"
struct QOut {
    FILE *f;
    void begin(const char *name, std::initializer_list<long> args) {
        fprintf(f, "Q %s", name);
        for (long a : args) if (a >= 0) fprintf(f, " %ld", a);
        fprintf(f, " :");
        fflush(f);
    }
    void val(long v) { if (v < 0) fprintf(f, " -"); else fprintf(f, " %ld", v); }
    template <class H> void h(H x) { val(x.idx()); }
    template <class V> void hs(const V &v) { for (auto x : v) val(x.idx()); }
    void end() { fprintf(f, "\n"); fflush(f); }
};

// runs fn in a forked child, returns its output; an abnormal exit completes the last line with " UB"
inline std::string run_isolated(const std::function<void(QOut &)> &fn) {
    int fd[2];
    if (pipe(fd) != 0) { perror("pipe"); exit(3); }
    fflush(stdout);
    pid_t pid = fork();
    if (pid == 0) {
        close(fd[0]);
        FILE *f = fdopen(fd[1], "w");
        QOut q{f};
        alarm(3);                 // a query that never returns (e.g. TetTopology with a vertex outside the cell) counts as UB
        fn(q);
        fflush(f);
        _exit(0);
    }
    close(fd[1]);
    std::string out;
    char buf[65536];
    ssize_t n;
    while ((n = read(fd[0], buf, sizeof buf)) > 0) out.append(buf, (size_t)n);
    close(fd[0]);
    int st = 0;
    waitpid(pid, &st, 0);
    bool ok = WIFEXITED(st) && WEXITSTATUS(st) == 0;
    if (!ok) {
        if (out.empty() || out.back() != '\n') out += " UB\n";
        else out += "Q ? : UB\n";
    }
    return out;
}

struct Oracles {
    std::set<std::string> on;
    bool has(const char *p) const { return on.count(p) || on.count("all"); }
    void parse(const std::string &l) {
        size_t p = 0;
        while (p <= l.size()) { size_t q = l.find(',', p); if (q == std::string::npos) q = l.size(); if (q > p) on.insert(l.substr(p, q - p)); p = q + 1; }
    }
};

struct StepOut {
    std::ostringstream o;
    void fail(const char *prop, const std::string &msg) { o << "!O " << prop << " " << msg << "\n"; }
};

// measured oracle coverage: one line per event appended to the file named by $TH_STATS (read by lib/checks_tethex.py)
inline void stat_event(const char *what) {
    const char *p = getenv("TH_STATS");
    if (!p) return;
    FILE *f = fopen(p, "a");
    if (!f) return;
    fprintf(f, "%s\n", what);
    fclose(f);
}

inline void header(std::ostream &o, int lineno, const std::string &echo, const char *outcome) {
    o << "== " << lineno << " " << echo << " -> " << outcome << "\n";
}

// ---- script file loop: calls run_script(lines) in a forked child per script
inline int script_main(int argc, char **argv, Oracles &orc, const std::function<void(const std::vector<std::string> &)> &run_script) {
    if (argc < 2) { fprintf(stderr, "usage: %s [--oracle C15|C16|all] <scripts>\n", argv[0]); return 2; }
    int ai = 1;
    if (std::string(argv[1]) == "--oracle" && argc >= 4) { orc.parse(argv[2]); ai = 3; }
    std::ifstream in(argv[ai]);
    std::string line, name;
    std::vector<std::string> cur;
    bool have = false;
    auto flush_script = [&]() {
        if (!have) return;
        printf("%s\n", name.c_str());
        fflush(stdout);
        pid_t pid = fork();
        if (pid == 0) { run_script(cur); fflush(stdout); _exit(0); }
        int st = 0;
        waitpid(pid, &st, 0);
        if (!(WIFEXITED(st) && WEXITSTATUS(st) == 0)) {
            printf("!! CRASH status=%d\n", WIFSIGNALED(st) ? 1000 + WTERMSIG(st) : WEXITSTATUS(st));
            fflush(stdout);
        }
    };
    while (std::getline(in, line)) {
        size_t b = line.find_first_not_of(" \t\r");
        if (b == std::string::npos || line[b] == '%') continue;
        if (line.compare(b, 4, "####") == 0) {
            flush_script();
            name = line.substr(b); while (!name.empty() && (name.back() == '\r' || name.back() == ' ')) name.pop_back();
            cur.clear(); have = true;
        } else cur.push_back(line);
    }
    flush_script();
    return 0;
}

// operands of the query / tet / hex operations: same resolution as kernel_exec.hh
template <class M>
struct Args {
    Resolver<M> r;
    const std::vector<std::string> &t;
    Args(Probe<M> &m, bool abs, const std::vector<std::string> &toks) : r(m, abs), t(toks) {}
    long L(size_t i) const { return std::stol(t.at(i)); }
    int v(size_t i) { return r.lv(L(i)); }
    int ov(size_t i) { return L(i) < 0 ? -1 : r.lv(L(i)); }
    int c(size_t i) { return r.lc(L(i)); }
    int hf(size_t i) { return r.lhf(L(i)); }
    int he(size_t i) { return r.lhe(L(i)); }
};

inline std::string trim(const std::string &t) {
    size_t b = t.find_first_not_of(" \t"), e = t.find_last_not_of(" \t\r\n");
    return b == std::string::npos ? "" : t.substr(b, e - b + 1);
}

} // namespace ovmv
