// run_conc.cc -- C20 (support, not proof): N threads run batches of READ-ONLY queries on ONE shared mesh that no
// thread modifies; built with ThreadSanitizer (variant "tsan").  For every script of the input file:
//   1. the mesh is built single-threaded from the kernel script (harness/kernel_exec.hh), all bottom-up incidences
//      are switched on, a digest of the complete state is taken;
//   2. the reference result of every query batch is computed single-threaded;
//   3. N threads (argv) run the same batches concurrently, each in its own rotation of the batch order, through a
//      `const Mesh&`, and hash everything they observe;
//   4. every thread's per-batch hashes must equal the single-threaded ones; the state digest must be unchanged.
// A ThreadSanitizer report (stderr, exit code 66) means a data race was observed.
//
//   run_conc <scripts> <nthreads> <rounds>
// Script format: gen/kgen.py / gen/geogen.py ("#### name", operations, "Pos v x y z", "Q" ignored, "%mesh tet|hex|poly").
// Output: "script <name> mesh=<kind> threads=N rounds=R batches=B queries=Q digest=<hex> result=<hex> ok=1"
//         "!O C20 ..." on a mismatch.
#include "probe.hh"
#include "kernel_exec.hh"
#include <atomic>
#include <cstring>
#include <fstream>
#include <iostream>
#include <thread>

using namespace ovmv;
typedef GeometryKernel<Vec3d, TopologyKernel> PolyMesh;
typedef GeometryKernel<Vec3d, TetrahedralMeshTopologyKernel> TetMesh;
typedef GeometryKernel<Vec3d, HexahedralMeshTopologyKernel> HexMesh;

struct Hash {
    uint64_t h = 1469598103934665603ULL; uint64_t n = 0;
    void add(uint64_t x) { h = (h ^ x) * 1099511628211ULL; h ^= h >> 29; ++n; }
    void add(int x) { add((uint64_t)(int64_t)x); }
    void add(bool x) { add((uint64_t)(x ? 1 : 2)); }
    void add(double x) { uint64_t b; memcpy(&b, &x, 8); if (x != x) b = 0x7ff8000000000000ULL; add(b); }
    void add(const Vec3d &v) { add(v[0]); add(v[1]); add(v[2]); }
    template <class H> void addh(H x) { add((uint64_t)(int64_t)x.idx()); }
};

template <class M> std::vector<VertexHandle> hf_vertices(const M &m, HalfFaceHandle hf) {
    std::vector<VertexHandle> vs;
    for (auto it = m.hfv_iter(hf); it.valid(); ++it) vs.push_back(*it);
    return vs;
}

static const int N_BATCHES = 9;

// one batch of read-only queries through a const reference; everything observed goes into the hash
template <class M>
uint64_t batch(const M &m, const std::vector<std::unique_ptr<PropBase>> *props, int which, uint64_t *nq) {
    Hash H;
    switch (which) {
    case 0:   // entity iteration, counts, deletion flags, definitions
        H.add(m.n_vertices()); H.add(m.n_edges()); H.add(m.n_halfedges()); H.add(m.n_faces()); H.add(m.n_halffaces()); H.add(m.n_cells());
        H.add(m.n_logical_vertices()); H.add(m.n_logical_edges()); H.add(m.n_logical_faces()); H.add(m.n_logical_cells()); H.add(m.genus());
        for (auto p = m.vertices(); p.first != p.second; ++p.first) { H.addh(*p.first); H.add(m.is_deleted(*p.first)); }
        for (auto p = m.edges(); p.first != p.second; ++p.first) { auto e = m.edge(*p.first); H.addh(e.from_vertex()); H.addh(e.to_vertex()); }
        for (auto p = m.halfedges(); p.first != p.second; ++p.first) { auto e = m.halfedge(*p.first); H.addh(e.from_vertex()); H.addh(m.to_vertex_handle(*p.first)); H.addh(m.opposite_halfedge_handle(*p.first)); }
        for (auto p = m.faces(); p.first != p.second; ++p.first) for (auto h : m.face(*p.first).halfedges()) H.addh(h);
        for (auto p = m.halffaces(); p.first != p.second; ++p.first) for (auto h : m.halfface(*p.first).halfedges()) H.addh(h);
        for (auto p = m.cells(); p.first != p.second; ++p.first) for (auto h : m.cell(*p.first).halffaces()) H.addh(h);
        for (size_t i = 0; i < m.n_edges(); ++i) H.add(m.is_deleted(EdgeHandle((int)i)));
        for (size_t i = 0; i < m.n_faces(); ++i) H.add(m.is_deleted(FaceHandle((int)i)));
        for (size_t i = 0; i < m.n_cells(); ++i) H.add(m.is_deleted(CellHandle((int)i)));
        break;
    case 1:   // vertex circulators and valence
        for (auto p = m.vertices(); p.first != p.second; ++p.first) {
            VertexHandle v = *p.first;
            H.add(m.valence(v));
            for (auto it = m.voh_iter(v); it.valid(); ++it) H.addh(*it);
            for (auto it = m.vih_iter(v); it.valid(); ++it) H.addh(*it);
            for (auto it = m.vv_iter(v); it.valid(); ++it) H.addh(*it);
            for (auto it = m.ve_iter(v); it.valid(); ++it) H.addh(*it);
            for (auto it = m.vf_iter(v); it.valid(); ++it) H.addh(*it);
            for (auto it = m.vc_iter(v); it.valid(); ++it) H.addh(*it);
            for (auto it = m.vhf_iter(v); it.valid(); ++it) H.addh(*it);
        }
        break;
    case 2:   // edge / halfedge circulators
        for (auto p = m.halfedges(); p.first != p.second; ++p.first) {
            HalfEdgeHandle h = *p.first;
            for (auto it = m.hehf_iter(h); it.valid(); ++it) H.addh(*it);
            for (auto it = m.hef_iter(h); it.valid(); ++it) H.addh(*it);
            for (auto it = m.hec_iter(h); it.valid(); ++it) H.addh(*it);
        }
        for (auto p = m.edges(); p.first != p.second; ++p.first) {
            EdgeHandle e = *p.first;
            H.add(m.valence(e));
            for (auto it = m.ehf_iter(e); it.valid(); ++it) H.addh(*it);
            for (auto it = m.ef_iter(e); it.valid(); ++it) H.addh(*it);
            for (auto it = m.ec_iter(e); it.valid(); ++it) H.addh(*it);
        }
        break;
    case 3:   // face / halfface circulators, incident cells, adjacency inside cells
        for (auto p = m.halffaces(); p.first != p.second; ++p.first) {
            HalfFaceHandle hf = *p.first;
            H.addh(m.incident_cell(hf)); H.addh(m.opposite_halfface_handle(hf));
            for (auto it = m.hfv_iter(hf); it.valid(); ++it) H.addh(*it);
            for (auto it = m.hfhe_iter(hf); it.valid(); ++it) { H.addh(*it); if (m.incident_cell(hf).is_valid()) H.addh(m.adjacent_halfface_in_cell(hf, *it)); }
            for (auto it = m.hfe_iter(hf); it.valid(); ++it) H.addh(*it);
            for (auto h : m.halfface(hf).halfedges()) { H.addh(m.next_halfedge_in_halfface(h, hf)); H.addh(m.prev_halfedge_in_halfface(h, hf)); }
            for (auto v : m.get_halfface_vertices(hf)) H.addh(v);
        }
        for (auto p = m.faces(); p.first != p.second; ++p.first) {
            FaceHandle f = *p.first;
            H.add(m.valence(f));
            for (auto it = m.fv_iter(f); it.valid(); ++it) H.addh(*it);
            for (auto it = m.fhe_iter(f); it.valid(); ++it) H.addh(*it);
            for (auto it = m.fe_iter(f); it.valid(); ++it) H.addh(*it);
        }
        break;
    case 4:   // cell circulators
        for (auto p = m.cells(); p.first != p.second; ++p.first) {
            CellHandle c = *p.first;
            H.add(m.valence(c));
            for (auto it = m.cv_iter(c); it.valid(); ++it) H.addh(*it);
            for (auto it = m.che_iter(c); it.valid(); ++it) H.addh(*it);
            for (auto it = m.ce_iter(c); it.valid(); ++it) H.addh(*it);
            for (auto it = m.chf_iter(c); it.valid(); ++it) H.addh(*it);
            for (auto it = m.cf_iter(c); it.valid(); ++it) H.addh(*it);
            for (auto it = m.cc_iter(c); it.valid(); ++it) H.addh(*it);
            if constexpr (std::is_same<M, TetMesh>::value) {
                if (m.cell(c).halffaces().size() == 4) {
                    for (auto v : m.get_cell_vertices(c)) H.addh(v);
                    for (auto it = m.tv_iter(c); it.valid(); ++it) H.addh(*it);
                    for (auto hf : m.cell(c).halffaces()) H.addh(m.halfface_opposite_vertex(hf));
                }
            }
            if constexpr (std::is_same<M, HexMesh>::value) {
                if (m.cell(c).halffaces().size() == 6) {
                    for (auto it = m.hv_iter(c); it.valid(); ++it) H.addh(*it);
                    H.addh(m.xfront_halfface(c)); H.addh(m.xback_halfface(c)); H.addh(m.yfront_halfface(c));
                    H.addh(m.yback_halfface(c)); H.addh(m.zfront_halfface(c)); H.addh(m.zback_halfface(c));
                    for (auto hf : m.cell(c).halffaces()) { H.add((int)m.orientation(hf, c)); H.addh(m.opposite_halfface_handle_in_cell(hf, c)); }
                    for (unsigned char d = 0; d < 6; d += 2) for (auto it = m.csc_iter(c, d); it.valid(); ++it) H.addh(*it);
                }
            }
        }
        if constexpr (std::is_same<M, HexMesh>::value) {
            for (auto p = m.halffaces(); p.first != p.second; ++p.first) {
                if (!m.incident_cell(*p.first).is_valid()) continue;
                for (auto h : m.halfface(*p.first).halfedges()) { H.addh(m.adjacent_halfface_on_sheet(*p.first, h)); }
                for (auto it = m.hfshf_iter(*p.first); it.valid(); ++it) H.addh(*it);
            }
        }
        break;
    case 5:   // lookups
        for (auto p = m.edges(); p.first != p.second; ++p.first) {
            auto e = m.edge(*p.first);
            H.addh(m.find_halfedge(e.from_vertex(), e.to_vertex())); H.addh(m.find_halfedge(e.to_vertex(), e.from_vertex()));
        }
        for (auto p = m.vertices(); p.first != p.second; ++p.first) H.addh(m.find_halfedge(*p.first, VertexHandle(0)));
        for (auto p = m.halffaces(); p.first != p.second; ++p.first) {
            auto vs = hf_vertices(m, *p.first);
            if (vs.size() >= 3) {
                H.addh(m.find_halfface(vs));
                std::vector<VertexHandle> three(vs.begin(), vs.begin() + 3);
                H.addh(m.find_halfface(three));
                H.addh(m.find_halfface_extensive(three));
                H.addh(m.find_halfface(m.halfface(*p.first).halfedges()));
                CellHandle c = m.incident_cell(*p.first);
                if (c.is_valid()) { H.addh(m.find_halfface_in_cell(three, c)); H.addh(m.find_halfedge_in_cell(vs[0], vs[1], c)); }
            }
            for (auto h : m.halfface(*p.first).halfedges()) H.add(m.is_incident(m.face_handle(*p.first), m.edge_handle(h)));
        }
        break;
    case 6:   // boundary queries and boundary iterators
        for (auto p = m.vertices(); p.first != p.second; ++p.first) H.add(m.is_boundary(*p.first));
        for (auto p = m.edges(); p.first != p.second; ++p.first) H.add(m.is_boundary(*p.first));
        for (auto p = m.halfedges(); p.first != p.second; ++p.first) H.add(m.is_boundary(*p.first));
        for (auto p = m.faces(); p.first != p.second; ++p.first) H.add(m.is_boundary(*p.first));
        for (auto p = m.halffaces(); p.first != p.second; ++p.first) H.add(m.is_boundary(*p.first));
        for (auto p = m.cells(); p.first != p.second; ++p.first) H.add(m.is_boundary(*p.first));
        for (auto it = m.bv_iter(); it.valid(); ++it) H.addh(*it);
        for (auto it = m.be_iter(); it.valid(); ++it) H.addh(*it);
        for (auto it = m.bhe_iter(); it.valid(); ++it) H.addh(*it);
        for (auto it = m.bf_iter(); it.valid(); ++it) H.addh(*it);
        for (auto it = m.bhf_iter(); it.valid(); ++it) { H.addh(*it); for (auto jt = m.bhfhf_iter(*it); jt.valid(); ++jt) H.addh(*jt); }
        for (auto it = m.bc_iter(); it.valid(); ++it) H.addh(*it);
        break;
    case 7:   // positions and geometric queries
        for (auto p = m.vertices(); p.first != p.second; ++p.first) H.add(m.vertex(*p.first));
        for (auto p = m.edges(); p.first != p.second; ++p.first) { H.add(m.vector(*p.first)); H.add(m.length(*p.first)); H.add(m.barycenter(*p.first)); }
        for (auto p = m.halfedges(); p.first != p.second; ++p.first) { H.add(m.vector(*p.first)); H.add(m.length(*p.first)); }
        for (auto p = m.faces(); p.first != p.second; ++p.first) if (!m.face(*p.first).halfedges().empty()) H.add(m.barycenter(*p.first));
        for (auto p = m.halffaces(); p.first != p.second; ++p.first) if (m.halfface(*p.first).halfedges().size() >= 3) H.add(m.normal(*p.first));
        for (auto p = m.cells(); p.first != p.second; ++p.first) if (!m.cell(*p.first).halffaces().empty()) H.add(m.barycenter(*p.first));
        { const auto &pp = m.vertex_positions(); for (auto it = pp.begin(); it != pp.end(); ++it) H.add(*it); }
        break;
    case 8:   // property values through existing handles (virtual const accessors of the wrappers in probe.hh)
        for (int k = 0; k < 7; ++k)
            for (auto &pr : props[k]) { const PropBase &q = *pr; H.add(q.size()); H.add((uint64_t)q.def()); for (size_t i = 0; i < q.size(); ++i) H.add((uint64_t)q.get(i)); }
        H.add(m.template n_props<Entity::Vertex>()); H.add(m.template n_persistent_props<Entity::Vertex>()); H.add(m.template n_props<Entity::Cell>());
        break;
    }
    if (nq) *nq = H.n;
    return H.h;
}

template <class M> uint64_t digest(World<M> &w) {
    std::ostringstream o;
    dump_state(w, o);
    for (size_t i = 0; i < w.mesh.n_vertices(); ++i) { const Vec3d &p = w.mesh.vertex(VertexHandle((int)i)); o << p[0] << "," << p[1] << "," << p[2] << ";"; }
    Hash H;
    for (unsigned char c : o.str()) H.add((uint64_t)c);
    return H.h;
}

static long g_fail = 0;

template <class M>
void run_script(const std::string &name, const char *kind, const std::vector<std::string> &lines, int nthreads, int rounds) {
    World<M> w;
    for (auto &line : lines) {
        auto toks = split_ws(line);
        if (toks.empty() || toks[0] == "Q" || toks[0][0] == '%') continue;
        if (toks[0] == "Pos") {
            int v = std::stoi(toks.at(1));
            if (v >= 0 && v < (int)w.mesh.n_vertices()) w.mesh.set_vertex(VertexHandle(v), Vec3d(std::stod(toks.at(2)), std::stod(toks.at(3)), std::stod(toks.at(4))));
            continue;
        }
        try { exec_line(w, toks); } catch (Unresolvable &) {}
    }
    // the concurrent phase uses every kind of circulator: all incidences on (a mutation, done before any thread starts)
    w.mesh.enable_bottom_up_incidences(true);
    // give vertices without an explicit position a deterministic one
    for (size_t i = 0; i < w.mesh.n_vertices(); ++i) {
        const Vec3d &p = w.mesh.vertex(VertexHandle((int)i));
        if (p[0] == 0 && p[1] == 0 && p[2] == 0) w.mesh.set_vertex(VertexHandle((int)i), Vec3d((double)((i * 7) % 11), (double)((i * 5) % 13), (double)((i * 3) % 7)));
    }
    std::streambuf *old = std::cerr.rdbuf(nullptr);       // "Warning: Degenerate face" of normal()
    const uint64_t d0 = digest(w);
    uint64_t ref[N_BATCHES], nq_total = 0;
    const M &cm = w.mesh;
    for (int b = 0; b < N_BATCHES; ++b) { uint64_t nq = 0; ref[b] = batch(cm, w.props, b, &nq); nq_total += nq; }
    std::vector<std::vector<uint64_t>> seen(nthreads, std::vector<uint64_t>((size_t)rounds * N_BATCHES, 0));
    std::atomic<int> go{0};
    std::vector<std::thread> ts;
    for (int t = 0; t < nthreads; ++t)
        ts.emplace_back([&, t]() {
            while (go.load(std::memory_order_acquire) == 0) std::this_thread::yield();
            for (int r = 0; r < rounds; ++r)
                for (int k = 0; k < N_BATCHES; ++k) {
                    int b = (k + t + r) % N_BATCHES;              // every thread walks the batches in its own rotation
                    seen[t][(size_t)r * N_BATCHES + b] = batch(cm, w.props, b, nullptr);
                }
        });
    go.store(1, std::memory_order_release);
    for (auto &t : ts) t.join();
    const uint64_t d1 = digest(w);
    std::cerr.rdbuf(old);
    bool ok = true;
    for (int t = 0; t < nthreads; ++t)
        for (int r = 0; r < rounds; ++r)
            for (int b = 0; b < N_BATCHES; ++b)
                if (seen[t][(size_t)r * N_BATCHES + b] != ref[b]) {
                    if (ok) printf("!O C20 script=%s thread=%d round=%d batch=%d observed=%016llx single_threaded=%016llx\n", name.c_str(), t, r, b,
                                   (unsigned long long)seen[t][(size_t)r * N_BATCHES + b], (unsigned long long)ref[b]);
                    ok = false;
                }
    if (d0 != d1) { printf("!O C20 script=%s state digest changed during the read-only phase: %016llx -> %016llx\n", name.c_str(), (unsigned long long)d0, (unsigned long long)d1); ok = false; }
    // a second single-threaded pass after the threads: still the same answers
    for (int b = 0; b < N_BATCHES; ++b) if (batch(cm, w.props, b, nullptr) != ref[b]) { printf("!O C20 script=%s batch=%d differs after the concurrent phase\n", name.c_str(), b); ok = false; }
    if (!ok) ++g_fail;
    uint64_t all = 0; for (int b = 0; b < N_BATCHES; ++b) all = (all ^ ref[b]) * 1099511628211ULL;
    printf("script %s mesh=%s threads=%d rounds=%d batches=%d queries=%llu nv=%zu ne=%zu nf=%zu nc=%zu digest=%016llx result=%016llx ok=%d\n", name.c_str(), kind, nthreads, rounds, N_BATCHES,
           (unsigned long long)nq_total, w.mesh.n_vertices(), w.mesh.n_edges(), w.mesh.n_faces(), w.mesh.n_cells(), (unsigned long long)d0, (unsigned long long)all, ok ? 1 : 0);
    fflush(stdout);
}

int main(int argc, char **argv) {
    if (argc < 4) { fprintf(stderr, "usage: run_conc <scripts> <nthreads> <rounds>\n"); return 2; }
    int nthreads = atoi(argv[2]), rounds = atoi(argv[3]);
    if (nthreads < 1 || nthreads > 64 || rounds < 1) { fprintf(stderr, "bad thread / round count\n"); return 2; }
    std::ifstream in(argv[1]);
    if (!in) { fprintf(stderr, "cannot open %s\n", argv[1]); return 2; }
    std::string line, name, kind = "poly";
    std::vector<std::string> cur;
    bool have = false;
    auto flush_script = [&]() {
        if (!have) return;
        if (kind == "tet") run_script<TetMesh>(name, "tet", cur, nthreads, rounds);
        else if (kind == "hex") run_script<HexMesh>(name, "hex", cur, nthreads, rounds);
        else run_script<PolyMesh>(name, "poly", cur, nthreads, rounds);
    };
    while (std::getline(in, line)) {
        size_t b = line.find_first_not_of(" \t\r");
        if (b == std::string::npos) continue;
        if (line.compare(b, 5, "%mesh") == 0) { auto t = split_ws(line); if (t.size() > 1) kind = t[1]; continue; }
        if (line[b] == '%') continue;
        if (line.compare(b, 4, "####") == 0) {
            flush_script();
            name = line.substr(b + 4); while (!name.empty() && (name.back() == '\r' || name.back() == ' ')) name.pop_back();
            while (!name.empty() && name.front() == ' ') name.erase(name.begin());
            cur.clear(); have = true; kind = "poly";
        } else cur.push_back(line);
    }
    flush_script();
    printf("done failed_scripts=%ld\n", g_fail);
    return g_fail ? 1 : 0;
}
