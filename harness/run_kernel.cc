// run_kernel.cc -- executes kernel scripts on the real library (rebuilt from /repo's working
// tree) and prints the canonical observable state after every operation, in the format of
// ocaml/kdriver.ml.  One forked child per script: a crash / sanitizer abort ends only that script
// and is reported as "!! CRASH".
#include "probe.hh"
#include "kernel_exec.hh"
#include "oracle_kernel.hh"
#include <fstream>
#include <iostream>

using namespace ovmv;
typedef GeometryKernel<Vec3d, TopologyKernel> Mesh;

static std::set<std::string> g_oracles;
static bool on(const char *p) { return g_oracles.count(p) || g_oracles.count("all"); }

static void run_script(const std::vector<std::string> &lines) {
    World<Mesh> w;
    World<Mesh> twin;                       // C12: the same history with every incidence kind always enabled
    bool use_twin = on("C12"), twin_ok = true;
    bool any = !g_oracles.empty();
    int lineno = 0;
    for (auto &line : lines) {
        ++lineno;
        auto toks = split_ws(line);
        std::ostringstream o;
        Snap a;
        if (any) a = take_snap(w);
        Result r;
        bool unres = false;
        try {
            r = exec_line(w, toks);
            o << "== " << lineno << " " << r.echo << " -> ";
            if (r.rejected) o << "Rejected\n";
            else if (r.has) o << "Ok " << r.r << "\n";
            else o << "Ok -\n";
        } catch (Unresolvable &) {
            unres = true;
            std::string t = line; 
            size_t b = t.find_first_not_of(" \t"), e = t.find_last_not_of(" \t\r\n");
            o << "== " << lineno << " " << t.substr(b, e - b + 1) << " -> Unresolvable\n";
        }
        dump_state(w, o);
        if (!r.extra.empty()) o << r.extra << "\n";
        if (any && !unres && !r.rejected) {
            mark_new_vertices(w, a.nv);
            Snap b = take_snap(w);
            OracleOut out{o};
            auto echo = split_ws(r.echo);
            const std::string &op = echo[0];
            bool is_del = op == "DelV" || op == "DelE" || op == "DelF" || op == "DelC";
            bool is_swap = op == "SwapV" || op == "SwapE" || op == "SwapF" || op == "SwapC";
            bool is_set = op == "SetE" || op == "SetF" || op == "SetC";
            if (on("C01")) oracle_C01(w, b, out);
            if (on("C02") && is_del) oracle_C02(a, b, op[3], std::stoi(echo[1]), out);
            if (on("C03") && op != "PSet" && op != "PCreate" && op != "PDrop" && op != "Clear") oracle_C03(a, b, out, is_set);
            if (on("C04") && op == "StatusGC") oracle_C04_status(a, b, echo, r.extra, out);
            if (on("C04") && (op == "GC" || (op == "EnDef" && echo[1] == "0"))) { oracle_C04(a, b, out); OracleOut o3{o}; oracle_C03(a, b, o3, false); if (o3.fails) out.fail("C04", "property values did not survive garbage collection on their entities"); }
            if (on("C17") && is_swap) oracle_C17(a, b, op[4], std::stoi(echo[1]), std::stoi(echo[2]), out);
            if (on("C11") && (op == "AddE" || op == "AddF" || op == "AddC")) oracle_C11(a, b, echo, r.has, r.r, out);
            if (on("C08")) oracle_C08(w, b, echo, r.has, r.r, out);
            if (use_twin && twin_ok && history_in_contract()) {   // (a history that left the contract is not judged: with a halfface in two cells the cache-guided and the scanning code legitimately differ)
                if (op == "EnVBU" || op == "EnEBU" || op == "EnFBU") { /* not replayed on the twin */ }
                else {
                    auto t2 = split_ws(r.echo); t2[0] = "@" + t2[0];
                    if (op == "PCreate") t2 = toks;      // keeps the value type
                    int tnv = (int)twin.mesh.n_vertices();
                    Result r2 = exec_line(twin, t2);
                    mark_new_vertices(twin, tnv);
                    // add_edge without duplicates returns AN existing edge between the two vertices; with parallel edges (made with
                    // allow_duplicates) which one depends on scan vs. cache order - the mesh is the same, so equal endpoints suffice
                    bool same_existing_edge = op == "AddE" && !r2.rejected && r.has && r2.has && b.E.size() == a.E.size() &&
                        a.live_e(r.r) && a.live_e(r2.r) &&
                        std::minmax(a.E[r.r].first, a.E[r.r].second) == std::minmax(a.E[r2.r].first, a.E[r2.r].second);
                    if (same_existing_edge) { /* equivalent answers */ }
                    else if (r2.rejected || r2.has != r.has || r2.r != r.r) { out.fail("C12", "with all incidences enabled the same call returns " + std::to_string(r2.r) + (r2.rejected ? " (rejected)" : "")); twin_ok = false; }
                }
                if (twin_ok) {
                    Snap t = take_snap(twin);
                    auto live_same = [](const auto &x, const auto &y, const std::vector<char> &del) {
                        if (x.size() != y.size()) return false;
                        for (size_t i = 0; i < x.size(); ++i) if (!del[i] && x[i] != y[i]) return false;
                        return true; };
                    // stored definitions of deferred-deleted entities are not part of the mesh (see KNOWN_FINDINGS D13)
                    if (t.nv != b.nv || t.ed.size() != b.ed.size() || t.fd.size() != b.fd.size() || t.cd.size() != b.cd.size() ||
                        !live_same(t.E, b.E, b.ed) || !live_same(t.F, b.F, b.fd) || !live_same(t.C, b.C, b.cd)) { out.fail("C12", "definitions differ from the same history run with all incidences enabled"); twin_ok = false; }
                    else if (t.vd != b.vd || t.ed != b.ed || t.fd != b.fd || t.cd != b.cd || t.nlv != b.nlv || t.nle != b.nle || t.nlf != b.nlf || t.nlc != b.nlc) { out.fail("C12", "deletion flags / counts differ from the same history run with all incidences enabled"); twin_ok = false; }
                    else { for (int k = 0; k < 7; ++k) if (t.P[k] != b.P[k]) { out.fail("C12", std::string("a ") + KIND_NAMES[k] + " property differs from the same history run with all incidences enabled"); twin_ok = false; break; } }
                    if (twin_ok && (op == "EnVBU" || op == "EnEBU" || op == "EnFBU") && echo[1] == "1" && valid_for_c01(b)) {
                        auto same_sets = [](const std::vector<std::vector<int>> &p, const std::vector<std::vector<int>> &q) {
                            if (p.size() != q.size()) return false;
                            for (size_t i = 0; i < p.size(); ++i) if (sorted(p[i]) != sorted(q[i])) return false;
                            return true; };
                        if (b.vbu && !same_sets(b.OUT, t.OUT)) out.fail("C12", "re-enabled vertex incidences differ from those of a mesh that never disabled them");
                        if (b.ebu && !same_sets(b.HFS, t.HFS)) out.fail("C12", "re-enabled edge incidences differ from those of a mesh that never disabled them");
                        if (b.fbu && b.CELL != t.CELL) out.fail("C12", "re-enabled face incidences differ from those of a mesh that never disabled them");
                    }
                }
            }
            if (note_history(b, op)) o << "!T history left the contract (a caller-defined operation produced a state outside the properties' quantifier)\n";   // after the oracles of this step
        }
        std::string s = o.str();
        fwrite(s.data(), 1, s.size(), stdout);
        fflush(stdout);
    }
}

int main(int argc, char **argv) {
    if (argc < 2) { fprintf(stderr, "usage: run_kernel [--oracle C01,C02,...|all] <scripts>\n"); return 2; }
    int ai = 1;
    if (std::string(argv[1]) == "--oracle" && argc >= 4) {
        std::string l = argv[2]; size_t p = 0;
        while (p <= l.size()) { size_t q = l.find(',', p); if (q == std::string::npos) q = l.size(); if (q > p) g_oracles.insert(l.substr(p, q - p)); p = q + 1; }
        ai = 3;
    }
    std::ifstream in(argv[ai]);
    std::string line, name;
    std::vector<std::string> cur;
    bool have = false;
    auto flush_script = [&]() {
        if (!have) return;
        printf("%s\n", name.c_str());
        fflush(stdout);
        pid_t pid = fork();
        if (pid == 0) { run_script(cur); fflush(stdout); _exit(0); }
        int st = 0;
        waitpid(pid, &st, 0);
        if (!(WIFEXITED(st) && WEXITSTATUS(st) == 0)) {
            printf("!! CRASH status=%d\n", WIFSIGNALED(st) ? 1000 + WTERMSIG(st) : WEXITSTATUS(st));
            fflush(stdout);
        }
    };
    while (std::getline(in, line)) {
        size_t b = line.find_first_not_of(" \t\r");
        if (b == std::string::npos || line[b] == '%') continue;
        if (line.compare(b, 4, "####") == 0) {
            flush_script();
            name = line.substr(b); while (!name.empty() && (name.back() == '\r' || name.back() == ' ')) name.pop_back();
            cur.clear(); have = true;
        } else cur.push_back(line);
    }
    flush_script();
    return 0;
}
