// run_hex.cc -- executes hex scripts (kernel script language + HAddCellV + the hex Q* queries) on
// GeometricHexahedralMeshV3d of the library rebuilt from /repo and prints the canonical text of
// ocaml/thdriver.ml.  With --oracle C16 the impl-side brute-force oracles run after every operation.
#include "th_common.hh"
#include <array>

using namespace ovmv;
typedef GeometricHexahedralMeshV3d HexMesh;
typedef World<HexMesh> W;

static Oracles g_orc;

static std::vector<int> hf_verts(W &w, HFH hf) {
    // total, with the defaults of the model (an out-of-range face has no halfedges, an out-of-range edge is (0,0))
    std::vector<int> r;
    if (hf.idx() < 0 || hf.idx() >= 2 * (int)w.mesh.n_faces()) return r;
    for (auto he : w.mesh.halfface(hf).halfedges())
        r.push_back(he.idx() >= 0 && he.idx() < 2 * (int)w.mesh.n_edges() ? w.mesh.halfedge(he).from_vertex().idx() : 0);
    return r;
}

// ------------------------------------------------------------------------------------ definitions (specification side)

// the halfface of the cell, other than self, that contains the opposite of he - if there is exactly one
static HFH unique_neighbour(W &w, const std::vector<HFH> &l, HFH self, HEH he) {
    HFH r; int n = 0;
    for (auto x : l) {
        if (x == self) continue;
        auto hes = w.mesh.halfface(x).halfedges();
        if (std::find(hes.begin(), hes.end(), he.opposite_handle()) != hes.end()) { r = x; ++n; }
    }
    return n == 1 ? r : HFH();
}

// the documented layout: 2k / 2k+1 share no vertex; around the first halfface: 2, 4, 3, 5 cyclically
static bool hex_layout(W &w, const std::vector<HFH> &l) {
    if (l.size() != 6) return false;
    for (int k = 0; k < 3; ++k) {
        auto a = hf_verts(w, l[2 * k]), b = hf_verts(w, l[2 * k + 1]);
        for (int x : a) if (std::find(b.begin(), b.end(), x) != b.end()) return false;
    }
    std::vector<HFH> nb;
    for (auto he : w.mesh.halfface(l[0]).halfedges()) nb.push_back(unique_neighbour(w, l, l[0], he));
    std::vector<HFH> want = {l[2], l[4], l[3], l[5]};
    if (nb.size() != 4) return false;
    for (int k = 0; k < 4; ++k) {
        bool ok = true;
        for (int i = 0; i < 4 && ok; ++i) ok = nb[i].is_valid() && nb[i] == want[(i + k) % 4];
        if (ok) return true;
    }
    return false;
}

// a proper combinatorial cube: 6 closed quads, 8 distinct vertices, 12 edges each used once in each direction
static bool proper_cube(W &w, CH c, std::set<int> *verts = nullptr, bool closed_surface_only = false) {
    auto &m = w.mesh;
    if (m.is_deleted(c)) return false;
    const auto &hfs = m.cell(c).halffaces();
    if (hfs.size() != 6) return false;
    std::set<int> vs, hes;
    for (auto hf : hfs) {
        if (!hf.is_valid() || hf.idx() >= 2 * (int)m.n_faces() || m.is_deleted(hf.face_handle())) return false;
        auto f = m.halfface(hf).halfedges();
        if (f.size() != 4) return false;
        std::set<int> fv;
        for (int i = 0; i < 4; ++i) {
            if (m.is_deleted(f[i].edge_handle())) return false;
            if (m.halfedge(f[i]).to_vertex() != m.halfedge(f[(i + 1) % 4]).from_vertex()) return false;
            if (!hes.insert(f[i].idx()).second) return false;
            fv.insert(m.halfedge(f[i]).from_vertex().idx());
        }
        if (fv.size() != 4) return false;
        vs.insert(fv.begin(), fv.end());
    }
    if (vs.size() != 8 || hes.size() != 24) return false;
    for (int h : hes) if (!hes.count(h ^ 1)) return false;
    if (closed_surface_only) { if (verts) *verts = vs; return true; }
    // every vertex in exactly three faces
    for (int v : vs) { int n = 0; for (auto hf : hfs) { auto fv = hf_verts(w, hf); if (std::find(fv.begin(), fv.end(), v) != fv.end()) ++n; } if (n != 3) return false; }
    if (verts) *verts = vs;
    return true;
}

// ------------------------------------------------------------------------------------ queries

static void q_hex_cell(W &w, QOut &q, int c) {
    auto &m = w.mesh; CH ch(c);
    auto hfs = m.cell(ch).halffaces();
    q.begin("hv", {c}); for (auto it = m.hv_iter(ch); it.valid(); ++it) q.h(*it); q.end();
    q.begin("layout", {c}); q.val(hex_layout(w, hfs) ? 1 : 0); q.end();
    for (int d = 0; d < 7; ++d) { q.begin("goh", {d, c}); q.h(m.get_oriented_halfface((unsigned char)d, ch)); q.end(); }
    for (int d = 0; d < 7; ++d) { q.begin("csc", {c, d}); for (auto it = m.csc_iter(ch, (unsigned char)d); it.valid(); ++it) q.h(*it); q.end(); }
    for (auto hf : hfs) {
        HFH o = hf.opposite_handle();
        q.begin("or", {hf.idx(), c}); q.val(m.orientation(hf, ch)); q.end();
        q.begin("or", {o.idx(), c}); q.val(m.orientation(o, ch)); q.end();
        q.begin("opp", {hf.idx(), c}); q.h(m.opposite_halfface_handle_in_cell(hf, ch)); q.end();
        q.begin("hfshf", {hf.idx()}); for (auto it = m.hfshf_iter(hf); it.valid(); ++it) { q.h(*it); q.h(it.common_edge()); } q.end();
        q.begin("hfshf", {o.idx()}); for (auto it = m.hfshf_iter(o); it.valid(); ++it) { q.h(*it); q.h(it.common_edge()); } q.end();
        for (auto he : m.halfface(hf).halfedges()) {
            q.begin("sheet", {hf.idx(), he.idx()}); q.h(m.adjacent_halfface_on_sheet(hf, he)); q.end();
            q.begin("sheet", {o.idx(), he.idx()}); q.h(m.adjacent_halfface_on_sheet(o, he)); q.end();
            q.begin("surf", {o.idx(), he.opposite_handle().idx()}); q.h(m.adjacent_halfface_on_surface(o, he.opposite_handle())); q.end();
        }
    }
}

static bool exec_query(W &w, const std::vector<std::string> &toks, int lineno, std::ostream &o) {
    auto &m = w.mesh;
    bool abs = toks[0][0] == '@';
    std::string name = abs ? toks[0].substr(1) : toks[0];
    if (name.size() < 2 || name[0] != 'Q') return false;
    Args<HexMesh> a(m, abs, toks);
    bool f = m.has_face_bottom_up_incidences();
    std::string e; bool ok = false; std::function<void(QOut &)> fn;
    if (name == "QHV") { int c = a.c(1); e = echo(name, {c}); ok = f && live_c(m, c);
        fn = [&m, c](QOut &q) { q.begin("hv", {c}); for (auto it = m.hv_iter(CH(c)); it.valid(); ++it) q.h(*it); q.end(); }; }
    else if (name == "QOR") { int h = a.hf(1), c = a.c(2); e = echo(name, {h, c}); ok = f && live_hf(m, h) && live_c(m, c);
        fn = [&m, h, c](QOut &q) { q.begin("or", {h, c}); q.val(m.orientation(HFH(h), CH(c))); q.end(); }; }
    else if (name == "QOPP") { int h = a.hf(1), c = a.c(2); e = echo(name, {h, c}); ok = f && live_hf(m, h) && live_c(m, c);
        fn = [&m, h, c](QOut &q) { q.begin("opp", {h, c}); q.h(m.opposite_halfface_handle_in_cell(HFH(h), CH(c))); q.end(); }; }
    else if (name == "QGOH") { long d = a.L(1); int c = a.c(2); e = echo(name, {d, c}); ok = f && live_c(m, c) && d >= 0 && d < 256;
        fn = [&m, d, c](QOut &q) { q.begin("goh", {d, c}); q.h(m.get_oriented_halfface((unsigned char)d, CH(c))); q.end(); }; }
    else if (name == "QSHEET") { int h = a.hf(1), he = a.he(2); e = echo(name, {h, he}); ok = f && live_hf(m, h) && live_he(m, he);
        fn = [&m, h, he](QOut &q) { q.begin("sheet", {h, he}); q.h(m.adjacent_halfface_on_sheet(HFH(h), HEH(he))); q.end(); }; }
    else if (name == "QSURF") { int h = a.hf(1), he = a.he(2); e = echo(name, {h, he}); ok = f && live_hf(m, h) && live_he(m, he);
        fn = [&m, h, he](QOut &q) { q.begin("surf", {h, he}); q.h(m.adjacent_halfface_on_surface(HFH(h), HEH(he))); q.end(); }; }
    else if (name == "QCSC") { int c = a.c(1); long d = a.L(2); e = echo(name, {c, d}); ok = f && live_c(m, c) && d >= 0 && d < 256;
        fn = [&m, c, d](QOut &q) { q.begin("csc", {c, d}); for (auto it = m.csc_iter(CH(c), (unsigned char)d); it.valid(); ++it) q.h(*it); q.end(); }; }
    else if (name == "QHFSHF") { int h = a.hf(1); e = echo(name, {h}); ok = f && live_hf(m, h);
        fn = [&m, h](QOut &q) { q.begin("hfshf", {h}); for (auto it = m.hfshf_iter(HFH(h)); it.valid(); ++it) { q.h(*it); q.h(it.common_edge()); } q.end(); }; }
    else if (name == "QLAYOUT") { int c = a.c(1); e = echo(name, {c}); ok = f && live_c(m, c);
        fn = [&w, &m, c](QOut &q) { q.begin("layout", {c}); q.val(hex_layout(w, m.cell(CH(c)).halffaces()) ? 1 : 0); q.end(); }; }
    else if (name == "QHexAll") { e = name; ok = f;
        fn = [&w, &m](QOut &q) { for (int c = 0; c < (int)m.n_cells(); ++c) if (!m.is_deleted(CH(c))) q_hex_cell(w, q, c); }; }
    else if (name == "QOrthAll") { e = name; ok = true;
        fn = [](QOut &q) { for (int x = 0; x < 7; ++x) for (int y = 0; y < 7; ++y) { q.begin("orth", {x, y});
            q.val(HexahedralMeshTopologyKernel::orthogonal_orientation((unsigned char)x, (unsigned char)y));
            q.val(HexahedralMeshTopologyKernel::opposite_orientation((unsigned char)x)); q.end(); } }; }
    else { fprintf(stderr, "bad query %s\n", name.c_str()); exit(3); }
    if (!ok) { header(o, lineno, e, "Rejected"); return true; }
    header(o, lineno, e, "Ok -");
    o << run_isolated(fn);
    return true;
}

// ------------------------------------------------------------------------------------ operations

static bool exec_hex(W &w, const std::vector<std::string> &toks, Result &res) {
    auto &m = w.mesh;
    bool abs = toks[0][0] == '@';
    std::string name = abs ? toks[0].substr(1) : toks[0];
    Args<HexMesh> a(m, abs, toks);
    if (name == "HAddCellV") {
        long c = a.L(1); std::vector<long> e{c}; std::vector<VH> vs; bool ok = true;
        for (size_t i = 2; i < toks.size(); ++i) { int v = a.v(i); e.push_back(v); vs.push_back(VH(v)); ok = ok && live_v(m, v); }
        res.echo = echo(name, e);
        if (!ok) { res.rejected = true; return true; }
        auto ch = m.add_cell(vs, c != 0); res.has = ch.is_valid(); res.r = ch.idx(); return true;
    }
    return false;
}

// ------------------------------------------------------------------------------------ oracles (C16)

static void mark_new(W &w, int old_nv) {
    for (int i = old_nv; i < (int)w.mesh.n_vertices(); ++i) w.mesh.set_vertex(VH(i), Vec3d((double)(++w.next_vid), 0, 0));
}

static void oracle_orientation_tables(StepOut &out) {
    // right-handed axis algebra: XF,XB = +-x; YF,YB = +-y; ZF,ZB = +-z; orthogonal_orientation = cross product
    auto vec = [](int o) { std::array<int, 3> v = {0, 0, 0}; v[o / 2] = (o % 2) ? -1 : 1; return v; };
    auto lab = [](std::array<int, 3> v) { for (int i = 0; i < 3; ++i) { if (v[i] == 1) return 2 * i; if (v[i] == -1) return 2 * i + 1; } return 6; };
    typedef HexahedralMeshTopologyKernel K;
    for (int a = 0; a < 6; ++a) {
        if (K::opposite_orientation((unsigned char)a) != (a ^ 1)) out.fail("C16", "opposite_orientation(" + std::to_string(a) + ") wrong");
        for (int b = 0; b < 6; ++b) {
            auto x = vec(a), y = vec(b);
            std::array<int, 3> cr = {x[1] * y[2] - x[2] * y[1], x[2] * y[0] - x[0] * y[2], x[0] * y[1] - x[1] * y[0]};
            int want = lab(cr);
            if (K::orthogonal_orientation((unsigned char)a, (unsigned char)b) != want)
                out.fail("C16", "orthogonal_orientation(" + std::to_string(a) + "," + std::to_string(b) + ") is not the right-handed cross product");
        }
    }
}

// the quantifier of the navigation statements: a mesh of hexes in which no halfface belongs to two live cells, every
// stored handle designates a live entity and the face incidences (if present) are those of the definitions
static bool mesh_clean(W &w) {
    auto &m = w.mesh;
    std::set<int> owner;
    for (int c = 0; c < (int)m.n_cells(); ++c) if (!m.is_deleted(CH(c))) for (auto hf : m.cell(CH(c)).halffaces()) {
        if (!hf.is_valid() || hf.idx() >= 2 * (int)m.n_faces() || m.is_deleted(hf.face_handle())) return false;
        if (!owner.insert(hf.idx()).second) return false;
        if (m.has_face_bottom_up_incidences() && m.incident_cell(hf) != CH(c)) return false;
    }
    for (int f = 0; f < (int)m.n_faces(); ++f) if (!m.is_deleted(FH(f))) for (auto he : m.face(FH(f)).halfedges())
        if (!he.is_valid() || he.idx() >= 2 * (int)m.n_edges() || m.is_deleted(he.edge_handle())) return false;
    if (m.has_face_bottom_up_incidences()) for (int h = 0; h < 2 * (int)m.n_faces(); ++h) { auto c = m.incident_cell(HFH(h)); if (c.is_valid() && !owner.count(h)) return false; }
    return true;
}

// C01's quantifier, inherited by the reachable states of C16: no halfface is used by two live cells.  A history that
// creates such a state (add_cell on an occupied halfface; the library documents it as a non-manifold configuration the
// caller may intend) is outside the contract of the shape statements: the halfface -> cell incidence names one cell only,
// delete_face misses the other one, and removing the face physically filters its halfface out of the survivor.
static bool halfface_in_two_live_cells(W &w) {
    auto &m = w.mesh;
    std::set<int> owner;
    for (int c = 0; c < (int)m.n_cells(); ++c) if (!m.is_deleted(CH(c))) for (auto hf : m.cell(CH(c)).halffaces())
        if (hf.is_valid() && !owner.insert(hf.idx()).second) return true;
    return false;
}

// a cell just accepted by a topology-checked add_cell (from halffaces or from eight vertices): exactly eight distinct
// vertices (fix "checked hex add_cell must reject cells without eight distinct vertices"), and - when its six faces are
// closed loops, i.e. valid faces - halffaces 2k / 2k+1 share no vertex (the x/y/z front and back of a hexahedron)
static void oracle_checked_add(W &w, CH c, StepOut &out) {
    auto &m = w.mesh;
    const auto hfs = m.cell(c).halffaces();
    auto fail = [&](const std::string &s) { out.fail("C16", "cell " + std::to_string(c.idx()) + ": " + s); };
    std::set<int> vs;
    bool loops = hfs.size() == 6;
    for (auto hf : hfs) {
        if (!hf.is_valid() || hf.idx() >= 2 * (int)m.n_faces()) return;          // judged elsewhere (invalid handle stored)
        auto f = m.halfface(hf).halfedges();
        for (size_t i = 0; i < f.size(); ++i) {
            vs.insert(m.halfedge(f[i]).from_vertex().idx());
            if (m.halfedge(f[i]).to_vertex() != m.halfedge(f[(i + 1) % f.size()]).from_vertex()) loops = false;
        }
    }
    stat_event("checked_add_judged");
    if (vs.size() != 8) { fail("accepted with topology check on " + std::to_string(vs.size()) + " distinct vertices (a hexahedron has exactly eight)"); return; }
    if (!loops) return;
    for (int k = 0; k < 3; ++k) {
        auto a = hf_verts(w, hfs[2 * k]), b = hf_verts(w, hfs[2 * k + 1]);
        for (int x : a) if (std::find(b.begin(), b.end(), x) != b.end()) {
            fail("accepted with topology check but halffaces " + std::to_string(2 * k) + " and " + std::to_string(2 * k + 1) + " share the vertex " + std::to_string(x)); return; }
    }
}

static void oracle_hex(W &w, StepOut &out, bool tainted_shape, bool all_layout) {
    auto &m = w.mesh;
    if (!tainted_shape) {
        for (int f = 0; f < (int)m.n_faces(); ++f) if (!m.is_deleted(FH(f)) && m.face(FH(f)).halfedges().size() != 4) {
            out.fail("C16", "live face " + std::to_string(f) + " has " + std::to_string(m.face(FH(f)).halfedges().size()) + " halfedges"); return; }
        for (int c = 0; c < (int)m.n_cells(); ++c) if (!m.is_deleted(CH(c)) && m.cell(CH(c)).halffaces().size() != 6) {
            out.fail("C16", "live cell " + std::to_string(c) + " has " + std::to_string(m.cell(CH(c)).halffaces().size()) + " halffaces"); return; }
    }
    if (!mesh_clean(w)) return;
    for (int ci = 0; ci < (int)m.n_cells(); ++ci) {
        CH c(ci);
        if (m.is_deleted(c)) continue;
        auto hfs = m.cell(c).halffaces();
        auto fail = [&](const std::string &s) { out.fail("C16", "cell " + std::to_string(ci) + ": " + s); };
        std::set<int> cv;
        bool cube = proper_cube(w, c, &cv);
        // every cell created from 8 vertices / accepted with topology check: any closed surface of six quads on eight
        // distinct vertices that got in must be in the documented layout (a non-cube cannot be, so it must not get in)
        bool closed6 = cube || proper_cube(w, c, nullptr, true);
        if (all_layout && closed6) stat_event("layout_checked");
        if (all_layout && closed6 && !hex_layout(w, hfs)) { fail("created from 8 vertices / accepted with topology check but not in the XF,XB,YF,YB,ZF,ZB layout"); return; }
        if (hfs.size() == 6 && std::set<HFH>(hfs.begin(), hfs.end()).size() == 6) {
            // accessors agree with the stored positions
            HFH acc[6] = {m.xfront_halfface(c), m.xback_halfface(c), m.yfront_halfface(c), m.yback_halfface(c), m.zfront_halfface(c), m.zback_halfface(c)};
            for (int i = 0; i < 6; ++i) {
                if (m.orientation(hfs[i], c) != i) { fail("orientation() differs from the stored position"); return; }
                if (acc[i] != hfs[i] || m.get_oriented_halfface((unsigned char)i, c) != hfs[i]) { fail("front/back accessor differs from the stored position"); return; }
                if (m.opposite_halfface_handle_in_cell(hfs[i], c) != hfs[i ^ 1]) { fail("opposite_halfface_handle_in_cell is not position^1"); return; }
            }
        }
        if (!m.has_face_bottom_up_incidences()) continue;
        // sheet cells = neighbours across the four halffaces orthogonal to the direction
        if (hfs.size() == 6) for (int d = 0; d < 6; ++d) {
            std::set<int> want;
            for (int i = 0; i < 6; ++i) if (i != d && i != (d ^ 1) && m.orientation(hfs[i], c) == i) { auto n = m.incident_cell(hfs[i].opposite_handle()); if (n.is_valid()) want.insert(n.idx()); }
            bool dup = std::set<HFH>(hfs.begin(), hfs.end()).size() != 6;
            std::vector<int> got; for (auto it = m.csc_iter(c, (unsigned char)d); it.valid(); ++it) got.push_back(it->idx());
            if (!dup && (std::set<int>(got.begin(), got.end()) != want || got.size() != want.size() || !std::is_sorted(got.begin(), got.end()))) { fail("cell_sheet_cells(" + std::to_string(d) + ") is not the set of neighbours across the four orthogonal halffaces"); return; }
        }
        if (!cube || !hex_layout(w, hfs)) continue;
        stat_event("cube_checked");
        // hex_vertices pattern
        std::vector<int> hv; for (auto it = m.hv_iter(c); it.valid(); ++it) hv.push_back(it->idx());
        if (hv.size() != 8 || std::set<int>(hv.begin(), hv.end()) != cv) { fail("hex_vertices does not report the cell's eight distinct vertices"); return; }
        auto f0 = hf_verts(w, hfs[0]), f1 = hf_verts(w, hfs[1]);
        std::vector<int> first4(hv.begin(), hv.begin() + 4), last4(hv.begin() + 4, hv.end());
        std::vector<int> want0 = {f0[0], f0[3], f0[2], f0[1]};     // against the cyclic order, from the source of the first halfedge
        if (first4 != want0) { fail("hex_vertices: first four are not the first halfface's vertices against its cyclic order from its first halfedge's source"); return; }
        if (std::set<int>(last4.begin(), last4.end()) != std::set<int>(f1.begin(), f1.end())) { fail("hex_vertices: last four are not the opposite halfface's vertices"); return; }
        auto joined = [&](int x, int y) { for (auto hf : hfs) for (auto he : m.halfface(hf).halfedges()) { auto e = m.halfedge(he); if (e.from_vertex().idx() == x && e.to_vertex().idx() == y) return true; } return false; };
        const int pat[4][2] = {{0, 4}, {1, 7}, {2, 6}, {3, 5}};
        for (auto &p : pat) if (!joined(hv[p[0]], hv[p[1]])) { fail("hex_vertices: pattern positions " + std::to_string(p[0]) + "-" + std::to_string(p[1]) + " are not joined by an edge of the cell"); return; }
        // last four in a consistent rotation: consecutive entries joined by edges of the opposite halfface
        for (int i = 0; i < 4; ++i) if (!joined(last4[i], last4[(i + 1) % 4]) && !joined(last4[(i + 1) % 4], last4[i])) { fail("hex_vertices: last four are not in cyclic order"); return; }
        // halfface sheet: every reported halfface belongs to a sheet neighbour and runs along a common edge in the opposite direction
        for (int i = 0; i < 6; ++i) {
            HFH hf = hfs[i];
            auto mine = m.halfface(hf).halfedges();
            std::set<int> sheet; for (auto it = m.csc_iter(c, (unsigned char)i); it.valid(); ++it) sheet.insert(it->idx());
            std::set<int> got;
            for (auto it = m.hfshf_iter(hf); it.valid(); ++it) {
                HFH r = *it; got.insert(r.idx());
                auto n = m.incident_cell(r);
                if (!n.is_valid() || !sheet.count(n.idx())) { fail("halfface_sheet_halffaces reports a halfface that is not in a sheet neighbour"); return; }
                bool shares = false; for (auto he : m.halfface(r).halfedges()) if (std::find(mine.begin(), mine.end(), he.opposite_handle()) != mine.end() && he.edge_handle() == it.common_edge()) shares = true;
                if (!shares) { fail("halfface_sheet_halffaces: reported halfface does not run along the common edge"); return; }
            }
            std::set<int> want;
            for (int n : sheet) for (auto x : m.cell(CH(n)).halffaces()) for (auto he : m.halfface(x).halfedges()) if (std::find(mine.begin(), mine.end(), he.opposite_handle()) != mine.end()) want.insert(x.idx());
            if (got != want) { fail("halfface_sheet_halffaces misses / adds a matching halfface of a sheet neighbour"); return; }
        }
    }
}

// ------------------------------------------------------------------------------------ script execution

static void run_script(const std::vector<std::string> &lines) {
    W w;
    bool orc = g_orc.has("C16");
    bool tainted = false, all_layout = true;
    int lineno = 0;
    if (orc) { StepOut so; oracle_orientation_tables(so); std::string s = so.o.str(); fwrite(s.data(), 1, s.size(), stdout); }
    for (auto &line : lines) {
        ++lineno;
        auto toks = split_ws(line);
        std::ostringstream o;
        std::string nm = toks[0][0] == '@' ? toks[0].substr(1) : toks[0];
        try {
            if (nm == "Mesh") { header(o, lineno, "Mesh " + toks.at(1), "Ok -"); if (toks.at(1) != "hex") { fprintf(stderr, "run_hex: not a hex script\n"); exit(3); } dump_state(w, o); }
            else if (exec_query(w, toks, lineno, o)) {}
            else {
                int old_nv = (int)w.mesh.n_vertices();
                size_t old_nc = w.mesh.n_cells();
                Result r;
                if (!exec_hex(w, toks, r)) r = exec_line(w, toks);
                mark_new(w, old_nv);
                // an invalid halfface handle stored in a new cell: what the model calls UB (with face incidences the
                // library aborts by itself on incident_cell_per_hf_[-1])
                if (w.mesh.n_cells() > old_nc) for (auto h : w.mesh.cell(CH((int)w.mesh.n_cells() - 1)).halffaces()) if (!h.is_valid()) { fflush(stdout); _exit(77); }
                header(o, lineno, r.echo, r.rejected ? "Rejected" : (r.has ? ("Ok " + std::to_string(r.r)).c_str() : "Ok -"));
                dump_state(w, o);
                if (nm == "SetF" || nm == "SetC" || nm == "SetE") { tainted = true; all_layout = false; }
                if (nm == "AddC" && toks.at(1) == "0") all_layout = false;
                if (nm == "SwapF" || nm == "SwapE" || nm == "SwapV") { /* relabelings keep shape and layout */ }
                if (nm == "Clear") { tainted = false; all_layout = true; }
                if (halfface_in_two_live_cells(w)) { tainted = true; all_layout = false; }      // out of contract from here on (until Clear)
                if (orc && !r.rejected) {
                    StepOut so;
                    bool checked_add = (nm == "AddC" || nm == "HAddCellV") && toks.size() > 1 && toks.at(1) == "1";
                    if (checked_add && w.mesh.n_cells() > old_nc) oracle_checked_add(w, CH((int)w.mesh.n_cells() - 1), so);
                    if (so.o.str().empty()) oracle_hex(w, so, tainted, all_layout);
                    o << so.o.str();
                }
            }
        } catch (Unresolvable &) {
            header(o, lineno, trim(line), "Unresolvable");
            dump_state(w, o);
        }
        std::string s = o.str();
        fwrite(s.data(), 1, s.size(), stdout);
        fflush(stdout);
    }
}

int main(int argc, char **argv) { return script_main(argc, argv, g_orc, run_script); }
