// run_iter.cc -- executes kernel scripts on the real library (rebuilt from /repo's working tree) and,
// on every "Query <max_laps> <walk>..." line, prints what the REAL iterators and circulators do:
// forward traces with max_laps 1 and 2, range-for over the pair accessors, begin/end pairs, and the
// (*it, valid(), lap()) trace of the forward/backward step sequences given in the script line;
// valence and is_boundary of every entity; the six boundary iterators.  Same text as
// ocaml/iterdriver.ml prints from the extracted model (compared line by line by lib/checks_iter.py).
//
// Impl-side oracles (independent of the model, "!O C05 ..." / "!O C01 ..." lines): every accessor's
// forward trace against the brute-force incident set x laps computed from edge()/face()/cell()/
// is_deleted only; end == begin advanced; --(++it) == it inside the valid range; nothing incident =>
// immediately invalid; valence / is_boundary / boundary iterators against brute force.
//
// Guards (D8 / D15 are repaired in /repo and no longer guarded): the harness never executes a step that the C++ sources make undefined (out-of-range read);
// the rules are stated where they are applied and are the same rules ocaml/iterdriver.ml applies to the
// model, so a disagreement about WHEN something is undefined shows up as a difference ("U" vs a value).
#include "probe.hh"
#include "kernel_exec.hh"
#include "oracle_kernel.hh"
#include <fstream>
#include <iostream>
#include <functional>

using namespace ovmv;
typedef GeometryKernel<Vec3d, TopologyKernel> Mesh;
typedef Probe<Mesh> PM;

static bool g_oracle = true;

static std::string ints(const std::vector<int> &v) {
    std::string s;
    for (size_t i = 0; i < v.size(); ++i) { if (i) s += " "; s += std::to_string(v[i]); }
    return s;
}
template <class It> static std::string cobs(const It &it) {
    return "(" + std::to_string((*it).idx()) + "," + std::to_string(it.valid() ? 1 : 0) + "," + std::to_string(it.lap()) + ")";
}
template <class It> static std::string eobs(const It &it) {
    return "(" + std::to_string((*it).idx()) + "," + std::to_string(it.valid() ? 1 : 0) + ")";
}

struct Expect {
    enum Mode { None, Seq, Multi, Set } mode = None;   // exact sequence / multiset in any order / duplicate-free set in any order
    std::vector<int> v;
    bool sorted_out = false;                           // the class promises ascending duplicate-free output (sort+unique)
};

static const int CAP = 100000;

// one step, cycling through the spellings of ++ / -- the headers offer
template <class It> static void fwd(It &it, size_t pos) {
    switch (pos % 3) { case 0: ++it; break; case 1: it++; break; default: it += 1; }
}
template <class It> static void bwd(It &it, size_t pos) {
    switch (pos % 3) { case 0: --it; break; case 1: it--; break; default: it -= 1; }
}

// ------------------------------------------------------------------------------------ circulators
template <class MkIt, class MkPair>
static void do_circ(std::ostream &o, OracleOut &out, const char *nm, int x, int m, const std::vector<std::string> &walks,
                    MkIt mk, MkPair mp, bool is_cf, const Expect &ex) {
    std::vector<int> tr1;
    for (int mm = 1; mm <= 2; ++mm) {
        auto it = mk(mm);
        auto b = it;
        std::vector<int> vals;
        int guard = 0;
        while (it.valid() && guard++ < CAP) { vals.push_back((*it).idx()); ++it; }
        auto pr = mp(mm);
        bool eq = (it == pr.second);
        o << "C " << nm << " " << x << " m=" << mm << " : " << ints(vals) << " | " << cobs(it) << " end " << cobs(pr.second) << " eq=" << (eq ? 1 : 0) << "\n";
        if (mm == 1) tr1 = vals;
        if (g_oracle && ex.mode != Expect::None) {
            std::string who = std::string(nm) + "(" + std::to_string(x) + ") max_laps=" + std::to_string(mm);
            if (guard >= CAP) out.fail("C05", who + " never becomes invalid");
            if (!eq) out.fail("C05", who + ": the end circulator is not the begin circulator advanced past the last lap");
            if (!(b == pr.first)) out.fail("C05", who + ": pair.first differs from the _iter() accessor");
            if (mm == 2) { auto d = tr1; d.insert(d.end(), tr1.begin(), tr1.end()); if (d != vals) out.fail("C05", who + " does not repeat the first lap: " + vstr(vals)); }
            if (mm == 1) {
                bool okk = true;
                if (ex.mode == Expect::Seq) okk = vals == ex.v;
                else okk = sorted(vals) == sorted(ex.v);
                if (ex.mode == Expect::Set) { auto sv = sorted(vals); if (std::adjacent_find(sv.begin(), sv.end()) != sv.end()) okk = false; }
                if (ex.sorted_out && vals != sorted(ex.v)) okk = false;
                if (!okk) out.fail("C05", who + " yields " + vstr(vals) + ", brute force over the definitions says " + vstr(ex.v));
                if (ex.v.empty() && b.valid()) out.fail("C05", who + ": nothing incident but the circulator is valid at construction");
            }
        }
    }
    {   // range-for over the pair accessor
        std::vector<int> vals;
        int guard = 0;
        for (auto h : mp(1)) { vals.push_back(h.idx()); if (++guard > CAP) break; }
        o << "C " << nm << " " << x << " range : " << ints(vals) << "\n";
        if (g_oracle && ex.mode != Expect::None && vals != tr1) out.fail("C05", std::string(nm) + "(" + std::to_string(x) + "): range-for yields " + vstr(vals) + " but the valid() loop " + vstr(tr1));
    }
    auto b = mk(m);
    if (!b.valid()) return;           // rule: no stepping on a circulator that is invalid at construction (reads l[1] of an empty list)
    {   // the copying forms operator+ / operator-
        auto p2 = b + 2;
        auto p2m1 = p2 - 1;
        auto m1 = b - 1;
        o << "C " << nm << " " << x << " arith m=" << m << " : " << cobs(p2) << " " << cobs(p2m1) << " " << cobs(m1) << "\n";
        if (g_oracle && ex.mode != Expect::None) {
            auto u = b; ++u; auto u1 = u; ++u;
            if (!(u == p2)) out.fail("C05", std::string(nm) + "(" + std::to_string(x) + "): it + 2 differs from ++ applied twice");
            if (p2.valid() && u1.valid() && !(p2m1 == u1)) out.fail("C05", std::string(nm) + "(" + std::to_string(x) + "): (it + 2) - 1 differs from it + 1");
            if (!(b == mk(m))) out.fail("C05", std::string(nm) + "(" + std::to_string(x) + "): operator+ / operator- modified their operand");
        }
    }
    for (auto &w : walks) {
        auto it = b;
        std::string s;
        bool stop = false;
        for (size_t i = 0; i < w.size() && !stop; ++i) {
            auto before = it;
            if (w[i] == '+') fwd(it, i); else bwd(it, i);
            if (!s.empty()) s += " ";
            s += cobs(it);
            if (g_oracle && ex.mode != Expect::None && before.valid() && it.valid()) {
                auto t = it;
                if (w[i] == '+') --t; else ++t;
                if (!(t == before)) out.fail("C05", std::string(nm) + "(" + std::to_string(x) + ") max_laps=" + std::to_string(m) + ": stepping back does not undo step " + std::to_string(i + 1) + " of " + w);
            }
        }
        o << "C " << nm << " " << x << " walk m=" << m << " " << w << " : " << s << "\n";
    }
}

// ------------------------------------------------------------------------------------ brute force (definitions only)
struct Brute {
    const Snap &s;
    bool ok;                                   // the state is inside the quantifier of C01/C05
    std::vector<int> owner;                    // halfface -> live cell using it, -1
    explicit Brute(const Snap &sn) : s(sn), ok(valid_for_c01(sn)) {
        owner.assign(2 * s.F.size(), -1);
        for (int c = 0; c < (int)s.C.size(); ++c) if (!s.cd[c]) for (int hf : s.C[c]) if (hf >= 0 && hf < (int)owner.size()) owner[hf] = c;
    }
    bool in(const std::vector<int> &l, int x) const { return std::find(l.begin(), l.end(), x) != l.end(); }
    std::vector<int> voh(int v) const { std::vector<int> r; for (int h = 0; h < 2 * (int)s.E.size(); ++h) if (!s.ed[h / 2] && s.from(h) == v) r.push_back(h); return r; }
    std::vector<int> hehf(int h) const { std::vector<int> r; for (int hf = 0; hf < 2 * (int)s.F.size(); ++hf) if (!s.fd[hf / 2] && in(s.halfface(hf), h)) r.push_back(hf); return r; }
    std::vector<int> faces_of_edge(int e) const { std::vector<int> r; for (int f = 0; f < (int)s.F.size(); ++f) if (!s.fd[f]) { bool hit = false; for (int h : s.F[f]) if (h / 2 == e) hit = true; if (hit) r.push_back(f); } return r; }
    bool face_touches(int f, int v) const { for (int h : s.F[f]) if (s.from(h) == v || s.to(h) == v) return true; return false; }
    bool isb_hf(int hf) const { return owner[hf] < 0; }
    bool isb_f(int f) const { return isb_hf(2 * f) || isb_hf(2 * f + 1); }
    bool isb_e(int e) const { for (int f : faces_of_edge(e)) if (isb_f(f)) return true; return false; }
    bool isb_v(int v) const { for (int h : voh(v)) if (isb_e(h / 2)) return true; return false; }
    bool isb_c(int c) const { for (int hf : s.C[c]) if (isb_f(hf / 2)) return true; return false; }
    static std::vector<int> uniq(std::vector<int> v) { std::sort(v.begin(), v.end()); v.erase(std::unique(v.begin(), v.end()), v.end()); return v; }
};

// ------------------------------------------------------------------------------------ entity iterators
template <class It, class H, class Beg, class End, class Pair>
static void do_entity(std::ostream &o, OracleOut &out, const char *kn, int n, const std::vector<std::string> &walks,
                      Beg beg, End end, Pair pair, const std::vector<int> &live, bool d11) {
    if (d11) {
        // D11: "begin/end pairs, the valid() protocol ... and backward stepping all agree"
        if (!live.empty()) {
            It e = end(); --e;
            if (!(e.valid() && (*e).idx() == live.back()))
                out.fail("C05", std::string("D11 ") + kn + ": --end() yields handle " + std::to_string((*e).idx()) + " with valid()=" + std::to_string(e.valid()) + " (last live entity is " + std::to_string(live.back()) + ")");
            It b = beg(); int guard = 0; while (b.valid() && guard++ < CAP) ++b; --b;
            if (!(b.valid() && (*b).idx() == live.back()))
                out.fail("C05", std::string("D11 ") + kn + ": ++ to the end then -- yields handle " + std::to_string((*b).idx()) + " with valid()=" + std::to_string(b.valid()));
        }
        return;
    }
    It b = beg(), e = end();
    std::vector<int> vals;
    It it = b;
    int guard = 0;
    while (it.valid() && guard++ < CAP) { vals.push_back((*it).idx()); ++it; }
    o << "I " << kn << " fwd : " << ints(vals) << " | " << eobs(it) << "\n";
    std::vector<int> rv;
    guard = 0;
    for (auto h : pair()) { rv.push_back(h.idx()); if (++guard > n + 3) break; }
    o << "I " << kn << " range : " << ints(rv) << "\n";
    o << "I " << kn << " pair : " << eobs(b) << " " << eobs(e) << " eq=" << ((it == e) ? 1 : 0) << "\n";
    {
        It r = e; std::string s;
        for (int i = 0; i < n + 2; ++i) { --r; if (i) s += " "; s += eobs(r); }
        o << "I " << kn << " rev : " << s << "\n";
    }
    {   // the copying forms operator+ / operator-  (rule: no -- from beyond end())
        It p2 = b + 2;
        std::string t = (*p2).idx() > n ? std::string("s") : eobs(p2 - 1);
        o << "I " << kn << " arith : " << eobs(p2) << " " << t << " " << eobs(b - 1) << "\n";
        if (g_oracle) { It u = b; ++u; ++u; if (!(u == p2)) out.fail("C05", std::string(kn) + " iterator: it + 2 differs from ++ applied twice"); }
    }
    if (g_oracle) {
        if (vals != live) out.fail("C05", std::string(kn) + " iterator visits " + vstr(vals) + ", the not-deleted entities are " + vstr(live));
        if (rv != live) out.fail("C05", std::string(kn) + " range-for visits " + vstr(rv) + ", the not-deleted entities are " + vstr(live));
        if (!(it == e)) out.fail("C05", std::string(kn) + " iterator advanced past the last entity is not the end iterator");
        auto pr = pair();
        if (!(pr.first == b) || !(pr.second == e)) out.fail("C05", std::string(kn) + ": the pair accessor differs from begin()/end()");
        if (live.empty() && b.valid()) out.fail("C05", std::string(kn) + ": no live entity but begin() is valid");
    }
    for (auto &w : walks) {
        It c = b; std::string s;
        for (size_t i = 0; i < w.size(); ++i) {
            if (i) s += " ";
            It before = c;
            if (w[i] == '+') fwd(c, i);
            else if ((*c).idx() > n) { s += "s"; continue; }      // rule: -- from beyond end() reads the deleted flag out of range
            else bwd(c, i);
            s += eobs(c);
            if (g_oracle && before.valid() && c.valid()) {
                It t = c; if (w[i] == '+') --t; else ++t;
                if (!(t == before)) out.fail("C05", std::string(kn) + " iterator: stepping back does not undo step " + std::to_string(i + 1) + " of " + w);
            }
        }
        o << "I " << kn << " walk " << w << " : " << s << "\n";
    }
}

// ------------------------------------------------------------------------------------ boundary iterators
template <class It>
static void do_bnd(std::ostream &o, OracleOut &out, const char *kn, bool unsafe, bool has_live, const std::vector<std::string> &walks,
                   std::function<It()> mk, bool has_inc, const std::vector<int> &expect, bool check) {
    if (unsafe) { o << "BI " << kn << " : U\n"; return; }
    It b = mk();
    It it = b;
    std::vector<int> vals;
    int guard = 0;
    while (it.valid() && guard++ < CAP) { vals.push_back((*it).idx()); ++it; }
    o << "BI " << kn << " fwd : " << ints(vals) << " | " << eobs(it) << "\n";
    if (b.valid()) {   // the copying forms (rules as for the walks: + only on a valid iterator, - only with a live entity)
        It p1 = b + 1;
        o << "BI " << kn << " arith : " << eobs(p1) << " " << (has_live ? eobs(p1 - 1) : std::string("s")) << "\n";
        if (g_oracle && check && has_inc && p1.valid() && !((p1 - 1) == b)) out.fail("C05", std::string("boundary ") + kn + " iterator: (it + 1) - 1 differs from it");
    }
    if (g_oracle && check) {
        if (has_inc && vals != expect) out.fail("C01", std::string("boundary ") + kn + " iterator yields " + vstr(vals) + ", brute force says " + vstr(expect));
        if (expect.empty() && b.valid()) out.fail("C05", std::string("boundary ") + kn + " iterator: nothing to visit but valid at construction");
    }
    for (auto &w : walks) {
        It c = b; std::string s;
        for (size_t i = 0; i < w.size(); ++i) {
            if (i) s += " ";
            It before = c;
            // rules: ++ on an invalid BoundaryItemIter calls is_boundary(end) ; -- with no live entity calls is_boundary(-1)
            if (w[i] == '+') { if (!c.valid()) { s += "s"; continue; } fwd(c, i); }
            else { if (!has_live) { s += "s"; continue; } bwd(c, i); }
            s += eobs(c);
            if (g_oracle && check && has_inc && before.valid() && c.valid()) {
                It t = c; if (w[i] == '+') --t; else ++t;
                if (!(t == before)) out.fail("C05", std::string("boundary ") + kn + " iterator: stepping back does not undo step " + std::to_string(i + 1) + " of " + w);
            }
        }
        o << "BI " << kn << " walk " << w << " : " << s << "\n";
    }
}

// would is_boundary(...) read a cache out of range?  (caches are either empty or fully sized)
static bool safe_isb_f(PM &m, int f) { return (size_t)(2 * f + 1) < m.incident_cell_per_hf_.size(); }
static bool safe_isb_he(PM &m, int h) {
    if (!m.has_edge_bottom_up_incidences() || (size_t)h >= m.incident_hfs_per_he_.size()) return true;   // hehf_iter invalid: returns false
    for (auto hf : m.incident_hfs_per_he_[HalfEdgeHandle(h)]) if (!safe_isb_f(m, hf.idx() / 2)) return false;
    return true;
}
static bool safe_isb_v(PM &m, int v) {
    if (!m.has_vertex_bottom_up_incidences() || (size_t)v >= m.outgoing_hes_per_vertex_.size()) return true;
    for (auto h : m.outgoing_hes_per_vertex_[VertexHandle(v)]) if (!safe_isb_he(m, h.idx())) return false;
    return true;
}
static bool safe_isb_c(PM &m, int c) {
    for (auto hf : m.cell(CellHandle(c)).halffaces()) if (!safe_isb_f(m, hf.idx() / 2)) return false;
    return true;
}

static void query_bc(World<Mesh> &w, std::ostream &o, OracleOut &out, const std::vector<std::string> &walks, bool guard, const Brute &br, const Snap &s) {
    PM &m = w.mesh;
    // no harness-side guard any more: BoundaryItemIter<CellIter>::has_incidences() is the face-incidence flag (D8 repaired)
    (void)guard;
    bool unsafe = false;
    std::vector<int> live, ex;
    for (int c = 0; c < (int)s.C.size(); ++c) if (!s.cd[c]) { live.push_back(c); if (br.ok && br.isb_c(c)) ex.push_back(c); }
    do_bnd<BoundaryCellIter>(o, out, "C", unsafe, !live.empty(), walks, [&]() { return m.bc_iter(); }, s.fbu, ex, br.ok);
}

static void query(World<Mesh> &w, std::ostream &o, int m_laps, const std::vector<std::string> &walks) {
    PM &m = w.mesh;
    Snap s = take_snap(w);
    // rule: a state in which a stored definition names an entity that does not exist (reachable only outside the
    // valid histories, e.g. after deleting a face whose halfface was shared by two cells) is not queried at all
    if (!refs_ok(s)) { o << "Q skipped: a stored handle is out of range\n"; return; }
    Brute br(s);
    OracleOut out{o};
    int nv = s.nv, ne = (int)s.E.size(), nf = (int)s.F.size(), nc = (int)s.C.size();
    std::vector<int> lv, le, lhe, lf, lhf, lc;
    for (int i = 0; i < nv; ++i) if (!s.vd[i]) lv.push_back(i);
    for (int i = 0; i < ne; ++i) if (!s.ed[i]) { le.push_back(i); lhe.push_back(2 * i); lhe.push_back(2 * i + 1); }
    for (int i = 0; i < nf; ++i) if (!s.fd[i]) { lf.push_back(i); lhf.push_back(2 * i); lhf.push_back(2 * i + 1); }
    for (int i = 0; i < nc; ++i) if (!s.cd[i]) lc.push_back(i);

    // ---- entity iterators
    do_entity<VertexIter, VertexHandle>(o, out, "V", nv, walks, [&]() { return m.vertices_begin(); }, [&]() { return m.vertices_end(); }, [&]() { return m.vertices(); }, lv, false);
    do_entity<EdgeIter, EdgeHandle>(o, out, "E", ne, walks, [&]() { return m.edges_begin(); }, [&]() { return m.edges_end(); }, [&]() { return m.edges(); }, le, false);
    do_entity<HalfEdgeIter, HalfEdgeHandle>(o, out, "HE", 2 * ne, walks, [&]() { return m.halfedges_begin(); }, [&]() { return m.halfedges_end(); }, [&]() { return m.halfedges(); }, lhe, false);
    do_entity<FaceIter, FaceHandle>(o, out, "F", nf, walks, [&]() { return m.faces_begin(); }, [&]() { return m.faces_end(); }, [&]() { return m.faces(); }, lf, false);
    do_entity<HalfFaceIter, HalfFaceHandle>(o, out, "HF", 2 * nf, walks, [&]() { return m.halffaces_begin(); }, [&]() { return m.halffaces_end(); }, [&]() { return m.halffaces(); }, lhf, false);
    do_entity<CellIter, CellHandle>(o, out, "C", nc, walks, [&]() { return m.cells_begin(); }, [&]() { return m.cells_end(); }, [&]() { return m.cells(); }, lc, false);

    // ---- circulators
    bool full = s.vbu && s.ebu && s.fbu;
    auto E = [&](Expect::Mode md, std::vector<int> v, bool live, bool so = false) { Expect e; if (br.ok && live) { e.mode = md; e.v = std::move(v); e.sorted_out = so; } return e; };
    auto none = [&]() { return std::vector<int>(); };
#define CIRC(NM, ITER, PAIR, H, CNT, ISCF, EXPECT) \
    for (int x = 0; x < (CNT); ++x) { Expect ex_ = (EXPECT); \
        do_circ(o, out, NM, x, m_laps, walks, [&](int mm) { return m.ITER(H(x), mm); }, [&](int mm) { return m.PAIR(H(x), mm); }, ISCF, ex_); }

    CIRC("vv", vv_iter, vertex_vertices, VertexHandle, nv, false,
         E(Expect::Multi, s.vbu ? [&] { std::vector<int> r; for (int h : br.voh(x)) r.push_back(s.to(h)); return r; }() : none(), !s.vd[x]))
    CIRC("voh", voh_iter, outgoing_halfedges, VertexHandle, nv, false, E(Expect::Set, s.vbu ? br.voh(x) : none(), !s.vd[x]))
    CIRC("vih", vih_iter, incoming_halfedges, VertexHandle, nv, false,
         E(Expect::Set, s.vbu ? [&] { std::vector<int> r; for (int h : br.voh(x)) r.push_back(h ^ 1); return r; }() : none(), !s.vd[x]))
    CIRC("ve", ve_iter, vertex_edges, VertexHandle, nv, false,
         E(Expect::Multi, s.vbu ? [&] { std::vector<int> r; for (int h : br.voh(x)) r.push_back(h / 2); return r; }() : none(), !s.vd[x]))
    CIRC("vhf", vhf_iter, vertex_halffaces, VertexHandle, nv, false,
         E(Expect::Set, (s.vbu && s.ebu) ? [&] { std::vector<int> r; for (int hf : lhf) if (br.face_touches(hf / 2, x)) r.push_back(hf); return r; }() : none(), !s.vd[x], true))
    CIRC("vf", vf_iter, vertex_faces, VertexHandle, nv, false,
         E(Expect::Set, full ? [&] { std::vector<int> r; for (int f : lf) if (br.face_touches(f, x)) r.push_back(f); return r; }() : none(), !s.vd[x], true))
    CIRC("vc", vc_iter, vertex_cells, VertexHandle, nv, false,
         E(Expect::Set, full ? [&] { std::vector<int> r; for (int c : lc) { bool hit = false; for (int hf : s.C[c]) for (int h : s.halfface(hf)) if (s.from(h) == x) hit = true; if (hit) r.push_back(c); } return r; }() : none(), !s.vd[x], true))
    CIRC("hehf", hehf_iter, halfedge_halffaces, HalfEdgeHandle, 2 * ne, false, E(Expect::Set, s.ebu ? br.hehf(x) : none(), !s.ed[x / 2]))
    CIRC("hef", hef_iter, halfedge_faces, HalfEdgeHandle, 2 * ne, false, E(Expect::Set, s.ebu ? br.faces_of_edge(x / 2) : none(), !s.ed[x / 2], true))
    CIRC("hec", hec_iter, halfedge_cells, HalfEdgeHandle, 2 * ne, false,
         E(Expect::Set, (s.ebu && s.fbu) ? [&] { std::vector<int> r; for (int hf : br.hehf(x)) if (br.owner[hf] >= 0) r.push_back(br.owner[hf]); return Brute::uniq(r); }() : none(), !s.ed[x / 2]))
    CIRC("ehf", ehf_iter, edge_halffaces, EdgeHandle, ne, false,
         E(Expect::Set, s.ebu ? [&] { std::vector<int> r; for (int f : br.faces_of_edge(x)) { r.push_back(2 * f); r.push_back(2 * f + 1); } return r; }() : none(), !s.ed[x]))
    CIRC("ef", ef_iter, edge_faces, EdgeHandle, ne, false, E(Expect::Set, s.ebu ? br.faces_of_edge(x) : none(), !s.ed[x], true))
    CIRC("ec", ec_iter, edge_cells, EdgeHandle, ne, false,
         E(Expect::Set, (s.ebu && s.fbu) ? [&] { std::vector<int> r; for (int hf : br.hehf(2 * x)) if (br.owner[hf] >= 0) r.push_back(br.owner[hf]); return Brute::uniq(r); }() : none(), !s.ed[x]))
    CIRC("hfhe", hfhe_iter, halfface_halfedges, HalfFaceHandle, 2 * nf, false, E(Expect::Seq, s.halfface(x), !s.fd[x / 2]))
    CIRC("hfe", hfe_iter, halfface_edges, HalfFaceHandle, 2 * nf, false, E(Expect::Seq, [&] { std::vector<int> r; for (int h : s.halfface(x)) r.push_back(h / 2); return r; }(), !s.fd[x / 2]))
    CIRC("hfv", hfv_iter, halfface_vertices, HalfFaceHandle, 2 * nf, false, E(Expect::Seq, [&] { std::vector<int> r; for (int h : s.halfface(x)) r.push_back(s.from(h)); return r; }(), !s.fd[x / 2]))
    CIRC("fv", fv_iter, face_vertices, FaceHandle, nf, false, E(Expect::Seq, [&] { std::vector<int> r; for (int h : s.F[x]) r.push_back(s.from(h)); return r; }(), !s.fd[x]))
    for (int x = 0; x < nf; ++x) {
        // rule: FaceHalfEdgeIterImpl / FaceEdgeIterImpl read halfedges_[0] unconditionally in the constructor
        if (s.F[x].empty()) { o << "C fhe " << x << " : U\n"; continue; }
        Expect ex_ = E(Expect::Seq, s.F[x], !s.fd[x]);
        do_circ(o, out, "fhe", x, m_laps, walks, [&](int mm) { return m.fhe_iter(FaceHandle(x), mm); }, [&](int mm) { return m.face_halfedges(FaceHandle(x), mm); }, false, ex_);
    }
    for (int x = 0; x < nf; ++x) {
        if (s.F[x].empty()) { o << "C fe " << x << " : U\n"; continue; }
        Expect ex_ = E(Expect::Seq, [&] { std::vector<int> r; for (int h : s.F[x]) r.push_back(h / 2); return r; }(), !s.fd[x]);
        do_circ(o, out, "fe", x, m_laps, walks, [&](int mm) { return m.fe_iter(FaceHandle(x), mm); }, [&](int mm) { return m.face_edges(FaceHandle(x), mm); }, false, ex_);
    }
    CIRC("cv", cv_iter, cell_vertices, CellHandle, nc, false,
         E(Expect::Set, [&] { std::vector<int> r; for (int hf : s.C[x]) for (int h : s.F[hf / 2]) r.push_back(s.from(h)); return Brute::uniq(r); }(), !s.cd[x], true))
    CIRC("che", che_iter, cell_halfedges, CellHandle, nc, false,
         E(Expect::Seq, [&] { std::vector<int> r; for (int hf : s.C[x]) for (int h : s.halfface(hf)) r.push_back(h); return r; }(), !s.cd[x]))
    CIRC("ce", ce_iter, cell_edges, CellHandle, nc, false,
         E(Expect::Set, [&] { std::vector<int> r; for (int hf : s.C[x]) for (int h : s.F[hf / 2]) r.push_back(h / 2); return Brute::uniq(r); }(), !s.cd[x], true))
    CIRC("chf", chf_iter, cell_halffaces, CellHandle, nc, false, E(Expect::Seq, s.C[x], !s.cd[x]))
    CIRC("cf", cf_iter, cell_faces, CellHandle, nc, true, E(Expect::Seq, [&] { std::vector<int> r; for (int hf : s.C[x]) r.push_back(hf / 2); return r; }(), !s.cd[x]))
    CIRC("cc", cc_iter, cell_cells, CellHandle, nc, false,
         E(Expect::Set, s.fbu ? [&] { std::vector<int> r; for (int hf : s.C[x]) if (br.owner[hf ^ 1] >= 0) r.push_back(br.owner[hf ^ 1]); return Brute::uniq(r); }() : none(), !s.cd[x], true))
    CIRC("bhfhf", bhfhf_iter, boundary_halfface_halffaces, HalfFaceHandle, 2 * nf, false,
         E(Expect::Seq, (s.fbu && s.ebu) ? [&] { std::vector<int> r; for (int he : s.halfface(x)) { std::vector<int> part; for (int hf : br.hehf(he ^ 1)) if (br.isb_hf(hf)) part.push_back(hf);
                                                   std::vector<int> got; if ((size_t)(he ^ 1) < s.HFS.size()) for (int hf : s.HFS[he ^ 1]) if (br.isb_hf(hf)) got.push_back(hf);
                                                   if (sorted(got) == sorted(part)) part = got;   /* order inside one halfedge's group is the cache order */
                                                   r.insert(r.end(), part.begin(), part.end()); } return r; }() : none(), !s.fd[x / 2]))
#undef CIRC

    // ---- "natural" incident sets: all live cells with a face touching the vertex / on the edge.  vc_iter follows outgoing
    // halfedges and ec_iter halfedge 0 only, which is complete when the faces at the vertex are closed loops / the cells at the
    // edge are closed surfaces (everything the topology checks accept; theorems vc_natural / ec_natural).  A mismatch is
    // reported as "natural-open" when THIS oracle establishes that the centre touches a non-closed face / cell (outside the
    // valid histories: suppressed, see KNOWN_SIGNATURES in lib/checks_iter.py) and as a C05 failure otherwise.
    if (g_oracle && br.ok && full) {
        OracleOut nat{o};
        auto face_closed = [&](int f) {
            for (int h : s.F[f]) { bool succ = false, pred = false;
                for (int g : s.F[f]) { if (s.from(g) == s.to(h)) succ = true; if (s.to(g) == s.from(h)) pred = true; }
                if (!succ || !pred) return false; }
            return true; };
        auto cell_closed = [&](int c) {
            for (int hf : s.C[c]) for (int h : s.halfface(hf)) { bool found = false;
                for (int hf2 : s.C[c]) if (br.in(s.halfface(hf2), h ^ 1)) found = true;
                if (!found) return false; }
            return true; };
        for (int v : lv) {
            std::vector<int> natl, got; bool open = false;
            for (int f : lf) if (br.face_touches(f, v) && !face_closed(f)) open = true;
            for (int c : lc) { bool hit = false; for (int hf : s.C[c]) if (br.face_touches(hf / 2, v)) hit = true; if (hit) natl.push_back(c); }
            for (auto it = m.vc_iter(VertexHandle(v)); it.valid(); ++it) got.push_back((*it).idx());
            if (sorted(got) != natl) nat.fail(open ? "C01" : "C05", std::string(open ? "natural-open" : "natural") + " vc(" + std::to_string(v) + "): vc_iter yields " + vstr(got) + " but the live cells with a face touching the vertex are " + vstr(natl));
        }
        for (int e : le) {
            std::vector<int> natl, got; bool open = false;
            for (int c : lc) { bool hit = false; for (int hf : s.C[c]) for (int h : s.F[hf / 2]) if (h / 2 == e) hit = true; if (hit) { natl.push_back(c); if (!cell_closed(c)) open = true; } }
            for (auto it = m.ec_iter(EdgeHandle(e)); it.valid(); ++it) got.push_back((*it).idx());
            if (sorted(got) != natl) nat.fail(open ? "C01" : "C05", std::string(open ? "natural-open" : "natural") + " ec(" + std::to_string(e) + "): ec_iter yields " + vstr(got) + " but the live cells with a face on the edge are " + vstr(natl));
        }
    }

    // ---- valence, is_boundary   ("U" = the call would index a disabled cache out of range)
    auto line = [&](const char *tag, const char *kn, int n, std::function<std::string(int)> f) {
        std::vector<std::string> vals;   // f may report through the oracle (same stream): evaluate first, keep the line in one piece
        for (int i = 0; i < n; ++i) vals.push_back(f(i));
        o << "B " << tag << " " << kn << " :"; for (auto &v : vals) o << " " << v; if (n == 0) o << " "; o << "\n"; };
    auto bad = [&](const char *what, int i) { out.fail("C01", std::string(what) + "(" + std::to_string(i) + ") disagrees with the brute-force scan of the definitions"); };
    line("val", "V", nv, [&](int i) { if ((size_t)i >= m.outgoing_hes_per_vertex_.size()) return std::string("U"); size_t r = m.valence(VertexHandle(i));
        if (g_oracle && br.ok && !s.vd[i] && r != br.voh(i).size()) bad("valence(vertex)", i); return std::to_string(r); });
    line("val", "E", ne, [&](int i) { if ((size_t)(2 * i) >= m.incident_hfs_per_he_.size()) return std::string("U"); size_t r = m.valence(EdgeHandle(i));
        if (g_oracle && br.ok && !s.ed[i] && r != br.faces_of_edge(i).size()) bad("valence(edge)", i); return std::to_string(r); });
    line("val", "F", nf, [&](int i) { size_t r = m.valence(FaceHandle(i)); if (g_oracle && r != s.F[i].size()) bad("valence(face)", i); return std::to_string(r); });
    line("val", "C", nc, [&](int i) { size_t r = m.valence(CellHandle(i)); if (g_oracle && r != s.C[i].size()) bad("valence(cell)", i); return std::to_string(r); });
    line("isb", "V", nv, [&](int i) { if (!safe_isb_v(m, i)) return std::string("U"); bool r = m.is_boundary(VertexHandle(i));
        if (g_oracle && br.ok && full && !s.vd[i] && r != br.isb_v(i)) bad("is_boundary(vertex)", i); return std::string(r ? "1" : "0"); });
    line("isb", "E", ne, [&](int i) { if (!safe_isb_he(m, 2 * i)) return std::string("U"); bool r = m.is_boundary(EdgeHandle(i));
        if (g_oracle && br.ok && s.ebu && s.fbu && !s.ed[i] && r != br.isb_e(i)) bad("is_boundary(edge)", i); return std::string(r ? "1" : "0"); });
    line("isb", "HE", 2 * ne, [&](int i) { if (!safe_isb_he(m, i)) return std::string("U"); bool r = m.is_boundary(HalfEdgeHandle(i));
        if (g_oracle && br.ok && s.ebu && s.fbu && !s.ed[i / 2] && r != br.isb_e(i / 2)) bad("is_boundary(halfedge)", i); return std::string(r ? "1" : "0"); });
    line("isb", "F", nf, [&](int i) { if (!safe_isb_f(m, i)) return std::string("U"); bool r = m.is_boundary(FaceHandle(i));
        if (g_oracle && br.ok && !s.fd[i] && r != br.isb_f(i)) bad("is_boundary(face)", i); return std::string(r ? "1" : "0"); });
    line("isb", "HF", 2 * nf, [&](int i) { if ((size_t)i >= m.incident_cell_per_hf_.size()) return std::string("U"); bool r = m.is_boundary(HalfFaceHandle(i));
        if (g_oracle && br.ok && !s.fd[i / 2] && r != br.isb_hf(i)) bad("is_boundary(halfface)", i); return std::string(r ? "1" : "0"); });
    line("isb", "C", nc, [&](int i) { if (!safe_isb_c(m, i)) return std::string("U"); bool r = m.is_boundary(CellHandle(i));
        if (g_oracle && br.ok && s.fbu && !s.cd[i] && r != br.isb_c(i)) bad("is_boundary(cell)", i); return std::string(r ? "1" : "0"); });

    // ---- boundary iterators (has_incidences() as coded in BoundaryItemIter.cc)
    auto filt = [&](const std::vector<int> &l, std::function<bool(int)> p) { std::vector<int> r; if (br.ok) for (int x : l) if (p(x)) r.push_back(x); return r; };
    do_bnd<BoundaryVertexIter>(o, out, "V", false, !lv.empty(), walks, [&]() { return m.bv_iter(); }, full, filt(lv, [&](int x) { return br.isb_v(x); }), br.ok && full);
    do_bnd<BoundaryHalfEdgeIter>(o, out, "HE", false, !lhe.empty(), walks, [&]() { return m.bhe_iter(); }, s.ebu && s.fbu, filt(lhe, [&](int x) { return br.isb_e(x / 2); }), br.ok && s.ebu && s.fbu);
    do_bnd<BoundaryEdgeIter>(o, out, "E", false, !le.empty(), walks, [&]() { return m.be_iter(); }, s.ebu && s.fbu, filt(le, [&](int x) { return br.isb_e(x); }), br.ok && s.ebu && s.fbu);
    do_bnd<BoundaryHalfFaceIter>(o, out, "HF", false, !lhf.empty(), walks, [&]() { return m.bhf_iter(); }, s.fbu, filt(lhf, [&](int x) { return br.isb_hf(x); }), br.ok && s.fbu);
    do_bnd<BoundaryFaceIter>(o, out, "F", false, !lf.empty(), walks, [&]() { return m.bf_iter(); }, s.fbu, filt(lf, [&](int x) { return br.isb_f(x); }), br.ok && s.fbu);
    query_bc(w, o, out, walks, true, br, s);
}

static void query_d11(World<Mesh> &w, std::ostream &o) {
    PM &m = w.mesh;
    Snap s = take_snap(w);
    OracleOut out{o};
    out.fails = -100;   // report all six kinds
    std::vector<std::string> nw;
    std::vector<int> lv, le, lhe, lf, lhf, lc;
    for (int i = 0; i < s.nv; ++i) if (!s.vd[i]) lv.push_back(i);
    for (int i = 0; i < (int)s.E.size(); ++i) if (!s.ed[i]) { le.push_back(i); lhe.push_back(2 * i); lhe.push_back(2 * i + 1); }
    for (int i = 0; i < (int)s.F.size(); ++i) if (!s.fd[i]) { lf.push_back(i); lhf.push_back(2 * i); lhf.push_back(2 * i + 1); }
    for (int i = 0; i < (int)s.C.size(); ++i) if (!s.cd[i]) lc.push_back(i);
    do_entity<VertexIter, VertexHandle>(o, out, "V", 0, nw, [&]() { return m.vertices_begin(); }, [&]() { return m.vertices_end(); }, [&]() { return m.vertices(); }, lv, true);
    do_entity<EdgeIter, EdgeHandle>(o, out, "E", 0, nw, [&]() { return m.edges_begin(); }, [&]() { return m.edges_end(); }, [&]() { return m.edges(); }, le, true);
    do_entity<HalfEdgeIter, HalfEdgeHandle>(o, out, "HE", 0, nw, [&]() { return m.halfedges_begin(); }, [&]() { return m.halfedges_end(); }, [&]() { return m.halfedges(); }, lhe, true);
    do_entity<FaceIter, FaceHandle>(o, out, "F", 0, nw, [&]() { return m.faces_begin(); }, [&]() { return m.faces_end(); }, [&]() { return m.faces(); }, lf, true);
    do_entity<HalfFaceIter, HalfFaceHandle>(o, out, "HF", 0, nw, [&]() { return m.halffaces_begin(); }, [&]() { return m.halffaces_end(); }, [&]() { return m.halffaces(); }, lhf, true);
    do_entity<CellIter, CellHandle>(o, out, "C", 0, nw, [&]() { return m.cells_begin(); }, [&]() { return m.cells_end(); }, [&]() { return m.cells(); }, lc, true);
}

static void run_script(const std::vector<std::string> &lines) {
    World<Mesh> w;
    int lineno = 0;
    for (auto &line : lines) {
        ++lineno;
        auto toks = split_ws(line);
        std::ostringstream o;
        if (toks[0] == "Query" && toks.size() >= 2) {
            o << "== " << lineno << " ";
            for (size_t i = 0; i < toks.size(); ++i) { if (i) o << " "; o << toks[i]; }
            o << " -> Ok -\n";
            dump_state(w, o);
            // flush what is known before the library is exercised: a crash must not lose the header
            { std::string s0 = o.str(); fwrite(s0.data(), 1, s0.size(), stdout); fflush(stdout); o.str(""); }
            std::vector<std::string> walks(toks.begin() + 2, toks.end());
            query(w, o, std::stoi(toks[1]), walks);
        } else if (toks[0] == "QueryBC") {
            o << "== " << lineno << " QueryBC -> Ok -\n";
            dump_state(w, o);
            { std::string s0 = o.str(); fwrite(s0.data(), 1, s0.size(), stdout); fflush(stdout); o.str(""); }
            Snap s = take_snap(w); Brute br(s); OracleOut out{o};
            query_bc(w, o, out, {}, false, br, s);
        } else if (toks[0] == "QueryCF") {
            // D15 regression: cf_iter(c); --it; ++it;  (used to read past the end of the halfface vector)
            o << "== " << lineno << " QueryCF -> Ok -\n";
            dump_state(w, o);
            { std::string s0 = o.str(); fwrite(s0.data(), 1, s0.size(), stdout); fflush(stdout); o.str(""); }
            for (int x = 0; x < (int)w.mesh.n_cells(); ++x) {
                if (w.mesh.cell(CellHandle(x)).halffaces().empty()) continue;
                auto it = w.mesh.cf_iter(CellHandle(x));
                --it;
                std::string a = cobs(it);
                ++it;
                o << "CFB " << x << " : " << a << " " << cobs(it) << "\n";
            }
        } else if (toks[0] == "QueryD11") {
            o << "== " << lineno << " QueryD11 -> Ok -\n";
            dump_state(w, o);
            query_d11(w, o);
        } else {
            Result r;
            int old_nv = (int)w.mesh.n_vertices();
            try {
                r = exec_line(w, toks);
                o << "== " << lineno << " " << r.echo << " -> ";
                if (r.rejected) o << "Rejected\n";
                else if (r.has) o << "Ok " << r.r << "\n";
                else o << "Ok -\n";
            } catch (Unresolvable &) {
                std::string t = line;
                size_t b = t.find_first_not_of(" \t"), e = t.find_last_not_of(" \t\r\n");
                o << "== " << lineno << " " << t.substr(b, e - b + 1) << " -> Unresolvable\n";
            }
            mark_new_vertices(w, std::min(old_nv, (int)w.mesh.n_vertices()));   // take_snap reads vertex positions: keep them defined
            dump_state(w, o);
            if (g_oracle && !r.rejected && !r.echo.empty() && note_history(take_snap(w), split_ws(r.echo)[0]))
                o << "!T history left the contract (a caller-defined operation produced a state outside the properties' quantifier)\n";
        }
        std::string s = o.str();
        fwrite(s.data(), 1, s.size(), stdout);
        fflush(stdout);
    }
}

int main(int argc, char **argv) {
    if (argc < 2) { fprintf(stderr, "usage: run_iter [--no-oracle] <scripts>\n"); return 2; }
    int ai = 1;
    if (std::string(argv[1]) == "--no-oracle") { g_oracle = false; ai = 2; }
    if (std::string(argv[1]) == "--oracle" && argc >= 4) ai = 3;     // accepted for symmetry with run_kernel; oracles are on by default
    std::ifstream in(argv[ai]);
    std::string line, name;
    std::vector<std::string> cur;
    bool have = false;
    auto flush_script = [&]() {
        if (!have) return;
        printf("%s\n", name.c_str());
        fflush(stdout);
        pid_t pid = fork();
        if (pid == 0) { run_script(cur); fflush(stdout); _exit(0); }
        int st = 0;
        waitpid(pid, &st, 0);
        if (!(WIFEXITED(st) && WEXITSTATUS(st) == 0)) {
            printf("\n!! CRASH status=%d\n", WIFSIGNALED(st) ? 1000 + WTERMSIG(st) : WEXITSTATUS(st));
            fflush(stdout);
        }
    };
    while (std::getline(in, line)) {
        size_t b = line.find_first_not_of(" \t\r");
        if (b == std::string::npos || line[b] == '%') continue;
        if (line.compare(b, 4, "####") == 0) {
            flush_script();
            name = line.substr(b); while (!name.empty() && (name.back() == '\r' || name.back() == ' ')) name.pop_back();
            cur.clear(); have = true;
        } else cur.push_back(line);
    }
    flush_script();
    return 0;
}
