// oracle_kernel.hh -- independent brute-force oracles on the *implementation* (public API + the
// three protected caches), used only to search for a concrete failing input (DESIGN section 5).
// They never consult the Gallina model.  Each failure prints "!O <property> <message>".
#pragma once
#include "probe.hh"
#include <algorithm>
#include <set>
#include <map>

namespace ovmv {

struct Snap {
    int nv = 0;
    std::vector<std::pair<int, int>> E;
    std::vector<std::vector<int>> F, C;
    std::vector<char> vd, ed, fd, cd;
    bool vbu = 0, ebu = 0, fbu = 0, deferred = 0, fast = 0;
    size_t nlv = 0, nle = 0, nlf = 0, nlc = 0;
    bool needs_gc = false;
    int genus = 0;
    std::vector<std::vector<int>> OUT, HFS;
    std::vector<int> CELL;
    std::vector<std::vector<long>> P[7];
    std::vector<long> Pdef[7];
    std::vector<int> vid;     // identity token of each vertex (harness-side shadow, see World::vid)

    bool live_v(int v) const { return v >= 0 && v < nv && !vd[v]; }
    bool live_e(int e) const { return e >= 0 && e < (int)E.size() && !ed[e]; }
    bool live_f(int f) const { return f >= 0 && f < (int)F.size() && !fd[f]; }
    bool live_c(int c) const { return c >= 0 && c < (int)C.size() && !cd[c]; }
    int from(int h) const { return (h & 1) ? E[h / 2].second : E[h / 2].first; }
    int to(int h) const { return (h & 1) ? E[h / 2].first : E[h / 2].second; }
    std::vector<int> halfface(int hf) const {
        std::vector<int> r = F[hf / 2];
        if (hf & 1) { std::reverse(r.begin(), r.end()); for (auto &h : r) h ^= 1; }
        return r;
    }
};

template <class M>
Snap take_snap(World<M> &w) {
    auto &m = w.mesh;
    Snap s;
    s.nv = (int)m.n_vertices();
    for (size_t i = 0; i < m.n_edges(); ++i) { auto e = m.edge(EdgeHandle((int)i)); s.E.push_back({e.from_vertex().idx(), e.to_vertex().idx()}); }
    for (size_t i = 0; i < m.n_faces(); ++i) { std::vector<int> l; for (auto h : m.face(FaceHandle((int)i)).halfedges()) l.push_back(h.idx()); s.F.push_back(l); }
    for (size_t i = 0; i < m.n_cells(); ++i) { std::vector<int> l; for (auto h : m.cell(CellHandle((int)i)).halffaces()) l.push_back(h.idx()); s.C.push_back(l); }
    for (int i = 0; i < s.nv; ++i) s.vd.push_back(m.is_deleted(VertexHandle(i)));
    for (size_t i = 0; i < s.E.size(); ++i) s.ed.push_back(m.is_deleted(EdgeHandle((int)i)));
    for (size_t i = 0; i < s.F.size(); ++i) s.fd.push_back(m.is_deleted(FaceHandle((int)i)));
    for (size_t i = 0; i < s.C.size(); ++i) s.cd.push_back(m.is_deleted(CellHandle((int)i)));
    s.vbu = m.has_vertex_bottom_up_incidences(); s.ebu = m.has_edge_bottom_up_incidences(); s.fbu = m.has_face_bottom_up_incidences();
    s.deferred = m.deferred_deletion_enabled(); s.fast = m.fast_deletion_enabled();
    s.nlv = m.n_logical_vertices(); s.nle = m.n_logical_edges(); s.nlf = m.n_logical_faces(); s.nlc = m.n_logical_cells();
    s.needs_gc = m.needs_garbage_collection();
    s.genus = m.genus();
    for (auto &l : m.outgoing_hes_per_vertex_) { std::vector<int> x; for (auto h : l) x.push_back(h.idx()); s.OUT.push_back(x); }
    for (auto &l : m.incident_hfs_per_he_) { std::vector<int> x; for (auto h : l) x.push_back(h.idx()); s.HFS.push_back(x); }
    for (auto c : m.incident_cell_per_hf_) s.CELL.push_back(c.idx());
    for (int k = 0; k < 7; ++k)
        for (auto &p : w.props[k]) {
            std::vector<long> v; for (size_t j = 0; j < p->size(); ++j) v.push_back(p->get(j));
            s.P[k].push_back(v); s.Pdef[k].push_back(p->def());
        }
    // vertex identity: x coordinate of the position (set by the harness at creation; see mark_new_vertices)
    for (int i = 0; i < s.nv; ++i) s.vid.push_back((int)m.vertex(VertexHandle(i))[0]);
    return s;
}

// every vertex gets a unique identity token in its position the moment it appears
template <class M>
void mark_new_vertices(World<M> &w, int old_nv) {
    auto &m = w.mesh;
    for (int i = old_nv; i < (int)m.n_vertices(); ++i) m.set_vertex(VertexHandle(i), Vec3d((double)(++w.next_vid), 0, 0));
}

struct OracleOut {
    std::ostream &o;
    int fails = 0;
    void fail(const char *prop, const std::string &msg) { if (fails++ < 4) o << "!O " << prop << " " << msg << "\n"; }
};

inline std::string vstr(const std::vector<int> &v) { std::string s = "["; for (size_t i = 0; i < v.size(); ++i) { if (i) s += " "; s += std::to_string(v[i]); } return s + "]"; }
inline std::vector<int> sorted(std::vector<int> v) { std::sort(v.begin(), v.end()); return v; }

// ---------------------------------------------------------------- C01: caches = exact inverse of the definitions
// The properties quantify over HISTORIES of valid calls in which no halfface is ever used by two live cells: once a state of the
// running script was outside that contract (only the malformed stream gets there), later states may look fine again while the
// caches are legitimately stale, so nothing after that point is judged.  (Each script runs in its own forked child.)
inline bool &history_in_contract() { static bool ok = true; return ok; }
inline bool state_valid_for_c01(const Snap &s);
inline bool degenerate_faces(const Snap &s) {
    // a face listing a halfedge twice, or both halfedges of an edge (2-gons on one edge, faces through a loop edge): legal, but the
    // brute-force oracles do not define multiplicities for them - such STATES are skipped, the history stays in contract
    for (int f = 0; f < (int)s.F.size(); ++f) if (!s.fd[f]) { auto l = sorted(s.F[f]); if (std::adjacent_find(l.begin(), l.end()) != l.end()) return true;
        for (int h : s.F[f]) if (std::find(s.F[f].begin(), s.F[f].end(), h ^ 1) != s.F[f].end()) return true; }
    return false;
}
// in contract, degenerate faces allowed: for the oracles that compare definitions / identities and never count multiplicities
inline bool in_contract(const Snap &s) { return history_in_contract() && state_valid_for_c01(s); }
inline bool valid_for_c01(const Snap &s) { return in_contract(s) && !degenerate_faces(s); }
// called AFTER the oracles of a step: only an operation that takes definitions from the caller (add_* / set_*) can legitimately
// lead out of the contract; an invalid state after a deletion, swap, collection or toggle is the library's doing and is judged
inline bool note_history(const Snap &post, const std::string &op) {          // true: the history has JUST left the contract
    if (!history_in_contract()) return false;
    bool caller_defined = op.rfind("Add", 0) == 0 || op.rfind("Set", 0) == 0 || op.rfind("TAdd", 0) == 0 || op.rfind("HAdd", 0) == 0 || op.rfind("THalf", 0) == 0;
    if (caller_defined && !state_valid_for_c01(post)) {
        history_in_contract() = false;
        if (getenv("VERIF_DEBUG_CONTRACT")) fprintf(stderr, "history leaves the contract at %s\n", op.c_str());
        return true;
    }
    return false;
}
inline bool state_valid_for_c01(const Snap &s) {
    // the quantifier of C01: no halfface belongs to two live cells
    std::map<int, int> owner;
    for (int c = 0; c < (int)s.C.size(); ++c) if (!s.cd[c]) for (int hf : s.C[c]) { if (owner.count(hf)) return false; owner[hf] = c; }
    // live entities reference live sub-entities
    for (int e = 0; e < (int)s.E.size(); ++e) if (!s.ed[e]) if (!s.live_v(s.E[e].first) || !s.live_v(s.E[e].second)) return false;
    for (int f = 0; f < (int)s.F.size(); ++f) if (!s.fd[f]) for (int h : s.F[f]) if (!s.live_e(h / 2)) return false;
    for (int c = 0; c < (int)s.C.size(); ++c) if (!s.cd[c]) for (int hf : s.C[c]) if (!s.live_f(hf / 2)) return false;
    // every live cell is a closed surface (each halfedge of its halffaces matched exactly once by its opposite)
    for (int c = 0; c < (int)s.C.size(); ++c) if (!s.cd[c]) {
        if (s.C[c].empty()) return false;
        std::map<int, int> cnt;
        for (int hf : s.C[c]) for (int h : s.halfface(hf)) cnt[h]++;
        for (auto &kv : cnt) { if (kv.second != 1) return false; auto it = cnt.find(kv.first ^ 1); if (it == cnt.end() || it->second != 1) return false; }
    }
    return true;
}

template <class M>
void oracle_C01(World<M> &w, const Snap &s, OracleOut &out) {
    if (!valid_for_c01(s)) return;
    auto &m = w.mesh;
    if (s.vbu) {
        if ((int)s.OUT.size() != s.nv) { out.fail("C01", "outgoing-halfedge cache has " + std::to_string(s.OUT.size()) + " slots for " + std::to_string(s.nv) + " vertices"); return; }
        for (int v = 0; v < s.nv; ++v) {
            std::vector<int> brute;
            for (int e = 0; e < (int)s.E.size(); ++e) if (!s.ed[e]) { if (s.E[e].first == v) brute.push_back(2 * e); if (s.E[e].second == v) brute.push_back(2 * e + 1); }
            if (s.vd[v]) continue;
            if (sorted(s.OUT[v]) != sorted(brute)) out.fail("C01", "outgoing halfedges of vertex " + std::to_string(v) + " are " + vstr(s.OUT[v]) + ", brute force says " + vstr(brute));
            std::vector<int> api; for (auto it = m.voh_iter(VertexHandle(v)); it.valid(); ++it) api.push_back(it->idx());
            if (sorted(api) != sorted(brute)) out.fail("C01", "voh_iter(" + std::to_string(v) + ") yields " + vstr(api) + ", brute force says " + vstr(brute));
            if (m.valence(VertexHandle(v)) != brute.size()) out.fail("C01", "valence(vertex " + std::to_string(v) + ") != number of incident live edge ends");
        }
    }
    if (s.ebu) {
        if (s.HFS.size() != 2 * s.E.size()) { out.fail("C01", "halfface-per-halfedge cache has wrong size"); return; }
        for (int h = 0; h < 2 * (int)s.E.size(); ++h) {
            if (s.ed[h / 2]) continue;
            std::vector<int> brute;
            for (int f = 0; f < (int)s.F.size(); ++f) if (!s.fd[f]) for (int side = 0; side < 2; ++side) {
                auto l = s.halfface(2 * f + side);
                if (std::find(l.begin(), l.end(), h) != l.end()) brute.push_back(2 * f + side);
            }
            if (sorted(s.HFS[h]) != sorted(brute)) out.fail("C01", "halffaces of halfedge " + std::to_string(h) + " are " + vstr(s.HFS[h]) + ", brute force says " + vstr(brute));
            std::vector<int> api; for (auto it = m.hehf_iter(HalfEdgeHandle(h)); it.valid(); ++it) api.push_back(it->idx());
            if (sorted(api) != sorted(brute)) out.fail("C01", "hehf_iter(" + std::to_string(h) + ") yields " + vstr(api) + ", brute force says " + vstr(brute));
            if ((h & 1) == 0 && m.valence(EdgeHandle(h / 2)) != brute.size()) out.fail("C01", "valence(edge " + std::to_string(h / 2) + ") != number of incident live faces");
        }
    }
    if (s.fbu) {
        if (s.CELL.size() != 2 * s.F.size()) { out.fail("C01", "cell-per-halfface cache has wrong size"); return; }
        for (int hf = 0; hf < 2 * (int)s.F.size(); ++hf) {
            if (s.fd[hf / 2]) continue;
            int brute = -1;
            for (int c = 0; c < (int)s.C.size(); ++c) if (!s.cd[c] && std::find(s.C[c].begin(), s.C[c].end(), hf) != s.C[c].end()) brute = c;
            if (s.CELL[hf] != brute) out.fail("C01", "incident cell of halfface " + std::to_string(hf) + " is " + std::to_string(s.CELL[hf]) + ", brute force says " + std::to_string(brute));
            if (m.incident_cell(HalfFaceHandle(hf)).idx() != brute) out.fail("C01", "incident_cell(" + std::to_string(hf) + ") disagrees with brute force");
            if (m.is_boundary(HalfFaceHandle(hf)) != (brute < 0)) out.fail("C01", "is_boundary(halfface " + std::to_string(hf) + ") disagrees with brute force");
        }
    }
}

// ---------------------------------------------------------------- logical mesh in identity tokens
// canonical description of the live part of a snapshot with vertices named by identity tokens:
// halfedge = (id from, id to); face = sequence of halfedges; cell = sequence of halffaces.
struct Logical {
    std::multiset<int> V;
    std::multiset<std::pair<int, int>> E;
    std::multiset<std::vector<std::pair<int, int>>> F;
    std::multiset<std::vector<std::vector<std::pair<int, int>>>> C;
    bool operator==(const Logical &o) const { return V == o.V && E == o.E && F == o.F && C == o.C; }
};
inline std::pair<int, int> he_id(const Snap &s, int h) { return {s.vid[s.from(h)], s.vid[s.to(h)]}; }
inline std::vector<std::pair<int, int>> hf_id(const Snap &s, int hf) { std::vector<std::pair<int, int>> r; for (int h : s.halfface(hf)) r.push_back(he_id(s, h)); return r; }

inline bool refs_ok(const Snap &s) {
    for (auto &e : s.E) if (e.first < 0 || e.first >= s.nv || e.second < 0 || e.second >= s.nv) return false;
    for (auto &f : s.F) for (int h : f) if (h < 0 || h >= 2 * (int)s.E.size()) return false;
    for (auto &c : s.C) for (int h : c) if (h < 0 || h >= 2 * (int)s.F.size()) return false;
    return true;
}

inline Logical logical(const Snap &s, const std::set<int> &dv = {}, const std::set<int> &de = {}, const std::set<int> &df = {}, const std::set<int> &dc = {}) {
    Logical L;
    for (int v = 0; v < s.nv; ++v) if (!s.vd[v] && !dv.count(v)) L.V.insert(s.vid[v]);
    for (int e = 0; e < (int)s.E.size(); ++e) if (!s.ed[e] && !de.count(e)) L.E.insert(he_id(s, 2 * e));
    for (int f = 0; f < (int)s.F.size(); ++f) if (!s.fd[f] && !df.count(f)) L.F.insert(hf_id(s, 2 * f));
    for (int c = 0; c < (int)s.C.size(); ++c) if (!s.cd[c] && !dc.count(c)) {
        std::vector<std::vector<std::pair<int, int>>> x; for (int hf : s.C[c]) x.push_back(hf_id(s, hf)); L.C.insert(x);
    }
    return L;
}

// ---------------------------------------------------------------- C02: deletion removes exactly the upward closure
inline void closure(const Snap &a, char kind, int x, std::set<int> &dv, std::set<int> &de, std::set<int> &df, std::set<int> &dc) {
    if (kind == 'V') dv.insert(x); if (kind == 'E') de.insert(x); if (kind == 'F') df.insert(x); if (kind == 'C') dc.insert(x);
    for (int e = 0; e < (int)a.E.size(); ++e) if (!a.ed[e] && (dv.count(a.E[e].first) || dv.count(a.E[e].second))) de.insert(e);
    for (int f = 0; f < (int)a.F.size(); ++f) if (!a.fd[f]) for (int h : a.F[f]) if (de.count(h / 2)) df.insert(f);
    for (int c = 0; c < (int)a.C.size(); ++c) if (!a.cd[c]) for (int hf : a.C[c]) if (df.count(hf / 2)) dc.insert(c);
}

inline void oracle_counts(const Snap &b, OracleOut &out, const char *prop) {
    size_t lv = std::count(b.vd.begin(), b.vd.end(), 0), le = std::count(b.ed.begin(), b.ed.end(), 0),
           lf = std::count(b.fd.begin(), b.fd.end(), 0), lc = std::count(b.cd.begin(), b.cd.end(), 0);
    if (b.nlv != lv || b.nle != le || b.nlf != lf || b.nlc != lc) out.fail(prop, "n_logical_* do not count the not-deleted entities");
    bool any = lv != (size_t)b.nv || le != b.E.size() || lf != b.F.size() || lc != b.C.size();
    if (b.needs_gc != any) out.fail(prop, "needs_garbage_collection() disagrees with the deletion flags");
    if (!b.deferred && any) out.fail(prop, "entities flagged deleted although deferred deletion is off");
    int g = 1 - ((int)lv - (int)le + (int)lf - (int)lc);
    int expect = (g % 2 == 0) ? g / 2 : -1;
    if (b.genus != expect) out.fail(prop, "genus() does not describe the surviving set");
}

inline void oracle_C02(const Snap &a, const Snap &b, char kind, int x, OracleOut &out) {
    if (!in_contract(a)) return;
    if (!refs_ok(b)) { out.fail("C02", "a stored handle is out of range after deletion"); return; }
    std::set<int> dv, de, df, dc;
    closure(a, kind, x, dv, de, df, dc);
    Logical want = logical(a, dv, de, df, dc), got = logical(b);
    if (!(want == got)) {
        std::string what = want.V != got.V ? "vertices" : want.E != got.E ? "edges" : want.F != got.F ? "faces" : "cells";
        out.fail("C02", std::string("after Del") + kind + " " + std::to_string(x) + " the surviving " + what + " are not (all entities minus the upward closure), survivors' definitions compared by vertex identity");
    }
    oracle_counts(b, out, "C02");
    if (a.deferred) {
        // handles are stable: exactly the closure gets flagged
        if (b.nv != a.nv || b.E.size() != a.E.size() || b.F.size() != a.F.size() || b.C.size() != a.C.size()) { out.fail("C02", "deferred deletion changed an entity count"); return; }
        for (int v = 0; v < a.nv; ++v) if ((bool)b.vd[v] != (a.vd[v] || dv.count(v))) out.fail("C02", "is_deleted(vertex " + std::to_string(v) + ") wrong after deferred deletion");
        for (int e = 0; e < (int)a.E.size(); ++e) if ((bool)b.ed[e] != (a.ed[e] || de.count(e))) out.fail("C02", "is_deleted(edge " + std::to_string(e) + ") wrong after deferred deletion");
        for (int f = 0; f < (int)a.F.size(); ++f) if ((bool)b.fd[f] != (a.fd[f] || df.count(f))) out.fail("C02", "is_deleted(face " + std::to_string(f) + ") wrong after deferred deletion");
        for (int c = 0; c < (int)a.C.size(); ++c) if ((bool)b.cd[c] != (a.cd[c] || dc.count(c))) out.fail("C02", "is_deleted(cell " + std::to_string(c) + ") wrong after deferred deletion");
    } else {
        if ((size_t)b.nv != a.nv - dv.size() || b.E.size() != a.E.size() - de.size() || b.F.size() != a.F.size() - df.size() || b.C.size() != a.C.size() - dc.size())
            out.fail("C02", "entity counts after immediate deletion are not (before - closure size)");
    }
}

// ---------------------------------------------------------------- C03: property values follow their entities
// identity of an entity slot = its definition in vertex identity tokens; ambiguous identities (parallel
// edges, repeated faces) are skipped.
inline void slot_ids(const Snap &s, int k, std::vector<std::string> &ids, std::vector<char> &live) {
    auto pstr = [](std::pair<int, int> p) { return std::to_string(p.first) + ">" + std::to_string(p.second); };
    auto fstr = [&](const std::vector<std::pair<int, int>> &l) { std::string r; for (auto &p : l) r += pstr(p) + ","; return r; };
    ids.clear(); live.clear();
    switch (k) {
    case 0: for (int v = 0; v < s.nv; ++v) { ids.push_back("v" + std::to_string(s.vid[v])); live.push_back(!s.vd[v]); } break;
    case 1: for (int e = 0; e < (int)s.E.size(); ++e) { ids.push_back("e" + pstr(he_id(s, 2 * e))); live.push_back(!s.ed[e]); } break;
    case 2: for (int h = 0; h < 2 * (int)s.E.size(); ++h) { ids.push_back(std::string("h") + ((h & 1) ? "1:" : "0:") + pstr(he_id(s, h & ~1))); live.push_back(!s.ed[h / 2]); } break;
    case 3: for (int f = 0; f < (int)s.F.size(); ++f) { ids.push_back("f" + fstr(hf_id(s, 2 * f))); live.push_back(!s.fd[f]); } break;
    case 4: for (int h = 0; h < 2 * (int)s.F.size(); ++h) { ids.push_back(std::string("g") + ((h & 1) ? "1:" : "0:") + fstr(hf_id(s, h & ~1))); live.push_back(!s.fd[h / 2]); } break;
    case 5: for (int c = 0; c < (int)s.C.size(); ++c) { std::string r = "c"; for (int hf : s.C[c]) r += fstr(hf_id(s, hf)) + ";"; ids.push_back(r); live.push_back(!s.cd[c]); } break;
    default: ids.push_back("m"); live.push_back(1);
    }
}

inline void oracle_C03(const Snap &a, const Snap &b, OracleOut &out, bool structure_changed_defs) {
    if (!refs_ok(a) || !refs_ok(b)) return;
    size_t cnt[7] = {(size_t)b.nv, b.E.size(), 2 * b.E.size(), b.F.size(), 2 * b.F.size(), b.C.size(), 1};
    for (int k = 0; k < 7; ++k) {
        for (size_t p = 0; p < b.P[k].size(); ++p)
            if (b.P[k][p].size() != cnt[k]) out.fail("C03", std::string("a ") + KIND_NAMES[k] + " property has " + std::to_string(b.P[k][p].size()) + " elements for " + std::to_string(cnt[k]) + " entity slots");
        if (structure_changed_defs) continue;   // set_* operations change identities; only sizes are checked
        if (a.P[k].size() != b.P[k].size()) continue;
        std::vector<std::string> ia, ib; std::vector<char> la, lb;
        slot_ids(a, k, ia, la); slot_ids(b, k, ib, lb);
        std::map<std::string, int> posa, cnta;
        for (size_t i = 0; i < ia.size(); ++i) if (la[i]) { posa[ia[i]] = (int)i; cnta[ia[i]]++; }
        std::map<std::string, int> cntb; for (size_t i = 0; i < ib.size(); ++i) if (lb[i]) cntb[ib[i]]++;
        for (size_t i = 0; i < ib.size(); ++i) {
            if (!lb[i] || cntb[ib[i]] != 1) continue;
            auto it = posa.find(ib[i]);
            for (size_t p = 0; p < b.P[k].size(); ++p) {
                if (i >= b.P[k][p].size()) continue;
                if (it == posa.end()) {
                    if (b.P[k][p][i] != b.Pdef[k][p]) out.fail("C03", std::string("new ") + KIND_NAMES[k] + " slot " + std::to_string(i) + " does not start with the property's default value");
                } else if (cnta[ib[i]] == 1 && (size_t)it->second < a.P[k][p].size() && a.P[k][p][it->second] != b.P[k][p][i]) {
                    out.fail("C03", std::string("value of a ") + KIND_NAMES[k] + " property moved: entity now at slot " + std::to_string(i) + " (was " + std::to_string(it->second) + ") has " + std::to_string(b.P[k][p][i]) + ", had " + std::to_string(a.P[k][p][it->second]));
                }
            }
        }
    }
}

// ---------------------------------------------------------------- C04: collect_garbage preserves the logical mesh
inline void oracle_C04(const Snap &a, const Snap &b, OracleOut &out) {
    if (!in_contract(a)) return;
    if (!refs_ok(b)) { out.fail("C04", "a stored handle is out of range after garbage collection"); return; }
    if (!(logical(a) == logical(b))) out.fail("C04", "the logical (not-deleted) mesh changed across garbage collection");
    if (b.needs_gc) out.fail("C04", "needs_garbage_collection() still true after collection");
    if (std::count(b.vd.begin(), b.vd.end(), 1) + std::count(b.ed.begin(), b.ed.end(), 1) + std::count(b.fd.begin(), b.fd.end(), 1) + std::count(b.cd.begin(), b.cd.end(), 1))
        out.fail("C04", "deleted entities remain after collection");
    if ((size_t)b.nv != a.nlv || b.E.size() != a.nle || b.F.size() != a.nlf || b.C.size() != a.nlc) out.fail("C04", "entity counts after collection differ from the logical counts before");
    oracle_counts(b, out, "C04");
}

// StatusAttrib::garbage_collection: removed set = closure of the marks (+ manifoldness rule), tracked handles designate the
// same entity (by identity tokens) or are invalid
inline void oracle_C04_status(const Snap &a, const Snap &b, const std::vector<std::string> &echo, const std::string &trk, OracleOut &out) {
    if (!in_contract(a)) return;
    if (!refs_ok(b)) { out.fail("C04", "a stored handle is out of range after StatusAttrib::garbage_collection"); return; }
    std::map<std::string, std::vector<int>> g; std::string cur;
    for (size_t i = 2; i < echo.size(); ++i) { const std::string &t = echo[i];
        if (t == "V" || t == "E" || t == "F" || t == "C" || t == "TV" || t == "THE" || t == "THF" || t == "TC") { cur = t; g[cur]; } else g[cur].push_back(std::stoi(t)); }
    bool pm = echo[1] == "1";
    std::set<int> dv, de, df, dc;
    // pending deletions count as removed too
    for (int v = 0; v < a.nv; ++v) if (a.vd[v]) dv.insert(v);
    for (int e = 0; e < (int)a.E.size(); ++e) if (a.ed[e]) de.insert(e);
    for (int f = 0; f < (int)a.F.size(); ++f) if (a.fd[f]) df.insert(f);
    for (int c = 0; c < (int)a.C.size(); ++c) if (a.cd[c]) dc.insert(c);
    Snap a2 = a;   // closure() looks at flags of a: mark progressively
    auto mark = [&](char k, int x) { closure(a2, k, x, dv, de, df, dc);
        for (int v : dv) a2.vd[v] = 1; for (int e : de) a2.ed[e] = 1; for (int f : df) a2.fd[f] = 1; for (int c : dc) a2.cd[c] = 1; };
    // closure() skips already-flagged supers; recompute from the ORIGINAL liveness: do it on a copy whose flags only grow
    a2 = a;
    for (int x : g["V"]) if (!a.vd[x]) { Snap t = a; closure(t, 'V', x, dv, de, df, dc); }
    for (int x : g["E"]) if (!a.ed[x]) { Snap t = a; closure(t, 'E', x, dv, de, df, dc); }
    for (int x : g["F"]) if (!a.fd[x]) { Snap t = a; closure(t, 'F', x, dv, de, df, dc); }
    for (int x : g["C"]) if (!a.cd[x]) { Snap t = a; closure(t, 'C', x, dv, de, df, dc); }
    (void)mark;
    if (pm) {
        // exactly the faces bounding no (surviving) cell, then the edges of valence 0, then the vertices of valence 0
        for (int f = 0; f < (int)a.F.size(); ++f) if (!df.count(f)) {
            bool used = false;
            for (int c = 0; c < (int)a.C.size(); ++c) if (!dc.count(c)) for (int hf : a.C[c]) if (hf / 2 == f) used = true;
            if (!used) df.insert(f);
        }
        for (int e = 0; e < (int)a.E.size(); ++e) if (!de.count(e)) {
            bool used = false;
            for (int f = 0; f < (int)a.F.size(); ++f) if (!df.count(f)) for (int h : a.F[f]) if (h / 2 == e) used = true;
            if (!used) de.insert(e);
        }
        for (int v = 0; v < a.nv; ++v) if (!dv.count(v)) {
            bool used = false;
            for (int e = 0; e < (int)a.E.size(); ++e) if (!de.count(e) && (a.E[e].first == v || a.E[e].second == v)) used = true;
            if (!used) dv.insert(v);
        }
    }
    Snap al = a; std::fill(al.vd.begin(), al.vd.end(), 0); std::fill(al.ed.begin(), al.ed.end(), 0); std::fill(al.fd.begin(), al.fd.end(), 0); std::fill(al.cd.begin(), al.cd.end(), 0);
    if (!(logical(al, dv, de, df, dc) == logical(b))) out.fail("C04", std::string("StatusAttrib::garbage_collection(") + (pm ? "manifold" : "plain") + "): the resulting mesh is not (logical mesh minus marks-closure" + (pm ? " minus unbounded faces/edges/vertices)" : ")"));
    if (b.needs_gc) out.fail("C04", "needs_garbage_collection() after StatusAttrib::garbage_collection");
    if (b.deferred != a.deferred) out.fail("C04", "StatusAttrib::garbage_collection did not restore the deferred-deletion mode");
    // tracked handles
    auto parse = [&](const std::string &key) { std::vector<int> r; size_t p = trk.find(key + ":"); if (p == std::string::npos) return r;
        size_t q = trk.find('|', p); std::istringstream is(trk.substr(p + key.size() + 1, q == std::string::npos ? std::string::npos : q - p - key.size() - 1));
        std::string t; while (is >> t) r.push_back(t == "-" ? -1 : std::stoi(t)); return r; };
    auto tv = parse("v"), the = parse("he"), thf = parse("hf"), tc = parse("c");
    for (size_t i = 0; i < g["TV"].size() && i < tv.size(); ++i) { int o = g["TV"][i]; bool gone = dv.count(o);
        if (gone ? tv[i] != -1 : (tv[i] < 0 || tv[i] >= b.nv || b.vid[tv[i]] != a.vid[o])) out.fail("C04", "tracked vertex handle " + std::to_string(o) + " -> " + std::to_string(tv[i]) + " does not designate the same vertex / is not invalidated"); }
    for (size_t i = 0; i < g["THE"].size() && i < the.size(); ++i) { int o = g["THE"][i]; bool gone = de.count(o / 2);
        if (gone ? the[i] != -1 : (the[i] < 0 || the[i] >= 2 * (int)b.E.size() || he_id(b, the[i]) != he_id(a, o))) out.fail("C04", "tracked halfedge handle " + std::to_string(o) + " -> " + std::to_string(the[i]) + " does not designate the same halfedge / is not invalidated"); }
    for (size_t i = 0; i < g["THF"].size() && i < thf.size(); ++i) { int o = g["THF"][i]; bool gone = df.count(o / 2);
        if (gone ? thf[i] != -1 : (thf[i] < 0 || thf[i] >= 2 * (int)b.F.size() || hf_id(b, thf[i]) != hf_id(a, o))) out.fail("C04", "tracked halfface handle " + std::to_string(o) + " -> " + std::to_string(thf[i]) + " does not designate the same halfface / is not invalidated"); }
    for (size_t i = 0; i < g["TC"].size() && i < tc.size(); ++i) { int o = g["TC"][i]; bool gone = dc.count(o);
        bool same = !gone && tc[i] >= 0 && tc[i] < (int)b.C.size();
        if (same) { std::vector<std::vector<std::pair<int,int>>> x, y; for (int hf : a.C[o]) x.push_back(hf_id(a, hf)); for (int hf : b.C[tc[i]]) y.push_back(hf_id(b, hf)); same = x == y; }
        if (gone ? tc[i] != -1 : !same) out.fail("C04", "tracked cell handle " + std::to_string(o) + " -> " + std::to_string(tc[i]) + " does not designate the same cell / is not invalidated"); }
}

// ---------------------------------------------------------------- C17: swaps are pure relabelings
inline int sw1(int a, int b, int x) { return x == a ? b : x == b ? a : x; }
inline int sw2(int a, int b, int x) { return x < 0 ? x : 2 * sw1(a, b, x / 2) + (x & 1); }

inline void oracle_C17(const Snap &a, const Snap &b, char kind, int x, int y, OracleOut &out) {
    Snap w = a;   // the expected result: a with the two handles exchanged everywhere
    auto swp = [&](auto &vec, size_t i, size_t j) { if (i < vec.size() && j < vec.size()) std::swap(vec[i], vec[j]); };
    int pk = -1, phk = -1;
    if (kind == 'V') {
        for (auto &e : w.E) { e.first = sw1(x, y, e.first); e.second = sw1(x, y, e.second); }
        swp(w.vd, x, y); swp(w.vid, x, y); if (w.vbu) swp(w.OUT, x, y); pk = 0;
    } else if (kind == 'E') {
        for (auto &f : w.F) for (auto &h : f) h = sw2(x, y, h);
        swp(w.E, x, y); swp(w.ed, x, y); pk = 1; phk = 2;
        if (w.vbu) for (auto &l : w.OUT) for (auto &h : l) h = sw2(x, y, h);
        if (w.ebu) { swp(w.HFS, 2 * x, 2 * y); swp(w.HFS, 2 * x + 1, 2 * y + 1); }
    } else if (kind == 'F') {
        for (auto &c : w.C) for (auto &h : c) h = sw2(x, y, h);
        swp(w.F, x, y); swp(w.fd, x, y); pk = 3; phk = 4;
        if (w.ebu) for (auto &l : w.HFS) for (auto &h : l) h = sw2(x, y, h);
        if (w.fbu) { swp(w.CELL, 2 * x, 2 * y); swp(w.CELL, 2 * x + 1, 2 * y + 1); }
    } else {
        swp(w.C, x, y); swp(w.cd, x, y); pk = 5;
        if (w.fbu) for (auto &c : w.CELL) c = sw1(x, y, c);
    }
    for (auto &p : w.P[pk]) swp(p, x, y);
    if (phk >= 0) for (auto &p : w.P[phk]) { swp(p, 2 * x, 2 * y); swp(p, 2 * x + 1, 2 * y + 1); }
    std::string pre = std::string("Swap") + kind + " " + std::to_string(x) + " " + std::to_string(y) + ": ";
    if (w.nv != b.nv || w.vd != b.vd || w.ed != b.ed || w.fd != b.fd || w.cd != b.cd) out.fail("C17", pre + "deletion flags / counts are not the relabeled ones");
    // definitions of live entities must be exactly relabeled (stale definitions of deferred-deleted entities: see KNOWN_FINDINGS D13)
    bool live_only_diff = false, any_diff = false;
    for (size_t i = 0; i < w.E.size() && i < b.E.size(); ++i) if (w.E[i] != b.E[i]) { any_diff = true; if (!w.ed[i]) live_only_diff = true; }
    for (size_t i = 0; i < w.F.size() && i < b.F.size(); ++i) if (w.F[i] != b.F[i]) { any_diff = true; if (!w.fd[i]) live_only_diff = true; }
    for (size_t i = 0; i < w.C.size() && i < b.C.size(); ++i) if (w.C[i] != b.C[i]) { any_diff = true; if (!w.cd[i]) live_only_diff = true; }
    if (w.E.size() != b.E.size() || w.F.size() != b.F.size() || w.C.size() != b.C.size()) live_only_diff = true;
    if (live_only_diff) out.fail("C17", pre + "definitions of live entities are not the original ones with the two handles exchanged");
    else if (any_diff) out.fail("C17-deleted-def", pre + "stored definition of a deferred-deleted entity was not relabeled");
    for (int k = 0; k < 7; ++k) if (w.P[k] != b.P[k]) out.fail("C17", pre + std::string("a ") + KIND_NAMES[k] + " property is not the relabeled one");
    auto same_sets = [](const std::vector<std::vector<int>> &p, const std::vector<std::vector<int>> &q) {
        if (p.size() != q.size()) return false;
        for (size_t i = 0; i < p.size(); ++i) if (sorted(p[i]) != sorted(q[i])) return false;
        return true; };
    if (!same_sets(w.OUT, b.OUT) || !same_sets(w.HFS, b.HFS) || w.CELL != b.CELL) out.fail("C17", pre + "bottom-up incidences are not the relabeled ones");
    if (w.vbu != b.vbu || w.ebu != b.ebu || w.fbu != b.fbu || w.deferred != b.deferred || w.fast != b.fast) out.fail("C17", pre + "mode flags changed");
}

// ---------------------------------------------------------------- C11: construction validates
inline bool same_observable(const Snap &a, const Snap &b) {
    if (a.nv != b.nv || a.E != b.E || a.F != b.F || a.C != b.C || a.vd != b.vd || a.ed != b.ed || a.fd != b.fd || a.cd != b.cd) return false;
    if (a.OUT != b.OUT || a.HFS != b.HFS || a.CELL != b.CELL) return false;
    for (int k = 0; k < 7; ++k) if (a.P[k] != b.P[k]) return false;
    return a.vbu == b.vbu && a.ebu == b.ebu && a.fbu == b.fbu && a.deferred == b.deferred && a.fast == b.fast && a.nlv == b.nlv && a.nle == b.nle && a.nlf == b.nlf && a.nlc == b.nlc;
}

inline bool brute_closed_loop(const Snap &s, const std::vector<int> &hes) {
    if (hes.empty()) return false;
    for (size_t i = 0; i < hes.size(); ++i) if (s.to(hes[i]) != s.from(hes[(i + 1) % hes.size()])) return false;
    return true;
}
inline bool brute_closed_surface(const Snap &s, const std::vector<int> &hfs) {
    if (hfs.empty()) return false;
    std::map<int, int> cnt;
    for (int hf : hfs) for (int h : s.halfface(hf)) cnt[h]++;
    for (auto &kv : cnt) { if (kv.second != 1) return false; auto it = cnt.find(kv.first ^ 1); if (it == cnt.end() || it->second != 1) return false; }
    return !cnt.empty();
}

inline void oracle_C11(const Snap &a, const Snap &b, const std::vector<std::string> &echo, bool has, long r, OracleOut &out) {
    const std::string &op = echo[0];
    auto appended_only = [&](char kind) {
        Snap x = b;
        // remove the appended entity and compare the rest of the definitions / flags
        if (kind == 'E') { if (b.E.size() != a.E.size() + 1) return false; x.E.pop_back(); x.ed.pop_back(); return x.E == a.E && x.ed == a.ed && b.F == a.F && b.C == a.C && b.nv == a.nv && !b.ed.back(); }
        if (kind == 'F') { if (b.F.size() != a.F.size() + 1) return false; x.F.pop_back(); x.fd.pop_back(); return x.F == a.F && x.fd == a.fd && b.C == a.C && b.nv == a.nv && !b.fd.back(); }
        if (b.C.size() != a.C.size() + 1) return false; x.C.pop_back(); x.cd.pop_back(); return x.C == a.C && x.cd == a.cd && b.F == a.F && b.E == a.E && b.nv == a.nv && !b.cd.back();
    };
    if (op == "AddE") {
        int x = std::stoi(echo[1]), y = std::stoi(echo[2]); bool dup = echo[3] != "0";
        int existing = -1;
        for (int e = 0; e < (int)a.E.size(); ++e) if (!a.ed[e] && ((a.E[e].first == x && a.E[e].second == y) || (a.E[e].first == y && a.E[e].second == x))) { existing = e; break; }
        if (!dup && existing >= 0) {
            bool isone = r >= 0 && r < (long)a.E.size() && !a.ed[r] && ((a.E[r].first == x && a.E[r].second == y) || (a.E[r].first == y && a.E[r].second == x));
            if (!isone) out.fail("C11", "add_edge(" + echo[1] + "," + echo[2] + ") did not return an existing live edge between the two vertices (returned " + std::to_string(r) + ")");
            if (!same_observable(a, b)) out.fail("C11", "deduplicated add_edge changed the mesh");
        } else {
            if (r != (long)a.E.size() || !appended_only('E') || b.E.back() != std::make_pair(x, y)) out.fail("C11", "add_edge did not append exactly one edge with the given definition");
        }
    } else if (op == "AddF") {
        bool check = echo[1] != "0"; std::vector<int> hes; for (size_t i = 2; i < echo.size(); ++i) hes.push_back(std::stoi(echo[i]));
        bool closed = brute_closed_loop(a, hes);
        if (check && !closed) {
            if (has) out.fail("C11", "topology-checked add_face accepted halfedges that do not form a closed loop");
            if (!same_observable(a, b)) out.fail("C11", "rejected add_face changed the mesh");
        } else {
            if (!has) out.fail("C11", "add_face rejected a closed loop");
            else if (r != (long)a.F.size() || !appended_only('F') || b.F.back() != hes || b.E != a.E) out.fail("C11", "add_face did not append exactly one face with the given definition");
        }
    } else if (op == "AddC") {
        bool check = echo[1] != "0"; std::vector<int> hfs; for (size_t i = 2; i < echo.size(); ++i) hfs.push_back(std::stoi(echo[i]));
        bool closed = brute_closed_surface(a, hfs);
        if (check && !closed) {
            if (has) out.fail("C11", "topology-checked add_cell accepted halffaces that do not form a closed surface");
            if (!same_observable(a, b)) out.fail("C11", "rejected add_cell changed the mesh");
        } else {
            if (!has) out.fail("C11", "add_cell rejected a closed surface");
            else if (r != (long)a.C.size() || !appended_only('C') || b.C.back() != hfs) out.fail("C11", "add_cell did not append exactly one cell with the given definition");
        }
    }
}

// ---------------------------------------------------------------- C08: mirror images
template <class M>
void oracle_C08(World<M> &w, const Snap &s, const std::vector<std::string> &echo, bool has, long r, OracleOut &out) {
    auto &m = w.mesh;
    for (int e = 0; e < (int)s.E.size(); ++e) {
        auto h0 = m.halfedge(HalfEdgeHandle(2 * e)), h1 = m.halfedge(HalfEdgeHandle(2 * e + 1));
        if (h0.from_vertex() != h1.to_vertex() || h0.to_vertex() != h1.from_vertex()) out.fail("C08", "opposite halfedge of edge " + std::to_string(e) + " does not swap source and target");
        if (m.opposite_halfedge_handle(m.opposite_halfedge_handle(HalfEdgeHandle(2 * e))).idx() != 2 * e) out.fail("C08", "opposite twice is not the identity");
        if (m.from_vertex_handle(HalfEdgeHandle(2 * e + 1)) != m.to_vertex_handle(HalfEdgeHandle(2 * e))) out.fail("C08", "from/to_vertex_handle of opposite halfedges disagree");
    }
    for (int f = 0; f < (int)s.F.size(); ++f) {
        auto a = m.halfface(HalfFaceHandle(2 * f)).halfedges(), b = m.halfface(HalfFaceHandle(2 * f + 1)).halfedges();
        bool ok = a.size() == b.size();
        for (size_t i = 0; ok && i < a.size(); ++i) ok = b[i] == m.opposite_halfedge_handle(a[a.size() - 1 - i]);
        if (!ok) out.fail("C08", "opposite halfface of face " + std::to_string(f) + " is not the reversed list of opposite halfedges");
    }
    // faces built from vertex lists or accepted with topology check are closed loops
    bool fromv = echo[0] == "AddFV", checked = echo[0] == "AddF" && echo.size() > 1 && echo[1] != "0";
    if ((fromv || checked) && has && r >= 0 && r < (long)s.F.size()) {
        if (!brute_closed_loop(s, s.F[r])) out.fail("C08", "face " + std::to_string(r) + " created by " + echo[0] + " is not a closed loop");
        if (!brute_closed_loop(s, s.halfface(2 * (int)r + 1))) out.fail("C08", "other side of face " + std::to_string(r) + " is not a closed loop");
        if (fromv) {
            std::vector<int> vs; for (size_t i = 1; i < echo.size(); ++i) vs.push_back(std::stoi(echo[i]));
            std::vector<int> got; for (int h : s.F[r]) got.push_back(s.from(h));
            if (got != vs) out.fail("C08", "face built from vertices does not pass through them in order");
        }
        // circulators of the two sides enumerate the same cycle in opposite directions; next/prev are inverse steps
        std::vector<int> v0, v1;
        for (auto it = m.hfv_iter(HalfFaceHandle(2 * (int)r)); it.valid(); ++it) v0.push_back(it->idx());
        for (auto it = m.hfv_iter(HalfFaceHandle(2 * (int)r + 1)); it.valid(); ++it) v1.push_back(it->idx());
        std::vector<int> rv(v1.rbegin(), v1.rend());
        bool rot = v0.size() == rv.size();
        if (rot && !v0.empty()) { rot = false; for (size_t k = 0; k < v0.size() && !rot; ++k) { std::vector<int> t(rv.begin() + k, rv.end()); t.insert(t.end(), rv.begin(), rv.begin() + k); rot = t == v0; } }
        if (!rot) out.fail("C08", "vertex circulators of the two sides of face " + std::to_string(r) + " do not enumerate the same cycle in opposite directions");
        auto l = sorted(s.F[r]);
        if (std::adjacent_find(l.begin(), l.end()) == l.end())
            for (int side = 0; side < 2; ++side) for (int h : s.halfface(2 * (int)r + side)) {
                HalfFaceHandle hf(2 * (int)r + side);
                auto n = m.next_halfedge_in_halfface(HalfEdgeHandle(h), hf);
                if (!n.is_valid() || m.prev_halfedge_in_halfface(n, hf).idx() != h) out.fail("C08", "prev_halfedge_in_halfface(next_halfedge_in_halfface(h)) != h");
                if (n.is_valid() && s.from(n.idx()) != s.to(h)) out.fail("C08", "next_halfedge_in_halfface does not continue where the halfedge ends");
            }
    }
}

} // namespace ovmv
