// kernel_exec.hh -- executes one kernel-script line on a World<Mesh> (shared by run_kernel, run_iter,
// run_tet, run_hex).  Operand resolution and "valid argument" tests are identical to ocaml/kcommon.ml.
#pragma once
#include "probe.hh"
#include <OpenVolumeMesh/Attribs/StatusAttrib.hh>
namespace ovmv {
static std::string echo(const std::string &nm, const std::vector<long> &l) {
    std::string s = nm;
    for (auto x : l) s += " " + std::to_string(x);
    return s;
}

struct Result { bool rejected = false; bool has = false; long r = -1; std::string echo; std::string extra; };

template <class Mesh>
static Result exec_line(World<Mesh> &w, const std::vector<std::string> &toks) {
    auto &m = w.mesh;
    bool abs = toks[0][0] == '@';
    std::string name = abs ? toks[0].substr(1) : toks[0];
    std::vector<long> a;
    Resolver<Mesh> r(m, abs);
    Result res;
    auto L = [&](size_t i) { return std::stol(toks.at(i)); };
    auto all = [&](size_t from, auto f) { std::vector<long> v; for (size_t i = from; i < toks.size(); ++i) v.push_back(f(std::stol(toks[i]))); return v; };
    if (name == "AddV") { res.echo = "AddV"; res.has = true; res.r = m.add_vertex().idx(); return res; }
    if (name == "AddVs") { res.echo = "AddVs " + toks.at(1); m.add_n_vertices((size_t)L(1)); return res; }
    if (name == "AddE") {
        int x = r.lv(L(1)), y = r.lv(L(2)); long d = L(3);
        res.echo = echo("AddE", {x, y, d});
        if (!live_v(m, x) || !live_v(m, y)) { res.rejected = true; return res; }
        res.has = true; res.r = m.add_edge(VertexHandle(x), VertexHandle(y), d != 0).idx(); return res;
    }
    if (name == "AddF" || name == "SetF") {
        bool isset = name == "SetF";
        long c = isset ? r.lf(L(1)) : L(1);
        auto l = all(2, [&](long k) { return (long)r.lhe(k); });
        std::vector<long> e{c}; e.insert(e.end(), l.begin(), l.end());
        res.echo = echo(name, e);
        bool ok = true; std::vector<HalfEdgeHandle> hs;
        for (auto h : l) { ok = ok && live_he(m, (int)h); hs.push_back(HalfEdgeHandle((int)h)); }
        if (isset) ok = ok && live_f(m, (int)c) && !hs.empty();
        else ok = ok && (c != 0 || !hs.empty());   // an unchecked face without halfedges is outside the documented contract
        if (!ok) { res.rejected = true; return res; }
        if (isset) { m.set_face(FaceHandle((int)c), hs); return res; }
        auto f = m.add_face(hs, c != 0); res.has = f.is_valid(); res.r = f.idx(); return res;
    }
    if (name == "AddFV") {
        auto l = all(1, [&](long k) { return (long)r.lv(k); });
        res.echo = echo("AddFV", l);
        bool ok = !l.empty(); std::vector<VertexHandle> vs;
        for (auto v : l) { ok = ok && live_v(m, (int)v); vs.push_back(VertexHandle((int)v)); }
        if (!ok) { res.rejected = true; return res; }
        auto f = m.add_face(vs); res.has = f.is_valid(); res.r = f.idx(); return res;
    }
    if (name == "AddC" || name == "SetC") {
        bool isset = name == "SetC";
        long c = isset ? r.lc(L(1)) : L(1);
        auto l = all(2, [&](long k) { return (long)r.lhf(k); });
        std::vector<long> e{c}; e.insert(e.end(), l.begin(), l.end());
        res.echo = echo(name, e);
        bool ok = true; std::vector<HalfFaceHandle> hs;
        for (auto h : l) { ok = ok && live_hf(m, (int)h); hs.push_back(HalfFaceHandle((int)h)); }
        if (isset) ok = ok && live_c(m, (int)c);
        if (!ok) { res.rejected = true; return res; }
        if (isset) { m.set_cell(CellHandle((int)c), hs); return res; }
        auto ch = m.add_cell(hs, c != 0); res.has = ch.is_valid(); res.r = ch.idx(); return res;
    }
    if (name == "SetE") {
        int e = r.le(L(1)), x = r.lv(L(2)), y = r.lv(L(3));
        res.echo = echo("SetE", {e, x, y});
        if (!live_e(m, e) || !live_v(m, x) || !live_v(m, y)) { res.rejected = true; return res; }
        m.set_edge(EdgeHandle(e), VertexHandle(x), VertexHandle(y)); return res;
    }
    if (name == "DelV") { int v = r.lv(L(1)); res.echo = echo(name, {v}); if (!live_v(m, v)) { res.rejected = true; return res; } m.delete_vertex(VertexHandle(v)); return res; }
    if (name == "DelE") { int v = r.le(L(1)); res.echo = echo(name, {v}); if (!live_e(m, v)) { res.rejected = true; return res; } m.delete_edge(EdgeHandle(v)); return res; }
    if (name == "DelF") { int v = r.lf(L(1)); res.echo = echo(name, {v}); if (!live_f(m, v)) { res.rejected = true; return res; } m.delete_face(FaceHandle(v)); return res; }
    if (name == "DelC") { int v = r.lc(L(1)); res.echo = echo(name, {v}); if (!live_c(m, v)) { res.rejected = true; return res; } m.delete_cell(CellHandle(v)); return res; }
    if (name == "SwapV") { int x = r.av(L(1)), y = r.av(L(2)); res.echo = echo(name, {x, y}); if (x < 0 || y < 0 || x >= (int)m.n_vertices() || y >= (int)m.n_vertices()) { res.rejected = true; return res; } m.swap_vertex_indices(VertexHandle(x), VertexHandle(y)); return res; }
    if (name == "SwapE") { int x = r.ae(L(1)), y = r.ae(L(2)); res.echo = echo(name, {x, y}); if (x < 0 || y < 0 || x >= (int)m.n_edges() || y >= (int)m.n_edges()) { res.rejected = true; return res; } m.swap_edge_indices(EdgeHandle(x), EdgeHandle(y)); return res; }
    if (name == "SwapF") { int x = r.af(L(1)), y = r.af(L(2)); res.echo = echo(name, {x, y}); if (x < 0 || y < 0 || x >= (int)m.n_faces() || y >= (int)m.n_faces()) { res.rejected = true; return res; } m.swap_face_indices(FaceHandle(x), FaceHandle(y)); return res; }
    if (name == "SwapC") { int x = r.ac(L(1)), y = r.ac(L(2)); res.echo = echo(name, {x, y}); if (x < 0 || y < 0 || x >= (int)m.n_cells() || y >= (int)m.n_cells()) { res.rejected = true; return res; } m.swap_cell_indices(CellHandle(x), CellHandle(y)); return res; }
    if (name == "GC") { res.echo = "GC"; m.collect_garbage(); return res; }
    if (name == "Clear") { res.echo = "Clear " + toks.at(1); m.clear(L(1) != 0); return res; }
    if (name == "EnVBU") { res.echo = "EnVBU " + toks.at(1); m.enable_vertex_bottom_up_incidences(L(1) != 0); return res; }
    if (name == "EnEBU") { res.echo = "EnEBU " + toks.at(1); m.enable_edge_bottom_up_incidences(L(1) != 0); return res; }
    if (name == "EnFBU") { res.echo = "EnFBU " + toks.at(1); m.enable_face_bottom_up_incidences(L(1) != 0); return res; }
    if (name == "EnDef") { res.echo = "EnDef " + toks.at(1); m.enable_deferred_deletion(L(1) != 0); return res; }
    if (name == "EnFast") { res.echo = "EnFast " + toks.at(1); m.enable_fast_deletion(L(1) != 0); return res; }
    if (name == "PCreate") {
        int k = kind_index(toks.at(1)); long d = L(2);
        std::string type = toks.size() > 3 ? toks[3] : "int";
        res.echo = "PCreate " + toks[1] + " " + toks[2];
        w.props[k].push_back(make_prop(m, k, type, d, w.seq++));
        return res;
    }
    if (name == "PSet") {
        int k = kind_index(toks.at(1));
        long p = abs ? L(2) : Resolver<Mesh>::modn((int)w.props[k].size(), L(2));
        long len = (p >= 0 && p < (long)w.props[k].size()) ? (long)w.props[k][p]->size() : 0;
        long i = abs ? L(3) : Resolver<Mesh>::modn((int)len, L(3));
        res.echo = "PSet " + toks[1] + " " + std::to_string(p) + " " + std::to_string(i) + " " + toks.at(4);
        if (p < 0 || p >= (long)w.props[k].size() || i < 0 || i >= len) { res.rejected = true; return res; }
        w.props[k][p]->set((size_t)i, L(4)); return res;
    }
    if (name == "PDrop") {
        int k = kind_index(toks.at(1));
        long p = abs ? L(2) : Resolver<Mesh>::modn((int)w.props[k].size(), L(2));
        res.echo = "PDrop " + toks[1] + " " + std::to_string(p);
        if (p < 0 || p >= (long)w.props[k].size()) { res.rejected = true; return res; }
        w.props[k].erase(w.props[k].begin() + p); return res;
    }
    if (name == "StatusGC") {
        // @StatusGC pm V .. E .. F .. C .. TV .. THE .. THF .. TC ..   (absolute operands)
        std::map<std::string, std::vector<int>> g; std::string cur;
        res.echo = "StatusGC";
        for (size_t i = 1; i < toks.size(); ++i) { res.echo += " " + toks[i];
            if (i == 1) continue;
            const std::string &t = toks[i];
            if (t == "V" || t == "E" || t == "F" || t == "C" || t == "TV" || t == "THE" || t == "THF" || t == "TC") { cur = t; g[cur]; }
            else g[cur].push_back(std::stoi(t)); }
        auto inr = [](const std::vector<int> &l, size_t n) { for (int x : l) if (x < 0 || (size_t)x >= n) return false; return true; };
        if (!(inr(g["V"], m.n_vertices()) && inr(g["E"], m.n_edges()) && inr(g["F"], m.n_faces()) && inr(g["C"], m.n_cells()) &&
              inr(g["TV"], m.n_vertices()) && inr(g["THE"], m.n_halfedges()) && inr(g["THF"], m.n_halffaces()) && inr(g["TC"], m.n_cells()))) { res.rejected = true; return res; }
        std::vector<VertexHandle> tv; std::vector<HalfEdgeHandle> the; std::vector<HalfFaceHandle> thf; std::vector<CellHandle> tc;
        for (int x : g["TV"]) tv.push_back(VertexHandle(x)); for (int x : g["THE"]) the.push_back(HalfEdgeHandle(x));
        for (int x : g["THF"]) thf.push_back(HalfFaceHandle(x)); for (int x : g["TC"]) tc.push_back(CellHandle(x));
        std::vector<VertexHandle*> pv; std::vector<HalfEdgeHandle*> phe; std::vector<HalfFaceHandle*> phf; std::vector<CellHandle*> pc;
        for (auto &x : tv) pv.push_back(&x); for (auto &x : the) phe.push_back(&x); for (auto &x : thf) phf.push_back(&x); for (auto &x : tc) pc.push_back(&x);
        {
            StatusAttrib status(m);
            for (int x : g["V"]) status[VertexHandle(x)].set_deleted(true);
            for (int x : g["E"]) status[EdgeHandle(x)].set_deleted(true);
            for (int x : g["F"]) status[FaceHandle(x)].set_deleted(true);
            for (int x : g["C"]) status[CellHandle(x)].set_deleted(true);
            status.garbage_collection(pv, phe, phf, pc, toks.at(1) == "1");
        }
        auto f = [](auto &l) { std::string s; for (size_t i = 0; i < l.size(); ++i) { if (i) s += " "; s += l[i].is_valid() ? std::to_string(l[i].idx()) : std::string("-"); } return s; };
        res.extra = "TRK v:" + f(tv) + " | he:" + f(the) + " | hf:" + f(thf) + " | c:" + f(tc);
        return res;
    }
    fprintf(stderr, "bad op %s\n", name.c_str());
    exit(3);
}


} // namespace ovmv
