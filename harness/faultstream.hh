// faultstream.hh -- stream buffers that start failing after k bytes (C18: stream failures).
//   FaultInBuf : a seekable read-only buffer over a byte string that reports the full length through
//                seekoff/seekpos (so BinaryIStream's stream_length sees the whole file) but delivers only the first
//                k bytes; every read beyond that fails (short count => istream sets eofbit|failbit).
//   FaultOutBuf: a write-only buffer that accepts k bytes and then refuses (short count => ostream sets badbit).
#pragma once
#include <streambuf>
#include <string>
#include <cstring>
#include <algorithm>

namespace ovmv {

class FaultInBuf : public std::streambuf {
public:
    FaultInBuf(const std::string &data, size_t fail_after) : data_(data), limit_(std::min(fail_after, data.size())) {}
protected:
    std::streamsize xsgetn(char *s, std::streamsize n) override {
        if (n <= 0 || pos_ >= limit_) return 0;
        size_t k = std::min<size_t>((size_t)n, limit_ - pos_);
        std::memcpy(s, data_.data() + pos_, k);
        pos_ += k;
        return (std::streamsize)k;
    }
    int_type underflow() override {
        if (pos_ >= limit_) return traits_type::eof();
        return traits_type::to_int_type(data_[pos_]);
    }
    int_type uflow() override {
        if (pos_ >= limit_) return traits_type::eof();
        return traits_type::to_int_type(data_[pos_++]);
    }
    pos_type seekoff(off_type off, std::ios_base::seekdir dir, std::ios_base::openmode) override {
        long long base = dir == std::ios_base::beg ? 0 : dir == std::ios_base::cur ? (long long)pos_ : (long long)data_.size();
        long long np = base + off;
        if (np < 0 || np > (long long)data_.size()) return pos_type(off_type(-1));
        pos_ = (size_t)np;
        return pos_type(off_type(np));
    }
    pos_type seekpos(pos_type p, std::ios_base::openmode m) override { return seekoff(off_type(p), std::ios_base::beg, m); }
private:
    std::string data_;
    size_t limit_;
    size_t pos_ = 0;
};

class FaultOutBuf : public std::streambuf {
public:
    explicit FaultOutBuf(size_t fail_after) : limit_(fail_after) {}
    const std::string &written() const { return out_; }
protected:
    std::streamsize xsputn(const char *s, std::streamsize n) override {
        size_t room = limit_ > out_.size() ? limit_ - out_.size() : 0;
        size_t k = n <= 0 ? 0 : std::min<size_t>((size_t)n, room);
        if (k) out_.append(s, k);
        return (std::streamsize)k;
    }
    int_type overflow(int_type c) override {
        if (traits_type::eq_int_type(c, traits_type::eof())) return traits_type::not_eof(c);
        if (out_.size() >= limit_) return traits_type::eof();
        out_.push_back(traits_type::to_char_type(c));
        return c;
    }
private:
    size_t limit_;
    std::string out_;
};

} // namespace ovmv
