#!/usr/bin/env python3
"""Model-guided generator of kernel scripts.

Every random choice comes from one SplitMix64 state (seeded from VERIF_SEED and the script index),
so a script is reproducible from (seed, index, profile); the script text itself is the replay.
The generator drives the *extracted model* interactively (ocaml kdriver -i) and looks at the
model's state after every step, so that it can aim operations at the case splits the proofs make
(victim first/middle/last, neighbours of the last element, shared sub-entities, valence 0/1/2,
each (deferred x fast x bottom-up subset) cell) and can build *valid* histories on purpose
(closed cells, no halfface in two live cells) as well as deliberately malformed ones.
"""
import os, subprocess, sys

MASK = (1 << 64) - 1

class Rng:
    def __init__(self, seed):
        self.s = seed & MASK
    def next(self):
        self.s = (self.s + 0x9E3779B97F4A7C15) & MASK
        z = self.s
        z = ((z ^ (z >> 30)) * 0xBF58476D1CE4E5B9) & MASK
        z = ((z ^ (z >> 27)) * 0x94D049BB133111EB) & MASK
        return z ^ (z >> 31)
    def below(self, n):
        return self.next() % n if n > 0 else 0
    def chance(self, num, den):
        return self.below(den) < num
    def pick(self, l):
        return l[self.below(len(l))]
    def shuffle(self, l):
        l = list(l)
        for i in range(len(l) - 1, 0, -1):
            j = self.below(i + 1)
            l[i], l[j] = l[j], l[i]
        return l

class State:
    """Parsed canonical dump (same text the two sides print)."""
    def __init__(self, lines):
        self.raw = lines
        self.head = lines[0] if lines else ""
        self.props = {}
        for ln in lines[1:]:
            tag, _, rest = ln.partition(" ")
            if tag == "nv": self.nv = int(rest)
            elif tag == "E": self.E = [tuple(map(int, t.split(","))) for t in rest.split()]
            elif tag == "F": self.F = parse_ll(rest)
            elif tag == "C": self.C = parse_ll(rest)
            elif tag == "del":
                d = dict(p.split(":") for p in rest.split())
                self.vdel = [c == "1" for c in d["V"]]; self.edel = [c == "1" for c in d["E"]]
                self.fdel = [c == "1" for c in d["F"]]; self.cdel = [c == "1" for c in d["C"]]
            elif tag == "cnt": self.cnt = list(map(int, rest.split()))
            elif tag == "flags":
                d = dict(p.split("=") for p in rest.split())
                self.vbu, self.ebu, self.fbu = d["v"] == "1", d["e"] == "1", d["f"] == "1"
                self.deferred, self.fast = d["def"] == "1", d["fast"] == "1"
            elif tag == "OUT": self.OUT = parse_ll(rest)
            elif tag == "HFS": self.HFS = parse_ll(rest)
            elif tag == "CELL": self.CELL = [None if t == "-" else int(t) for t in rest.split()]
            elif tag == "P":
                k, idx, *_ = rest.split()
                self.props.setdefault(k, []).append(rest)
    def result(self):
        # "== n echo -> Ok r"
        r = self.head.rsplit("->", 1)[1].strip()
        if r.startswith("Ok"):
            v = r.split()[1]
            return None if v == "-" else int(v)
        return r
    def live_v(self): return [i for i in range(self.nv) if not self.vdel[i]]
    def live_e(self): return [i for i in range(len(self.E)) if not self.edel[i]]
    def live_f(self): return [i for i in range(len(self.F)) if not self.fdel[i]]
    def live_c(self): return [i for i in range(len(self.C)) if not self.cdel[i]]
    def he_from(self, h): a, b = self.E[h // 2]; return a if h % 2 == 0 else b
    def he_to(self, h): a, b = self.E[h // 2]; return b if h % 2 == 0 else a
    def halfface(self, hf):
        f = self.F[hf // 2]
        return f if hf % 2 == 0 else [h ^ 1 for h in reversed(f)]
    def hf_vertices(self, hf): return [self.he_from(h) for h in self.halfface(hf)]
    def used_halffaces(self):
        u = set()
        for c in self.live_c(): u.update(self.C[c])
        return u

def parse_ll(rest):
    out, cur = [], None
    for t in rest.replace("[", " [ ").replace("]", " ] ").split():
        if t == "[": cur = []
        elif t == "]": out.append(cur); cur = None
        else: cur.append(int(t))
    return out

class Session:
    def __init__(self, kdriver):
        self.p = subprocess.Popen([kdriver, "-i"], stdin=subprocess.PIPE, stdout=subprocess.PIPE, text=True, bufsize=1)
        self.lines = []
        self.state = None
    def _read(self):
        blk = []
        while True:
            ln = self.p.stdout.readline()
            if not ln: raise RuntimeError("kdriver died")
            ln = ln.rstrip("\n")
            if ln == ".": return blk
            blk.append(ln)
    def begin(self, name):
        self.p.stdin.write("#### %s\n" % name); self.p.stdin.flush(); self._read()
        self.lines = []
        self.do("EnFast 1")  # any op, to obtain an initial state
        self.lines = []
    def do(self, line):
        self.p.stdin.write(line + "\n"); self.p.stdin.flush()
        blk = self._read()
        self.state = State(blk)
        self.lines.append(line)
        return self.state
    def close(self):
        try:
            self.p.stdin.close(); self.p.wait(timeout=5)
        except Exception:
            self.p.kill()

PROP_TYPES = ["int", "bool", "double", "string", "vec3d", "vh"]
KINDS = ["V", "E", "HE", "F", "HF", "C", "M"]

class Gen:
    def __init__(self, sess, rng, profile):
        self.s, self.r, self.profile = sess, rng, profile
        self.ptypes = {k: [] for k in KINDS}
        self.tok = 10
        self.sgc = os.environ.get("KGEN_STATUSGC", "0") == "1"

    # ---------------------------------------------------------------- fragments
    def st(self): return self.s.state
    def do(self, line): return self.s.do(line)

    def mode(self, deferred=None, fast=None, bu=None):
        r = self.r
        d = r.below(2) if deferred is None else deferred
        f = r.below(2) if fast is None else fast
        b = r.below(8) if bu is None else bu
        self.do("EnDef %d" % d); self.do("EnFast %d" % f)
        self.do("EnVBU %d" % (b & 1)); self.do("EnEBU %d" % ((b >> 1) & 1)); self.do("EnFBU %d" % ((b >> 2) & 1))

    def add_vertices(self, n):
        if self.r.chance(1, 2): self.do("AddVs %d" % n)
        else:
            for _ in range(n): self.do("AddV")

    def find_face(self, vs):
        """existing live face on exactly this vertex cycle (either orientation) -> halfface handle with that cycle"""
        s = self.st()
        n = len(vs)
        for f in s.live_f():
            if len(s.F[f]) != n: continue
            for side in (0, 1):
                cyc = s.hf_vertices(2 * f + side)
                for k in range(n):
                    if cyc[k:] + cyc[:k] == list(vs): return 2 * f + side
        return None

    def face_on(self, vs, reuse=True):
        """halfface handle whose vertex cycle is vs (creating the face if needed)"""
        if reuse:
            hf = self.find_face(vs)
            if hf is not None: return hf
        st = self.do("@AddFV " + " ".join(map(str, vs)))
        f = st.result()
        return None if not isinstance(f, int) else 2 * f

    def add_tet(self, a, b, c, d, check=None, reuse=True):
        hfs = [self.face_on(t, reuse) for t in ((a, b, c), (a, c, d), (a, d, b), (b, d, c))]
        if any(h is None for h in hfs): return None
        used = self.st().used_halffaces()
        if reuse and any(h in used for h in hfs):
            # would put a halfface into two live cells: flip the whole tet instead if that is free
            hfs2 = [h ^ 1 for h in hfs]
            if any(h in used for h in hfs2): return None
            hfs = hfs2
        chk = self.r.below(2) if check is None else check
        return self.do("@AddC %d %s" % (chk, " ".join(map(str, self.r.shuffle(hfs))))).result()

    def add_hex(self, v, check=None):
        # v[0..7]: bottom 0123, top 4567 (4 above 0 ...)
        quads = [(v[0], v[1], v[2], v[3]), (v[7], v[6], v[5], v[4]), (v[1], v[0], v[4], v[5]),
                 (v[2], v[1], v[5], v[6]), (v[3], v[2], v[6], v[7]), (v[0], v[3], v[7], v[4])]
        hfs = [self.face_on(q) for q in quads]
        if any(h is None for h in hfs): return None
        used = self.st().used_halffaces()
        if any(h in used for h in hfs):
            hfs = [h ^ 1 for h in hfs]
            if any(h in used for h in hfs): return None
        chk = self.r.below(2) if check is None else check
        return self.do("@AddC %d %s" % (chk, " ".join(map(str, hfs)))).result()

    def fan(self, k, closed):
        """k tets around a common edge (a,b); closed ring or open chain; attached in random order"""
        base = self.st().nv
        self.add_vertices(2 + k + (0 if closed else 1))
        a, b = base, base + 1
        ring = [base + 2 + i for i in range(k + (0 if closed else 1))]
        order = self.r.shuffle(range(k))
        for i in order:
            p, q = ring[i], ring[(i + 1) % len(ring)]
            self.add_tet(a, b, p, q)

    def strip(self, k):
        """k tets, each glued to the previous one along a face"""
        base = self.st().nv
        self.add_vertices(3 + k)
        for i in range(k):
            v = [base + i, base + i + 1, base + i + 2, base + i + 3]
            if i % 2: v[0], v[1] = v[1], v[0]
            self.add_tet(*v)

    def hex_block(self, nx, ny):
        base = self.st().nv
        self.add_vertices((nx + 1) * (ny + 1) * 2)
        def vid(i, j, k): return base + (k * (ny + 1) + j) * (nx + 1) + i
        for i in range(nx):
            for j in range(ny):
                self.add_hex([vid(i, j, 0), vid(i + 1, j, 0), vid(i + 1, j + 1, 0), vid(i, j + 1, 0),
                              vid(i, j, 1), vid(i + 1, j, 1), vid(i + 1, j + 1, 1), vid(i, j + 1, 1)])

    def debris(self):
        """isolated vertices, dangling edges/faces, duplicate edges, loops, 2-gons"""
        r = self.r
        self.add_vertices(1 + r.below(3))
        lv = self.st().live_v()
        for _ in range(1 + r.below(3)):
            a, b = r.pick(lv), r.pick(lv)
            self.do("@AddE %d %d %d" % (a, b, r.below(2)))
        if len(lv) >= 3 and r.chance(2, 3):
            vs = r.shuffle(lv)[:3 + r.below(2)]
            self.do("@AddFV " + " ".join(map(str, vs)))
        if len(lv) >= 2 and r.chance(1, 3):
            a, b = r.shuffle(lv)[:2]
            self.do("@AddFV %d %d" % (a, b))       # 2-gon
        if r.chance(1, 4):
            self.do("@AddFV %d" % r.pick(lv))       # loop
        if r.chance(1, 3):
            # a self-loop edge on the LAST vertex (the one fast deletion relocates) and a face running through the loop
            v = self.st().nv - 1
            self.do("@AddE %d %d 1" % (v, v))
            if len(lv) >= 2 and r.chance(1, 2):
                w = r.pick([x for x in lv if x != v] or lv)
                self.do("@AddFV %d %d %d" % (v, v, w))

    def pillow(self):
        """a self-adjacent cell: BOTH halffaces of one face (a 'pillow'; it passes the topology check) - every renumbering of that
        face meets the same cell from both sides; built last so that its face is the one fast deletion relocates.  Plus a free
        face in front of it as a victim."""
        r = self.r
        base = self.st().nv
        self.add_vertices(3 + 3)
        if r.chance(2, 3): self.do("@AddFV %d %d %d" % (base + 3, base + 4, base + 5))      # a free face to delete later
        f = self.do("@AddFV %d %d %d" % (base, base + 1, base + 2)).result()
        if not isinstance(f, int): return
        hfs = [2 * f, 2 * f + 1]
        if r.chance(1, 2): hfs.reverse()
        self.do("@AddC %d %d %d" % (r.below(2), hfs[0], hfs[1]))

    def doublet(self):
        """two cells sharing TWO faces (legal in polyhedral meshes), with a third cell on the face in between in
        the first cell's halfface list - neighbour lists then contain non-adjacent duplicates before de-duplication"""
        r = self.r
        base = self.st().nv
        self.add_vertices(6)
        a, b, c, d, e, f = (base + i for i in range(6))
        # A = tet (a,b,c,d) with its halffaces in the order abc, adb, acd, bdc (the shared ones abc/acd separated by adb)
        hA = [self.face_on(t) for t in ((a, b, c), (a, d, b), (a, c, d), (b, d, c))]
        if any(h is None for h in hA): return
        order = hA if r.chance(2, 3) else r.shuffle(hA)
        self.do("@AddC %d %s" % (r.below(2), " ".join(map(str, order))))
        # B: the two shared triangles from the other side + the cone over the quad a-b-c-d from e
        hB = [hA[0] ^ 1, hA[2] ^ 1] + [self.face_on(t) for t in ((a, b, e), (b, c, e), (c, d, e), (d, a, e))]
        if any(h is None for h in hB): return
        self.do("@AddC %d %s" % (r.below(2), " ".join(map(str, r.shuffle(hB) if r.chance(1, 2) else hB))))
        # C: a tet on the face adb, from the other side
        hC = [hA[1] ^ 1] + [self.face_on(t) for t in ((a, d, f), (d, b, f), (b, a, f))]
        if any(h is None for h in hC): return
        self.do("@AddC %d %s" % (r.below(2), " ".join(map(str, hC))))

    def touching_cells(self):
        """two tets sharing only a vertex, two sharing only an edge"""
        base = self.st().nv
        self.add_vertices(7)
        self.add_tet(base, base + 1, base + 2, base + 3)
        self.add_tet(base, base + 4, base + 5, base + 6)          # shares vertex base
        b2 = self.st().nv
        self.add_vertices(2)
        self.add_tet(base, base + 1, b2, b2 + 1)                  # shares edge (base, base+1)

    def create_props(self, n=None):
        r = self.r
        for _ in range(n if n is not None else 1 + r.below(4)):
            k = r.pick(KINDS)
            t = r.pick(PROP_TYPES)
            d = r.below(2) if t == "bool" else r.below(7)
            self.do("PCreate %s %d %s" % (k, d, t))
            self.ptypes[k].append(t)

    def set_props(self, n):
        r = self.r
        for _ in range(n):
            ks = [k for k in KINDS if self.ptypes[k]]
            if not ks: return
            k = r.pick(ks)
            p = r.below(len(self.ptypes[k]))
            t = self.ptypes[k][p]
            self.tok += 1
            v = (self.tok & 1) if t == "bool" else self.tok
            self.do("PSet %s %d %d %d" % (k, p, r.below(1000), v))

    def fill_props(self):
        """write a distinct token into every slot of every property (so that a misplaced value shows)"""
        s = self.st()
        sizes = {"V": s.nv, "E": len(s.E), "HE": 2 * len(s.E), "F": len(s.F), "HF": 2 * len(s.F), "C": len(s.C), "M": 1}
        for k in KINDS:
            for p, t in enumerate(self.ptypes[k]):
                for i in range(sizes[k]):
                    self.tok += 1
                    v = ((i + p) & 1) if t == "bool" else self.tok
                    self.do("@PSet %s %d %d %d" % (k, p, i, v))

    def drop_prop(self):
        ks = [k for k in KINDS if self.ptypes[k]]
        if not ks: return
        k = self.r.pick(ks)
        p = self.r.below(len(self.ptypes[k]))
        self.do("PDrop %s %d" % (k, p))
        del self.ptypes[k][p]

    # ---------------------------------------------------------------- mutation
    def victim(self, l):
        """aimed choice: first / last / neighbour of last / middle"""
        r = self.r
        if not l: return None
        c = r.below(6)
        if c == 0: return l[0]
        if c == 1: return l[-1]
        if c == 2 and len(l) > 1: return l[-2]
        return r.pick(l)

    def delete_some(self, kinds="VEFC"):
        s = self.st(); r = self.r
        k = r.pick(list(kinds))
        l = {"V": s.live_v(), "E": s.live_e(), "F": s.live_f(), "C": s.live_c()}[k]
        v = self.victim(l)
        if v is None: return
        self.do("@Del%s %d" % (k, v))

    def swap_some(self):
        s = self.st(); r = self.r
        k = r.pick("VEFC")
        n = {"V": s.nv, "E": len(s.E), "F": len(s.F), "C": len(s.C)}[k]
        if n == 0: return
        l = list(range(n))
        a, b = self.victim(l), self.victim(l)
        # aim at pairs that share a super-entity
        if k == "F" and s.live_c() and r.chance(1, 2):
            c = s.C[r.pick(s.live_c())]
            if len(c) >= 2: a, b = r.pick(c) // 2, r.pick(c) // 2
        if k == "E" and s.live_f() and r.chance(1, 2):
            f = s.F[r.pick(s.live_f())]
            if len(f) >= 2: a, b = r.pick(f) // 2, r.pick(f) // 2
        if k == "V" and s.live_e() and r.chance(1, 2):
            a, b = s.E[r.pick(s.live_e())]
            if a == b:                                    # a self-loop: exchange its vertex with another one (both halfedges leave it)
                b = self.victim(l)
        self.do("@Swap%s %d %d" % (k, a, b))

    def readd(self):
        """re-create an entity on the sub-entities of a deferred-deleted one (the stale slot and the new live entity then coexist)"""
        s = self.st(); r = self.r
        dead_c = [c for c in range(len(s.C)) if s.cdel[c] and s.C[c] and all(not s.fdel[h // 2] for h in s.C[c])]
        used = s.used_halffaces()
        dead_c = [c for c in dead_c if not any(h in used for h in s.C[c])]
        dead_f = [f for f in range(len(s.F)) if s.fdel[f] and s.F[f] and all(not s.edel[h // 2] for h in s.F[f])]
        dead_e = [e for e in range(len(s.E)) if s.edel[e] and not s.vdel[s.E[e][0]] and not s.vdel[s.E[e][1]]]
        k = r.below(3)
        if dead_c and (k == 0 or not (dead_f or dead_e)):
            c = r.pick(dead_c); self.do("@AddC %d %s" % (r.below(2), " ".join(map(str, s.C[c]))))
            self.last_readded = list(s.C[c])
            if r.chance(1, 2):   # one more cell so that the re-added one is not the last slot
                base = self.st().nv; self.add_vertices(4); self.add_tet(base, base + 1, base + 2, base + 3)
        elif dead_f and (k == 1 or not dead_e):
            f = r.pick(dead_f); self.do("@AddF %d %s" % (r.below(2), " ".join(map(str, s.F[f]))))
        elif dead_e:
            e = r.pick(dead_e); self.do("@AddE %d %d %d" % (s.E[e][0], s.E[e][1], r.below(2)))

    def status_gc(self):
        """StatusAttrib::garbage_collection with status marks, tracked handles and the manifoldness option"""
        s = self.st(); r = self.r
        def some(l, k):
            l = list(l); return sorted(set(r.pick(l) for _ in range(r.below(k + 1)))) if l else []
        nhe, nhf = 2 * len(s.E), 2 * len(s.F)
        parts = ["V"] + some(range(s.nv), 2) + ["E"] + some(range(len(s.E)), 2) + ["F"] + some(range(len(s.F)), 2) + ["C"] + some(range(len(s.C)), 2)
        if r.chance(3, 4):
            parts += ["TV"] + some(range(s.nv), 4) + ["THE"] + some(range(nhe), 4) + ["THF"] + some(range(nhf), 4) + ["TC"] + some(range(len(s.C)), 3)
        self.do("@StatusGC %d %s" % (r.below(2), " ".join(map(str, parts))))

    def toggle(self):
        r = self.r
        self.do("%s %d" % (r.pick(["EnVBU", "EnEBU", "EnFBU"]), r.below(2)))

    def set_something(self):
        s = self.st(); r = self.r
        c = r.below(3)
        if c == 0 and s.live_e() and s.live_v():
            self.do("@SetE %d %d %d" % (r.pick(s.live_e()), r.pick(s.live_v()), r.pick(s.live_v())))
        elif c == 1 and s.live_f() and s.live_e():
            f = r.pick(s.live_f())
            hes = r.shuffle(s.F[f]) if r.chance(1, 2) else [2 * r.pick(s.live_e()) + r.below(2) for _ in range(2 + r.below(3))]
            if r.chance(1, 2): hes = list(dict.fromkeys(hes))
            self.do("@SetF %d %s" % (f, " ".join(map(str, hes))))
        elif c == 2 and s.live_c() and s.live_f():
            cidx = r.pick(s.live_c())
            if r.chance(1, 2):
                hfs = r.shuffle(s.C[cidx])
            else:
                used = s.used_halffaces() - set(s.C[cidx])
                cand = [h for f in s.live_f() for h in (2 * f, 2 * f + 1) if h not in used]
                hfs = r.shuffle(cand)[:3 + r.below(3)]
            self.do("@SetC %d %s" % (cidx, " ".join(map(str, hfs))))

    def malformed(self):
        """out-of-contract / odd arguments: exercises Rejected and the topology checks"""
        s = self.st(); r = self.r
        c = r.below(8)
        big = 3 + r.below(40)
        if c == 0: self.do("@AddE %d %d %d" % (big, r.below(5), r.below(2)))
        elif c == 1: self.do("@AddF %d %s" % (r.below(2), " ".join(str(r.below(2 * len(s.E) + 4)) for _ in range(r.below(5)))))
        elif c == 2: self.do("@AddC %d %s" % (r.below(2), " ".join(str(r.below(2 * len(s.F) + 4)) for _ in range(r.below(7)))))
        elif c == 3: self.do("@Del%s %d" % (r.pick("VEFC"), big))
        elif c == 4: self.do("@Swap%s %d %d" % (r.pick("VEFC"), r.below(big), big))
        elif c == 5: self.do("AddF 1 " + " ".join(str(r.below(50)) for _ in range(1 + r.below(5))))
        elif c == 6: self.do("AddC 1 " + " ".join(str(r.below(50)) for _ in range(1 + r.below(7))))
        else: self.do("AddFV " + " ".join(str(r.below(50)) for _ in range(r.below(5))))

    def oriented_patch(self):
        """edges STORED in arbitrary orientation (explicit add_edge, shuffled), faces by halfedges, then topology-checked add_cell on
        closed and open sub-surfaces.  Aims at the sort / adjacent_find / unique logic of the cell check: with walking-order edges
        (add_face from vertices) an unmatched halfedge 2k+1 is never followed by 2k+2 in the sorted list, here it is."""
        r = self.r
        base = self.st().nv
        self.add_vertices(5)
        v = [base + i for i in range(5)]
        kind = r.below(4)
        if kind == 0: cycles = [(v[0], v[1], v[2]), (v[0], v[2], v[3]), (v[0], v[3], v[1]), (v[1], v[3], v[2])]
        elif kind == 1: cycles = [(v[3], v[2], v[1], v[0]), (v[0], v[1], v[4]), (v[1], v[2], v[4]), (v[2], v[3], v[4]), (v[3], v[0], v[4])]
        elif kind == 2: cycles = [(v[0], v[1], v[2], v[3])]
        else: cycles = [(v[0], v[1], v[2], v[3], v[4]), (v[0], v[2], v[1])]
        pairs = []
        for c in cycles:
            for i in range(len(c)):
                a, b = c[i], c[(i + 1) % len(c)]
                if (a, b) not in pairs and (b, a) not in pairs: pairs.append((a, b))
        emap = {}
        alternate = r.chance(1, 2)
        for i, (a, b) in enumerate(pairs if alternate else r.shuffle(pairs)):
            if (i % 2 == 0) if alternate else r.chance(1, 2): a, b = b, a
            e = self.do("@AddE %d %d 0" % (a, b)).result()
            if not isinstance(e, int): return
            emap[(a, b)] = 2 * e; emap[(b, a)] = 2 * e + 1
        hfs = []
        for c in cycles:
            hes = [emap[(c[i], c[(i + 1) % len(c)])] for i in range(len(c))]
            f = self.do("@AddF 1 " + " ".join(map(str, hes))).result()
            if not isinstance(f, int): return
            hfs.append(2 * f)
        for _ in range(2 + r.below(4)):
            sub = r.shuffle(list(hfs))[:1 + r.below(len(hfs))]
            if r.chance(1, 3): sub = [h ^ 1 for h in sub]
            if r.chance(1, 6): sub[0] ^= 1
            if any(h in self.st().used_halffaces() for h in sub) and self.profile != "malformed":
                continue                                            # (a closed sub-surface accepted earlier: stay inside the contract)
            self.do("@AddC 1 " + " ".join(map(str, sub)))          # open (or wrongly oriented) surfaces must be rejected
        if len(hfs) >= 4 and not any(h in self.st().used_halffaces() for h in hfs):
            self.do("@AddC 1 " + " ".join(map(str, r.shuffle(list(hfs)))))

    def checked_adds(self):
        """topology-checked add_face / add_cell on closed, open, repeated, doubled, missing inputs"""
        s = self.st(); r = self.r
        if r.chance(1, 4): return self.oriented_patch()
        if s.live_f() and r.chance(1, 2):
            f = r.pick(s.live_f())
            hes = list(s.halfface(2 * f + r.below(2)))
            m = r.below(6)
            if m == 1 and hes: hes = hes[:-1]
            elif m == 2 and hes: hes = hes + [hes[0]]
            elif m == 3: hes = r.shuffle(hes)
            elif m == 4 and hes: hes[0] ^= 1
            elif m == 5: hes = []
            self.do("@AddF 1 " + " ".join(map(str, hes)))
        elif s.live_c():
            c = r.pick(s.live_c())
            hfs = [h ^ 1 for h in s.C[c]]   # the outside of an existing cell is a closed surface too
            used = s.used_halffaces()
            m = r.below(7)
            if m == 1 and hfs: hfs = hfs[:-1]
            elif m == 2 and hfs: hfs = hfs + [hfs[0]]
            elif m == 3: hfs = r.shuffle(hfs)
            elif m == 4 and hfs: hfs[0] ^= 1
            elif m == 5: hfs = []
            elif m == 6 and len(s.live_c()) > 1:
                c2 = r.pick(s.live_c())
                if c2 != c: hfs = hfs + [h ^ 1 for h in s.C[c2]]    # two closed surfaces
            if any(h in used for h in hfs) and self.profile != "malformed":
                return
            self.do("@AddC 1 " + " ".join(map(str, hfs)))

    # ---------------------------------------------------------------- profiles
    def build(self):
        r = self.r
        n = 1 + r.below(3)
        for _ in range(n):
            c = r.below(10)
            if c == 9: self.pillow()
            elif c == 8: self.doublet()
            elif c == 0: self.fan(2 + r.below(4), closed=True)
            elif c == 1: self.fan(1 + r.below(4), closed=False)
            elif c == 2: self.strip(1 + r.below(4))
            elif c == 3: self.hex_block(1 + r.below(2), 1 + r.below(2))
            elif c == 4: self.touching_cells()
            elif c == 5: self.debris()
            elif c == 6:
                base = self.st().nv; self.add_vertices(4); self.add_tet(base, base + 1, base + 2, base + 3)
            else: self.debris(); self.strip(1 + r.below(2))

    def run_profile(self, nops):
        r = self.r; p = self.profile
        if p == "valid":
            # valid histories: C01/C02/C03/C04/C09/C12/C17
            self.mode()
            if r.chance(1, 2): self.create_props()
            self.build()
            if r.chance(2, 3): self.create_props(1 + r.below(2))
            self.fill_props()
            for _ in range(nops):
                c = r.below(20)
                if c < 7: self.delete_some()
                elif c < 9: self.swap_some()
                elif c < 10: self.readd()
                elif c < 11: self.do("GC")
                elif c < 12: self.status_gc() if self.sgc else self.do("GC")
                elif c < 14: self.toggle()
                elif c == 14: self.build()
                elif c == 15: self.do("EnDef %d" % r.below(2))
                elif c == 16: self.do("EnFast %d" % r.below(2))
                elif c == 17: self.set_props(2)
                elif c == 18: self.checked_adds()
                else:
                    if r.chance(1, 3): self.create_props(1); self.fill_props()
                    elif r.chance(1, 2): self.drop_prop()
                    else: self.do("Clear 0") if r.chance(1, 4) else self.set_props(1)
        elif p == "setops":
            self.mode()
            self.create_props(2)
            self.build(); self.fill_props()
            for _ in range(nops):
                c = r.below(10)
                if c < 4: self.set_something()
                elif c < 6: self.delete_some()
                elif c == 6: self.swap_some()
                elif c == 7: self.do("GC")
                elif c == 8: self.toggle()
                else: self.checked_adds()
        elif p == "malformed":
            self.mode()
            self.create_props(1)
            self.build()
            for _ in range(nops):
                c = r.below(10)
                if c < 5: self.malformed()
                elif c < 7: self.checked_adds()
                elif c == 7: self.delete_some()
                elif c == 8: self.set_something()
                else: self.do("Clear %d" % r.below(2))
        elif p == "recycle":
            # a deferred-deleted entity and a NEW live entity on the same sub-entities coexist until the next collection:
            # the stale slot must neither disturb the live one (caches, closure, swaps) nor be resurrected by it
            self.mode(deferred=1)
            if r.chance(1, 2): self.create_props(2)
            self.build(); self.fill_props()
            for _ in range(nops):
                c = r.below(20)
                if c < 6:
                    self.delete_some("CCFE"); self.readd()
                    if r.chance(1, 2): self.readd()
                    # renumber around the stale/live pair right away (scan and cache-guided swap paths, fast deletions)
                    lr = getattr(self, "last_readded", None)
                    if lr and len(lr) >= 2 and r.chance(1, 2):
                        a, b = r.shuffle(lr)[:2]
                        if a // 2 < len(self.st().F) and b // 2 < len(self.st().F): self.do("@SwapF %d %d" % (a // 2, b // 2))
                    if r.chance(1, 2): self.swap_some()
                    if r.chance(1, 3): self.swap_some()
                elif c < 8: self.do("GC")
                elif c < 9: self.do("EnDef 0"); self.do("EnDef 1")
                elif c < 11: self.swap_some()
                elif c < 13: self.delete_some("VEFC")
                elif c < 15: self.toggle()
                elif c < 16: self.build()
                elif c < 17: self.status_gc() if self.sgc else self.do("GC")
                else: self.readd()
        elif p == "axis":
            # k cells around one interior edge (created in random order), then the axis edge or one of its vertices is deleted,
            # in a random incidence subset / deletion mode: the closure spans several cells per face (C02, C12)
            self.mode()
            if r.chance(1, 2): self.create_props(2)
            for _ in range(1 + r.below(2)):
                base = self.st().nv
                self.fan(3 + r.below(3), closed=r.chance(2, 3))
                if r.chance(1, 3): self.strip(1 + r.below(2))
                self.fill_props()
                s = self.st()
                axis = [e for e in s.live_e() if set(s.E[e]) == {base, base + 1}]
                c = r.below(4)
                if axis and c < 2: self.do("@DelE %d" % axis[0])
                elif c == 2: self.do("@DelV %d" % (base + r.below(2)))
                else: self.delete_some("VEF")
                if r.chance(1, 2): self.do("GC")
                if r.chance(1, 2): self.toggle()
            for _ in range(nops // 3):
                c = r.below(6)
                if c < 3: self.delete_some()
                elif c == 3: self.swap_some()
                elif c == 4: self.do("GC")
                else: self.toggle()
        elif p == "gc":
            # pending deletions, then collect_garbage / leaving deferred mode / StatusAttrib::garbage_collection (C04)
            self.mode(deferred=1)
            self.create_props(2)
            self.build(); self.fill_props()
            for _ in range(nops):
                c = r.below(20)
                if c < 6: self.delete_some("VEEFFC")
                elif c < 7: self.readd()
                elif c < 9: self.do("GC")
                elif c < 14: self.status_gc()
                elif c == 14: self.do("EnDef 0"); self.do("EnDef 1")
                elif c == 15: self.swap_some()
                elif c == 16: self.toggle()
                elif c == 17: self.do("EnFast %d" % r.below(2))
                elif c == 18: self.pillow(); self.fill_props()
                else: self.build(); self.fill_props()
        elif p == "toggles":
            # incidence kinds switched off and on again while deletions are pending / after renumbering (C12, C01)
            self.mode(deferred=1 if r.chance(2, 3) else 0)
            if r.chance(1, 2): self.create_props(2)
            self.build(); self.fill_props()
            for _ in range(nops):
                c = r.below(20)
                if c < 8:
                    k = r.pick(["EnVBU", "EnEBU", "EnFBU"])
                    self.do("%s 0" % k)
                    for _ in range(r.below(3)): self.delete_some("EFCV" if r.chance(3, 4) else "V")
                    if r.chance(1, 3): self.swap_some()
                    self.do("%s 1" % k)
                elif c < 12: self.delete_some("EEFFCV")
                elif c < 13: self.readd()
                elif c < 15: self.swap_some()
                elif c == 15: self.do("GC")
                elif c == 16: self.build()
                elif c == 17: self.do("EnDef %d" % r.below(2))
                else: self.toggle()
        elif p == "swaps":
            self.mode()
            self.create_props(3)
            self.build(); self.fill_props()
            for _ in range(nops):
                c = r.below(10)
                if c < 6: self.swap_some()
                elif c < 8: self.delete_some()
                elif c == 8: self.do("GC")
                else: self.toggle()
        else:
            raise ValueError(p)

def generate(kdriver, seed, count, profiles, nops, out_path, prefix="g"):
    sess = Session(kdriver)
    names = []
    with open(out_path, "w") as out:
        for i in range(count):
            profile = profiles[i % len(profiles)]
            rng = Rng((seed * 1000003 + i) * 0x9E3779B97F4A7C15 + hash_str(profile))
            name = "%s-%d-%d-%s" % (prefix, seed, i, profile)
            sess.begin(name)
            g = Gen(sess, rng, profile)
            try:
                g.run_profile(nops)
            except RuntimeError:
                raise
            out.write("#### %s\n" % name)
            for ln in sess.lines: out.write(ln + "\n")
            names.append(name)
    sess.close()
    return names

def hash_str(s):
    h = 1469598103934665603
    for ch in s.encode():
        h = ((h ^ ch) * 1099511628211) & MASK
    return h

if __name__ == "__main__":
    import argparse
    ap = argparse.ArgumentParser()
    ap.add_argument("--kdriver", default=os.path.join(os.path.dirname(os.path.dirname(os.path.abspath(__file__))), "build/ml/kdriver"))
    ap.add_argument("--seed", type=int, default=int(os.environ.get("VERIF_SEED", "1")))
    ap.add_argument("--count", type=int, default=20)
    ap.add_argument("--nops", type=int, default=25)
    ap.add_argument("--profiles", default="valid,setops,malformed,swaps")
    ap.add_argument("--out", required=True)
    a = ap.parse_args()
    generate(a.kdriver, a.seed, a.count, a.profiles.split(","), a.nops, a.out)
