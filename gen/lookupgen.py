#!/usr/bin/env python3
"""Generator of kernel scripts with lookup-query batches (C10) and fan histories (C09).

Reuses the model-guided fragments of gen/kgen.py (same script language, same SplitMix64 PRNG: one state
per script derived from the seed and the script index; the script text is the replay) and drives the
extracted model through `lookupdriver -i`.  A line "QLookup <seed> <mask>" makes both sides print every
lookup on an exhaustive argument batch of the current state (mask bit 0: C10 groups, bit 1: C09 groups).

Profiles
  fans      k tets around a common edge, closed ring or open chain, attached in a GIVEN order (the caller
            enumerates every order of small k), query; then deletions of cells / faces (every deletion mode),
            incidence toggles, garbage collection, more cells - a query after every step.
  lkvalid   kgen's "valid" histories (fans, strips, hex blocks, touching cells, debris; deletions, swaps,
            garbage collection, incidence toggles) with queries sprinkled in.  No set_* operations.
  lkdegen   duplicate (parallel) edges, 2-gons, loops, faces built on the second of two parallel edges,
            faces sharing two consecutive edges, non-simple faces, deferred-deleted entities.
  lksetops  kgen's "setops" histories with queries (C10 only: set_face/set_cell do not reorder).
All operands in the normal streams are inside the documented contract of the lookups (vertex tuples have at
least 3 entries, halfedge tuples 2; handles are in range); the in-cell forms on cells that are not closed are
printed as QX lines, which are reported but not judged.
"""
import itertools, os, sys
sys.path.insert(0, os.path.dirname(os.path.abspath(__file__)))
import kgen

C10, C09 = 1, 2

class LGen(kgen.Gen):
    def __init__(self, sess, rng, profile, mask, qbudget=8):
        super().__init__(sess, rng, profile)
        self.mask = mask
        self.qbudget = qbudget
        self.auto = False          # sprinkle queries after mutating operations
        self.nq = 0

    def small(self):
        s = self.st()
        return s.nv <= 26 and len(s.E) <= 64 and len(s.F) <= 48

    def query(self, force=False):
        if self.nq >= self.qbudget and not force: return
        m = self.mask if self.small() else (self.mask & C09)
        if m == 0: return
        self.nq += 1
        was, self.auto = self.auto, False
        self.do("QLookup %d %d" % (self.r.below(1 << 20), m))
        self.auto = was

    def do(self, line):
        st = super().do(line)
        if self.auto:
            op = line.split()[0].lstrip("@")
            if op in ("DelV", "DelE", "DelF", "DelC", "GC", "SwapV", "SwapE", "SwapF", "SwapC", "EnEBU", "EnFBU", "EnVBU",
                      "SetE", "SetF", "SetC", "AddC") and self.r.chance(1, 4):
                self.query()
                return self.st()
        return st

    # ------------------------------------------------------------ fans in a given attachment order
    def fan_in_order(self, k, closed, order):
        base = self.st().nv
        self.add_vertices(2 + k + (0 if closed else 1))
        a, b = base, base + 1
        ring = [base + 2 + i for i in range(k + (0 if closed else 1))]
        for i in order:
            p, q = ring[i], ring[(i + 1) % len(ring)]
            self.add_tet(a, b, p, q)
        return a, b, ring

    def run_fans(self, k, closed, order, nops):
        r = self.r
        # every deletion mode; incidences on while building (the order is (re)established by add_cell) in most
        # scripts, recomputed by enable_* in the others
        late = r.chance(1, 4)
        self.mode(bu=(1 if late else 7))
        a, b, ring = self.fan_in_order(k, closed, order)
        if r.chance(1, 2):
            # a bystander tet on fresh vertices as the LAST cell: an immediate fast deletion of a fan cell then swaps the victim with a
            # cell that does not contain the axis edge, so only the victim's own edges tell the kernel which fans to re-sort (seeded C09-r3)
            v0 = self.st().nv
            self.add_vertices(4)
            self.add_tet(v0, v0 + 1, v0 + 2, v0 + 3)
            if not late and r.chance(1, 2):
                self.do("EnDef 0"); self.do("EnFast 1")
                fan_cells = [c for c in self.st().live_c()][:-1]
                if fan_cells: self.do("@DelC %d" % r.pick(fan_cells)); self.query(force=True)
        if r.chance(1, 6): self.self_adjacent_cell()
        if late:
            for ln in r.shuffle(["EnEBU 1", "EnFBU 1"]): self.do(ln)
        self.query(force=True)
        for _ in range(nops):
            s = self.st()
            c = r.below(12)
            if c < 3 and s.live_c(): self.do("@DelC %d" % self.victim(s.live_c()))
            elif c < 6 and s.live_f():
                # prefer the faces around the axis a-b
                axis = [f for f in s.live_f() if any(set(s.E[h // 2]) == {a, b} for h in s.F[f])] if a < s.nv else []
                self.do("@DelF %d" % (r.pick(axis) if axis and r.chance(3, 4) else self.victim(s.live_f())))
            elif c == 6: self.do("GC")
            elif c == 7:
                t = r.pick(["EnEBU", "EnFBU"]); self.do(t + " 0"); self.do(t + " 1")
            elif c == 8: self.do("EnDef %d" % r.below(2)); self.do("EnFast %d" % r.below(2))
            elif c == 9: self.swap_some()
            elif c == 10 and s.live_v():
                # close a gap / add another cell at the axis if the vertices are still there
                lv = s.live_v()
                if len(lv) >= 4:
                    vs = r.shuffle(lv)[:4]
                    if a in lv and b in lv and r.chance(2, 3): vs = [a, b] + [v for v in r.shuffle(lv) if v not in (a, b)][:2]
                    if len(vs) == 4: self.add_tet(*vs)
            else: self.delete_some("EV" if r.chance(1, 3) else "FC")
            self.query()
        self.query(force=True)

    # ------------------------------------------------------------ a cell containing both halffaces of a face
    def self_adjacent_cell(self):
        """a solid torus made of ONE prism whose top and bottom triangle are the same face (the vertical edges are
        loops): the cell contains the triangle and its opposite, and is closed (every halfedge of its halffaces is
        matched exactly once by its opposite in another halfface that is not the opposite halfface)"""
        base = self.st().nv
        self.add_vertices(3)
        a, b, c = base, base + 1, base + 2
        e = [self.do("@AddE %d %d 0" % (x, y)).result() for x, y in ((a, b), (b, c), (c, a))]
        l = [self.do("@AddE %d %d 1" % (x, x)).result() for x in (a, b, c)]
        if not all(isinstance(x, int) for x in e + l): return None
        f = [self.do("@AddF 1 %d %d %d" % (2 * e[0], 2 * e[1], 2 * e[2])).result()]
        for i in range(3):
            j = (i + 1) % 3
            f.append(self.do("@AddF 1 %d %d %d %d" % (2 * e[i], 2 * l[j], 2 * e[i] + 1, 2 * l[i] + 1)).result())
        if not all(isinstance(x, int) for x in f): return None
        hfs = [2 * f[0], 2 * f[0] + 1, 2 * f[1], 2 * f[2], 2 * f[3]]
        return self.do("@AddC 0 " + " ".join(map(str, self.r.shuffle(hfs)))).result()

    # ------------------------------------------------------------ a closed cell on the SECOND of two parallel edges
    def cell_on_parallel_edge(self):
        """a tetrahedron whose edge a-b is the second of two parallel edges a-b: every lookup that goes through
        find_halfedge(a,b) (which answers the FIRST one) instead of the cell's own definition misses it"""
        base = self.st().nv
        self.add_vertices(4)
        a, b, c, d = base, base + 1, base + 2, base + 3
        if self.r.chance(1, 2): a, b = b, a
        self.do("@AddE %d %d 0" % (a, b))
        second = self.do("@AddE %d %d 1" % (a, b)).result()
        if not isinstance(second, int): return None
        E = {(a, b): 2 * second, (b, a): 2 * second + 1}
        for x, y in ((a, c), (a, d), (b, c), (b, d), (c, d)):
            e = self.do("@AddE %d %d 0" % (x, y)).result()
            if not isinstance(e, int): return None
            E[(x, y)] = 2 * e; E[(y, x)] = 2 * e + 1
        hfs = []
        for cyc in ((a, b, c), (a, c, d), (a, d, b), (b, d, c)):
            f = self.do("@AddF 1 " + " ".join(str(E[(cyc[i], cyc[(i + 1) % 3])]) for i in range(3))).result()
            if not isinstance(f, int): return None
            hfs.append(2 * f)
        return self.do("@AddC 1 " + " ".join(map(str, self.r.shuffle(hfs)))).result()

    # ------------------------------------------------------------ degenerate meshes
    def run_degen(self, nops):
        r = self.r
        self.mode(bu=7)
        self.add_vertices(5 + r.below(3))
        lv = self.st().live_v()
        # parallel edges (second one forced), in both directions
        x, y, z, u = lv[0], lv[1], lv[2], lv[3]
        e0 = self.do("@AddE %d %d 0" % (x, y)).result()
        e1 = self.do("@AddE %d %d 1" % (x, y)).result()
        e2 = self.do("@AddE %d %d 1" % (y, x)).result() if r.chance(1, 2) else None
        eyz = self.do("@AddE %d %d 0" % (y, z)).result()
        ezx = self.do("@AddE %d %d 0" % (z, x)).result()
        # a face on the SECOND parallel edge (find_halfedge returns the first one), maybe also one on the first
        self.do("@AddF 1 %d %d %d" % (2 * e1, 2 * eyz, 2 * ezx))
        if r.chance(1, 2): self.do("@AddF 1 %d %d %d" % (2 * e0, 2 * eyz, 2 * ezx))
        if e2 is not None and r.chance(1, 2): self.do("@AddF 1 %d %d %d" % (2 * e2 + 1, 2 * eyz, 2 * ezx))
        self.query(force=True)
        # two faces sharing two consecutive edges (quads x y z u / x y z w)
        w = lv[4]
        self.do("@AddFV %d %d %d %d" % (x, y, z, u))
        self.do("@AddFV %d %d %d %d" % (x, y, z, w))
        # 2-gon, loop, a non-simple face (a vertex visited twice), a doubled halfedge
        self.do("@AddFV %d %d" % (u, w))
        if r.chance(1, 2): self.do("@AddFV %d" % u)
        self.do("@AddFV %d %d %d %d %d %d" % (x, u, w, x, z, y)) if r.chance(1, 2) else None
        if r.chance(1, 2):
            s = self.st()
            f = r.pick(s.live_f())
            if s.F[f]: self.do("@AddF 0 " + " ".join(map(str, s.F[f] + [s.F[f][0]])))
        self.debris()
        if r.chance(1, 2): self.self_adjacent_cell()
        if r.chance(2, 3): self.cell_on_parallel_edge()
        self.query(force=True)
        # a cell nearby, then deferred deletions that leave definitions behind
        base = self.st().nv
        self.add_vertices(4); self.add_tet(base, base + 1, base + 2, base + 3)
        self.do("EnDef 1")
        for _ in range(nops):
            c = r.below(6)
            if c < 3: self.delete_some()
            elif c == 3: self.debris()
            elif c == 4: self.do("GC")
            else: self.do("EnDef %d" % r.below(2))
            self.query()
        self.query(force=True)

    def run_lk(self, nops, fan=None):
        p = self.profile
        if p == "fans":
            k, closed, order = fan
            self.run_fans(k, closed, order, nops)
        elif p == "lkdegen":
            self.run_degen(nops)
        elif p in ("lkvalid", "lksetops"):
            self.profile = "valid" if p == "lkvalid" else "setops"
            self.auto = True
            self.run_profile(nops)
            self.auto = False
            self.profile = p
            self.query(force=True)
        else:
            raise ValueError(p)

def fan_cases(rng, quick):
    """(k, closed, order): every attachment order for small k, a sample for larger k"""
    cases = []
    for k in (1, 2, 3):
        for closed in (True, False):
            if closed and k < 2: continue
            for order in itertools.permutations(range(k)):
                cases.append((k, closed, list(order)))
    for k, cnt in ((4, 24), (5, 10 if quick else 120), (6, 2 if quick else 40)):
        perms = list(itertools.permutations(range(k)))
        for closed in (True, False):
            sel = perms if cnt >= len(perms) else [perms[rng.below(len(perms))] for _ in range(cnt)]
            for order in sel: cases.append((k, closed, list(order)))
    return cases

def generate(driver, seed, count, profiles, nops, out_path, mask, quick=True, prefix="lk"):
    """count = number of scripts per non-fan profile; the fan profile enumerates fan_cases."""
    sess = kgen.Session(driver)
    names = []
    with open(out_path, "w") as out:
        jobs = []
        for profile in profiles:
            if profile == "fans":
                rng0 = kgen.Rng(seed * 7919 + 13)
                for i, fc in enumerate(fan_cases(rng0, quick)): jobs.append((profile, i, fc))
            else:
                for i in range(count): jobs.append((profile, i, None))
        for profile, i, fc in jobs:
            rng = kgen.Rng((seed * 1000003 + i) * 0x9E3779B97F4A7C15 + kgen.hash_str(profile))
            name = "%s-%d-%d-%s" % (prefix, seed, i, profile)
            if fc: name += "-k%d%s-%s" % (fc[0], "c" if fc[1] else "o", "".join(map(str, fc[2])))
            sess.begin(name)
            g = LGen(sess, rng, profile, mask)
            g.run_lk(nops, fc)
            out.write("#### %s\n" % name)
            for ln in sess.lines: out.write(ln + "\n")
            names.append(name)
    sess.close()
    return names

if __name__ == "__main__":
    import argparse
    ap = argparse.ArgumentParser()
    root = os.path.dirname(os.path.dirname(os.path.abspath(__file__)))
    ap.add_argument("--driver", default=os.path.join(root, "build/ml/lookupdriver/lookupdriver"))
    ap.add_argument("--seed", type=int, default=int(os.environ.get("VERIF_SEED", "1")))
    ap.add_argument("--count", type=int, default=10)
    ap.add_argument("--nops", type=int, default=8)
    ap.add_argument("--mask", type=int, default=3)
    ap.add_argument("--profiles", default="fans,lkvalid,lkdegen,lksetops")
    ap.add_argument("--thorough", action="store_true")
    ap.add_argument("--out", required=True)
    a = ap.parse_args()
    generate(a.driver, a.seed, a.count, a.profiles.split(","), a.nops, a.out, a.mask, quick=not a.thorough)
