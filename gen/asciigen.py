#!/usr/bin/env python3
"""Generator of OVM-ASCII (.ovm) cases for the ASCII half of C06 / C07.

ONE SplitMix64 state (gen/kgen.py:Rng) seeded from VERIF_SEED drives every random choice; the case file is the replay.

Streams
  * mesh descriptions (empty mesh, vertices only, no cells, tets, hexes, mixed and degenerate valences, non-manifold
    configurations, properties of every serializable type on every entity kind, deleted-but-not-collected entities)
      -> `write` cases for the real writer (kernel script + pos + prop lines), whose observed mesh block is also what the
         model's write_ascii is run on;
      -> a Python-side rendering of the same description as a structured file (list of tagged lines of tokens);
  * field-aware mutation of the structured file: counts too large / small / negative / non-numeric / huge, valence
    mismatches, handles out of range / negative / huge, missing sections, wrong order, keyword case, truncation at EVERY
    token of small files, non-numeric / overflowing property values, wrong value counts, property header variants (unknown
    type, unknown entity, no quotes, empty name, duplicates, the position property), overlong lines, stray bytes, CRLF,
    comments, blank lines, missing final newline;
  * byte-level noise.
Every read case carries its configuration: mesh=poly|tet|hex check=0|1 bu=0|1 api=stream|path [aslimit=<MB> = run on the
unsanitized build under RLIMIT_AS: declared sizes that cannot be allocated].
"""
import os, struct, sys, binascii
sys.path.insert(0, os.path.dirname(os.path.abspath(__file__)))
from kgen import Rng

KINDS = ["V", "E", "HE", "F", "HF", "C", "M"]          # writer order
ENTITY_KW = {"V": "VProp", "E": "EProp", "HE": "HEProp", "F": "FProp", "HF": "HFProp", "C": "CProp", "M": "MProp"}
SCALAR_TYPES = ["int", "uint", "short", "long", "ulong", "char", "uchar", "bool", "float", "double", "string"]
CONTAINER_TYPES = ["map_heh_int", "vector_double", "vector_vh", "vector_hfh", "vector_vector_hfh"]
VEC_TYPES = ["vec%d%s" % (n, s) for n in (2, 3, 4) for s in ("f", "d", "i", "ui")]
ALL_TYPES = SCALAR_TYPES + CONTAINER_TYPES + VEC_TYPES

def hx(b): return binascii.hexlify(b).decode() or "-"
def dbits(x): return "%016x" % struct.unpack("<Q", struct.pack("<d", x))[0]
def fbits(x): return "%08x" % struct.unpack("<I", struct.pack("<f", x))[0]
def gfmt(x): return "%g" % x

# ------------------------------------------------------------------------------------------------ mesh descriptions

class Desc:
    def __init__(self, name, mesh="poly"):
        self.name, self.mesh = name, mesh
        self.nv = 0; self.E = []; self.F = []; self.C = []
        self.pos = {}            # v -> (x, y, z) python floats
        self.props = []          # (kind, type, name bytes, [python values])
        self.extra_k = []        # extra kernel lines (deletions ...)
    def count(self, kind):
        return {"V": self.nv, "E": len(self.E), "HE": 2 * len(self.E), "F": len(self.F), "HF": 2 * len(self.F),
                "C": len(self.C), "M": 1}[kind]

class Builder:
    def __init__(self, d): self.d = d; self.emap = {}; self.fmap = {}
    def v(self, n=1):
        r = list(range(self.d.nv, self.d.nv + n)); self.d.nv += n; return r
    def he(self, a, b):
        if (a, b) in self.emap: return 2 * self.emap[(a, b)]
        if (b, a) in self.emap: return 2 * self.emap[(b, a)] + 1
        self.emap[(a, b)] = len(self.d.E); self.d.E.append((a, b)); return 2 * self.emap[(a, b)]
    def hf(self, loop):
        n = len(loop); key = tuple(loop)
        for r in range(n):
            k = key[r:] + key[:r]
            if k in self.fmap: return 2 * self.fmap[k]
            kr = tuple(reversed(k))
            for r2 in range(n):
                k2 = kr[r2:] + kr[:r2]
                if k2 in self.fmap: return 2 * self.fmap[k2] + 1
        hes = [self.he(loop[i], loop[(i + 1) % n]) for i in range(n)]
        self.fmap[key] = len(self.d.F); self.d.F.append(hes); return 2 * self.fmap[key]
    def cell(self, loops): self.d.C.append([self.hf(l) for l in loops])
    def tet(self, a, b, c, d): self.cell([(a, b, c), (a, c, d), (a, d, b), (b, d, c)])
    def hexa(self, v):
        # the vertex / halfface order HexahedralMeshTopologyKernel::add_cell(vertices) uses (x-front, x-back, y-front, ...)
        self.cell([(v[3], v[2], v[1], v[0]), (v[7], v[6], v[5], v[4]), (v[1], v[2], v[6], v[7]),
                   (v[4], v[5], v[3], v[0]), (v[1], v[7], v[4], v[0]), (v[2], v[3], v[5], v[6])])

# Numbers in generated files are either small (< 3000) or so large that a container of that many 4-byte elements exceeds
# the 4 GB allocation limit of the model (o_alloc) and of the RLIMIT_AS runs: a shifted parse (a dropped line, a wrong
# count) can turn any value into a count / valence / size, and the mid range would only measure how fast 10^8 iterations are.
NICE = [0.0, 1.0, -1.0, 0.5, 2.5, -3.25, 100.0, 1e-3, 1234.5, 1.5e10, -7.0, 0.1, 3.14159, 1e-300, 1e300, 2048.0]
BIG = 1 << 31

def rand_float(rng):
    if rng.chance(1, 2): return rng.pick(NICE)
    return (rng.below(4001) - 2000) / rng.pick([1.0, 8.0, 1000.0, 3.0])

def rand_pos(rng, d):
    for v in range(d.nv):
        if rng.chance(1, 6): continue
        d.pos[v] = (rand_float(rng), rand_float(rng), rand_float(rng))

def rand_value(rng, ty, d, safe=True):
    """a python value of the ASCII type ty.  safe: values inside the format's limits (no whitespace chars, finite floats)"""
    i32 = [0, 1, -1, 2147483647, -2147483648, 7, 255, 256, 2047]
    def small(): return rng.below(4001) - 2000
    if ty == "int": return rng.pick(i32) if rng.chance(1, 2) else small() if rng.chance(1, 2) else rng.pick([1, -1]) * (BIG - 1 - rng.below(1 << 20))
    if ty == "uint": return rng.pick([0, 1, 4294967295, 2147483648, 9]) if rng.chance(1, 2) else abs(small()) if rng.chance(1, 2) else BIG + rng.below(BIG)
    if ty == "short": return rng.pick([0, 1, -1, 32767, -32768]) if rng.chance(1, 2) else small()
    if ty == "long": return rng.pick([0, -1, (1 << 63) - 1, -(1 << 63), 1 << 40]) if rng.chance(1, 2) else small() if rng.chance(1, 2) else rng.pick([1, -1]) * (BIG + rng.below(1 << 62))
    if ty == "ulong": return rng.pick([0, 1, (1 << 64) - 1, 1 << 63]) if rng.chance(1, 2) else abs(small()) if rng.chance(1, 2) else BIG + rng.below(1 << 63)
    if ty in ("char", "uchar"):
        while True:
            c = rng.pick([65, 48, 122, 33, 126, 35, 34, 58]) if rng.chance(1, 2) else rng.below(256)
            if not safe or c not in (9, 10, 11, 12, 13, 32): return c
    if ty == "bool": return rng.below(2)
    if ty == "float":
        x = rand_float(rng)
        if abs(x) > 1e30 or (x != 0 and abs(x) < 1e-30): x = 1.5
        return struct.unpack("<f", struct.pack("<f", x))[0]
    if ty == "double": return rand_float(rng)
    if ty == "string":
        n = rng.pick([0, 0, 1, 2, 3, 7, 12])
        return bytes(rng.pick([32, 10, 34, 58, 65, 97, 48, 35, 0, 255, 9, 13]) if rng.chance(1, 2) else rng.below(256) for _ in range(n))
    if ty == "map_heh_int":
        return {(rng.below(12) - 1): rng.below(200) - 100 for _ in range(rng.below(4))}
    if ty == "vector_double": return [rand_float(rng) for _ in range(rng.below(4))]
    if ty in ("vector_vh", "vector_hfh"): return [rng.below(20) - 1 for _ in range(rng.below(4))]
    if ty == "vector_vector_hfh": return [[rng.below(20) - 1 for _ in range(rng.below(3))] for _ in range(rng.below(3))]
    n = int(ty[3]); sc = ty[4:]
    return [rand_value(rng, {"f": "float", "d": "double", "i": "int", "ui": "uint"}[sc], d) for _ in range(n)]

def canon(ty, v):
    """canonical value text of harness/run_ascii.cc"""
    if ty in ("int", "uint", "short", "long", "ulong", "char", "uchar", "bool"): return str(v)
    if ty == "float": return fbits(v)
    if ty == "double": return dbits(v)
    if ty == "string": return "s" + binascii.hexlify(v).decode()
    if ty == "map_heh_int": return "{" + ",".join("%d:%d" % (k, v[k]) for k in sorted(v)) + "}"
    if ty == "vector_double": return "[" + ",".join(dbits(x) for x in v) + "]"
    if ty in ("vector_vh", "vector_hfh"): return "[" + ",".join(str(x) for x in v) + "]"
    if ty == "vector_vector_hfh": return "[" + ",".join("[" + ",".join(str(x) for x in l) + "]" for l in v) + "]"
    sc = {"f": "float", "d": "double", "i": "int", "ui": "uint"}[ty[4:]]
    return "(" + ",".join(canon(sc, x) for x in v) + ")"

def value_lines(ty, v):
    """the lines (bytes, without newline) the writer prints for one element (serialize + endl)"""
    if ty in ("int", "uint", "short", "long", "ulong", "bool"): return [str(v).encode()]
    if ty in ("char", "uchar"): return [bytes([v])]
    if ty in ("float", "double"): return [gfmt(v).encode()]
    if ty == "string": return (str(len(v)).encode() + b":" + v).split(b"\n")
    if ty == "map_heh_int":
        out = [str(len(v)).encode()]
        for k in sorted(v): out += [str(k).encode(), str(v[k]).encode()]
        return out + [b""]
    if ty == "vector_double": return [str(len(v)).encode()] + [gfmt(x).encode() for x in v] + [b""]
    if ty in ("vector_vh", "vector_hfh"): return [str(len(v)).encode()] + [str(x).encode() for x in v] + [b""]
    if ty == "vector_vector_hfh":
        out = [str(len(v)).encode()]
        for l in v: out += [str(len(l)).encode()] + [str(x).encode() for x in l] + [b"", ]
        return out + [b""]
    sc = ty[4:]
    return [" ".join(gfmt(x) if sc in ("f", "d") else str(x) for x in v).encode()]

def add_prop(rng, d, kind, ty, name=None, fill=None):
    n = d.count(kind)
    if name is None: name = ("p %s %s" % (kind, ty)).encode()
    d.props.append((kind, ty, name, [rand_value(rng, ty, d) for _ in range(n)]))

def base_meshes(rng, thorough):
    out = []
    d = Desc("empty"); out.append(d)
    d = Desc("verts3"); Builder(d).v(3); out.append(d)
    d = Desc("edges"); b = Builder(d); v = b.v(4); b.he(v[0], v[1]); b.he(v[1], v[2]); b.he(v[2], v[3]); d.E.append((0, 1)); d.E.append((2, 2)); out.append(d)
    d = Desc("tri"); b = Builder(d); v = b.v(3); b.hf((v[0], v[1], v[2])); out.append(d)
    d = Desc("tet1"); b = Builder(d); v = b.v(4); b.tet(*v); out.append(d)
    d = Desc("tet2"); b = Builder(d); v = b.v(5); b.tet(v[0], v[1], v[2], v[3]); b.tet(v[0], v[2], v[1], v[4]); out.append(d)
    d = Desc("tet1_tetmesh", "tet"); b = Builder(d); v = b.v(4); b.tet(*v); out.append(d)
    d = Desc("tet3_tetmesh", "tet"); b = Builder(d); v = b.v(6); b.tet(v[0], v[1], v[2], v[3]); b.tet(v[0], v[2], v[1], v[4]); b.tet(v[1], v[2], v[3], v[5]); out.append(d)
    d = Desc("hex1"); b = Builder(d); v = b.v(8); b.hexa(v); out.append(d)
    d = Desc("hex1_hexmesh", "hex"); b = Builder(d); v = b.v(8); b.hexa(v); out.append(d)
    d = Desc("hex2_hexmesh", "hex"); b = Builder(d); v = b.v(12); b.hexa(v[0:8]); b.hexa([v[4], v[5], v[6], v[7], v[8], v[9], v[10], v[11]]); out.append(d)
    d = Desc("pyr_tet"); b = Builder(d); v = b.v(6)
    b.cell([(v[0], v[3], v[2], v[1]), (v[0], v[1], v[4]), (v[1], v[2], v[4]), (v[2], v[3], v[4]), (v[3], v[0], v[4])])
    b.tet(v[0], v[1], v[4], v[5]); out.append(d)
    d = Desc("prism"); b = Builder(d); v = b.v(8)
    b.cell([(v[0], v[2], v[1]), (v[3], v[4], v[5]), (v[0], v[1], v[4], v[3]), (v[1], v[2], v[5], v[4]), (v[2], v[0], v[3], v[5])])
    b.hf((v[5], v[6], v[7])); out.append(d)
    # degenerate valences: 1-gons, 2-gon, a cell with one halfface, a cell without halffaces (a face without halfedges is
    # outside the kernel's contract and refused by the reader: corpus G)
    d = Desc("degenerate"); b = Builder(d); v = b.v(3)
    e0 = b.he(v[0], v[1]); d.E.append((1, 1)); d.F.append([2]); d.F.append([e0, e0 + 1]); d.F.append([e0]); d.C.append([0]); d.C.append([]); d.C.append([2, 3, 5]); out.append(d)
    # non-manifold: three cells around one face pair, duplicate edges, a cell using both halffaces of a face
    d = Desc("nonmanifold"); b = Builder(d); v = b.v(6)
    b.tet(v[0], v[1], v[2], v[3]); b.tet(v[0], v[2], v[1], v[4]); d.C.append([0, 1, 2, 4]); d.E.append((0, 1)); d.C.append(list(d.C[0])); out.append(d)
    n = 40 if thorough else 10
    for i in range(n):
        d = Desc("rnd%d" % i, rng.pick(["poly", "poly", "tet", "hex"])); b = Builder(d)
        if d.mesh == "tet":
            v = b.v(4 + rng.below(4))
            for _ in range(1 + rng.below(4)):
                q = rng.shuffle(v)[:4]; b.tet(*q)
        elif d.mesh == "hex":
            v = b.v(8); b.hexa(v)
            for _ in range(rng.below(3)):
                w = b.v(4); b.hexa(v[4:8] + w); v = v[4:8] + w
        else:
            v = b.v(3 + rng.below(7))
            for _ in range(rng.below(5)):
                k = rng.pick([3, 3, 4, 5]); q = rng.shuffle(v)[:k]
                if len(q) >= 3: b.hf(tuple(q))
            for _ in range(rng.below(4)):
                if len(d.F) >= 2: d.C.append([rng.below(2 * len(d.F)) for _ in range(2 + rng.below(4))])
            for _ in range(rng.below(3)): d.E.append((rng.pick(v), rng.pick(v)))
        out.append(d)
    for d in out: rand_pos(rng, d)
    return out

def with_props(rng, thorough):
    """meshes carrying properties: every type on every kind over the set, random subsets per mesh"""
    out = []
    combos = [(k, t) for k in KINDS for t in ALL_TYPES]
    combos = rng.shuffle(combos)
    per = 7 if thorough else 14
    i = 0
    while combos:
        chunk, combos = combos[:per], combos[per:]
        shape = rng.pick(["tet2", "prism", "tri", "hex1"])
        d = Desc("props%d_%s" % (i, shape)); b = Builder(d)
        if shape == "tet2": v = b.v(5); b.tet(v[0], v[1], v[2], v[3]); b.tet(v[0], v[2], v[1], v[4])
        elif shape == "prism":
            v = b.v(6); b.cell([(v[0], v[2], v[1]), (v[3], v[4], v[5]), (v[0], v[1], v[4], v[3]), (v[1], v[2], v[5], v[4]), (v[2], v[0], v[3], v[5])])
        elif shape == "tri": v = b.v(3); b.hf((v[0], v[1], v[2]))
        else: v = b.v(8); b.hexa(v)
        rand_pos(rng, d)
        for (k, t) in chunk: add_prop(rng, d, k, t)
        out.append(d); i += 1
    # names with blanks / quotes inside / '#', same name on two kinds and with two types, empty-count kinds
    d = Desc("props_names"); b = Builder(d); v = b.v(3); b.hf((v[0], v[1], v[2]))
    add_prop(rng, d, "V", "int", b"a b"); add_prop(rng, d, "V", "double", b"a b"); add_prop(rng, d, "E", "int", b"a b")
    add_prop(rng, d, "F", "string", b'q"x'); add_prop(rng, d, "M", "int", b"#hash"); add_prop(rng, d, "C", "int", b"nocells")
    add_prop(rng, d, "HF", "bool", b" lead"); add_prop(rng, d, "HE", "char", b"x:y")
    out.append(d)
    d = Desc("props_empty_mesh"); add_prop(rng, d, "V", "int", b"v"); add_prop(rng, d, "M", "vector_double", b"m"); add_prop(rng, d, "C", "vec3d", b"c"); out.append(d)
    return out

def pending_meshes(rng):
    """deleted-but-not-collected entities (known finding D7 when written)"""
    out = []
    d = Desc("pending_isolated_vertex"); b = Builder(d); v = b.v(5); b.tet(v[0], v[1], v[2], v[3]); d.extra_k = ["@DelV 4"]; out.append(d)
    d = Desc("pending_vertex_closure"); b = Builder(d); v = b.v(4); b.tet(*v); d.extra_k = ["@DelV 3"]; out.append(d)
    d = Desc("pending_cell"); b = Builder(d); v = b.v(5); b.tet(v[0], v[1], v[2], v[3]); b.tet(v[0], v[2], v[1], v[4]); d.extra_k = ["@DelC 0"]; out.append(d)
    d = Desc("pending_face"); b = Builder(d); v = b.v(5); b.tet(v[0], v[1], v[2], v[3]); b.tet(v[0], v[2], v[1], v[4]); d.extra_k = ["@DelF 0"]; out.append(d)
    d = Desc("pending_edge_props"); b = Builder(d); v = b.v(4); b.tet(*v); add_prop(rng, d, "E", "int", b"w"); d.extra_k = ["@DelE 5"]; out.append(d)
    d = Desc("pending_then_gc"); b = Builder(d); v = b.v(5); b.tet(v[0], v[1], v[2], v[3]); d.extra_k = ["@DelV 4", "GC"]; out.append(d)
    return out

def limit_meshes():
    """values outside what the text format can carry (known finding ascii-format-limits)"""
    out = []
    d = Desc("limit_char_ws"); Builder(d).v(3); d.props.append(("V", "char", b"c", [65, 32, 66])); out.append(d)
    d = Desc("limit_inf_pos"); Builder(d).v(2); d.pos[0] = (float("inf"), 1.0, float("nan")); out.append(d)
    d = Desc("limit_inf_prop"); Builder(d).v(2); d.props.append(("V", "double", b"d", [float("inf"), 1.0])); out.append(d)
    d = Desc("limit_name_quote"); Builder(d).v(2); d.props.append(("V", "int", b'a"', [1, 2])); out.append(d)
    d = Desc("limit_name_newline"); Builder(d).v(2); d.props.append(("V", "int", b"a\nb", [1, 2])); out.append(d)
    return out

# ------------------------------------------------------------------------------------------------ write cases

def kernel_lines(d):
    k = []
    if d.nv: k.append("AddVs %d" % d.nv)
    for (a, b) in d.E: k.append("@AddE %d %d 1" % (a, b))
    for f in d.F: k.append(("@AddF 0 " + " ".join(map(str, f))) if f else "rawF")
    for c in d.C: k.append(("@AddC 0 " + " ".join(map(str, c))) if c else "rawC")
    return k + list(d.extra_k)

def write_case(cid, d):
    lines = ["case %s mode=write mesh=%s" % (cid, d.mesh)]
    for l in kernel_lines(d): lines.append(l if l.startswith("raw") else "k " + l)
    for v in sorted(d.pos): lines.append("pos %d %s %s %s" % (v, dbits(d.pos[v][0]), dbits(d.pos[v][1]), dbits(d.pos[v][2])))
    for (kind, ty, name, vals) in d.props:
        lines.append("prop %s %s %s %s" % (kind, ty, hx(name), " ".join(canon(ty, v) for v in vals)))
    lines.append("end")
    return "\n".join(lines) + "\n"

# ------------------------------------------------------------------------------------------------ structured files

class Line:
    """one line of a file: tag + tokens (bytes) joined by single blanks; raw overrides"""
    def __init__(self, tag, toks, raw=None): self.tag, self.toks, self.raw = tag, list(toks), raw
    def render(self): return self.raw if self.raw is not None else b" ".join(self.toks)
    def copy(self): return Line(self.tag, self.toks, self.raw)

def structured(d):
    L = [Line("hdr", [b"OVM", b"ASCII"])]
    L += [Line("kw:V", [b"Vertices"]), Line("cnt:V", [str(d.nv).encode()])]
    for v in range(d.nv):
        p = d.pos.get(v, (0.0, 0.0, 0.0)); L.append(Line("v", [gfmt(x).encode() for x in p]))
    L += [Line("kw:E", [b"Edges"]), Line("cnt:E", [str(len(d.E)).encode()])]
    for (a, b) in d.E: L.append(Line("e", [str(a).encode(), str(b).encode()]))
    L += [Line("kw:F", [b"Faces"]), Line("cnt:F", [str(len(d.F)).encode()])]
    for f in d.F: L.append(Line("f", [str(len(f)).encode()] + [str(h).encode() for h in f]))
    L += [Line("kw:C", [b"Polyhedra"]), Line("cnt:C", [str(len(d.C)).encode()])]
    for c in d.C: L.append(Line("c", [str(len(c)).encode()] + [str(h).encode() for h in c]))
    for kind in KINDS:
        for (k, ty, name, vals) in d.props:
            if k != kind: continue
            L.append(Line("ph", [ENTITY_KW[k].encode(), ty.encode(), b'"' + name + b'"']))
            for v in vals:
                for vl in value_lines(ty, v): L.append(Line("pv:" + ty, vl.split(b" ") if ty.startswith("vec") and not ty.startswith("vector") else [vl], raw=vl))
    return L

def render(L, eol=b"\n", final=True):
    b = eol.join(l.render() for l in L)
    return b + (eol if final and L else b"")

def token_ends(data):
    """byte offsets just after every whitespace-delimited token"""
    ends = []; inside = False
    for i, c in enumerate(data):
        ws = c in (9, 10, 11, 12, 13, 32)
        if inside and ws: ends.append(i)
        inside = not ws
    if inside: ends.append(len(data))
    return ends

COUNT_MUT = [b"0", b"-1", b"abc", b"", b"1e3", b"0x10", b"+2", b"007", b"4294967296", b"18446744073709551615", b"18446744073709551616", b"99999999999999999999999"]
HUGE_COUNTS = [b"1099511627776", b"4611686018427387904", b"18446744073709551615", b"-1", b"-2", b"9223372036854775807"]
HANDLE_MUT = [b"-1", b"-2", b"2147483647", b"2147483648", b"4294967295", b"4294967296", b"-4294967295", b"-4294967296", b"x", b"1.5", b"", b"+0", b"00"]
VALUE_MUT = [b"abc", b"", b"-", b"+", b"1e999", b"99999999999999999999", b"-99999999999999999999", b"2", b"1.5", b"0x1f", b"nan", b"inf", b"-inf", b"1e", b"1e+", b".", b"3:ab", b":", b"9999999999:zz"]

class Cases:
    def __init__(self): self.items = []     # (id, header fields dict, bytes, tags)
    def add(self, cid, data, mesh="poly", check=1, bu=1, api="stream", aslimit=None, tags=()):
        if not cid.startswith("corpus:"): cid = "%s#%d" % (cid, len(self.items))      # ids are unique
        self.items.append((cid, dict(mesh=mesh, check=check, bu=bu, api=api, aslimit=aslimit), bytes(data), tuple(tags)))
        return cid
    def text(self, only=None):
        out = []
        for (cid, h, data, tags) in self.items:
            if only is not None and not only(h, tags): continue
            hdr = "case %s mode=read mesh=%s check=%d bu=%d api=%s" % (cid, h["mesh"], h["check"], h["bu"], h["api"])
            if h["aslimit"]: hdr += " aslimit=%d" % h["aslimit"]
            out.append(hdr)
            hexs = hx(data)
            for i in range(0, max(len(hexs), 1), 4000): out.append("hex " + hexs[i:i + 4000])
            out.append("end")
        return "\n".join(out) + "\n"

def rand_cfg(rng, d=None):
    mesh = d.mesh if d is not None and rng.chance(2, 3) else rng.pick(["poly", "tet", "hex"])
    return dict(mesh=mesh, check=rng.below(2), bu=rng.below(2), api="path" if rng.chance(1, 5) else "stream")

def replace_line(L, i, new): M = [l.copy() for l in L]; M[i] = new; return M

def mutate(rng, cases, d, prefix, thorough):
    """field-aware mutations of the structured file of description d"""
    L = structured(d)
    base = render(L)
    def add(name, data, **kw):
        cfg = rand_cfg(rng, d); cfg.update(kw)
        cases.add("%s:%s" % (prefix, name), data, **cfg)
    idx = {t: [i for i, l in enumerate(L) if l.tag == t or l.tag.startswith(t + ":")] for t in ("hdr", "kw", "cnt", "v", "e", "f", "c", "ph", "pv")}
    # the valid file under every configuration (thorough) or a few (quick)
    cfgs = [(m, c, b, a) for m in ("poly", "tet", "hex") for c in (0, 1) for b in (0, 1) for a in ("stream", "path")]
    for (m, c, b, a) in (cfgs if thorough else rng.shuffle(cfgs)[:5] + [(d.mesh, 1, 1, "stream"), (d.mesh, 0, 0, "stream")]):
        cases.add("%s:valid:%s%d%d%s" % (prefix, m, c, b, a[0]), base, mesh=m, check=c, bu=b, api=a, tags=("valid",))
    # layout variants
    add("crlf", render(L, b"\r\n")); add("nofinal", render(L, b"\n", False)); add("tabs", base.replace(b" ", b"\t"))
    add("blanklines", render(L, b"\n\n")); add("trailing_ws", render(L, b"  \t\n")); add("leading_ws", b"\n  " + render(L, b"\n   "))
    M = []
    for l in L: M += [Line("x", [], raw=b"# comment " + l.render()), l]
    add("comments", render(M))
    add("lower", base.replace(b"OVM ASCII", b"ovm ascii").replace(b"Vertices", b"vertices").replace(b"Edges", b"eDGES").replace(b"Polyhedra", b"POLYHEDRA"))
    add("propkw_case", base.replace(b"VProp", b"vprop").replace(b"EProp", b"EPROP").replace(b" int ", b" INT ").replace(b" double ", b" Double "))
    add("nohdr", render(L[1:])); add("hdr_ovm_only", render(replace_line(L, 0, Line("hdr", [b"OVM"]))))
    add("hdr_binary", render(replace_line(L, 0, Line("hdr", [b"OVM", b"BINARY"])))); add("hdr_binary_lc", render(replace_line(L, 0, Line("hdr", [b"ovm", b"binary"]))))
    add("hdr_garbage", render(replace_line(L, 0, Line("hdr", [b"hello", b"world"])))); add("hdr_vertices", render(replace_line(L, 0, Line("hdr", [b"OVM", b"VERTICES"]))))
    add("hdr_three", render(replace_line(L, 0, Line("hdr", [b"OVM", b"ASCII", b"Vertices"]))))
    # counts
    for i in idx["cnt"]:
        n = int(L[i].toks[0]); tag = L[i].tag[4:]
        if n > 2000: continue
        muts = [str(n + 1).encode(), str(max(n - 1, 0)).encode(), str(n + 5).encode(), str(2 * n + 3).encode()] + COUNT_MUT[:4] + (COUNT_MUT[4:] if thorough else [rng.pick(COUNT_MUT[4:9])])
        for m in muts:
            if m in (b"4294967296", b"18446744073709551615", b"18446744073709551616", b"99999999999999999999999"):
                add("cnt%s=%s" % (tag, m.decode()), render(replace_line(L, i, Line(L[i].tag, [m]))), aslimit=4096, api="stream"); continue
            add("cnt%s=%s" % (tag, m.decode() or "empty"), render(replace_line(L, i, Line(L[i].tag, [m]))))
        for m in (HUGE_COUNTS if thorough else [rng.pick(HUGE_COUNTS)]):
            add("cnt%s=huge%s" % (tag, m.decode()), render(replace_line(L, i, Line(L[i].tag, [m]))), aslimit=4096, api="stream")
        add("cnt%s_extra_tokens" % tag, render(replace_line(L, i, Line(L[i].tag, [L[i].toks[0], b"7", b"x"]))))
    # section keywords
    for i in idx["kw"]:
        tag = L[i].tag[3:]
        add("kw%s_missing" % tag, render(L[:i] + L[i + 1:])); add("kw%s_misspelled" % tag, render(replace_line(L, i, Line(L[i].tag, [L[i].toks[0] + b"x"]))))
        add("kw%s_twice" % tag, render(L[:i] + [L[i]] + L[i:])); add("kw%s_with_count" % tag, render(replace_line(L, i, Line(L[i].tag, [L[i].toks[0], b"3"]))))
    if len(idx["kw"]) == 4:
        a, b2, c2, d2 = idx["kw"]
        add("sections_swapped_EF", render(L[:b2] + L[c2:d2] + L[b2:c2] + L[d2:]))
        add("sections_swapped_VE", render(L[:a] + L[b2:c2] + L[a:b2] + L[c2:]))
        add("no_cells_section", render(L[:d2])); add("no_faces_section", render(L[:c2])); add("no_edges_section", render(L[:b2]))
    # entity lines
    for t in ("v", "e", "f", "c"):
        rows = idx[t]
        if not rows: continue
        pick = rows if thorough and len(rows) <= 8 else [rows[0], rows[-1], rng.pick(rows)]
        for i in sorted(set(pick)):
            toks = L[i].toks
            add("%s%d_dropline" % (t, i), render(L[:i] + L[i + 1:])); add("%s%d_dupline" % (t, i), render(L[:i] + [L[i]] + L[i:]))
            add("%s%d_short" % (t, i), render(replace_line(L, i, Line(t, toks[:-1])))); add("%s%d_long" % (t, i), render(replace_line(L, i, Line(t, toks + [b"1"]))))
            if t == "v":
                for m in (b"abc", b"1e999", b"nan", b"", b"1e", b"-", b"0x10", b"1,5"):
                    j = rng.below(len(toks)); nt = list(toks); nt[j] = m
                    add("v%d_val=%s" % (i, m.decode() or "empty"), render(replace_line(L, i, Line(t, nt))))
            else:
                first = 1 if t in ("f", "c") else 0
                limit = {"e": d.nv, "f": 2 * len(d.E), "c": 2 * len(d.F)}[t]
                for m in [str(limit).encode(), str(limit + 1).encode(), str(max(limit - 1, 0)).encode()] + (HANDLE_MUT if thorough else rng.shuffle(HANDLE_MUT)[:5]):
                    if len(toks) <= first: continue
                    j = first + rng.below(len(toks) - first); nt = list(toks); nt[j] = m
                    add("%s%d_h%d=%s" % (t, i, j, m.decode() or "empty"), render(replace_line(L, i, Line(t, nt))))
                if first:
                    n = int(toks[0])
                    for m in [str(n + 1).encode(), str(max(n - 1, 0)).encode(), b"0", b"1000", b"-1", b"x", b"", b"3.0"]:
                        add("%s%d_val=%s" % (t, i, m.decode() or "empty"), render(replace_line(L, i, Line(t, [m] + toks[1:]))))
                    for m in (b"4294967296", b"8589934592", b"4611686018427387904", b"-1"):
                        add("%s%d_val=huge%s" % (t, i, m.decode()), render(replace_line(L, i, Line(t, [m] + toks[1:]))), aslimit=4096, api="stream")
                    sh = rng.shuffle(toks[1:]); add("%s%d_shuffled" % (t, i), render(replace_line(L, i, Line(t, [toks[0]] + sh))))
                    if len(toks) > 2: add("%s%d_dup_handle" % (t, i), render(replace_line(L, i, Line(t, toks[:2] + [toks[1]] + toks[3:]))))
                    add("%s%d_opposite" % (t, i), render(replace_line(L, i, Line(t, [toks[0]] + [str(int(x) ^ 1).encode() for x in toks[1:]]))))
    # properties
    for i in idx["ph"]:
        toks = L[i].toks; ent, ty, name = toks[0], toks[1], b" ".join(toks[2:])
        def ph(new): return render(replace_line(L, i, Line("ph", [], raw=new)))
        add("ph%d_unknown_type" % i, ph(ent + b" quux " + name)); add("ph%d_unknown_ent" % i, ph(b"XProp " + ty + b" " + name))
        add("ph%d_noquotes" % i, ph(ent + b" " + ty + b" name")); add("ph%d_onequote" % i, ph(ent + b" " + ty + b' "'))
        add("ph%d_emptyname" % i, ph(ent + b" " + ty + b' ""')); add("ph%d_onlyent" % i, ph(ent)); add("ph%d_quote_first" % i, ph(b'"' + ent + b" " + ty))
        add("ph%d_unknown_ent_noname" % i, ph(b"XProp " + ty + b' "'))
        add("ph%d_othertype" % i, ph(ent + b" " + rng.pick(ALL_TYPES).encode() + b" " + name)); add("ph%d_otherent" % i, ph(rng.pick(list(ENTITY_KW.values())).encode() + b" " + ty + b" " + name))
        add("ph%d_position" % i, ph(b'VProp vec3d "ovm:position"')); add("ph%d_trailing" % i, ph(ent + b" " + ty + b" " + name + b" tail"))
    for i in (idx["pv"] if thorough or len(idx["pv"]) <= 6 else rng.shuffle(idx["pv"])[:6]):
        for m in (VALUE_MUT if thorough else rng.shuffle(VALUE_MUT)[:6]):
            add("pv%d=%s" % (i, m.decode() or "empty"), render(replace_line(L, i, Line("pv", [], raw=m))))
        add("pv%d_dropline" % i, render(L[:i] + L[i + 1:])); add("pv%d_dupline" % i, render(L[:i] + [L[i]] + L[i:]))
        add("pv%d_hugelen" % i, render(replace_line(L, i, Line("pv", [], raw=b"99999999999999999:abc"))), aslimit=4096, api="stream")
        add("pv%d_hugesize" % i, render(replace_line(L, i, Line("pv", [], raw=b"1152921504606846976"))), aslimit=4096, api="stream")
    if idx["ph"]:
        i = idx["ph"][0]; j = idx["ph"][1] if len(idx["ph"]) > 1 else len(L)
        add("prop_twice", render(L + L[i:j])); add("prop_all_on_one_line", render(L[:i + 1]) + b" ".join(l.render() for l in L[i + 1:j]) + b"\n" + render(L[j:]))
        add("prop_before_cells", render(L[:idx["kw"][3]] + L[i:j] + L[idx["kw"][3]:i] + L[j:]) if len(idx["kw"]) == 4 else base)
    add("trailing_garbage_line", base + b"this is not a property\n"); add("trailing_numbers", base + b"1 2 3\n4\n"); add("trailing_quote_line", base + b'"""\n')
    add("trailing_blank", base + b"\n\n   \n"); add("trailing_comment", base + b"# the end")
    # overlong lines, stray bytes
    add("overlong_comment", render([L[0], Line("x", [], raw=b"#" + b"x" * 70000)] + L[1:])); add("overlong_line", base + b"y" * 70000 + b"\n")
    add("overlong_vertex", render(replace_line(L, idx["v"][0], Line("v", [], raw=b" ".join([b"1"] * 20000)))) if idx["v"] else base)
    for k in range(6 if thorough else 3):
        pos = rng.below(len(base) + 1); stray = rng.pick([b"\x00", b"\xff", b"\x80abc", b"\x0b", b"\x0c", b"\x1a", b"#", b'"', b"\r", b"-", b"e5"])
        add("stray%d" % k, base[:pos] + stray + base[pos:])
    for k in range(6 if thorough else 2):
        pos = rng.below(max(len(base), 1)); b2 = bytearray(base)
        if b2: b2[pos] = rng.below(256)
        add("flip%d" % k, bytes(b2))
        if b2: add("delbyte%d" % k, base[:pos] + base[pos + 1:])
    # truncation at every token (small files) / at sampled tokens
    ends = token_ends(base)
    cut = ends if len(ends) <= (400 if thorough else 60) else [ends[rng.below(len(ends))] for _ in range(60)]
    for e in sorted(set(cut)):
        add("trunc@%d" % e, base[:e]);
        if rng.chance(1, 3): add("trunc@%dnl" % e, base[:e] + b"\n")
    if len(base) <= (300 if thorough else 120):
        for e in range(len(base)): add("cut@%d" % e, base[:e])

def corpus(cases):
    """replays of the defects found with this machinery (all fixed in /repo): they run first and must read `false` / a
    defined mesh without timeout or crash"""
    T = (b"OVM ASCII\nVertices\n4\n0 0 0\n1 0 0\n0 1 0\n0 0 1\nEdges\n6\n0 1\n1 2\n2 0\n0 3\n1 3\n2 3\n"
         b"Faces\n4\n3 0 2 4\n3 0 8 7\n3 2 10 9\n3 4 6 11\nPolyhedra\n1\n4 1 2 4 6\n")
    E = []
    def add(name, data, expect, **kw): E.append((cases.add("corpus:" + name, data, tags=("corpus",), **kw), expect))
    add("tet_valid", T, "true")
    for ty, val in (("int", b"abc"), ("double", b"abc"), ("int", b"99999999999"), ("bool", b"2"), ("string", b"x:abc"), ("double", b"1e999"), ("double", b"inf")):
        add("D4_%s_%s" % (ty, val.decode()), T + b'VProp ' + ty.encode() + b' "x"\n1\n' + val + b"\n2\n3\n", "false")
        add("D4_%s_%s_path" % (ty, val.decode()), T + b'VProp ' + ty.encode() + b' "x"\n1\n' + val + b"\n2\n3\n", "false", api="path", mesh="tet", check=0, bu=0)
    F1 = T.replace(b"3 0 8 7\n", b"3 0 8 6\n")
    add("F1_poly_check", F1, "false"); add("F1_poly_nocheck", F1, "true", check=0)
    F1t = T.replace(b"3 0 8 7\n", b"2 0 8\n")
    add("F1_tet", F1t, "false", mesh="tet", check=0); add("F1_tet_nobu", F1t, "false", mesh="tet", check=0, bu=0)
    add("F1_hex", T.replace(b"3 0 8 7\n", b"2 0 8\n").replace(b"4 1 2 4 6\n", b"6 1 2 4 6 0 3\n"), "false", mesh="hex", check=0)
    add("E_empty_name", T + b'VProp int "\n1\n2\n3\n4\n', "false"); add("E_empty_name_eof", T + b'VProp int "', "true")
    add("Fa_vec3d_short", T + b'VProp vec3d "m"\n1 2 3\n4 5\n', "true"); add("Fa_vec3i_short", T + b'VProp vec3i "m"\n1 2 3\n4 5\n', "true")
    add("Fb_vector_double_short", T + b'VProp vector_double "m"\n1\n2.5\n', "true"); add("Fb_map_short", T + b'VProp map_heh_int "m"\n1\n2\n3\n', "true")
    add("Fb_bool_short", T + b'VProp bool "b"\n1\n', "true"); add("Fb_vvhfh_short", T + b'VProp vector_vector_hfh "m"\n2\n1\n5\n', "true")
    add("G_empty_face", T.replace(b"3 0 8 7\n", b"0\n"), "false", check=0); add("G_empty_face_min", b"OVM ASCII\nVertices\n0\nEdges\n0\nFaces\n1\n0\nPolyhedra\n0\n", "false", check=0)
    add("G_nonnumeric_valence", T.replace(b"3 0 8 7\n", b"x 0 8 7\n"), "false", check=0, api="path"); add("G_empty_face_nobu", T.replace(b"3 0 8 7\n", b"0\n"), "false", check=0, bu=0)
    add("G_empty_cell", T.replace(b"4 1 2 4 6\n", b"0\n"), "true", check=0)
    add("H_map_2e64", T + b'MProp map_heh_int "m"\n18446744073709551615\n', "true"); add("H_map_2e31", T + b'MProp map_heh_int "m"\n2147483648\n1 2\n', "true")
    add("H_map_cut_pair", T + b'MProp map_heh_int "m"\n3\n3\n7\n1\n', "true")
    add("F_ncells_eof", b"OVM ASCII\nVertices\n0\nEdges\n0\nFaces\n0\nPolyhedra\n", "true")
    add("F_ncells_eof_tet", b"OVM ASCII\nVertices\n0\nEdges\n0\nFaces\n0\nPolyhedra\n", "true", mesh="tet", check=0, bu=0, api="path")
    return E

def noise(rng, cases, n):
    alpha = b"0123456789 \n\n  -+.e#\"OVMASCIIVerticesEdgesFacesPolyhedraVProp int\t\r"
    for i in range(n):
        k = rng.pick([0, 1, 3, 10, 40, 200])
        if rng.chance(1, 2): data = bytes(rng.below(256) for _ in range(k))
        else: data = bytes(alpha[rng.below(len(alpha))] for _ in range(k))
        if rng.chance(1, 2): data = b"OVM ASCII\nVertices\n" + data
        cases.add("noise%d" % i, data, **rand_cfg(rng))

def generate(seed, thorough):
    """-> (read Cases incl. corpus, corpus expectations, write case text, descriptions)"""
    rng = Rng(seed)
    cases = Cases()
    expect = corpus(cases)
    descs = base_meshes(rng, thorough) + with_props(rng, thorough)
    for i, d in enumerate(descs):
        small = d.nv <= 6 and len(d.props) <= 3
        mutate(rng, cases, d, "m%d_%s" % (i, d.name), thorough and small)
    noise(rng, cases, 400 if thorough else 60)
    wdescs = descs + pending_meshes(rng) + limit_meshes()
    wtext = "".join(write_case("w%d_%s" % (i, d.name), d) for i, d in enumerate(wdescs))
    return cases, expect, wtext, wdescs

if __name__ == "__main__":
    seed = int(os.environ.get("VERIF_SEED", "1") or "1")
    thorough = len(sys.argv) > 1 and sys.argv[1] == "thorough"
    cases, expect, wtext, wdescs = generate(seed, thorough)
    sys.stdout.write(cases.text()); sys.stdout.write(wtext)
    sys.stderr.write("%d read cases, %d write cases\n" % (len(cases.items), len(wdescs)))
