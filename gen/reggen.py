#!/usr/bin/env python3
"""Deterministic generator of registry / copy scripts for C13 and C14 (harness/run_registry.cc, ocaml/regdriver.ml).

One SplitMix64 state per script, derived from (seed, index, profile); the script text is the replay.
Script language (one operation per line; <m>, <h> are script variables = integers chosen here):
  NewMesh <m> P|T|H        CopyMesh <m_new> <m_src>     Assign <m_dst> <m_src>      DelMesh <m>
  K <m> <kernel-script line of gen/kgen.py, e.g. AddV | AddFV 0 1 2 | DelV 1 | GC | Clear 1>
  Request|CreateShared|CreatePersistent|CreatePrivate <h_new> <m> <kind> <type> <name> <default>
  Get <h_new> <m> <kind> <type> <name>       Exists <m> <kind> <type> <name>
  SetShared|SetPersistent <m> <h> 0|1        SetName <h> <name>
  HCopy|HMove <h_new> <h>     HDrop <h>      HSet <h> <index> <value>      Pos <h_new> <m>
  ClearProps <m> <kind>       ClearAll <m>   NProps|NPers <m> <kind>
Names are tokens: 0 = "", 1 = "ovm:position", k = "n<k>".

Profiles
  registry   the request/create/get/set_shared/set_persistent/set_name state machine on 1-2 meshes with a small
             pool of colliding names over 5 value types and 7 entity kinds, handle copies/moves/drops, clear_*.
  lifetime   EVERY order of {destroy mesh, drop handle a, drop its copy, drop a persistent one, clear_all_props}
             (enumerated, not sampled), followed by reads/writes through whatever survives.
  copy       copies / assignments (same and mixed mesh types, self-assignment, chains), then mutation histories on
             either side (kernel operations, writes through handles, registry operations) and reads through the
             handles the assigned-to mesh had before.
  xmesh      out-of-contract stream: set_shared(false)/set_persistent called on a mesh with a property of ANOTHER
             mesh or of a destroyed mesh, operations on dead variables, out-of-range writes.  Correspondence only.

What the normal streams deliberately avoid:
  * set_name on a property that may be shared (KNOWN finding D10; corpus/registry/known-findings.scripts replays it):
    afterwards the result of lookups depends on std::set<pointer> order (not reproducible),
  * making a Vec3d vertex property OTHER than the mesh's own position property persistent: a user-made persistent
    "ovm:position" next to an anonymised position property is overwritten with the positions by copy construction
    (corner excluded by the hypothesis pos_key_own of C13_copy_equal).
"""
import itertools, os, sys

MASK = (1 << 64) - 1

class Rng:
    def __init__(self, seed):
        self.s = seed & MASK
    def next(self):
        self.s = (self.s + 0x9E3779B97F4A7C15) & MASK
        z = self.s
        z = ((z ^ (z >> 30)) * 0xBF58476D1CE4E5B9) & MASK
        z = ((z ^ (z >> 27)) * 0x94D049BB133111EB) & MASK
        return z ^ (z >> 31)
    def below(self, n): return self.next() % n if n > 0 else 0
    def chance(self, num, den): return self.below(den) < num
    def pick(self, l): return l[self.below(len(l))]
    def weighted(self, pairs):
        tot = sum(w for _, w in pairs)
        x = self.below(tot)
        for v, w in pairs:
            if x < w: return v
            x -= w
        return pairs[-1][0]

KINDS = ["V", "E", "HE", "F", "HF", "C", "M"]
TYPES = ["int", "bool", "double", "string", "vec3d"]

class Script:
    """script text + a conservative shadow of what the generator may rely on"""
    def __init__(self, rng):
        self.r = rng
        self.lines = []
        self.nm = 0; self.nh = 0
        self.mesh_alive = {}      # var -> type
        self.h = {}               # var -> dict(sid, certain)   (only handles that may be alive)
        self.st = {}              # shadow storage id -> dict(private_certain, vec_v, mesh)
        self.nsid = 0
    # ---- variables
    def new_m(self): v = self.nm; self.nm += 1; return v
    def new_h(self): v = self.nh; self.nh += 1; return v
    def emit(self, *a): self.lines.append(" ".join(str(x) for x in a))
    def live_meshes(self): return sorted(self.mesh_alive)
    def live_handles(self): return sorted(self.h)
    def val(self, ty):
        v = self.r.below(90) + 1
        return v % 2 if ty == "bool" else v
    def new_sid(self, private_certain, kind, ty, mesh, own_pos=False):
        s = self.nsid; self.nsid += 1
        self.st[s] = {"private_certain": private_certain, "vec_v": (kind == "V" and ty == "vec3d"), "mesh": mesh, "own_pos": own_pos}
        return s
    def all_private(self, m, kind=None):
        for s in self.st.values():
            if s["mesh"] == m: s["private_certain"] = True     # clear_props / assignment anonymise everything still tracked
    # ---- operations (each keeps the shadow conservative)
    def newmesh(self, ty="P"):
        m = self.new_m(); self.emit("NewMesh", m, ty); self.mesh_alive[m] = ty; return m
    def copymesh(self, src):
        m = self.new_m(); self.emit("CopyMesh", m, src)
        if src in self.mesh_alive: self.mesh_alive[m] = self.mesh_alive[src]
        return m
    def assign(self, d, s):
        self.emit("Assign", d, s)
        if d in self.mesh_alive and s in self.mesh_alive and d != s: self.all_private(d)
    def delmesh(self, m):
        self.emit("DelMesh", m); self.mesh_alive.pop(m, None)
    def k(self, m, *a): self.emit("K", m, *a)
    def create(self, op, m, kind, ty, name, d):
        h = self.new_h(); self.emit(op, h, m, kind, ty, name, d)
        if m in self.mesh_alive:
            if op == "CreatePrivate" or (op == "Request" and name == 0):
                self.h[h] = {"sid": self.new_sid(True, kind, ty, m), "certain": True}
            elif op == "Request":
                self.h[h] = {"sid": self.new_sid(False, kind, ty, m), "certain": True}
            else:
                self.h[h] = {"sid": self.new_sid(False, kind, ty, m), "certain": False}
        return h
    def get(self, m, kind, ty, name):
        h = self.new_h(); self.emit("Get", h, m, kind, ty, name)
        if m in self.mesh_alive: self.h[h] = {"sid": self.new_sid(False, kind, ty, m), "certain": False}
        return h
    def pos(self, m):
        h = self.new_h(); self.emit("Pos", h, m)
        if m in self.mesh_alive: self.h[h] = {"sid": self.new_sid(False, "V", "vec3d", m, own_pos=True), "certain": True}
        return h
    def hcopy(self, src, move=False):
        h = self.new_h(); self.emit("HMove" if move else "HCopy", h, src)
        if src in self.h:
            self.h[h] = dict(self.h[src])
            if move: del self.h[src]
        return h
    def hdrop(self, h): self.emit("HDrop", h); self.h.pop(h, None)
    def setshared(self, m, h, b):
        self.emit("SetShared", m, h, b)
        if h in self.h:
            s = self.st[self.h[h]["sid"]]
            if b:
                # any alias of this storage (a second shadow id obtained through Request/Get) may be shared now
                for x in self.st.values():
                    if x["mesh"] == s["mesh"]: x["private_certain"] = False
            elif m in self.mesh_alive and self.h[h]["certain"]: s["private_certain"] = True
    def setpersistent(self, m, h, b): self.emit("SetPersistent", m, h, b)
    def may_set_name(self, h):
        return h in self.h and self.h[h]["certain"] and self.st[self.h[h]["sid"]]["private_certain"]
    def may_persist(self, h):
        # a mesh's OWN position property (handle obtained through vertex_positions()) may be made persistent: copies then
        # find the clone in make_prop().  Any other Vec3d vertex property may not: a user-made persistent "ovm:position"
        # next to an anonymised position property is the corner excluded by CopyProofs.pos_key_own.
        st = self.st[self.h[h]["sid"]] if h in self.h else None
        return st is not None and (not st["vec_v"] or st["own_pos"])
    def clearprops(self, m, kind):
        self.emit("ClearProps", m, kind)
        # only that kind becomes private for sure; the shadow does not track kinds per storage id -> leave as is
    def clearall(self, m):
        self.emit("ClearAll", m)
        if m in self.mesh_alive: self.all_private(m)

# ------------------------------------------------------------------------------------ building blocks

def build_topology(s, m, size):
    """a small mesh through the real kernel: vertices, a few faces, maybe a cell, maybe pending deletions"""
    r = s.r
    nv = 3 + r.below(size + 1)
    if r.chance(1, 3): s.k(m, "AddVs", nv)
    else:
        for _ in range(nv): s.k(m, "AddV")
    ty = s.mesh_alive.get(m, "P")
    if ty == "P":
        nf = r.below(4)
        for _ in range(nf):
            a = r.below(nv); s.k(m, "AddFV", a, a + 1, a + 2)
        if nf >= 2 and r.chance(1, 2):
            s.k(m, "AddC", 0, *[2 * i + r.below(2) for i in range(nf)])
    else:
        for _ in range(r.below(4)): s.k(m, "AddE", r.below(nv), r.below(nv), 1)
    if r.chance(1, 3): s.k(m, "DelV", r.below(nv))     # a pending (deferred) deletion
    if r.chance(1, 6): s.k(m, "EnDef", 0)

def kernel_mutation(s, m):
    r = s.r
    ty = s.mesh_alive.get(m, "P")
    ops = [("AddV", 6), ("AddE", 3), ("DelV", 3), ("DelE", 2), ("GC", 2), ("SwapV", 2), ("Clear0", 1), ("Clear1", 1), ("AddVs", 1), ("EnDef", 1)]
    # no AddC here: a halfface in two live cells is outside the kernel's contract (the only cell comes from build_topology)
    if ty == "P": ops += [("AddFV", 3), ("DelF", 1), ("DelC", 1)]
    o = r.weighted(ops)
    if o == "AddV": s.k(m, "AddV")
    elif o == "AddVs": s.k(m, "AddVs", 1 + r.below(3))
    elif o == "AddE": s.k(m, "AddE", r.below(8), r.below(8), 1)
    elif o == "AddFV": a = r.below(8); s.k(m, "AddFV", a, a + 1, a + 2)
    elif o in ("DelV", "DelE", "DelF", "DelC"): s.k(m, o, r.below(8))
    elif o == "GC": s.k(m, "GC")
    elif o == "SwapV": s.k(m, "SwapV", r.below(8), r.below(8))
    elif o == "EnDef": s.k(m, "EnDef", r.below(2))
    elif o == "Clear0": s.k(m, "Clear", 0)
    else:
        s.k(m, "Clear", 1); s.all_private(m)

NAMES = [2, 2, 2, 3, 3, 4]

def rand_key(s, few_kinds=True):
    r = s.r
    kind = r.pick(["V", "V", "V", "E", "M"]) if few_kinds else r.pick(KINDS)
    ty = r.pick(["int", "int", "bool", "double", "string"]) if r.chance(9, 10) else "vec3d"
    name = r.pick(NAMES)
    if ty == "vec3d" and kind == "V" and r.chance(1, 2): name = 1      # collides with the position property
    return kind, ty, name

def registry_op(s, few_kinds=True):
    """one operation of the registry state machine, aimed at the case splits of the proofs:
    find hit / miss, type or kind mismatch with the same name, empty name, flag already set, throwing transitions"""
    r = s.r
    ms = s.live_meshes()
    if not ms: s.newmesh(); return
    m = r.pick(ms)
    hs = s.live_handles()
    o = r.weighted([("Request", 10), ("CreateShared", 6), ("CreatePersistent", 6), ("CreatePrivate", 5), ("Get", 5), ("Exists", 2),
                    ("SetShared", 10), ("SetPersistent", 10), ("SetName", 6), ("HCopy", 4), ("HMove", 2), ("HDrop", 8), ("HSet", 8),
                    ("ClearProps", 2), ("ClearAll", 1), ("NProps", 1), ("NPers", 1), ("Pos", 1), ("K", 5)])
    kind, ty, name = rand_key(s, few_kinds)
    if o == "Request":
        s.create("Request", m, kind, ty, 0 if r.chance(1, 6) else name, s.val(ty))
    elif o == "CreateShared":
        s.create("CreateShared", m, kind, ty, name, s.val(ty))
    elif o == "CreatePersistent":
        if kind == "V" and ty == "vec3d": ty = "double"
        s.create("CreatePersistent", m, kind, ty, name, s.val(ty))
    elif o == "CreatePrivate":
        s.create("CreatePrivate", m, kind, ty, r.pick([0, 0, name]), s.val(ty))
    elif o == "Get": s.get(m, kind, ty, r.pick([name, name, 0]))
    elif o == "Exists": s.emit("Exists", m, kind, ty, r.pick([name, name, 0, 1]))
    elif o in ("SetShared", "SetPersistent", "SetName", "HCopy", "HMove", "HDrop", "HSet"):
        if not hs: s.create("Request", m, kind, ty, name, s.val(ty)); return
        h = r.pick(hs)
        hm = s.st[s.h[h]["sid"]]["mesh"]
        if o == "SetShared": s.setshared(hm, h, r.below(2))
        elif o == "SetPersistent":
            b = r.below(2)
            if b and not s.may_persist(h): b = 0
            s.setpersistent(hm, h, b)
        elif o == "SetName":
            if s.may_set_name(h): s.emit("SetName", h, r.pick([0, 2, 3, 4, 5]))
            else: s.setshared(hm, h, 0)
        elif o == "HCopy": s.hcopy(h)
        elif o == "HMove": s.hcopy(h, move=True)
        elif o == "HDrop": s.hdrop(h)
        else: s.emit("HSet", h, r.below(5), s.val("int") % 2 if False else r.below(2) if r.chance(1, 3) else s.val("int"))
    elif o == "ClearProps": s.clearprops(m, kind)
    elif o == "ClearAll": s.clearall(m)
    elif o == "NProps": s.emit("NProps", m, kind)
    elif o == "NPers": s.emit("NPers", m, kind)
    elif o == "Pos": s.pos(m)
    else: kernel_mutation(s, m)

def hset_all(s, value_base):
    """write through every handle that may be alive (reads happen in the dump)"""
    for i, h in enumerate(s.live_handles()):
        s.emit("HSet", h, i % 3, value_base + i)

# ------------------------------------------------------------------------------------ profiles

def gen_registry(r, nops):
    s = Script(r)
    m = s.newmesh(r.pick(["P", "P", "T", "H"]))
    if r.chance(2, 3): build_topology(s, m, 3)
    if r.chance(1, 3): s.newmesh("P")
    few = r.chance(3, 4)
    for _ in range(nops): registry_op(s, few)
    return s.lines

LIFETIME_ACTORS = ["mesh", "ha", "hb", "hp", "clear"]
def lifetime_orders():
    return list(itertools.permutations(LIFETIME_ACTORS))

def gen_lifetime(r, order):
    """one mesh, a shared property with two handles (ha, hb = copy), a persistent property with a handle hp, a private
    property, the position handle; then the five events in the given order, writing through every survivor between events"""
    s = Script(r)
    ty = r.pick(["P", "T", "H"])
    m = s.newmesh(ty)
    build_topology(s, m, 2)
    kind = r.pick(["V", "V", "E", "M"])
    t = r.pick(["int", "bool", "double", "string"])
    ha = s.create(r.pick(["Request", "CreateShared"]), m, kind, t, 2, s.val(t))
    hb = s.hcopy(ha)
    hp = s.create("CreatePersistent", m, kind, r.pick(["int", "string"]), 3, 7)
    s.create("CreatePersistent", m, "V", "int", 4, 1)         # persistent, no handle kept
    s.hdrop(s.nh - 1)
    hq = s.create("CreatePrivate", m, kind, t, 0, s.val(t))
    hpos = s.pos(m)
    other = s.newmesh("P") if r.chance(1, 2) else None
    step = 0
    for a in order:
        step += 1
        if a == "mesh": s.delmesh(m)
        elif a == "ha": s.hdrop(ha)
        elif a == "hb": s.hdrop(hb)
        elif a == "hp": s.hdrop(hp)
        else: s.clearall(m)
        hset_all(s, 100 * step)
        if m in s.mesh_alive and r.chance(1, 2): s.k(m, "AddV")
        if m in s.mesh_alive and r.chance(1, 3): s.get(m, kind, t, 2)
        if m not in s.mesh_alive and other is not None and r.chance(1, 2):
            # a detached handle offered to another mesh's queries must not be found there
            s.emit("Exists", other, kind, t, 2)
    s.hdrop(hq)
    if r.chance(1, 2): s.hdrop(hpos)
    return s.lines

def gen_copy(r, nops):
    s = Script(r)
    ta = r.pick(["P", "P", "P", "T", "H"])
    a = s.newmesh(ta)
    build_topology(s, a, 3)
    # a mix of shared / private / persistent properties, some with handles kept by the caller
    for _ in range(2 + r.below(4)):
        kind, ty, name = rand_key(s)
        op = r.pick(["Request", "CreateShared", "CreatePersistent", "CreatePersistent", "CreatePrivate"])
        if op == "CreatePersistent" and kind == "V" and ty == "vec3d": ty = "int"
        h = s.create(op, a, kind, ty, name, s.val(ty))
        if r.chance(1, 2): s.emit("HSet", h, r.below(3), s.val(ty))
        if r.chance(1, 4): s.hdrop(h)
    pa = s.pos(a)
    for i in range(3): s.emit("HSet", pa, i, 10 + i + r.below(50))
    if r.chance(1, 4): s.setpersistent(a, pa, 1)     # persistent position property: make_prop() finds the clone
    # the other side
    mode = r.weighted([("copy", 4), ("assign_fresh", 3), ("assign_used", 5), ("self", 1), ("chain", 2)])
    if mode == "copy":
        b = s.copymesh(a)
    elif mode == "assign_fresh":
        b = s.newmesh(r.pick(["P", "T", "H"])); s.assign(b, a)
    elif mode == "self":
        s.assign(a, a); b = s.copymesh(a)
    elif mode == "chain":
        b = s.copymesh(a); c = s.newmesh(r.pick(["P", "T", "H"])); s.assign(c, b); s.assign(a, c); b = c
    else:
        b = s.newmesh(r.pick(["P", "P", "T", "H"]))
        build_topology(s, b, 2)
        olds = []
        for _ in range(1 + r.below(4)):
            kind, ty, name = rand_key(s)
            op = r.pick(["Request", "CreateShared", "CreatePersistent", "CreatePrivate"])
            if op == "CreatePersistent" and kind == "V" and ty == "vec3d": ty = "int"
            olds.append(s.create(op, b, kind, ty, name, s.val(ty)))
        if r.chance(1, 2): olds.append(s.pos(b))
        s.assign(b, a)
        # old handles of the assigned-to mesh: stay valid, resized, not findable
        for h in olds:
            s.emit("HSet", h, r.below(3), 500 + r.below(9))
        kind, ty, name = rand_key(s)
        s.get(b, kind, ty, name)
        if olds and r.chance(1, 2): s.setshared(b, r.pick(olds), 1)
    # mutation histories on either side, reads through every handle in every dump
    for _ in range(nops):
        side = r.pick([a, b])
        if side not in s.mesh_alive: side = r.pick(s.live_meshes()) if s.live_meshes() else s.newmesh()
        c = r.below(10)
        if c < 4: kernel_mutation(s, side)
        elif c < 6:
            hs = s.live_handles()
            if hs: s.emit("HSet", r.pick(hs), r.below(4), 900 + r.below(90))
        elif c < 8: registry_op(s)
        elif c == 8:
            x = r.below(4)
            if x == 0: s.copymesh(side)
            elif x == 1 and len(s.live_meshes()) >= 2:
                d, e = r.pick(s.live_meshes()), r.pick(s.live_meshes()); s.assign(d, e)
            elif x == 2 and len(s.live_meshes()) > 1: s.delmesh(side)
            else: s.pos(side)
        else:
            h = s.pos(side); s.emit("HSet", h, r.below(3), 700 + r.below(90))
    return s.lines

def gen_xmesh(r, nops):
    """out-of-contract: a property handle of one mesh (or of a destroyed mesh) passed to set_persistent /
    set_shared(false) of another mesh; dead variables; bad indices"""
    s = Script(r)
    a = s.newmesh("P"); b = s.newmesh(r.pick(["P", "T"]))
    build_topology(s, a, 2)
    hs = []
    for m in (a, b):
        for _ in range(2):
            kind, ty, name = rand_key(s)
            if kind == "V" and ty == "vec3d": ty = "int"
            hs.append((m, s.create(r.pick(["Request", "CreatePersistent", "CreatePrivate"]), m, kind, ty, name, s.val(ty))))
    for _ in range(nops):
        c = r.below(12)
        m, h = r.pick(hs)
        other = b if m == a else a
        if c < 3: s.setpersistent(other, h, r.below(2))
        elif c < 5: s.setshared(other, h, 0)
        elif c == 5: s.emit("HSet", h, 50 + r.below(9), 1)                 # out of range
        elif c == 6: s.emit("SetPersistent", 77, h, 1)                      # no such mesh
        elif c == 7: s.emit("HSet", 99, 0, 1)                               # no such handle
        elif c == 8 and len(s.live_meshes()) > 1: s.delmesh(r.pick([a, b]))
        elif c == 9: s.copymesh(r.pick([a, b]))
        elif c == 10: s.emit("HDrop", h); s.emit("HSet", h, 0, 3)           # use after drop: rejected by the interpreter
        else: s.emit("K", r.pick([a, b]), "@DelV", 40)
    return s.lines

PROFILES = ["registry", "lifetime", "copy", "xmesh"]

def generate(seed, count, profiles, nops, out, prefix="g"):
    """count scripts per profile (lifetime: the 120 orders are enumerated round-robin, starting at an offset derived
    from the seed, so that `thorough` covers every order several times)"""
    orders = lifetime_orders()
    with open(out, "w") as f:
        for prof in profiles:
            for i in range(count):
                r = Rng((seed * 0x9E3779B1 + i * 7919 + PROFILES.index(prof) * 104729) & MASK)
                r.next()
                if prof == "registry": lines = gen_registry(r, nops)
                elif prof == "lifetime": lines = gen_lifetime(r, orders[(seed * 31 + i) % len(orders)])
                elif prof == "copy": lines = gen_copy(r, nops)
                else: lines = gen_xmesh(r, nops)
                f.write("#### %s-%d-%d-%s\n" % (prefix, seed, i, prof))
                for l in lines: f.write(l + "\n")
    return out

if __name__ == "__main__":
    import argparse
    ap = argparse.ArgumentParser()
    ap.add_argument("--seed", type=int, default=int(os.environ.get("VERIF_SEED", "1") or "1"))
    ap.add_argument("--count", type=int, default=10)
    ap.add_argument("--nops", type=int, default=30)
    ap.add_argument("--profiles", default=",".join(PROFILES))
    ap.add_argument("--out", required=True)
    a = ap.parse_args()
    generate(a.seed, a.count, a.profiles.split(","), a.nops, a.out)
