#!/usr/bin/env python3
"""Generator of OVMB (binary format) cases for C06 / C07 / C18.

ONE SplitMix64 state (gen/kgen.py:Rng) seeded from VERIF_SEED drives every random choice; the case file is the replay.

Streams:
  * mesh descriptions (empty mesh, vertices only, no cells, tets, hexes, mixed valence, degenerate valences, counts around
    255/256, properties of every OVMB type on every entity kind) -> `write` cases (kernel script + pos + prop lines) for the real
    writer, and the same description in the text form the model's `encode` reads;
  * a Python-side file AST (header fields + chunks with their sub-header fields) built from a description the way the writer
    lays a file out, serialised to bytes;
  * permitted re-encodings of the AST (spans split, wider integers, float positions, handle offsets, variable valence,
    optional skippable chunks, chunk interleavings);
  * field-aware mutation: every header / chunk-header / sub-header numeric field x a boundary-value set, chunk
    drop / duplicate / reorder / split, EVERY truncation length of small files, byte noise, stream faults.
"""
import copy, os, struct, sys
sys.path.insert(0, os.path.dirname(os.path.abspath(__file__)))
from kgen import Rng

MAGIC = b"OVMB\n\r\n\xff"
TYPE_SIZES = {"b": 1, "u8": 1, "i8": 1, "u16": 2, "i16": 2, "u32": 4, "i32": 4, "f": 4, "u64": 8, "i64": 8, "d": 8,
              "vh": 4, "eh": 4, "heh": 4, "fh": 4, "hfh": 4, "ch": 4,
              "2d": 16, "3d": 24, "4d": 32, "2f": 8, "3f": 12, "4f": 16,
              "2u32": 8, "3u32": 12, "4u32": 16, "2i32": 8, "3i32": 12, "4i32": 16, "s32": None}
ALL_TYPES = list(TYPE_SIZES)
KINDS = ["V", "E", "HE", "F", "HF", "C", "M"]                 # writer order (for_each_entity)
KIND_CODE = {"V": 0, "E": 1, "F": 2, "C": 3, "HE": 4, "HF": 5, "M": 6}   # OVMB PropertyEntity

def dbl(x): return struct.pack("<d", x)

# --------------------------------------------------------------------------------------------- mesh descriptions

class Desc:
    def __init__(self, name, mesh="poly"):
        self.name, self.mesh = name, mesh
        self.nv = 0; self.E = []; self.F = []; self.C = []
        self.pos = {}            # v -> (8 bytes, 8 bytes, 8 bytes)
        self.props = []          # (kind, type, name bytes, default bytes, [value bytes])
        self.extra_k = []        # extra kernel lines (deletions ...)
        self.topo = "auto"
    def count(self, kind):
        return {"V": self.nv, "E": len(self.E), "HE": 2 * len(self.E), "F": len(self.F), "HF": 2 * len(self.F),
                "C": len(self.C), "M": 1}[kind]
    def file_topo(self):
        if self.topo != "auto": return self.topo
        if self.mesh != "poly": return self.mesh
        if self.C and all(len(f) == 3 for f in self.F) and all(len(c) == 4 for c in self.C): return "tet"
        if self.C and all(len(f) == 4 for f in self.F) and all(len(c) == 6 for c in self.C): return "hex"
        return "poly"

class Builder:
    """vertex-loop based construction (edges/faces de-duplicated), producing handle-level definitions"""
    def __init__(self, d): self.d = d; self.emap = {}; self.fmap = {}
    def v(self, n=1):
        r = list(range(self.d.nv, self.d.nv + n)); self.d.nv += n; return r
    def he(self, a, b):
        if (a, b) in self.emap: return 2 * self.emap[(a, b)]
        if (b, a) in self.emap: return 2 * self.emap[(b, a)] + 1
        self.emap[(a, b)] = len(self.d.E); self.d.E.append((a, b)); return 2 * self.emap[(a, b)]
    def hf(self, loop):
        n = len(loop)
        key = tuple(loop)
        for r in range(n):
            k = key[r:] + key[:r]
            if k in self.fmap: return 2 * self.fmap[k]
            kr = tuple(reversed(k))
            if kr in self.fmap: return 2 * self.fmap[kr] + 1
        hes = [self.he(loop[i], loop[(i + 1) % n]) for i in range(n)]
        self.fmap[key] = len(self.d.F); self.d.F.append(hes); return 2 * self.fmap[key]
    def cell(self, loops):
        self.d.C.append([self.hf(l) for l in loops])
    def tet(self, a, b, c, d):
        self.cell([(a, b, c), (a, c, d), (a, d, b), (b, d, c)])
    def hexa(self, v):
        self.cell([(v[3], v[2], v[1], v[0]), (v[7], v[6], v[5], v[4]), (v[1], v[2], v[6], v[7]),
                   (v[4], v[5], v[3], v[0]), (v[1], v[7], v[4], v[0]), (v[2], v[3], v[5], v[6])])

def rand_pos(rng, d):
    specials = [0x0000000000000000, 0x8000000000000000, 0x3ff0000000000000, 0x7ff0000000000000, 0xfff0000000000000,
                0x7ff8000000000001, 0x7ff0000000000001, 0x0000000000000001, 0x7fefffffffffffff, 0x400921fb54442d18]
    for v in range(d.nv):
        if rng.chance(1, 5): continue
        d.pos[v] = tuple(struct.pack("<Q", rng.pick(specials) if rng.chance(1, 3) else rng.next()) for _ in range(3))

def rand_value(rng, ty):
    if ty == "b": return bytes([rng.below(2)])
    if ty == "s32":
        n = rng.pick([0, 0, 1, 2, 3, 7, 8, 9, 31])
        return bytes(rng.below(256) for _ in range(n))
    n = TYPE_SIZES[ty]
    if rng.chance(1, 4): return bytes([rng.pick([0, 0xff, 0x7f, 0x80])] * n)
    return bytes(rng.below(256) for _ in range(n))

def add_prop(rng, d, kind, ty, name=None, fill=None):
    n = d.count(kind)
    if name is None: name = ("p_%s_%s" % (kind, ty)).encode()
    k = n if fill is None else min(n, fill)
    d.props.append((kind, ty, name, rand_value(rng, ty), [rand_value(rng, ty) for _ in range(k)]))

def base_meshes(rng, thorough):
    out = []
    d = Desc("empty"); out.append(d)
    d = Desc("verts3"); Builder(d).v(3); out.append(d)
    d = Desc("edges"); b = Builder(d); v = b.v(4); b.he(v[0], v[1]); b.he(v[1], v[2]); b.he(v[2], v[3]); d.E.append((0, 1)); d.E.append((2, 2)); out.append(d)
    d = Desc("tri"); b = Builder(d); v = b.v(3); b.hf((v[0], v[1], v[2])); out.append(d)
    d = Desc("tet1"); b = Builder(d); v = b.v(4); b.tet(*v); out.append(d)
    d = Desc("tet2"); b = Builder(d); v = b.v(5); b.tet(v[0], v[1], v[2], v[3]); b.tet(v[0], v[2], v[1], v[4]); out.append(d)
    d = Desc("tet1_tetmesh", "tet"); b = Builder(d); v = b.v(4); b.tet(*v); out.append(d)
    d = Desc("tet3_tetmesh", "tet"); b = Builder(d); v = b.v(6); b.tet(v[0], v[1], v[2], v[3]); b.tet(v[0], v[2], v[1], v[4]); b.tet(v[1], v[2], v[3], v[5]); out.append(d)
    d = Desc("hex1"); b = Builder(d); v = b.v(8); b.hexa(v); out.append(d)
    d = Desc("hex1_hexmesh", "hex"); b = Builder(d); v = b.v(8); b.hexa(v); out.append(d)
    d = Desc("hex2_hexmesh", "hex"); b = Builder(d); v = b.v(12); b.hexa(v[0:8]); b.hexa([v[4], v[5], v[6], v[7], v[8], v[9], v[10], v[11]]); out.append(d)
    # mixed valence: a pyramid (faces 4,3,3,3,3) next to a tet
    d = Desc("pyr_tet"); b = Builder(d); v = b.v(6)
    b.cell([(v[0], v[3], v[2], v[1]), (v[0], v[1], v[4]), (v[1], v[2], v[4]), (v[2], v[3], v[4]), (v[3], v[0], v[4])])
    b.tet(v[0], v[1], v[4], v[5]); out.append(d)
    # prism: cells of valence 5, faces 3 and 4, plus a dangling face and an isolated vertex
    d = Desc("prism"); b = Builder(d); v = b.v(8)
    b.cell([(v[0], v[2], v[1]), (v[3], v[4], v[5]), (v[0], v[1], v[4], v[3]), (v[1], v[2], v[5], v[4]), (v[2], v[0], v[3], v[5])])
    b.hf((v[0], v[1], v[6])); out.append(d)
    # degenerate valences (no topology check): faces with 1 and 2 halfedges, repeated halfedges, a cell with 1 and 2 halffaces
    d = Desc("degenerate"); b = Builder(d); v = b.v(3); b.he(v[0], v[1]); b.he(v[1], v[2])
    d.F += [[0], [0, 1], [2, 2, 2], [0, 2, 3, 1, 0]]; d.C += [[0], [1, 2], [0, 0, 7]]; out.append(d)
    # same valence everywhere but not tet/hex: all faces valence 2
    d = Desc("digons"); b = Builder(d); v = b.v(2); b.he(v[0], v[1]); d.E.append((1, 0)); d.F += [[0, 2], [1, 3], [0, 3]]; d.C += [[0, 3], [2, 5]]; out.append(d)
    # counts around the integer-width boundaries (u8/u16)
    for nv in ([254, 255, 256, 257] if not thorough else [254, 255, 256, 257, 65535, 65536, 65537]):
        d = Desc("nv%d" % nv); Builder(d).v(nv); d.E += [(0, nv - 1), (nv - 1, nv - 2), (nv // 2, 0)]; out.append(d)
    for ne in [127, 128, 129]:       # 2*ne halfedges: 254 / 256 / 258
        d = Desc("ne%d" % ne); Builder(d).v(3)
        d.E += [(i % 3, (i + 1) % 3) for i in range(ne)]
        d.F += [[0, 2, 4], [2 * ne - 1, 2 * ne - 2, 1], [2 * ne - 6, 2 * ne - 4, 2 * ne - 2] if ne % 3 == 0 else [2 * ne - 2, 3]]
        out.append(d)
    for nf in [127, 128, 129]:       # 2*nf halffaces
        d = Desc("nf%d" % nf); b = Builder(d); b.v(3); b.he(0, 1); b.he(1, 2); b.he(2, 0)
        d.F += [[0, 2, 4] for _ in range(nf)]
        d.C += [[0, 2 * nf - 1, 2 * nf - 2, 3], [2 * nf - 1, 1, 5, 7]]
        out.append(d)
    # a face with 255 / 256 / 300 halfedges (valence encoding u8 / u16) next to a triangle
    for val in [255, 256, 300]:
        d = Desc("val%d" % val); b = Builder(d); b.v(3); b.he(0, 1); b.he(1, 2); b.he(2, 0)
        d.F += [[0, 2, 4], [(2 * i) % 6 for i in range(val)]]
        out.append(d)
    d = Desc("val255_uniform"); b = Builder(d); b.v(3); b.he(0, 1); b.he(1, 2); b.he(2, 0)
    d.F += [[(2 * i) % 6 for i in range(255)], [(2 * i + 1) % 6 for i in range(255)]]; out.append(d)
    d = Desc("val256_uniform"); b = Builder(d); b.v(3); b.he(0, 1); b.he(1, 2); b.he(2, 0)
    d.F += [[(2 * i) % 6 for i in range(256)], [(2 * i + 1) % 6 for i in range(256)]]; out.append(d)
    # topology type auto-detection (TopologyType.hh looks at ALL faces, not only at the faces of cells): all-tet / all-hex cells next
    # to a FREE face (in no cell) of another valence must be detected as polyhedral - otherwise the writer produces a tet / hex file
    # the reader refuses; with the conforming controls (free triangle with tets, free quad with hexes) and meshes without cells
    def free_face(b, v, val):
        loop = [v[0], v[1]] + b.v(val - 2)
        b.hf(tuple(loop))
    for val in (2, 3, 4, 5):
        d = Desc("tet_free%d" % val); b = Builder(d); v = b.v(4); b.tet(*v); free_face(b, v, val); out.append(d)
    d = Desc("tet2_free4"); b = Builder(d); v = b.v(5); b.tet(v[0], v[1], v[2], v[3]); b.tet(v[0], v[2], v[1], v[4]); free_face(b, v, 4); out.append(d)
    for val in (2, 3, 4, 5):
        d = Desc("hex_free%d" % val); b = Builder(d); v = b.v(8); b.hexa(v); free_face(b, v, val); out.append(d)
    d = Desc("nocells_tris"); b = Builder(d); v = b.v(4); b.hf((v[0], v[1], v[2])); b.hf((v[0], v[2], v[3])); out.append(d)
    d = Desc("nocells_quads"); b = Builder(d); v = b.v(6); b.hf((v[0], v[1], v[2], v[3])); b.hf((v[0], v[3], v[4], v[5])); out.append(d)
    if thorough:
        for ne in [32767, 32768, 32769]:
            d = Desc("ne%d" % ne); Builder(d).v(3); d.E += [(i % 3, (i + 1) % 3) for i in range(ne)]; d.F += [[0, 2, 4], [2 * ne - 1, 2 * ne - 2, 1]]; out.append(d)
    for d in out: rand_pos(rng, d)
    return out

def with_props(rng, thorough):
    """properties of every supported type on every entity kind"""
    out = []
    base = None
    for d0 in base_meshes(Rng(12345), False):
        if d0.name == "pyr_tet": base = d0
    # every type on every kind, spread over a few files (so that files stay small)
    combos = [(k, t) for k in KINDS for t in ALL_TYPES]
    combos = rng.shuffle(combos)
    per = 14 if not thorough else 7
    for i in range(0, len(combos), per):
        d = copy.deepcopy(base); d.name = "props%d" % (i // per)
        for (k, t) in combos[i:i + per]: add_prop(rng, d, k, t)
        out.append(d)
    # special names / shapes
    d = copy.deepcopy(base); d.name = "props_names"
    add_prop(rng, d, "V", "i32", b"a"); add_prop(rng, d, "V", "d", b"a"); add_prop(rng, d, "E", "i32", b"a")
    add_prop(rng, d, "V", "u8", bytes([0, 255, 10, 32])); add_prop(rng, d, "C", "b", b"x" * 300)
    add_prop(rng, d, "M", "s32", b"meshname"); add_prop(rng, d, "V", "i32", b"ovm:position")
    out.append(d)
    d = copy.deepcopy(base); d.name = "props_bools"       # 9 vertices... bit packing boundaries come from the entity counts
    for k in KINDS: add_prop(rng, d, k, "b", b"flag")
    out.append(d)
    for nv in [7, 8, 9, 16, 17]:
        d = Desc("bools_nv%d" % nv); Builder(d).v(nv); add_prop(rng, d, "V", "b", b"m"); add_prop(rng, d, "V", "s32", b"s"); out.append(d)
    d = Desc("empty_props")
    for k in KINDS: add_prop(rng, d, k, rng.pick(ALL_TYPES))
    out.append(d)
    d = copy.deepcopy(base); d.name = "props_unsupported"
    d.props.append(("V", "unsupported", b"u", b"", [])); add_prop(rng, d, "V", "u16", b"after")
    out.append(d)
    return out

# --------------------------------------------------------------------------------------------- case text

def hx(b): return b.hex() if b else "-"

def write_case_text(d, cid, fault="none", topo=None):
    lines = ["case %s mode=write mesh=%s topo=%s fault=%s" % (cid, d.mesh, topo or d.topo, fault)]
    if d.nv: lines.append("k AddVs %d" % d.nv)
    big = len(d.E) + len(d.F) + len(d.C) > 2000      # the script layer resolves operands in O(n) per line: go through the API directly
    for (a, b) in d.E: lines.append(("rawE %d %d" % (a, b)) if big else ("k @AddE %d %d 1" % (a, b)))
    for f in d.F: lines.append(("rawF " + " ".join(map(str, f))) if (big or not f) else ("k @AddF 0 " + " ".join(map(str, f))))
    for c in d.C: lines.append(("rawC " + " ".join(map(str, c))) if (big or not c) else ("k @AddC 0 " + " ".join(map(str, c))))
    for l in d.extra_k: lines.append("k " + l)
    for v, p in sorted(d.pos.items()): lines.append("pos %d %s %s %s" % (v, p[0].hex(), p[1].hex(), p[2].hex()))
    for (k, t, n, df, vals) in d.props: lines.append("prop %s %s %s %s %s" % (k, t, hx(n), hx(df), " ".join(hx(v) for v in vals)))
    lines.append("end")
    return "\n".join(lines) + "\n"

def read_case_text(cid, data, mesh="poly", check=0, bu=0, api="stream", fault="none"):
    return "case %s mode=read mesh=%s check=%d bu=%d api=%s fault=%s\nhex %s\nend\n" % (cid, mesh, check, bu, api, fault, hx(data))

# --------------------------------------------------------------------------------------------- file AST

def suitable(n): return 1 if n <= 255 else 2 if n <= 65535 else 4
def pk(enc, v): return struct.pack({1: "<B", 2: "<H", 4: "<I", 8: "<Q"}[enc], v & ((1 << (8 * enc)) - 1))

def value_bytes(ty, v):
    return (struct.pack("<I", len(v)) + v) if ty == "s32" else v

def prop_payload(ty, vals):
    if ty == "b":
        out = bytearray()
        for i in range(0, len(vals), 8):
            byte = 0
            for j, v in enumerate(vals[i:i + 8]): byte |= (1 if v[0] else 0) << j
            out.append(byte)
        return bytes(out)
    return b"".join(value_bytes(ty, v) for v in vals)

def full_values(d, p):
    (k, t, n, df, vals) = p
    return vals + [df] * (d.count(k) - len(vals))

def topo_chunk(entity, first, items, henc, offset=0, force_variable=False, venc=None):
    """items: list of handle lists"""
    vals = [len(x) for x in items]
    uniform = len(set(vals)) == 1 and vals[0] <= 255
    fixed = uniform and not force_variable and (entity == 1 or True)
    c = {"type": b"TOPO", "first": first, "count": len(items), "entity": entity, "henc": henc, "offset": offset}
    if entity == 1 or fixed:
        c["valence"] = vals[0] if vals else 0; c["venc"] = 0; c["valences"] = None
    else:
        c["valence"] = 0; c["venc"] = venc or suitable(max(vals)); c["valences"] = vals
    c["handles"] = [h for x in items for h in x]
    return c

def file_ast(d, opt=None):
    """the layout the writer produces (opt: re-encoding choices)"""
    opt = opt or {}
    ne, nf, nc = len(d.E), len(d.F), len(d.C)
    hdr = {"magic": MAGIC, "file_version": 1, "header_version": 1, "vertex_dim": 3,
           "topo_type": {"poly": 0, "tet": 1, "hex": 2}[d.file_topo()], "reserved": b"\0\0\0\0",
           "nv": d.nv, "ne": ne, "nf": nf, "nc": nc}
    chunks = []
    props = [p for p in d.props if p[1] != "unsupported"]
    # writer order: by entity kind in for_each_entity order; inside a kind the real writer iterates a std::set of pointers
    props = sorted(props, key=lambda p: KINDS.index(p[0]))
    if props:
        chunks.append({"type": b"DIRP", "entries": [{"entity": KIND_CODE[k], "name": n, "tname": t.encode(), "default": value_bytes(t, df)} for (k, t, n, df, vals) in props]})
    def split(n, key):
        cuts = [c for c in opt.get(key, []) if 0 < c < n]
        pts = [0] + sorted(set(cuts)) + [n]
        return [(pts[i], pts[i + 1]) for i in range(len(pts) - 1)]
    zero = dbl(0.0)
    if d.nv:
        for (a, b) in split(d.nv, "vsplit"):
            enc = opt.get("venc", 2)
            data = b""
            for v in range(a, b):
                for comp in d.pos.get(v, (zero, zero, zero)):
                    data += comp if enc == 2 else struct.pack("<f", struct.unpack("<d", comp)[0])
            chunks.append({"type": b"VERT", "first": a, "count": b - a, "enc": enc, "reserved": b"\0\0\0", "data": data})
    wid = opt.get("widen", 0)
    def W(n): return max(suitable(n), wid) if wid else suitable(n)
    if ne:
        for (a, b) in split(ne, "esplit"):
            off = opt.get("eoff", 0)
            items = [[(x - off) % (1 << 64), (y - off) % (1 << 64)] for (x, y) in d.E[a:b]]
            chunks.append(topo_chunk(1, a, items, W(d.nv) if not off else 4, off))
    if nf:
        for (a, b) in split(nf, "fsplit"):
            off = opt.get("foff", 0)
            items = [[(h - off) % (1 << 64) for h in f] for f in d.F[a:b]]
            chunks.append(topo_chunk(2, a, items, W(2 * ne) if not off else 4, off, opt.get("variable", False), opt.get("venc_w")))
    if nc:
        for (a, b) in split(nc, "csplit"):
            off = opt.get("coff", 0)
            items = [[(h - off) % (1 << 64) for h in c] for c in d.C[a:b]]
            chunks.append(topo_chunk(3, a, items, W(2 * nf) if not off else 4, off, opt.get("variable", False), opt.get("venc_w")))
    for i, p in enumerate(props):
        vals = full_values(d, p)
        for (a, b) in (split(len(vals), "psplit") if len(vals) else [(0, 0)]):
            chunks.append({"type": b"PROP", "first": a, "count": b - a, "idx": i, "data": prop_payload(p[1], vals[a:b]), "ptype": p[1]})
    chunks.append({"type": b"EOF ", "body": b""})
    for c in chunks: c.setdefault("version", 0); c.setdefault("compression", 0); c.setdefault("flags", 1)
    return {"hdr": hdr, "chunks": chunks}

def body_bytes(c):
    t = c["type"]
    if "body" in c: return c["body"]
    if t == b"DIRP":
        out = b""
        for e in c["entries"]:
            out += bytes([e["entity"] & 255])
            out += pk(4, e.get("name_len", len(e["name"]))) + e["name"]
            out += pk(4, e.get("tname_len", len(e["tname"]))) + e["tname"]
            out += pk(4, e.get("default_len", len(e["default"]))) + e["default"]
        return out
    if t == b"VERT":
        return pk(8, c["first"]) + pk(4, c["count"]) + bytes([c["enc"] & 255]) + c["reserved"] + c["data"]
    if t == b"TOPO":
        out = pk(8, c["first"]) + pk(4, c["count"]) + bytes([c["entity"] & 255, c["valence"] & 255, c["venc"] & 255, c["henc"] & 255]) + pk(8, c["offset"])
        if "frozen" in c: return out + c["frozen"]
        if c["valences"] is not None and c["venc"] in (1, 2, 4):
            out += b"".join(pk(c["venc"], v) for v in c["valences"])
        if c["henc"] in (1, 2, 4):
            out += b"".join(pk(c["henc"], h) for h in c["handles"])
        return out + c.get("extra", b"")
    if t == b"PROP":
        return pk(8, c["first"]) + pk(4, c["count"]) + pk(4, c["idx"]) + c["data"]
    return b""

def chunk_bytes(c):
    body = body_bytes(c)
    pad = c.get("padding")
    if pad is None: pad = (-len(body)) % 8
    padbytes = c.get("padbytes")
    if padbytes is None: padbytes = b"\0" * pad
    flen = c.get("file_length")
    if flen is None: flen = len(body) + len(padbytes)
    return c["type"] + bytes([c["version"] & 255, pad & 255, c["compression"] & 255, c["flags"] & 255]) + pk(8, flen) + body + padbytes

def header_bytes(h):
    return (h["magic"] + bytes([h["file_version"] & 255, h["header_version"] & 255, h["vertex_dim"] & 255, h["topo_type"] & 255]) + h["reserved"]
            + pk(8, h["nv"]) + pk(8, h["ne"]) + pk(8, h["nf"]) + pk(8, h["nc"]))

def serialize(ast):
    return header_bytes(ast["hdr"]) + b"".join(chunk_bytes(c) for c in ast["chunks"])

# --------------------------------------------------------------------------------------------- re-encodings

def reencodings(rng, d):
    """(label, bytes) of encodings of d that the format description permits and that must read to the same mesh"""
    out = []
    ne, nf, nc = len(d.E), len(d.F), len(d.C)
    def cuts(n): return [] if n < 2 else sorted({1 + rng.below(n - 1) for _ in range(1 + rng.below(2))})
    out.append(("vsplit", {"vsplit": cuts(d.nv)}))
    out.append(("esplit", {"esplit": cuts(ne)}))
    out.append(("fsplit", {"fsplit": cuts(nf)}))
    out.append(("csplit", {"csplit": cuts(nc)}))
    out.append(("psplit", {"psplit": [1, 8, 9]}))
    out.append(("allsplit", {"vsplit": cuts(d.nv), "esplit": cuts(ne), "fsplit": cuts(nf), "csplit": cuts(nc), "psplit": [3]}))
    out.append(("widen2", {"widen": 2}))
    out.append(("widen4", {"widen": 4}))
    out.append(("variable", {"variable": True}))
    out.append(("variable_w4", {"variable": True, "venc_w": 4}))
    if ne: out.append(("foff", {"foff": 1 if all(h >= 1 for f in d.F for h in f) else 0, "coff": 1 if all(h >= 1 for c in d.C for h in c) else 0}))
    out.append(("foff_wrap", {"foff": (1 << 64) - 3, "coff": (1 << 64) - 1}))       # handle + offset wraps mod 2^64 (u32 handles)
    res = []
    for (lab, opt) in out:
        if lab == "foff_wrap" and (2 * ne + 3 >= (1 << 32)): continue
        res.append((lab, serialize(file_ast(d, opt)), opt))
    # float positions: only when every position is exactly representable as float
    ok = True
    for v in range(d.nv):
        for comp in d.pos.get(v, (dbl(0),) * 3):
            x = struct.unpack("<d", comp)[0]
            try:
                if x != x or struct.unpack("<f", struct.pack("<f", x))[0] != x: ok = False
            except OverflowError:
                ok = False
    if ok and d.nv: res.append(("venc_float", serialize(file_ast(d, {"venc": 1})), {"venc": 1}))
    # optional (skippable) chunks of unknown type / unknown version, interleaved anywhere
    ast = file_ast(d)
    for pos in sorted({0, len(ast["chunks"]) // 2, len(ast["chunks"]) - 1}):
        a2 = copy.deepcopy(ast)
        a2["chunks"].insert(pos, {"type": b"XTRA", "version": 0, "compression": 0, "flags": 0, "body": bytes(rng.below(256) for _ in range(rng.pick([0, 1, 8, 13])))})
        res.append(("optional@%d" % pos, serialize(a2), None))
    a2 = copy.deepcopy(ast); a2["chunks"].insert(0, {"type": b"VERT", "version": 7, "compression": 0, "flags": 0, "body": b"\x01\x02\x03"})
    res.append(("optional_version", serialize(a2), None))
    # property chunks before the topology they do not depend on; DIRP later (but before PROP chunks)
    a2 = copy.deepcopy(ast)
    dirp = [c for c in a2["chunks"] if c["type"] == b"DIRP"]; rest = [c for c in a2["chunks"] if c["type"] != b"DIRP"]
    if dirp:
        k = next(i for i, c in enumerate(rest) if c["type"] in (b"PROP", b"EOF "))
        res.append(("dirp_late", serialize({"hdr": a2["hdr"], "chunks": rest[:k] + dirp + rest[k:]}), None))
    return res

# --------------------------------------------------------------------------------------------- hexahedral halfface orders

def perms(l):
    if len(l) <= 1: return [list(l)]
    return [[l[i]] + r for i in range(len(l)) for r in perms(l[:i] + l[i + 1:])]

def hex_order_files(rng, n_variants=24):
    """(label, bytes, must_reject) of files of hexahedral topology type whose cell lists its halffaces in an order that
    HexahedralMeshTopologyKernel::add_cell has to re-order (topology check on): every permutation of a cube's six halffaces; the
    cube with one halfface replaced by its opposite / by another halfface of the cell / by a halfface of another cube (the
    re-ordering then fails or leaves an invalid slot); two cubes with the second cell permuted"""
    out = []
    d = Desc("hexorder", "hex"); b = Builder(d); v = b.v(12); b.hexa(v[0:8]); b.hexa([v[4], v[5], v[6], v[7], v[8], v[9], v[10], v[11]])
    cube, cube2 = list(d.C[0]), list(d.C[1])
    one = copy.deepcopy(d); one.C = [cube]
    def emit(label, desc, cells, rej=None):
        x = copy.deepcopy(desc); x.C = cells; x.topo = "hex"
        out.append((label, serialize(file_ast(x)), rej))
    for pi, p in enumerate(perms(cube)):
        emit("perm%d" % pi, one, [p])
    sample = [rng.shuffle(list(cube)) for _ in range(n_variants)]
    for si, p in enumerate(sample):
        i = rng.below(6)
        q = list(p); q[i] ^= 1; emit("flip%d@%d" % (si, i), one, [q])                       # wrong orientation of one side
        q = list(p); q[i] = p[(i + 1 + rng.below(5)) % 6]; emit("dup%d@%d" % (si, i), one, [q])      # a side twice, one missing
        q = list(p); q[i] = rng.pick([h for h in cube2 if h not in cube and (h ^ 1) not in cube]); emit("foreign%d@%d" % (si, i), d, [cube, q][1:] + [cube2])
        emit("second%d" % si, d, [cube, rng.shuffle(list(cube2))])
    # the witness of the missing re-ordering checks (IO/Ovmb2Hex.v): halfface 0 where halfface 1 belongs
    w = Desc("hexbad", "hex"); w.nv = 8
    w.E = [(3, 2), (2, 1), (1, 0), (0, 3), (7, 6), (6, 5), (5, 4), (4, 7), (2, 6), (7, 1), (5, 3), (0, 4)]
    w.F = [[0, 2, 4, 6], [8, 10, 12, 14], [3, 16, 9, 18], [13, 20, 7, 22], [19, 15, 23, 5], [1, 21, 11, 17]]
    w.C = [[5, 0, 3, 7, 9, 11]]; w.topo = "hex"
    out.append(("witness_invalid_slot", serialize(file_ast(w)), True))
    # six quads that pass the closedness test and both ordering walks of the hexahedral add_cell without being a hexahedron: must be
    # rejected with the topology check on (fixes "checked hex add_cell must reject cells without eight distinct vertices" and
    # "hex halfface ordering check must require vertex-disjoint top and bottom faces")
    def noncube(label, nv, loops):
        x = Desc(label, "hex"); bb = Builder(x); bb.v(nv); bb.cell(loops); x.topo = "hex"
        out.append((label, serialize(file_ast(x)), True))
    # a cube pinched in a vertex (7 distinct vertices)
    pv = [0, 1, 2, 3, 4, 5, 0, 7]
    noncube("noncube_pinched", 8, [(pv[3], pv[2], pv[1], pv[0]), (pv[7], pv[6], pv[5], pv[4]), (pv[1], pv[2], pv[6], pv[7]),
                                   (pv[4], pv[5], pv[3], pv[0]), (pv[1], pv[7], pv[4], pv[0]), (pv[2], pv[3], pv[5], pv[6])])
    # two closed components on ten vertices
    noncube("noncube_two_components", 10, [(0, 1, 2, 3), (2, 1, 0, 4), (3, 2, 4, 5), (6, 7, 8, 9), (0, 3, 5, 4), (9, 8, 7, 6)])
    # eight vertices, top and bottom sharing two of them
    noncube("noncube_shared_top_bottom", 8, [(0, 1, 2, 3), (0, 4, 2, 5), (1, 0, 5, 6), (3, 2, 4, 7), (5, 2, 1, 6), (4, 0, 3, 7)])
    return out

def tet_cell_files(rng):
    """(label, bytes, must_reject) of files of tetrahedral topology type, to be read by the tetrahedral class with the topology
    check on: (a) two two-triangle pillows (four triangles whose halfedges are matched pairwise, six vertices: must be rejected
    since the fix "checked tet add_cell must reject four triangles that are not a tetrahedron"), (b) a proper tetrahedron,
    (c) pillows on four vertices"""
    out = []
    x = Desc("tet_two_pillows", "tet"); b = Builder(x); b.v(6)
    f0 = b.hf((0, 1, 2)); f1 = b.hf((3, 4, 5)); x.C.append([f0, f0 ^ 1, f1, f1 ^ 1]); x.topo = "tet"
    out.append(("tet_two_pillows", serialize(file_ast(x)), True))
    # (c) two pillows on FOUR vertices: (0,1,2) and (1,2,3), the second over a parallel edge 1-2, each on both sides - [hf, opp hf, x, opp x]
    # or, with duplicate faces, without an opposite pair by handle: four distinct vertices, every halfedge matched once; must be rejected
    # since the fix "checked tet add_cell must reject four triangles on fewer than four vertex triples" (814053a)
    p = Desc("tet_pillows4_parallel_edge", "tet"); b = Builder(p); b.v(4); f0 = b.hf((0, 1, 2))
    p.E += [(1, 2), (2, 3), (3, 1)]; p.F.append([6, 8, 10]); p.C.append([f0, f0 ^ 1, 2, 3]); p.topo = "tet"
    out.append(("tet_pillows4_parallel_edge", serialize(file_ast(p)), True))
    q = Desc("tet_pillows4_duplicate_faces", "tet"); b = Builder(q); b.v(4); b.hf((0, 1, 2))
    q.E += [(1, 2), (2, 3), (3, 1)]; q.F += [list(q.F[0]), [6, 8, 10], [6, 8, 10]]; q.C.append([0, 3, 4, 7]); q.topo = "tet"
    out.append(("tet_pillows4_duplicate_faces", serialize(file_ast(q)), True))
    y = Desc("tet_proper", "tet"); b = Builder(y); v = b.v(4); b.tet(*v); y.topo = "tet"
    out.append(("tet_proper", serialize(file_ast(y)), None))
    return out

# --------------------------------------------------------------------------------------------- mutation

def bset(width, around=()):
    base = {0, 1, 2, 3, 4, 5, 6, 7, 8, 127, 128, 254, 255}
    if width >= 2: base |= {256, 257, 32767, 32768, 65535}
    if width >= 4: base |= {65536, 65537, (1 << 31) - 1, 1 << 31, (1 << 32) - 1, 178956971, 1 << 30}
    if width >= 8: base |= {1 << 32, (1 << 32) + 1, (1 << 63) - 1, 1 << 63, (1 << 64) - 1, (1 << 64) - 2, (1 << 64) - 8}
    for a in around:
        for dlt in (-2, -1, 1, 2): base.add(a + dlt)
    lim = 1 << (8 * width)
    return sorted(v for v in base if 0 <= v < lim)

HDR_FIELDS = [("file_version", 1), ("header_version", 1), ("vertex_dim", 1), ("topo_type", 1), ("nv", 8), ("ne", 8), ("nf", 8), ("nc", 8)]
CHUNK_FIELDS = [("version", 1), ("padding", 1), ("compression", 1), ("flags", 1), ("file_length", 8)]
SUB_FIELDS = {b"VERT": [("first", 8), ("count", 4), ("enc", 1)],
              b"TOPO": [("first", 8), ("count", 4), ("entity", 1), ("valence", 1), ("venc", 1), ("henc", 1), ("offset", 8)],
              b"PROP": [("first", 8), ("count", 4), ("idx", 4)]}

def field_mutations(ast, quick_rng=None, budget=None):
    """every header / chunk-header / sub-header numeric field x boundary values -> (label, bytes).
    quick_rng: sample `budget` of them (deterministic)"""
    out = []
    h = ast["hdr"]
    for (f, w) in HDR_FIELDS:
        for v in bset(w, (h[f],)):
            if v == h[f]: continue
            a = copy.deepcopy(ast); a["hdr"][f] = v; out.append(("hdr.%s=%d" % (f, v), a))
    for i in range(8):
        a = copy.deepcopy(ast); m = bytearray(MAGIC); m[i] ^= 1 << (i % 8); a["hdr"]["magic"] = bytes(m); out.append(("hdr.magic[%d]" % i, a))
    for i in range(4):
        for v in (1, 255):
            a = copy.deepcopy(ast); r = bytearray(4); r[i] = v; a["hdr"]["reserved"] = bytes(r); out.append(("hdr.reserved[%d]=%d" % (i, v), a))
    for ci, c in enumerate(ast["chunks"]):
        tn = c["type"].decode("latin1").strip()
        body = body_bytes(c); pad = (-len(body)) % 8
        cur = {"version": 0, "padding": pad, "compression": 0, "flags": c["flags"], "file_length": len(body) + pad}
        for (f, w) in CHUNK_FIELDS:
            for v in bset(w, (cur[f],)):
                if v == cur[f]: continue
                if f == "file_length" and v > (1 << 40) and v not in ((1 << 63), (1 << 64) - 1, (1 << 64) - 8): continue
                a = copy.deepcopy(ast); a["chunks"][ci][f] = v
                if f == "padding": a["chunks"][ci]["padbytes"] = b"\0" * pad       # header lies; bytes on disk unchanged
                out.append(("c%d%s.%s=%d" % (ci, tn, f, v), a))
        for ti in range(4):
            a = copy.deepcopy(ast); t = bytearray(c["type"]); t[ti] ^= 0x20; a["chunks"][ci]["type"] = bytes(t); out.append(("c%d%s.type[%d]" % (ci, tn, ti), a))
        if pad:
            for pi in range(pad):
                a = copy.deepcopy(ast); pb = bytearray(pad); pb[pi] = 1 + pi; a["chunks"][ci]["padbytes"] = bytes(pb); out.append(("c%d%s.padbyte[%d]" % (ci, tn, pi), a))
        for (f, w) in SUB_FIELDS.get(c["type"], []):
            for v in bset(w, (c[f],)):
                if v == c[f]: continue
                a = copy.deepcopy(ast); a["chunks"][ci][f] = v
                if c["type"] == b"TOPO" and f in ("henc", "venc", "valence"): a["chunks"][ci]["frozen"] = body[24:]   # the data bytes stay as they were encoded
                # a bit-packed bool chunk with a smaller count in the same byte is a consistent file (the rest keeps the default)
                soft = "!soft" if (c["type"] == b"PROP" and ((f == "count" and c.get("ptype") == "b") or (f == "first" and c["count"] == 0))) else ""   # an empty span has no position
                if c["type"] == b"TOPO" and f == "offset" and c["handles"]:
                    # the reader adds the offset in 64 bits: the changed file is inconsistent iff some handle leaves the range
                    lim0 = {1: ast["hdr"]["nv"], 2: 2 * ast["hdr"]["ne"], 3: 2 * ast["hdr"]["nf"]}[c["entity"]]
                    if any(((x + v) & ((1 << 64) - 1)) >= lim0 for x in c["handles"]): soft = "!oor"
                out.append(("c%d%s.%s=%d%s" % (ci, tn, f, v, soft), a))
        if c["type"] == b"VERT":
            for i in range(3):
                a = copy.deepcopy(ast); r = bytearray(3); r[i] = 9; a["chunks"][ci]["reserved"] = bytes(r); out.append(("c%dVERT.reserved[%d]" % (ci, i), a))
        if c["type"] == b"TOPO":
            lim = {1: ast["hdr"]["nv"], 2: 2 * ast["hdr"]["ne"], 3: 2 * ast["hdr"]["nf"]}[c["entity"]]
            w = c["henc"] if c["henc"] in (1, 2, 4) else 1
            for hi in sorted({0, len(c["handles"]) // 2, len(c["handles"]) - 1}):
                if hi < 0 or hi >= len(c["handles"]): continue
                for v in bset(w, (lim,)):
                    if v == c["handles"][hi]: continue
                    a = copy.deepcopy(ast); a["chunks"][ci]["handles"][hi] = v; out.append(("c%dTOPO.handle[%d]=%d%s" % (ci, hi, v, "!oor" if v >= lim else ""), a))
            if c["valences"]:
                for vi in sorted({0, len(c["valences"]) - 1}):
                    for v in bset(c["venc"], (c["valences"][vi],)):
                        if v == c["valences"][vi]: continue
                        a = copy.deepcopy(ast); a["chunks"][ci]["valences"][vi] = v; out.append(("c%dTOPO.valences[%d]=%d" % (ci, vi, v), a))
        if c["type"] == b"DIRP":
            for ei, e in enumerate(c["entries"]):
                for v in bset(1, (e["entity"],)):
                    if v == e["entity"]: continue
                    a = copy.deepcopy(ast); a["chunks"][ci]["entries"][ei]["entity"] = v; out.append(("c%dDIRP.e%d.entity=%d" % (ci, ei, v), a))
                for lf in ("name_len", "tname_len", "default_len"):
                    curl = len(e[lf[:-4]])
                    for v in bset(4, (curl,)):
                        if v == curl: continue
                        a = copy.deepcopy(ast); a["chunks"][ci]["entries"][ei][lf] = v; out.append(("c%dDIRP.e%d.%s=%d" % (ci, ei, lf, v), a))
                # default shorter / longer than the type; unknown type name; empty name
                for k in sorted({0, 1, len(e["default"]) - 1, len(e["default"]) + 1}):
                    if k < 0 or k == len(e["default"]): continue
                    a = copy.deepcopy(ast); a["chunks"][ci]["entries"][ei]["default"] = (e["default"] + b"\0\0\0\0")[:k]; out.append(("c%dDIRP.e%d.default_size=%d" % (ci, ei, k), a))
                a = copy.deepcopy(ast); a["chunks"][ci]["entries"][ei]["tname"] = b"nosuchtype"; out.append(("c%dDIRP.e%d.unknown_type" % (ci, ei), a))
                a = copy.deepcopy(ast); a["chunks"][ci]["entries"][ei]["name"] = b""; out.append(("c%dDIRP.e%d.empty_name" % (ci, ei), a))
                a = copy.deepcopy(ast); a["chunks"][ci]["entries"].insert(ei, copy.deepcopy(e)); out.append(("c%dDIRP.e%d.duplicate_entry" % (ci, ei), a))
                if e["tname"] == b"b":
                    a = copy.deepcopy(ast); a["chunks"][ci]["entries"][ei]["default"] = b"\x02"; out.append(("c%dDIRP.e%d.bool_default_2" % (ci, ei), a))
        if c["type"] == b"PROP":
            for k in sorted({0, 1, 3, len(c["data"]) - 1, len(c["data"]) + 1, len(c["data"]) + 8}):
                if k < 0 or k == len(c["data"]): continue
                a = copy.deepcopy(ast); a["chunks"][ci]["data"] = (c["data"] + b"\xff" * 9)[:k]; out.append(("c%dPROP.data_size=%d" % (ci, k), a))
            if c.get("ptype") == "s32" and len(c["data"]) >= 4:
                for v in bset(4, (struct.unpack("<I", c["data"][:4])[0],)):
                    a = copy.deepcopy(ast); a["chunks"][ci]["data"] = pk(4, v) + c["data"][4:]; out.append(("c%dPROP.strlen=%d" % (ci, v), a))
    if quick_rng is not None and budget is not None and len(out) > budget:
        idx = sorted(quick_rng.shuffle(list(range(len(out))))[:budget])
        out = [out[i] for i in idx]
    return [(lab, serialize(a), expect_reject(lab)) for (lab, a) in out]

import re
def expect_reject(label):
    """C18 field classes: is a file with this single field changed INCONSISTENT with the rest of the file (so that it must be
    rejected)?  True = must be rejected, None = no expectation (the changed file can be a consistent file)."""
    m = re.match(r"hdr\.(\w+)", label)
    if m:
        f = m.group(1)
        if f in ("magic", "reserved", "header_version", "vertex_dim", "ne", "nf", "nc", "nv"): return True
        if f == "topo_type": return True if int(label.split("=")[1]) > 2 else None
        return None
    m = re.match(r"c\d+(\w*)\.(\w+)", label)
    if not m: return None
    tn, f = m.group(1), m.group(2)
    if label.endswith("!soft"): return None
    if f in ("padding", "file_length", "type", "padbyte", "first", "count", "enc", "venc", "henc", "entity", "valence", "valences",
             "reserved", "data_size", "bool_default_2", "empty_name"): 
        if tn == "EOF" and f == "type": return True
        if tn == "DIRP" and f == "entity": return True if int(label.split("=")[1]) > 6 else None
        return True
    if f in ("version", "compression"): return True
    if f == "flags": return True if int(label.split("=")[1]) > 1 else None
    if f in ("handle", "offset"): return True if label.endswith("!oor") else None
    if f == "default_size":
        return None
    return None

def expect_reject_chunk(label, ast):
    """chunk drop / duplicate / reorder: must the result be rejected?"""
    m = re.match(r"(drop|dup|swap|eofswap|eof@)(\d+)", label)
    if not m: 
        return True if label in ("eof_payload", "trailing_bytes", "eof_then_optional") else None
    op, i = m.group(1), int(m.group(2))
    cs = ast["chunks"]
    t = cs[i]["type"]
    if op == "drop": return True if t in (b"VERT", b"TOPO", b"EOF ", b"DIRP") and (t != b"DIRP" or any(c["type"] == b"PROP" for c in cs)) else None
    if op == "dup": return True if t in (b"VERT", b"TOPO", b"EOF ", b"DIRP") else None
    if op in ("eof@", "eofswap"): return True
    if op == "swap":
        a, b = t, cs[i + 1]["type"]
        if b == b"EOF ": return True
        if a == b"DIRP" and b == b"PROP": return True
        if a == b"VERT" and b == b"TOPO": return True
        if a == b"TOPO" and b == b"TOPO" and cs[i]["entity"] != cs[i + 1]["entity"]: return True
        if a == b == b"VERT" or (a == b == b"TOPO"): return True
        return None
    return None

def chunk_mutations(rng, ast):
    """drop / duplicate / reorder (adjacent swap + EOF moved) / split-in-the-wrong-way of whole chunks"""
    out = []
    n = len(ast["chunks"])
    for i in range(n):
        a = copy.deepcopy(ast); del a["chunks"][i]; out.append(("drop%d" % i, serialize(a)))
        a = copy.deepcopy(ast); a["chunks"].insert(i, copy.deepcopy(a["chunks"][i])); out.append(("dup%d" % i, serialize(a)))
        if i + 1 < n:
            a = copy.deepcopy(ast); a["chunks"][i], a["chunks"][i + 1] = a["chunks"][i + 1], a["chunks"][i]
            out.append((("eofswap%d" if a["chunks"][i]["type"] == b"EOF " else "swap%d") % i, serialize(a)))
    for i in range(n - 1):
        a = copy.deepcopy(ast); e = a["chunks"].pop(); a["chunks"].insert(i, e); out.append(("eof@%d" % i, serialize(a)))
    a = copy.deepcopy(ast); a["chunks"] = rng.shuffle(a["chunks"]); out.append(("shuffle", serialize(a)))
    a = copy.deepcopy(ast); a["chunks"].append({"type": b"EOF ", "version": 0, "compression": 0, "flags": 1, "body": b"\0" * 8}); out.append(("eof_payload", serialize(a)))
    out.append(("trailing_bytes", serialize(ast) + b"\0\0\0"))
    out.append(("eof_then_optional", serialize(ast) + b"\0" * 16))      # 16 zero bytes = an optional chunk of type 0 after the EOF chunk
    return [(lab, data, expect_reject_chunk(lab, ast)) for (lab, data) in out]

def noise(rng, data, n):
    out = []
    for i in range(n):
        b = bytearray(data)
        k = rng.pick([1, 1, 2, 4])
        for _ in range(k):
            if not b: break
            p = rng.below(len(b)); mode = rng.below(4)
            if mode == 0: b[p] ^= 1 << rng.below(8)
            elif mode == 1: b[p] = rng.pick([0, 1, 255, 128, 127])
            elif mode == 2: del b[p]
            else: b.insert(p, rng.below(256))
        out.append(("noise%d" % i, bytes(b)))
    return out

# --------------------------------------------------------------------------------------------- mesh text for the model driver

def model_mesh_text(d, order=None):
    """the mesh description ocaml/ovmbdriver.ml's `encode` reads (same line format as the harness's observed block)"""
    zero = dbl(0).hex()
    lines = ["nv %d" % d.nv,
             "E" + "".join(" %d,%d" % e for e in d.E),
             "F" + "".join(" [%s]" % " ".join(map(str, f)) for f in d.F),
             "C" + "".join(" [%s]" % " ".join(map(str, c)) for c in d.C),
             "POS" + "".join(" " + ",".join(x.hex() for x in d.pos.get(v, (dbl(0),) * 3)) for v in range(d.nv))]
    return lines

if __name__ == "__main__":
    rng = Rng(int(os.environ.get("VERIF_SEED", "1")))
    ms = base_meshes(rng, False) + with_props(rng, False)
    for i, d in enumerate(ms):
        sys.stdout.write(write_case_text(d, "w%d_%s" % (i, d.name)))
