#!/usr/bin/env python3
"""Generator of tet / hex scripts (C15, C16), built on gen/kgen.py: the same SplitMix64 PRNG (one state per
script, derived from the seed, the script index and the profile), the same model-guided construction (the
extracted model build/ml/thdriver/thdriver is driven interactively and its state is inspected after every
step), the kernel script language plus the tet / hex operations and the Q* query lines.

Profiles
  tetvalid   strips / fans / single tets built with every construction path (TAddCellV, TAddCell4, AddC on
             found faces), shared faces pre-existing in either rotation and either side, all four deletion
             modes, property arrays on every entity kind, QTetAll (all 24 (halfface,start) choices per cell),
             collapses of collapsible and non-collapsible edges, deletions, garbage collection
  tetmal     malformed stream: wrong valences, repeated vertices, degenerate cells (pillows - also on FOUR vertices over a parallel
             edge / on duplicate faces with the topology-checked add_cell -, a halfface four
             times), queries with arguments that do not belong together (-> empty results, UB lines)
  hexvalid   hex blocks (straight, bent, with pre-existing faces in other rotations), HAddCellV, checked AddC on
             permuted valid lists, QHexAll, deletions, garbage collection
  hexperm    one cube (faces stored in random rotation / side), permutations of its halfface list passed to
             the checked add_cell (count given by the caller: all 720 or a stratified subset)
  hexmal     malformed stream: wrong valences, open / doubled halfface lists with topology check (the
             re-ordering path with missing adjacencies), queries on odd arguments
"""
import itertools, os, sys
sys.path.insert(0, os.path.dirname(os.path.abspath(__file__)))
import kgen
from kgen import Rng, State, hash_str

def clean(s):
    """the kernel-level preconditions under which renumbering operations (deletion in immediate mode, garbage
    collection, swaps, collapse) are exercised: every stored handle designates a live entity, no halfface belongs to
    two live cells, no cell lists a halfface twice (DESIGN C01's quantifier)"""
    ne, nf = len(s.E), len(s.F)
    for e in s.live_e():
        a, b = s.E[e]
        if a >= s.nv or b >= s.nv or s.vdel[a] or s.vdel[b]: return False
    for f in s.live_f():
        for h in s.F[f]:
            if h // 2 >= ne or s.edel[h // 2]: return False
    owner = set()
    for c in s.live_c():
        for hf in s.C[c]:
            if hf // 2 >= nf or s.fdel[hf // 2] or hf in owner: return False
            owner.add(hf)
    return True

def simplicial(s):
    """-> (edges, tris, tets) as sorted vertex tuples if the live part is a clean simplicial tet complex, else None"""
    if not clean(s): return None
    edges, tris, tets = set(), set(), set()
    for e in s.live_e():
        a, b = s.E[e]
        k = (min(a, b), max(a, b))
        if a == b or k in edges: return None
        edges.add(k)
    for f in s.live_f():
        if len(s.F[f]) != 3: return None
        hes = s.F[f]
        for i in range(3):
            if s.he_to(hes[i]) != s.he_from(hes[(i + 1) % 3]): return None
        k = tuple(sorted(s.he_from(h) for h in hes))
        if len(set(k)) != 3 or k in tris: return None
        tris.add(k)
    for c in s.live_c():
        if len(s.C[c]) != 4: return None
        vs, hes = set(), set()
        for hf in s.C[c]:
            if len(s.F[hf // 2]) != 3: return None
            for h in s.halfface(hf): hes.add(h); vs.add(s.he_from(h))
        if len(vs) != 4 or len(hes) != 12 or any((h ^ 1) not in hes for h in hes): return None
        k = tuple(sorted(vs))
        if k in tets: return None
        tets.add(k)
    return edges, tris, tets

def link_ok(s, he):
    """the link condition for collapsing halfedge he (same brute-force definition as the harness oracle)"""
    sc = simplicial(s)
    if sc is None: return False
    edges, tris, tets = sc
    a, b = s.he_from(he), s.he_to(he)
    if a == b: return False
    E = lambda x, y: (min(x, y), max(x, y)) in edges
    T = lambda *v: tuple(sorted(v)) in tris
    C = lambda *v: tuple(sorted(v)) in tets
    for x in s.live_v():
        if x != a and x != b and E(a, x) and E(b, x) and not T(a, b, x): return False
    for (x, y) in edges:
        if x in (a, b) or y in (a, b): continue
        if T(a, x, y) and T(b, x, y) and not C(a, b, x, y): return False
    for t in tris:
        if a in t or b in t: continue
        if C(a, *t) and C(b, *t): return False
    return True

class ScriptDead(Exception):
    pass

class Session(kgen.Session):
    """thdriver -i : query blocks carry no state dump; a UB outcome of a mutating operation ends the script"""
    def begin(self, name, kind):
        self.p.stdin.write("#### %s\n" % name); self.p.stdin.flush(); self._read()
        self.lines = []
        self.state = None
        self.last = []
        self.do("Mesh " + kind)
    def do(self, line):
        self.p.stdin.write(line + "\n"); self.p.stdin.flush()
        blk = self._read()
        self.lines.append(line)
        self.last = blk
        head = blk[0] if blk else ""
        if head.endswith("-> UB"):
            raise ScriptDead(line)
        if any(l.startswith("nv ") for l in blk):
            self.state = State(blk)
        else:
            self.state.head = head
        return self.state
    def qlines(self):
        return [l for l in self.last if l.startswith("Q ")]

class Gen(kgen.Gen):
    def __init__(self, sess, rng, profile, kind):
        super().__init__(sess, rng, profile)
        self.kind = kind

    # ------------------------------------------------------------------ tets
    def pre_face(self, vs):
        """create the face on vs beforehand in a random rotation and on a random side"""
        r = self.r
        k = r.below(len(vs))
        cyc = list(vs[k:] + vs[:k])
        if r.chance(1, 2): cyc.reverse()
        self.do("@AddFV " + " ".join(map(str, cyc)))

    def tet(self, a, b, c, d):
        """one tetrahedron through a randomly chosen construction path"""
        r = self.r
        tris = ((a, b, c), (a, c, d), (a, d, b), (b, d, c))
        for t in tris:
            if r.chance(1, 5) and self.find_face(t) is None: self.pre_face(t)
        p = r.below(10)
        if p < 4: return self.do("@TAddCellV %d %d %d %d %d" % (r.below(2), a, b, c, d)).result()
        if p < 7: return self.do("@TAddCell4 %d %d %d %d %d" % (r.below(2), a, b, c, d)).result()
        if p < 8:
            hfs = []
            for t in tris:
                st = self.do("@THalfFaceV %d %d %d %d" % (r.below(2), t[0], t[1], t[2]))
                if not isinstance(st.result(), int): return None
                hfs.append(st.result())
            return self.do("@AddC %d %s" % (r.below(2), " ".join(map(str, r.shuffle(hfs))))).result()
        return self.add_tet(a, b, c, d)

    def tet_fan(self, k, closed):
        base = self.st().nv
        self.add_vertices(2 + k + (0 if closed else 1))
        a, b = base, base + 1
        ring = [base + 2 + i for i in range(k + (0 if closed else 1))]
        for i in self.r.shuffle(range(k)):
            p, q = ring[i], ring[(i + 1) % len(ring)]
            self.tet(a, b, p, q)

    def tet_strip(self, k):
        base = self.st().nv
        self.add_vertices(3 + k)
        for i in range(k):
            v = [base + i, base + i + 1, base + i + 2, base + i + 3]
            if i % 2: v[0], v[1] = v[1], v[0]
            self.tet(*v)

    def tet_ball(self):
        """a vertex with a closed star: 4 tets around an interior vertex (collapsible interior edges)"""
        base = self.st().nv
        self.add_vertices(5)
        o, p = base, [base + 1, base + 2, base + 3, base + 4]
        for (x, y, z) in ((0, 1, 2), (0, 2, 3), (0, 3, 1), (1, 3, 2)):
            self.tet(o, p[x], p[y], p[z])

    def tet_edge_glued(self):
        """NON-MANIFOLD edge: two (or three) tet fans that share ONLY the edge a-b, optionally a tet glued on a face of the first
        one and a free face hanging on the edge; the halffaces around a-b then keep their insertion order with cell-less ones in
        the middle (reorder_incident_halffaces gives up on such an edge)"""
        r = self.r
        base = self.st().nv
        n = 2 + r.below(2)
        self.add_vertices(2 + 2 * n + 2)
        a, b = base, base + 1
        if r.chance(1, 2): self.pre_face((a, b, base + 2 + 2 * n))          # a free face on the edge, inserted first
        for i in r.shuffle(range(n)):
            p, q = base + 2 + 2 * i, base + 3 + 2 * i
            self.tet(a, b, p, q)
            if i == 0 and r.chance(1, 2): self.tet(a, q, p, base + 3 + 2 * n)   # glued on face a-p-q of the first one
            if r.chance(1, 3): self.pre_face((b, a, base + 2 + 2 * n))

    def tet_build(self):
        r = self.r
        for _ in range(1 + r.below(2)):
            c = r.below(10)
            if c >= 8: self.tet_edge_glued(); continue
            if c == 0: self.tet_fan(3 + r.below(3), closed=True)
            elif c == 1: self.tet_fan(1 + r.below(4), closed=False)
            elif c in (2, 3): self.tet_strip(1 + r.below(4))
            elif c == 4: self.tet_ball()
            elif c == 5:
                base = self.st().nv; self.add_vertices(4); self.tet(base, base + 1, base + 2, base + 3)
            elif c == 6:
                base = self.st().nv; self.add_vertices(7)
                self.tet(base, base + 1, base + 2, base + 3); self.tet(base, base + 4, base + 5, base + 6)
            else: self.tet_strip(2); self.tet_fan(2, closed=False)

    def collapse_some(self):
        """collapses are aimed at edges of cells; in immediate-deletion mode (where the call ends in a garbage
        collection) only edges satisfying the link condition are taken, in deferred mode any edge of a clean mesh"""
        s = self.st(); r = self.r
        if not clean(s) or not s.live_e(): return
        cand = []
        if s.live_c() and r.chance(3, 4):
            c = s.C[r.pick(s.live_c())]
            cand = [h ^ r.below(2) for hf in c for h in s.halfface(hf)]
        if not cand: cand = [2 * e + r.below(2) for e in s.live_e()]
        cand = r.shuffle(cand)[:8]
        good = [h for h in cand if link_ok(s, h)]
        if good and r.chance(4, 5): self.do("@TCollapse %d" % good[0]); return
        if s.deferred and simplicial(s) is not None: self.do("@TCollapse %d" % cand[0])

    def risky(self, f, *a):
        """renumbering operations of the base kernel only on kernel-clean states (see clean())"""
        if clean(self.st()): f(*a)

    def tet_queries(self):
        s = self.st(); r = self.r
        c = r.below(12)
        lc, lf, le, lv = s.live_c(), s.live_f(), s.live_e(), s.live_v()
        if c < 4 or not lc: self.do("QTetAll"); return
        cell = r.pick(lc)
        hfs = s.C[cell]
        hf = r.pick(hfs) if hfs and r.chance(3, 4) else (2 * r.pick(lf) + r.below(2) if lf else 0)
        if c == 4: self.do("@QCVV %d %d" % (cell, r.pick(lv)))
        elif c == 5: self.do("@QCVHE %d %d" % (hf, 2 * r.pick(le) + r.below(2)))
        elif c == 6: self.do("@QVOH %d %d" % (cell, r.pick(lv)))
        elif c == 7: self.do("@QTT %d %d %d" % (cell, hf, -1 if r.chance(1, 3) else (r.pick(s.hf_vertices(hf)) if s.hf_vertices(hf) else r.pick(lv))))
        elif c == 8: self.do("@QTVI %d %d" % (cell, 1 + r.below(3)))
        elif c == 9: self.do("@QHOV %d" % (hf ^ r.below(2)))
        elif c == 10: self.do("@QTRI %d %d" % (hf, -1 if r.chance(1, 2) else r.pick(lv)))
        else: self.do("@QTTCV %d %d" % (cell, r.pick(lv)))

    def pillow4(self):
        """two pillows on FOUR vertices: (a,b,c) on both sides and (b,c,d) on both sides, the second triangle over a PARALLEL edge
        b-c; either [hf, opp hf, x, opp x] or, with duplicate faces, without any opposite pair by handle.  Four triangles, four
        distinct vertices, every halfedge matched once: the topology-checked add_cell must reject (fix 814053a)"""
        r = self.r
        lv = self.st().live_v()
        if len(lv) < 4: return
        a, b, c, d = r.shuffle(list(lv))[:4]
        f1 = self.do("@AddFV %d %d %d" % (a, b, c)).result()
        if not isinstance(f1, int): return
        e1 = self.do("@AddE %d %d 1" % (b, c)).result()
        e2 = self.do("@AddE %d %d 0" % (c, d)).result()
        e3 = self.do("@AddE %d %d 0" % (d, b)).result()
        if not all(isinstance(x, int) for x in (e1, e2, e3)): return
        s = self.st()
        def he(e, x): return 2 * e + (0 if s.E[e][0] == x else 1)
        hes = [he(e1, b), he(e2, c), he(e3, d)]
        f2 = self.do("@AddF 1 " + " ".join(map(str, hes))).result()
        if not isinstance(f2, int): return
        chk = 1        # only the CHECKED call: unchecked, the pillow is stored (caller's responsibility) and the impl-side oracle judges it
        if r.chance(1, 2):
            self.do("@AddC %d %d %d %d %d" % (chk, 2 * f1, 2 * f1 + 1, 2 * f2, 2 * f2 + 1))
        else:
            g1 = self.do("@AddF 1 " + " ".join(map(str, self.st().F[f1]))).result()
            g2 = self.do("@AddF 1 " + " ".join(map(str, hes))).result()
            if isinstance(g1, int) and isinstance(g2, int):
                self.do("@AddC %d %d %d %d %d" % (chk, 2 * f1, 2 * g1 + 1, 2 * f2, 2 * g2 + 1))
        self.do("QTetAll")

    def tet_malformed(self):
        s = self.st(); r = self.r
        lv, le, lf = s.live_v(), s.live_e(), s.live_f()
        c = r.below(13)
        if c == 0 and lv: self.do("@TAddCellV %d %s" % (r.below(2), " ".join(str(r.pick(lv)) for _ in range(r.pick([0, 3, 5, 4, 4])))))
        elif c == 1 and lv: self.do("@AddFV " + " ".join(str(r.pick(lv)) for _ in range(r.pick([1, 2, 4, 5]))))
        elif c == 2 and le: self.do("@AddF %d %s" % (r.below(2), " ".join(str(2 * r.pick(le) + r.below(2)) for _ in range(r.pick([0, 1, 2, 4, 3])))))
        elif c == 3 and lf: self.do("@AddC %d %s" % (r.below(2), " ".join(str(2 * r.pick(lf) + r.below(2)) for _ in range(r.pick([0, 2, 3, 5, 4, 4])))))
        elif c == 4 and lf:
            h = 2 * r.pick(lf) + r.below(2)
            self.do("@AddC 0 %d %d %d %d" % (h, h, h, h))                    # a halfface four times
        elif c == 5 and lf:
            f = r.pick(lf)
            if len(s.F[f]) == 3:                                              # pillow: a second face on the same halfedges
                st = self.do("@AddF 0 " + " ".join(map(str, s.F[f])))
                g = st.result()
                if isinstance(g, int):
                    f2 = r.pick(lf)
                    if len(s.F[f2]) == 3:
                        st2 = self.do("@AddF 0 " + " ".join(map(str, s.F[f2])))
                        g2 = st2.result()
                        if isinstance(g2, int):
                            self.do("@AddC %d %d %d %d %d" % (r.below(2), 2 * f, 2 * g + 1, 2 * f2, 2 * g2 + 1))
        elif c == 6 and le: self.do("@THalfFace %d %s" % (r.below(2), " ".join(str(2 * r.pick(le) + r.below(2)) for _ in range(r.pick([1, 2, 3, 3, 4])))))
        elif c == 7 and lv: self.do("@TAddCell4 %d %s" % (r.below(2), " ".join(str(r.pick(lv)) for _ in range(4))))
        elif c == 8: self.collapse_some()
        elif c == 9: self.do("@TAddCellV 1 %d %d %d %d" % (40 + r.below(5), 1, 2, 3))
        elif c == 10 and lv: self.do("@THalfEdge %d %d" % (r.pick(lv), r.pick(lv)))
        elif c == 11: self.pillow4()
        else: self.tet_queries()

    # ------------------------------------------------------------------ hexes
    def hex8(self, v, check=None):
        """v: bottom 0123 (counter-clockwise seen from above), top 4567 with 4 above 0 -> the library's order"""
        chk = self.r.below(2) if check is None else check
        lib = [v[0], v[1], v[2], v[3], v[4], v[7], v[6], v[5]]
        return self.do("@HAddCellV %d %s" % (chk, " ".join(map(str, lib)))).result()

    def grid_hex(self, vid, i, j, k):
        return [vid(i, j, k), vid(i + 1, j, k), vid(i + 1, j + 1, k), vid(i, j + 1, k),
                vid(i, j, k + 1), vid(i + 1, j, k + 1), vid(i + 1, j + 1, k + 1), vid(i, j + 1, k + 1)]

    def hex_block(self, nx, ny, nz=1, holes=0):
        r = self.r
        base = self.st().nv
        self.add_vertices((nx + 1) * (ny + 1) * (nz + 1))
        def vid(i, j, k): return base + (k * (ny + 1) + j) * (nx + 1) + i
        cells = [(i, j, k) for k in range(nz) for j in range(ny) for i in range(nx)]
        skip = set(r.shuffle(cells)[:holes])
        for (i, j, k) in r.shuffle(cells):
            if (i, j, k) in skip: continue
            v = self.grid_hex(vid, i, j, k)
            # rotate / mirror-free relabel of the cube so that the first axis differs from cell to cell
            t = r.below(6)
            if t == 1: v = [v[1], v[2], v[3], v[0], v[5], v[6], v[7], v[4]]
            elif t == 2: v = [v[0], v[4], v[5], v[1], v[3], v[7], v[6], v[2]]
            elif t == 3: v = [v[0], v[3], v[7], v[4], v[1], v[2], v[6], v[5]]
            elif t == 4: v = [v[6], v[5], v[4], v[7], v[2], v[1], v[0], v[3]]
            if r.chance(1, 6):
                q = r.pick([(v[0], v[1], v[2], v[3]), (v[4], v[5], v[6], v[7]), (v[0], v[1], v[5], v[4])])
                if self.find_face(q) is None: self.pre_face(q)
            self.hex8(v)

    def hex_ring(self, n):
        """a closed sheet: n hexes around a common axis (a bent block closing on itself)"""
        base = self.st().nv
        self.add_vertices(4 * n)
        def vid(i, a): return base + 4 * (i % n) + a        # section i: inner-bottom, outer-bottom, outer-top, inner-top
        for i in self.r.shuffle(range(n)):
            self.hex8([vid(i, 0), vid(i, 1), vid(i + 1, 1), vid(i + 1, 0), vid(i, 3), vid(i, 2), vid(i + 1, 2), vid(i + 1, 3)])

    def hex_build(self):
        r = self.r
        c = r.below(9)
        if c >= 7: self.hex_block(3, 3, 1 if c == 7 else 1 + r.below(2))      # a cell whose four sides orthogonal to an axis are all interior
        elif c == 0: self.hex_block(1 + r.below(3), 1, 1)
        elif c == 1: self.hex_block(2, 2, 1, holes=r.below(2))
        elif c == 2: self.hex_block(2, 2, 2, holes=r.below(3))
        elif c == 3: self.hex_ring(3 + r.below(3))
        elif c == 4: self.hex_block(3, 2, 1, holes=2)            # bent: an L / U shape
        elif c == 5: self.hex_block(1, 1, 1); self.hex_block(2, 1, 1)
        else: self.hex_block(1, 1, 1 + r.below(3))

    def readd_permuted(self):
        """delete a cell and add it again through the topology-checked add_cell with its halffaces permuted"""
        s = self.st(); r = self.r
        lc = s.live_c()
        if not lc: return
        c = r.pick(lc)
        hfs = list(s.C[c])
        if not clean(s): return
        self.do("@DelC %d" % c)
        self.do("@AddC 1 " + " ".join(map(str, r.shuffle(hfs))))

    def hex_queries(self):
        s = self.st(); r = self.r
        lc, lf, le = s.live_c(), s.live_f(), s.live_e()
        c = r.below(10)
        if c < 4 or not lc or not lf or not le: self.do("QHexAll"); return
        cell = r.pick(lc); hfs = s.C[cell]
        hf = r.pick(hfs) if hfs and r.chance(3, 4) else 2 * r.pick(lf) + r.below(2)
        if c == 4: self.do("@QOR %d %d" % (hf, r.pick(lc)))
        elif c == 5: self.do("@QOPP %d %d" % (hf, r.pick(lc)))
        elif c == 6: self.do("@QGOH %d %d" % (r.pick([0, 1, 2, 3, 4, 5, 6, 7, 255]), cell))
        elif c == 7: self.do("@QSHEET %d %d" % (hf, 2 * r.pick(le) + r.below(2)))
        elif c == 8: self.do("@QCSC %d %d" % (cell, r.pick([0, 1, 2, 3, 4, 5, 6, 9, 255])))
        else: self.do("@QSURF %d %d" % (hf, 2 * r.pick(le) + r.below(2)))

    def hex_malformed(self):
        s = self.st(); r = self.r
        lv, le, lf, lc = s.live_v(), s.live_e(), s.live_f(), s.live_c()
        c = r.below(12)
        if c == 11:
            # six quads on eight fresh vertices that surround top and bottom in the right order although top (0,1,2,3) and bottom
            # (0,4,2,5) SHARE two vertices (in every side face the edges to top and bottom are adjacent, not opposite): a closed
            # surface, eight distinct vertices, no hexahedron - the topology-checked add_cell must reject it (fix "hex halfface
            # ordering check must require vertex-disjoint top and bottom faces"); vertices relabelled, faces rotated, list rotated
            base = s.nv
            self.add_vertices(8)
            lab = r.shuffle(list(range(8)))
            quads = [(0, 1, 2, 3), (0, 4, 2, 5), (1, 0, 5, 6), (3, 2, 4, 7), (5, 2, 1, 6), (4, 0, 3, 7)]
            hfs = []
            for q in quads:
                k = r.below(4)
                f = self.do("@AddFV " + " ".join(str(base + lab[q[(i + k) % 4]]) for i in range(4))).result()
                if not isinstance(f, int): return
                hfs.append(2 * f)
            if r.chance(1, 3): hfs = [hfs[0], hfs[1]] + r.shuffle(hfs[2:])       # the re-ordering path
            self.do("@AddC %d %s" % (1 if r.chance(4, 5) else 0, " ".join(map(str, hfs))))
        elif c == 10:
            # a cube on fresh vertices with one vertex named twice (a cell pinched in a vertex; the antipodal pair keeps the
            # surface closed), mostly WITH topology check: must be rejected before any face is created (fix "checked hex
            # add_cell must reject cells without eight distinct vertices")
            base = s.nv
            self.add_vertices(8)
            v = [base + i for i in range(8)]
            i = r.below(8)
            j = [6, 7, 4, 5, 2, 3, 0, 1][i] if r.chance(2, 3) else (i + 1 + r.below(7)) % 8
            v[j] = v[i]
            self.hex8(v, 1 if r.chance(3, 4) else 0)
        elif c == 0 and lv: self.do("@HAddCellV %d %s" % (r.below(2), " ".join(str(r.pick(lv)) for _ in range(r.pick([0, 4, 7, 9, 8, 8])))))
        elif c == 1 and lv: self.do("@AddFV " + " ".join(str(r.pick(lv)) for _ in range(r.pick([1, 2, 3, 5]))))
        elif c == 2 and le: self.do("@AddF %d %s" % (r.below(2), " ".join(str(2 * r.pick(le) + r.below(2)) for _ in range(r.pick([0, 3, 5, 4])))))
        elif c == 3 and lf: self.do("@AddC %d %s" % (r.below(2), " ".join(str(2 * r.pick(lf) + r.below(2)) for _ in range(r.pick([0, 4, 5, 7, 6, 6])))))
        elif c in (4, 5, 6) and lc:
            # a valid list damaged: one halfface replaced / doubled / flipped, passed WITH topology check
            cell = r.pick(lc); hfs = [h ^ 1 for h in s.C[cell]]
            used = s.used_halffaces()
            m = r.below(4)
            if m == 0 and lf: hfs[r.below(len(hfs))] = 2 * r.pick(lf) + r.below(2)
            elif m == 1: hfs[r.below(len(hfs))] = hfs[0]
            elif m == 2: hfs[r.below(len(hfs))] ^= 1
            hfs = r.shuffle(hfs)
            if not any(h in used for h in hfs) or r.chance(1, 3):
                self.do("@AddC 1 " + " ".join(map(str, hfs)))
        elif c == 7 and lf:
            self.do("@AddC 1 " + " ".join(str(2 * r.pick(lf) + r.below(2)) for _ in range(6)))
        else: self.hex_queries()

    # ------------------------------------------------------------------ profiles
    def full_mode(self):
        """all incidences on (what the tet/hex construction and query functions need), random deletion mode"""
        r = self.r
        self.do("EnDef %d" % r.below(2)); self.do("EnFast %d" % r.below(2))

    def loop(self, nops, step):
        """nops generator actions; an action that trips over a stale handle of the inspected state is skipped"""
        for _ in range(nops):
            try:
                step()
            except (IndexError, ValueError, TypeError, KeyError, AttributeError):
                pass

    def step_tetvalid(self):
        r = self.r
        c = r.below(20)
        if c < 5: self.collapse_some()
        elif c < 8: self.tet_queries()
        elif c < 10: self.risky(self.delete_some, "VEFC" if r.chance(1, 2) else "C")
        elif c == 10: self.risky(self.do, "GC")
        elif c == 11: self.tet_build()
        elif c == 12: self.risky(self.do, "EnDef %d" % r.below(2))
        elif c == 13: self.do("EnFast %d" % r.below(2))
        elif c == 14: self.set_props(2)
        elif c == 15: self.risky(self.swap_some)
        elif c == 16: self.checked_adds()
        elif c == 17: self.do("QTetAll")
        elif c == 18:
            if r.chance(1, 3): self.toggle()
            else: self.fill_props()
        else: self.tet_malformed() if r.chance(1, 3) else self.tet_queries()

    def step_tetmal(self):
        r = self.r
        c = r.below(10)
        if c < 5: self.tet_malformed()
        elif c < 7: self.tet_queries()
        elif c == 7: self.collapse_some()
        elif c == 8: self.set_something() if r.chance(1, 2) else self.risky(self.delete_some)
        else: self.do("QTetAll")

    def step_hexvalid(self):
        r = self.r
        c = r.below(16)
        if c < 4: self.readd_permuted()
        elif c < 7: self.hex_queries()
        elif c < 9: self.risky(self.delete_some, "VEFC" if r.chance(1, 2) else "C")
        elif c == 9: self.risky(self.do, "GC")
        elif c == 10: self.hex_build()
        elif c == 11: self.risky(self.do, "EnDef %d" % r.below(2))
        elif c == 12: self.do("EnFast %d" % r.below(2))
        elif c == 13: self.risky(self.swap_some)
        elif c == 14: self.do("QHexAll")
        else: self.hex_malformed() if r.chance(1, 3) else self.hex_queries()

    def step_hexmal(self):
        r = self.r
        c = r.below(10)
        if c < 6: self.hex_malformed()
        elif c < 8: self.hex_queries()
        elif c == 8: self.set_something() if r.chance(1, 2) else self.risky(self.delete_some)
        else: self.do("QHexAll")

    def run_profile(self, nops):
        r = self.r; p = self.profile
        if p == "tetvalid":
            self.full_mode()
            if r.chance(2, 3): self.create_props(1 + r.below(3))
            # a live bool property on halfedges and on halffaces (collapse_edge swaps every half-entity of a rebuilt tet,
            # mostly with itself: a swap(i,i) that disturbs a bool shows in the P lines and in the token oracle)
            self.do("PCreate HE 0 bool"); self.ptypes["HE"].append("bool")
            self.do("PCreate HF 1 bool"); self.ptypes["HF"].append("bool")
            self.tet_build()
            self.fill_props()
            self.do("QTetAll")
            self.loop(nops, self.step_tetvalid)
            self.do("EnVBU 1"); self.do("EnEBU 1"); self.do("EnFBU 1")
            self.do("QTetAll")
        elif p == "tetmal":
            self.mode(bu=7 if r.chance(2, 3) else None)
            self.create_props(1)
            self.tet_build()
            if r.chance(1, 2): self.debris()
            self.loop(nops, self.step_tetmal)
        elif p == "tetprops":
            # property arrays of every value type on all seven kinds, then collapses in the chosen deletion mode
            self.full_mode()
            types = ["int", "bool", "string", "double", "vec3d", "vh"]
            for k in kgen.KINDS:
                for t in (["int", "bool"] if k in ("HE", "HF") else [r.pick(types)]):
                    self.do("PCreate %s %d %s" % (k, r.below(2) if t == "bool" else r.below(7), t))
                    self.ptypes[k].append(t)
            self.tet_build()
            if r.chance(1, 2): self.tet_ball()
            self.fill_props()
            def step():
                c = r.below(8)
                if c < 6: self.collapse_some()
                elif c == 6: self.set_props(6)
                else: self.risky(self.do, "GC")
            self.loop(nops, step)
        elif p == "hexvalid":
            self.full_mode()
            if r.chance(1, 2): self.create_props(1 + r.below(2))
            self.hex_build()
            self.fill_props()
            self.do("QHexAll")
            self.loop(nops, self.step_hexvalid)
            self.do("EnVBU 1"); self.do("EnEBU 1"); self.do("EnFBU 1")
            self.do("QHexAll")
        elif p == "hexmal":
            self.mode(bu=7 if r.chance(2, 3) else None)
            # face 0 is an isolated quad: an invalid handle left by the re-ordering path reads as halfface 1 and can
            # then never close the surface (the signature of the known finding is aimed at by the corpus only)
            self.add_vertices(4); self.do("@AddFV 0 1 2 3")
            self.hex_build()
            self.loop(nops, self.step_hexmal)
        else:
            raise ValueError(p)

def cube_perm_script(sess, rng, name, perms):
    """one cube whose faces are stored in random rotation / side; each permutation of its halfface list goes through
    the topology-checked add_cell, is queried, and the cell is deleted again (immediate deletion: handle 0 is reused)"""
    g = Gen(sess, rng, "hexperm", "hex")
    g.do("EnDef 0"); g.do("EnFast %d" % rng.below(2))
    g.add_vertices(8)
    v = list(range(8))
    quads = [(v[0], v[1], v[2], v[3]), (v[7], v[6], v[5], v[4]), (v[1], v[0], v[4], v[5]),
             (v[2], v[1], v[5], v[6]), (v[3], v[2], v[6], v[7]), (v[0], v[3], v[7], v[4])]
    for q in quads:
        if rng.chance(1, 2): g.pre_face(q)
    c = g.hex8(v, check=1)
    s = g.st()
    base = list(s.C[c])
    g.do("QHexAll")
    g.do("@DelC %d" % c)
    for p in perms:
        res = g.do("@AddC 1 " + " ".join(str(base[i]) for i in p)).result()
        if isinstance(res, int):
            g.do("QHexAll")
            g.do("@DelC %d" % res)

def stratified_perms(rng, n):
    """every first element x every position of the opposite halfface, then random ones"""
    allp = list(itertools.permutations(range(6)))
    if n >= len(allp): return allp
    out, seen = [], set()
    for first in range(6):
        for pos in range(1, 6):
            cand = [p for p in allp if p[0] == first and p[pos] == (first ^ 1)]
            p = rng.pick(cand)
            if p not in seen: seen.add(p); out.append(p)
    while len(out) < n:
        p = rng.pick(allp)
        if p not in seen: seen.add(p); out.append(p)
    return out[:n]

KIND = {"tetvalid": "tet", "tetmal": "tet", "tetprops": "tet", "hexvalid": "hex", "hexmal": "hex", "hexperm": "hex"}

def generate(driver, seed, count, profiles, nops, out_path, prefix="g", perm_count=60):
    sess = Session(driver)
    names = []
    with open(out_path, "w") as out:
        for i in range(count):
            profile = profiles[i % len(profiles)]
            rng = Rng((seed * 1000003 + i) * 0x9E3779B97F4A7C15 + hash_str(profile))
            name = "%s-%d-%d-%s" % (prefix, seed, i, profile)
            sess.begin(name, KIND[profile])
            try:
                if profile == "hexperm":
                    cube_perm_script(sess, rng, name, stratified_perms(rng, perm_count))
                else:
                    Gen(sess, rng, profile, KIND[profile]).run_profile(nops)
            except ScriptDead:
                pass          # the model predicts UB for the last line: both sides stop there
            out.write("#### %s\n" % name)
            for ln in sess.lines: out.write(ln + "\n")
            names.append(name)
    sess.close()
    return names

if __name__ == "__main__":
    import argparse
    ap = argparse.ArgumentParser()
    root = os.path.dirname(os.path.dirname(os.path.abspath(__file__)))
    ap.add_argument("--driver", default=os.path.join(root, "build/ml/thdriver/thdriver"))
    ap.add_argument("--seed", type=int, default=int(os.environ.get("VERIF_SEED", "1")))
    ap.add_argument("--count", type=int, default=10)
    ap.add_argument("--nops", type=int, default=20)
    ap.add_argument("--perms", type=int, default=60)
    ap.add_argument("--profiles", default="tetvalid,tetmal,hexvalid,hexmal,hexperm")
    ap.add_argument("--out", required=True)
    a = ap.parse_args()
    generate(a.driver, a.seed, a.count, a.profiles.split(","), a.nops, a.out, perm_count=a.perms)
