#!/usr/bin/env python3
"""Generator of C19 inputs: vector cases for harness/run_geo --vec / ocaml/geodriver vec and mesh
scripts for --mesh / mesh.  ONE SplitMix64 state seeded from the seed argument (VERIF_SEED); the
generated file is the replay.

Vector case line:   <ty> <dim> <kind> <mask> values...
  ty    i (int)  u (unsigned)  f (float)  d (double)
  kind  U unary (a)   B binary (a b)   S vector-scalar (a s)   C conversion (a; mask = target types)
        T stream round trip (a b)
  mask  x  order-type operations that are exact on every value (==, <, max/min, minimize...)
        a  arithmetic (+ - *, dot, cross, norms, means)  -- operands chosen so that int does not overflow
        d  division (skipped by both sides when a divisor component is 0)
  scalars: int/unsigned decimal; double x<16 hex digits>; float y<8 hex digits> (IEEE bit patterns)

Streams of cases, aimed at the case splits of the proofs (first differing component of <, ties in
max/min, sign of every cross-product term, negative components for l1_norm/mean/abs, wrap-around of
unsigned, divisors of both signs):
  lattice   {-2..2}^d exhaustively: all vectors (unary), ALL pairs for d = 2, 3 in `thorough`,
            all pairs for d = 2 and a deterministic 1/7 subset for d = 3 in `quick`, sampled pairs for d = 4
  random    bounded random integers / random floats with spread exponents, repeated components (ties)
  special   INT_MIN/INT_MAX, 2^32-1, -0.0, subnormals, huge/tiny magnitudes (mask x only where arithmetic
            would overflow), int -> float conversions that must round
Malformed inputs in the sense of "outside the documented contract" are the zero divisors (skipped by both
sides), the degenerate faces and zero-length edges of the mesh scripts, and out-of-range Pos / handles.
"""
import itertools, struct, sys

MASK = (1 << 64) - 1

class Rng:
    def __init__(self, seed):
        self.s = (seed * 0x9E3779B97F4A7C15 + 0xC19) & MASK
    def next(self):
        self.s = (self.s + 0x9E3779B97F4A7C15) & MASK
        z = self.s
        z = ((z ^ (z >> 30)) * 0xBF58476D1CE4E5B9) & MASK
        z = ((z ^ (z >> 27)) * 0x94D049BB133111EB) & MASK
        return z ^ (z >> 31)
    def below(self, n): return self.next() % n if n > 0 else 0
    def chance(self, num, den): return self.below(den) < num
    def pick(self, l): return l[self.below(len(l))]
    def range(self, lo, hi): return lo + self.below(hi - lo + 1)
    def shuffle(self, l):
        l = list(l)
        for i in range(len(l) - 1, 0, -1):
            j = self.below(i + 1); l[i], l[j] = l[j], l[i]
        return l

def dbits(x): return "x%016x" % struct.unpack("<Q", struct.pack("<d", x))[0]
def fbits(x): return "y%08x" % struct.unpack("<I", struct.pack("<f", x))[0]
def tof32(x): return struct.unpack("<f", struct.pack("<f", x))[0]

def fmt(ty, v):
    if ty in "iu": return str(int(v))
    return dbits(float(v)) if ty == "d" else fbits(float(v))

def case(ty, d, kind, mask, *groups):
    vals = []
    for g in groups:
        if isinstance(g, (list, tuple)): vals += [fmt(ty, x) for x in g]
        else: vals.append(fmt(ty, g))
    return "%s %d %s %s %s" % (ty, d, kind, mask, " ".join(vals))

INT_MAX, INT_MIN, UMAX = 2**31 - 1, -2**31, 2**32 - 1

def rand_double(r, emin=-40, emax=40):
    c = r.below(12)
    if c == 0: return 0.0
    if c == 1: return float(r.range(-3, 3))
    m = 1.0 + r.below(1 << 52) / float(1 << 52)
    x = m * 2.0 ** r.range(emin, emax)
    return -x if r.chance(1, 2) else x

def rand_float(r): return tof32(rand_double(r, -12, 12))

def rand_vec(r, ty, d, lim=10000):
    if ty == "i": v = [r.range(-lim, lim) if r.chance(3, 4) else r.range(-3, 3) for _ in range(d)]
    elif ty == "u": v = [r.pick([r.below(5), r.below(70000), r.below(1 << 32), UMAX - r.below(3)]) for _ in range(d)]
    elif ty == "d": v = [rand_double(r) for _ in range(d)]
    else: v = [rand_float(r) for _ in range(d)]
    if r.chance(1, 5):            # ties: repeat a component (max_element/min_element take the FIRST extremum)
        i, j = r.below(d), r.below(d); v[j] = v[i]
    if r.chance(1, 8) and ty in "id":   # |x| ties with opposite signs (max_abs / min_abs)
        i, j = r.below(d), r.below(d); v[j] = -v[i]
    return v

def vec_cases(seed, quick):
    r = Rng(seed)
    out = []
    lat = [-2, -1, 0, 1, 2]
    ulat = [0, 1, 2, 3, 4]
    # ---- lattice, exhaustive
    for ty, L in (("i", lat), ("u", ulat), ("d", lat), ("f", lat)):
        for d in (2, 3, 4):
            vecs = list(itertools.product(L, repeat=d))
            for a in vecs:
                if ty in "iu" or d < 4 or (sum(a) % 3 == 0):
                    out.append(case(ty, d, "U", "xad", a))
            for a in vecs:
                if d == 4 and (a[0] + 2 * a[1] + 3 * a[2] + a[3]) % 5: continue
                for s in L:
                    if ty in "iu" or (s + a[0]) % 2 == 0:
                        out.append(case(ty, d, "S", "xad", a, s))
            if d == 2:
                pairs = itertools.product(vecs, vecs)
                if quick and ty in "uf": pairs = (p for k, p in enumerate(itertools.product(vecs, vecs)) if k % 5 == 0)
                for a, b in pairs: out.append(case(ty, d, "B", "xad", a, b))
            elif d == 3:
                if ty == "i":
                    step = 7 if quick else 1
                elif ty == "d":
                    step = 61 if quick else 3
                else:
                    step = 211 if quick else 11
                for k, (a, b) in enumerate(itertools.product(vecs, vecs)):
                    if k % step == 0: out.append(case(ty, d, "B", "xad", a, b))
            else:
                n = (300 if quick else 20000) if ty == "i" else (60 if quick else 2000)
                for _ in range(n):
                    out.append(case(ty, d, "B", "xad", r.pick(vecs), r.pick(vecs)))
    # ---- random
    n_rand = 400 if quick else 20000
    for ty in "iudf":
        for d in (2, 3, 4):
            for _ in range(n_rand):
                a, b = rand_vec(r, ty, d), rand_vec(r, ty, d)
                if r.chance(1, 6):      # equal prefixes: the LAST component decides operator<
                    k = r.range(1, d - 1) if d > 1 else 0
                    b = a[:k] + b[k:]
                if r.chance(1, 20): b = list(a)
                out.append(case(ty, d, "B", "xad", a, b))
                out.append(case(ty, d, "U", "xad", a))
                s = rand_vec(r, ty, 1, 3000)[0]
                out.append(case(ty, d, "S", "xad", a, s))
    # ---- special values
    iext = [INT_MIN, INT_MIN + 1, -1, 0, 1, INT_MAX - 1, INT_MAX]
    uext = [0, 1, 2**31 - 1, 2**31, UMAX - 1, UMAX]
    dext = [0.0, -0.0, 5e-324, -5e-324, 2.2250738585072014e-308, 1.7976931348623157e308, -1.7976931348623157e308, 1.0, -1.0,
            1.0 + 2.0 ** -52, 1.0 - 2.0 ** -53]
    fext = [0.0, -0.0, 1e-45, -1e-45, 1.17549435e-38, 3.4028234663852886e38, -3.4028234663852886e38, 1.0, -1.0, tof32(1.0 + 2.0 ** -23)]
    for ty, ext in (("i", iext), ("u", uext), ("d", dext), ("f", fext)):
        for d in (2, 3, 4):
            n = 120 if quick else 3000
            for _ in range(n):
                a = [r.pick(ext) for _ in range(d)]; b = [r.pick(ext) for _ in range(d)]
                if r.chance(1, 3): b = a[:d - 1] + [r.pick(ext)]
                out.append(case(ty, d, "B", "x", a, b))
                out.append(case(ty, d, "U", "x", a))
                out.append(case(ty, d, "S", "x", a, r.pick(ext)))
                if ty == "u":      # unsigned arithmetic is defined for every value (wraps)
                    out.append(case(ty, d, "B", "xad", a, b)); out.append(case(ty, d, "U", "xa", a))
    # negative components / l1_norm, mean, mean_abs (integer division truncates toward zero)
    for d in (2, 3, 4):
        for _ in range(60 if quick else 2000):
            a = [r.range(-9, 9) for _ in range(d)]
            out.append(case("i", d, "U", "xad", a)); out.append(case("d", d, "U", "xad", a)); out.append(case("f", d, "U", "xad", a))
    out.append(case("d", 3, "U", "xad", [-1.0, 2.0, 0.0]))      # DESIGN D12
    out.append(case("i", 3, "U", "xad", [-1, 2, 0]))
    # ---- conversions
    for d in (2, 3, 4):
        for _ in range(80 if quick else 3000):
            a = [r.pick([r.range(-10000, 10000), r.range(INT_MIN, INT_MAX), 16777217, -16777219, INT_MAX, INT_MIN, 0]) for _ in range(d)]
            out.append(case("i", d, "C", "iufd", a))
            u = [r.pick([r.below(70000), r.below(1 << 32), UMAX, 2**31, 16777217, 0]) for _ in range(d)]
            out.append(case("u", d, "C", "iufd", u))
            x = [r.pick([rand_double(r, -8, 30), float(r.range(-5, 5)), r.range(-10**6, 10**6) / 8.0, 2147483647.0, -2147483648.0, 0.99999, -0.99999]) for _ in range(d)]
            out.append(case("d", d, "C", "ifd", x))
            out.append(case("d", d, "C", "u", [abs(v) for v in x]))
            y = [tof32(r.pick([rand_double(r, -8, 29), float(r.range(-5, 5)), r.range(-10**5, 10**5) / 8.0, 2147483520.0, -2147483648.0])) for _ in range(d)]
            out.append(case("f", d, "C", "ifd", y))
            out.append(case("f", d, "C", "u", [abs(v) for v in y]))
    # ---- streams
    for ty in "iudf":
        for d in (2, 3, 4):
            for _ in range(40 if quick else 1500):
                a, b = rand_vec(r, ty, d), rand_vec(r, ty, d)
                if ty == "i" and r.chance(1, 4): a[0] = r.pick(iext)
                # (subnormals are left out: glibc strtod reports ERANGE for them and libstdc++ then sets failbit)
                if ty == "d" and r.chance(1, 4): a[0] = r.pick([x for x in dext if x == 0 or abs(x) > 1e-300])
                if ty == "f" and r.chance(1, 4): a[0] = r.pick([x for x in fext if x == 0 or abs(x) > 1e-37])
                out.append(case(ty, d, "T", "-", a, b))
    return out

# ------------------------------------------------------------------------------------ floating-point leg
# Cases for the bit-exact comparison of the library with the Flocq model evaluated in Coq (coq/Geo/FloatModel.v,
# FloatDriver.v).  Same line format; types d and f only; kinds U, B, S with mask xad (every operation), and C
# (conversions double <-> float, int -> float/double).  Values come from one pool per type: special values
# (signed zeros, smallest / largest subnormals and normals, infinities, quiet and signalling NaN patterns, values
# whose square or product overflows or underflows, 2^53 and neighbours, halfway cases), random bit patterns over
# the WHOLE exponent range, random values of moderate exponent (rounding of every sum and product matters: the
# accumulation ORDER of dot / sqrnorm / l1_norm / mean_abs is visible in the last bit), small integers,
# near-cancelling pairs.

D_SPECIAL = [0x0000000000000000, 0x8000000000000000, 0x0000000000000001, 0x8000000000000001, 0x000fffffffffffff, 0x800fffffffffffff,
             0x0010000000000000, 0x8010000000000000, 0x7fefffffffffffff, 0xffefffffffffffff, 0x7ff0000000000000, 0xfff0000000000000,
             0x7ff8000000000000, 0xfff8000000000000, 0x7ff0000000000001, 0x7ff4000000abcdef,
             0x3ff0000000000000, 0xbff0000000000000, 0x3ff0000000000001, 0x3fefffffffffffff, 0x4340000000000000, 0x4340000000000001,
             0x433fffffffffffff, 0x3fe0000000000000, 0x3ff8000000000000, 0x3fd5555555555555, 0x3fb999999999999a, 0x4008000000000000,
             0x5fefffffffffffff, 0x5ff0000000000000, 0x5fe6a09e667f3bcd, 0xdfe6a09e667f3bcd, 0x1e60000000000000, 0x1e5fffffffffffff,
             0x2000000000000000, 0x9ff0000000000000, 0x7fe0000000000000, 0xffe0000000000000, 0x0020000000000000, 0x3ca0000000000000,
             0x4000000000000000, 0xc000000000000000, 0x7fd0000000000000, 0x0008000000000000]
F_SPECIAL = [0x00000000, 0x80000000, 0x00000001, 0x80000001, 0x007fffff, 0x807fffff, 0x00800000, 0x80800000, 0x7f7fffff, 0xff7fffff,
             0x7f800000, 0xff800000, 0x7fc00000, 0xffc00000, 0x7f800001, 0x7fa0beef, 0x3f800000, 0xbf800000, 0x3f800001, 0x3f7fffff,
             0x4b800000, 0x4b800001, 0x4b7fffff, 0x3f000000, 0x3fc00000, 0x3eaaaaab, 0x3dcccccd, 0x40400000, 0x5f7fffff, 0x5f800000,
             0x5f3504f3, 0xdf3504f3, 0x1f800000, 0x20000000, 0x7f000000, 0xff000000, 0x01000000, 0x33800000, 0x40000000, 0xc0000000, 0x00400000]

def fl_value(r, ty, mode):
    """one bit pattern (as the token xHEX / yHEX)"""
    if ty == "d":
        if mode == 0: b = r.pick(D_SPECIAL)
        elif mode == 1: b = r.next()                                                   # any pattern: the whole exponent range, NaN/inf included
        elif mode == 2: b = (r.below(2) << 63) | (r.range(1023 - 6, 1023 + 6) << 52) | r.below(1 << 52)     # moderate exponents
        elif mode == 3: return dbits(float(r.range(-50, 50)))
        elif mode == 4: b = (r.below(2) << 63) | (r.pick([1, 2, 3, 1022, 1023, 1024, 2044, 2045, 2046, 511, 512, 513, 1535, 1536]) << 52) | r.below(1 << 52)
        else: b = (r.below(2) << 63) | r.below(1 << 52)                                # subnormals
        return "x%016x" % (b & MASK)
    if mode == 0: b = r.pick(F_SPECIAL)
    elif mode == 1: b = r.next() & 0xffffffff
    elif mode == 2: b = (r.below(2) << 31) | (r.range(127 - 6, 127 + 6) << 23) | r.below(1 << 23)
    elif mode == 3: return fbits(float(r.range(-50, 50)))
    elif mode == 4: b = (r.below(2) << 31) | (r.pick([1, 2, 3, 126, 127, 128, 252, 253, 254, 63, 64, 65, 190, 191]) << 23) | r.below(1 << 23)
    else: b = (r.below(2) << 31) | r.below(1 << 23)
    return "y%08x" % b

def fl_vec(r, ty, d, mode):
    """mode 6 = mixed pool per component"""
    return [fl_value(r, ty, r.below(6) if mode == 6 else mode) for _ in range(d)]

def fl_neg(tok):
    if tok[0] == "x": return "x%016x" % (int(tok[1:], 16) ^ (1 << 63))
    return "y%08x" % (int(tok[1:], 16) ^ (1 << 31))

def float_cases(seed, quick):
    r = Rng(seed ^ 0xF10A7)
    out = []
    def line(ty, d, kind, mask, vals): out.append("%s %d %s %s %s" % (ty, d, kind, mask, " ".join(vals)))
    for ty, share in (("d", 3), ("f", 1)):
        n = (12 if quick else 250) * share
        for d in (2, 3, 4):
            for mode in (0, 1, 2, 2, 3, 4, 5, 6):
                for _ in range(n // 3 if mode in (1, 3, 5) else n):
                    a, b = fl_vec(r, ty, d, mode), fl_vec(r, ty, d, mode)
                    c = r.below(10)
                    if c == 0: b = list(a)
                    elif c == 1: k = r.below(d); b[k] = fl_neg(a[k])                       # cancellation / |x| ties
                    elif c == 2: k = r.range(1, d - 1); b = a[:k] + b[k:]                  # equal prefix: a later component decides <
                    elif c == 3: k = r.below(d); a[k] = fl_value(r, ty, 0)                 # one special component among ordinary ones
                    line(ty, d, "B", "xad", a + b)
                    line(ty, d, "U", "xad", a)
                    line(ty, d, "S", "xad", a + [fl_value(r, ty, r.pick([0, 2, 3, mode]) if mode != 6 else r.below(6))])
        # order of accumulation: huge + small - huge (exact answer small, left-to-right loses it at a definite place)
        big, one = ("x4690000000000000", "x3ff0000000000000") if ty == "d" else ("y5c800000", "y3f800000")
        for d in (3, 4):
            base = [big, one, fl_neg(big), one][:d]
            ones = [one] * d
            for perm in itertools.permutations(range(d)):
                line(ty, d, "B", "xad", [base[i] for i in perm] + ones)
                line(ty, d, "U", "xad", [base[i] for i in perm])
        # conversions
        for d in (2, 3, 4):
            for _ in range(20 if quick else 600):
                line(ty, d, "C", "f" if ty == "d" else "d", fl_vec(r, ty, d, 6))
    for d in (2, 3, 4):
        for _ in range(20 if quick else 600):
            line("i", d, "C", "fd", [str(r.pick([r.range(-10000, 10000), r.range(INT_MIN, INT_MAX), 16777217, -16777219, 16777216, 33554434, 33554438, INT_MAX, INT_MIN, 0]))
                                     for _ in range(d)])
    return out

def float_mesh_scripts(seed, quick):
    """mesh scripts whose positions are arbitrary binary64 patterns (PosB): the shapes of mesh_script with the
    integer positions replaced, plus degenerate shapes; every live entity is queried (Q)."""
    r = Rng(seed ^ 0xF6E0)
    n = 14 if quick else 600
    out = {}
    for i in range(n):
        lines = mesh_script(r, i)
        mode = i % 5          # 0: keep the integer positions (exactly representable)   1..4: replace
        new = []
        for l in lines:
            t = l.split()
            if t[0] == "Pos" and mode:
                m = {1: 2, 2: 6, 3: 1, 4: 0}[mode]
                if int(t[1]) >= 0: l = "PosB %s %s" % (t[1], " ".join(fl_value(r, "d", m if not r.chance(1, 6) else 0) for _ in range(3)))
            elif t[0] == "Pos":
                if int(t[1]) >= 0: l = "PosB %s %s" % (t[1], " ".join(dbits(float(int(x))) for x in t[2:5]))
            new.append(l)
        out["fgeo-%d-%d" % (seed, i)] = new
    return out

def search_cases(seed, n):
    """extra random cases for the impl-side oracle search (used when a proof or the correspondence broke)"""
    r = Rng(seed ^ 0x5EA7C4)
    out = []
    for _ in range(n):
        ty = r.pick("iudf"); d = r.pick([2, 3, 4])
        a, b = rand_vec(r, ty, d, 2000), rand_vec(r, ty, d, 2000)
        out.append(case(ty, d, "B", "xad", a, b)); out.append(case(ty, d, "U", "xad", a))
        out.append(case(ty, d, "S", "xad", a, rand_vec(r, ty, 1, 300)[0]))
    return out

# ------------------------------------------------------------------------------------ meshes

class MeshGen:
    """builds a script with ABSOLUTE operands, tracking only what it needs (vertex count, faces by cycle)"""
    def __init__(self, r, check=0):
        self.r = r; self.lines = []; self.nv = 0; self.faces = []   # faces: vertex cycles
        self.check = check                                          # topology-check flag passed to add_cell
        self.used = set()                                           # halffaces already bounding a cell
    def do(self, l): self.lines.append(l)
    def add_vertices(self, n, pts=None):
        base = self.nv
        if self.r.chance(1, 2): self.do("@AddVs %d" % n)
        else:
            for _ in range(n): self.do("@AddV")
        self.nv += n
        if pts is not None:
            for i, p in enumerate(pts): self.pos(base + i, p)
        return base
    def pos(self, v, p): self.do("Pos %d %d %d %d" % (v, p[0], p[1], p[2]))
    def find_face(self, vs):
        n = len(vs)
        for f, cyc in enumerate(self.faces):
            if len(cyc) != n: continue
            rev = [cyc[0]] + cyc[:0:-1]
            for side, c in ((0, cyc), (1, rev)):
                for k in range(n):
                    if c[k:] + c[:k] == list(vs): return 2 * f + side
        return None
    def face_on(self, vs):
        hf = self.find_face(vs)
        if hf is not None: return hf
        self.do("@AddFV " + " ".join(map(str, vs)))
        self.faces.append(list(vs))
        return 2 * (len(self.faces) - 1)
    def cell(self, cycles):
        hfs = [self.face_on(c) for c in cycles]
        # a halfface may bound at most one cell: if one is taken, use the other side of every face; if that is
        # taken too the cell is not added (the faces stay as dangling faces)
        if any(h in self.used for h in hfs):
            hfs = [h ^ 1 for h in hfs]
            if any(h in self.used for h in hfs): return
        self.used.update(hfs)
        self.do("@AddC %d " % self.check + " ".join(map(str, self.r.shuffle(hfs))))
    def tet(self, a, b, c, d): self.cell([(a, b, c), (a, c, d), (a, d, b), (b, d, c)])
    def hexa(self, v):
        self.cell([(v[0], v[1], v[2], v[3]), (v[7], v[6], v[5], v[4]), (v[1], v[0], v[4], v[5]),
                   (v[2], v[1], v[5], v[6]), (v[3], v[2], v[6], v[7]), (v[0], v[3], v[7], v[4])])
    def prism(self, v): self.cell([(v[0], v[1], v[2]), (v[5], v[4], v[3]), (v[0], v[3], v[4], v[1]), (v[1], v[4], v[5], v[2]), (v[2], v[5], v[3], v[0])])
    def pyramid(self, v): self.cell([(v[0], v[1], v[2], v[3]), (v[0], v[4], v[1]), (v[1], v[4], v[2]), (v[2], v[4], v[3]), (v[3], v[4], v[0])])

def rpt(r, lim=9): return (r.range(-lim, lim), r.range(-lim, lim), r.range(-lim, lim))

def affine(r):
    """an injective integer affine map of Z^3 (so that images of planar convex polygons stay planar convex)"""
    while True:
        m = [[r.range(-3, 3) for _ in range(3)] for _ in range(3)]
        det = (m[0][0] * (m[1][1] * m[2][2] - m[1][2] * m[2][1]) - m[0][1] * (m[1][0] * m[2][2] - m[1][2] * m[2][0])
               + m[0][2] * (m[1][0] * m[2][1] - m[1][1] * m[2][0]))
        if det != 0: break
    t = rpt(r, 5)
    return lambda p: tuple(sum(m[i][j] * p[j] for j in range(3)) + t[i] for i in range(3))

CONVEX_POLYS = {3: [(0, 0), (2, 0), (0, 2)], 4: [(0, 0), (3, 0), (4, 2), (1, 3)], 5: [(0, 0), (2, -1), (4, 1), (3, 3), (0, 2)],
                6: [(0, 0), (2, -1), (4, 0), (4, 2), (2, 3), (0, 2)], 7: [(0, 0), (2, -1), (4, 0), (5, 2), (4, 4), (2, 5), (0, 3)]}
DART = [(0, 0, 0), (1, 1, 0), (3, 0, 0), (1, 3, 0)]

def mesh_script(r, idx):
    g = MeshGen(r)
    shape = idx % 12
    if r.chance(1, 4): g.do("@EnDef 0")
    if r.chance(1, 4): g.do("@EnFast 0")
    if shape == 0:          # tetrahedra strip, random positions
        k = r.range(1, 4); base = g.add_vertices(3 + k, [rpt(r) for _ in range(3 + k)])
        for i in range(k):
            v = [base + i, base + i + 1, base + i + 2, base + i + 3]
            if i % 2: v[0], v[1] = v[1], v[0]
            g.tet(*v)
    elif shape == 1:        # hexahedra: parallelepipeds (planar convex faces) under an affine map
        nx = r.range(1, 2); f = affine(r)
        pts = [f((i, j, k)) for k in range(2) for j in range(2) for i in range(nx + 1)]
        base = g.add_vertices(len(pts), pts)
        def vid(i, j, k): return base + (k * 2 + j) * (nx + 1) + i
        for i in range(nx):
            g.hexa([vid(i, 0, 0), vid(i + 1, 0, 0), vid(i + 1, 1, 0), vid(i, 1, 0), vid(i, 0, 1), vid(i + 1, 0, 1), vid(i + 1, 1, 1), vid(i, 1, 1)])
    elif shape == 2:        # hexahedron with random positions: non-planar quads
        base = g.add_vertices(8, [rpt(r) for _ in range(8)])
        g.hexa([base + i for i in range(8)])
    elif shape == 3:        # prism + pyramid sharing nothing, affine images of regular shapes
        f = affine(r)
        b = g.add_vertices(6, [f(p) for p in [(0, 0, 0), (2, 0, 0), (0, 2, 0), (0, 0, 3), (2, 0, 3), (0, 2, 3)]])
        g.prism([b + i for i in range(6)])
        b = g.add_vertices(5, [f(p) for p in [(5, 0, 0), (7, 0, 0), (7, 2, 0), (5, 2, 0), (6, 1, 2)]])
        g.pyramid([b + i for i in range(5)])
    elif shape == 4:        # single planar convex polygons with 3..7 vertices, both orientations
        for n in (3, 4, 5, 6, 7):
            f = affine(r); pts = [f((x, y, 0)) for x, y in CONVEX_POLYS[n]]
            if r.chance(1, 2): pts.reverse()
            b = g.add_vertices(n, pts); g.face_on([b + i for i in range(n)])
    elif shape == 5:        # the dart (planar, not convex) and rotations of its vertex order
        for rot in range(4):
            f = affine(r); pts = [f(p) for p in DART]; pts = pts[rot:] + pts[:rot]
            b = g.add_vertices(4, pts); g.face_on([b + i for i in range(4)])
    elif shape == 6:        # degenerate: 2-gons, collinear and repeated points, zero-length edges
        b = g.add_vertices(2, [rpt(r), rpt(r)]); g.face_on([b, b + 1])
        p = rpt(r); dv = rpt(r, 2)
        b = g.add_vertices(3, [p, tuple(p[i] + dv[i] for i in range(3)), tuple(p[i] + 2 * dv[i] for i in range(3))]); g.face_on([b, b + 1, b + 2])
        q = rpt(r)
        b = g.add_vertices(3, [q, q, rpt(r)]); g.face_on([b, b + 1, b + 2])
        b = g.add_vertices(4, [q, q, q, q]); g.tet(b, b + 1, b + 2, b + 3)
    elif shape == 7:        # random polygons (non-planar), 3..6 vertices
        for _ in range(r.range(2, 4)):
            n = r.range(3, 6); b = g.add_vertices(n, [rpt(r) for _ in range(n)]); g.face_on([b + i for i in range(n)])
    elif shape == 8:        # fan of tets around an edge
        k = r.range(2, 5); base = g.add_vertices(2 + k, [rpt(r) for _ in range(2 + k)])
        for i in range(k): g.tet(base, base + 1, base + 2 + i, base + 2 + (i + 1) % k)
    elif shape == 9:        # positions left at the default (0,0,0) for some vertices; vertices without position writes
        base = g.add_vertices(4); g.pos(base + 1, rpt(r)); g.pos(base + 3, rpt(r)); g.tet(base, base + 1, base + 2, base + 3)
        g.do("Pos %d 1 2 3" % (g.nv + 5)); g.do("Pos -1 1 2 3")          # out of range: rejected by both sides
    elif shape == 10:       # two tets sharing a face + hex, larger coordinates
        base = g.add_vertices(5, [rpt(r, 1000) for _ in range(5)])
        g.tet(base, base + 1, base + 2, base + 3); g.tet(base + 1, base, base + 2, base + 4)
        b = g.add_vertices(8, [rpt(r, 300) for _ in range(8)]); g.hexa([b + i for i in range(8)])
    else:                   # pyramid over a convex quad with random apex
        f = affine(r); b = g.add_vertices(5, [f(p) for p in [(0, 0, 0), (3, 0, 0), (4, 2, 0), (1, 3, 0)]] + [rpt(r)])
        g.pyramid([b + i for i in range(5)])
    g.do("Q")
    # histories: moving a vertex, swapping, deleting, compacting -- positions must stay attached
    for _ in range(r.range(0, 3)):
        c = r.below(8)
        if c == 0 and g.nv: g.pos(r.below(g.nv), rpt(r))
        elif c == 1 and g.nv > 1: g.do("@SwapV %d %d" % (r.below(g.nv), r.below(g.nv)))
        elif c == 2 and g.nv: g.do("@DelV %d" % r.below(g.nv))
        elif c == 3 and g.faces: g.do("@DelF %d" % r.below(len(g.faces)))
        elif c == 4: g.do("@DelC 0")
        elif c == 5 and g.faces: g.do("@SwapF %d %d" % (r.below(len(g.faces)), r.below(len(g.faces))))
        elif c == 6: g.do("@DelE %d" % r.below(4))
        else: g.do("@GC")
        g.do("Q")
    if r.chance(1, 2): g.do("@GC"); g.do("Q")
    return g.lines

def conc_scripts(seed, count):
    """meshes for the C20 harness on the specialised kernels: '%mesh tet' strips / fans, '%mesh hex' blocks"""
    r = Rng(seed ^ 0xC20)
    out = {}
    for i in range(count):
        if i % 2 == 0:
            g = MeshGen(r); g.do("%mesh tet")
            if r.chance(1, 2):
                k = r.range(1, 6); base = g.add_vertices(3 + k, [rpt(r) for _ in range(3 + k)])
                for j in range(k):
                    v = [base + j, base + j + 1, base + j + 2, base + j + 3]
                    if j % 2: v[0], v[1] = v[1], v[0]
                    g.tet(*v)
            else:
                k = r.range(3, 6); base = g.add_vertices(2 + k, [rpt(r) for _ in range(2 + k)])
                for j in range(k): g.tet(base, base + 1, base + 2 + j, base + 2 + (j + 1) % k)
            out["conc-tet-%d-%d" % (seed, i)] = g.lines
        else:
            g = MeshGen(r, check=1); g.do("%mesh hex")
            nx, ny = r.range(1, 3), r.range(1, 2); f = affine(r)
            pts = [f((a, b, c)) for c in range(2) for b in range(ny + 1) for a in range(nx + 1)]
            base = g.add_vertices(len(pts), pts)
            def vid(a, b, c): return base + (c * (ny + 1) + b) * (nx + 1) + a
            for a in range(nx):
                for b in range(ny):
                    g.hexa([vid(a, b, 0), vid(a + 1, b, 0), vid(a + 1, b + 1, 0), vid(a, b + 1, 0),
                            vid(a, b, 1), vid(a + 1, b, 1), vid(a + 1, b + 1, 1), vid(a, b + 1, 1)])
            out["conc-hex-%d-%d" % (seed, i)] = g.lines
    return out

def mesh_scripts(seed, quick):
    r = Rng(seed ^ 0x6E0)
    n = 72 if quick else 1800
    return {"geo-%d-%d" % (seed, i): mesh_script(r, i) for i in range(n)}

if __name__ == "__main__":
    seed = int(sys.argv[2]) if len(sys.argv) > 2 else 1
    if sys.argv[1] == "vec":
        for l in vec_cases(seed, len(sys.argv) <= 3 or sys.argv[3] == "quick"): print(l)
    else:
        for name, lines in mesh_scripts(seed, len(sys.argv) <= 3 or sys.argv[3] == "quick").items():
            print("#### " + name)
            for l in lines: print(l)
