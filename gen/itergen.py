#!/usr/bin/env python3
"""Generator of iterator/circulator query scripts (C05, query side of C01).

Builds mesh states with the model-guided kernel generator gen/kgen.py (same script language, same
single SplitMix64 stream seeded from (seed, script index, profile)) and inserts lines

    Query <max_laps> <walk> <walk> ...

where each walk is a string over {+,-}: a forward/backward step sequence applied to EVERY entity
iterator, circulator (on every centre entity) and boundary iterator by both sides.  A Query does not
change the mesh, so the kernel driver never sees it: it is appended to the recorded script only.

States are aimed at the case splits of the C05 proofs: deferred-deleted entities at the front / middle /
end of each array, every subset of disabled incidence kinds, isolated vertices / dangling edges / faces
without cells / cells without halffaces (empty circulators), valence 0/1/2, self-loops, parallel edges,
2-gons, cells touching in a vertex or an edge, self-adjacent cells; walks cross lap boundaries in both
directions, start with '-', and run past the end.

The two signatures of DESIGN section 8 that abort or are recorded findings are not produced here:
D8 (bc_iter() with face incidences off) is guarded inside the Query itself (both sides print "U"), the
unguarded call exists only as the corpus line `QueryBC`; D11 (valid() after stepping back from end)
is exercised in lock step on every Query (the model is faithful), but the *protocol oracle* that fails on
it runs only on the corpus line `QueryD11`.
"""
import os, sys
sys.path.insert(0, os.path.dirname(os.path.abspath(__file__)))
import kgen

PROFILES = ["iter", "valid", "iterdel", "setops", "itermodes", "malformed", "swaps"]

def walk(r, maxlen=10):
    c = r.below(7)
    if c == 0:   # forward over a lap boundary and back
        k = 1 + r.below(6)
        return "+" * k + "-" * (1 + r.below(k + 2))
    if c == 1:   # backward first (leaves the valid range at begin), then forward
        k = 1 + r.below(3)
        return "-" * k + "+" * (1 + r.below(k + 3))
    if c == 2:   # far forward (past the end for small lists)
        return "+" * (3 + r.below(maxlen))
    if c == 3:   # zig-zag
        return "".join("+-"[(i + r.below(2)) % 2] for i in range(2 + r.below(maxlen)))
    return "".join("+" if r.below(3) else "-" for _ in range(1 + r.below(maxlen)))

class IterGen(kgen.Gen):
    """kgen.Gen whose every executed operation may be followed by a Query line"""
    def __init__(self, sess, rng, profile, qden=7, qmax=5):
        base = profile if profile in ("valid", "setops", "malformed", "swaps") else "valid"
        super().__init__(sess, rng, base)
        self.iprofile = profile
        self.nq = 0
        self.qden, self.qmax = qden, qmax
        self.quiet = 0

    def query(self):
        r = self.r
        m = 1 + r.below(3)
        ws = [walk(r) for _ in range(1 + r.below(3))]
        self.s.lines.append("Query %d %s" % (m, " ".join(ws)))
        self.nq += 1

    def do(self, line):
        st = super().do(line)
        if not self.quiet and self.nq < self.qmax and not line.startswith(("PSet", "@PSet", "PCreate", "PDrop")) and self.r.chance(1, self.qden):
            self.query()
        return st

    # ---- fragments aimed at empty / tiny circulators
    def tiny(self):
        r = self.r
        base = self.st().nv
        self.add_vertices(3 + r.below(3))
        lv = list(range(base, self.st().nv))
        c = r.below(7)
        if c == 0: self.do("@AddE %d %d 1" % (lv[0], lv[0]))                      # self-loop: out[v] = [2e, 2e+1]
        elif c == 1:
            self.do("@AddE %d %d 1" % (lv[0], lv[1])); self.do("@AddE %d %d 1" % (lv[0], lv[1]))   # parallel edges
            self.do("@AddE %d %d 1" % (lv[1], lv[0]))
        elif c == 2: self.do("@AddFV %d %d" % (lv[0], lv[1]))                    # 2-gon using both halfedges of one edge
        elif c == 3: self.do("@AddC 0")                                           # a cell without halffaces
        elif c == 4:                                                               # face without cell, edge without face, isolated vertex
            self.do("@AddFV %d %d %d" % (lv[0], lv[1], lv[2])); self.do("@AddE %d %d 0" % (lv[0], lv[-1]))
        elif c == 5:                                                               # cell made of ONE halfface (open, unchecked)
            f = self.do("@AddFV %d %d %d" % (lv[0], lv[1], lv[2])).result()
            if isinstance(f, int): self.do("@AddC 0 %d" % (2 * f + r.below(2)))
        else:                                                                      # self-adjacent cell: both halffaces of a face
            f = self.do("@AddFV %d %d %d" % (lv[0], lv[1], lv[2])).result()
            if isinstance(f, int) and r.chance(1, 2): self.do("@AddC 0 %d %d" % (2 * f, 2 * f + 1))

    def delete_front_middle_end(self):
        """deferred deletions aimed at the first / last / middle entity of each array"""
        s = self.st(); r = self.r
        for k, l in (("V", s.live_v()), ("E", s.live_e()), ("F", s.live_f()), ("C", s.live_c())):
            if not l or r.chance(1, 3): continue
            v = [l[0], l[-1], l[len(l) // 2]][r.below(3)]
            self.do("@Del%s %d" % (k, v))
            s = self.st()

    def run(self, nops):
        r = self.r; p = self.iprofile
        if p in ("valid", "setops", "malformed", "swaps"):
            self.run_profile(nops)
        elif p == "iter":
            self.mode(deferred=1 if r.chance(3, 4) else None)
            self.quiet = 1; self.build(); self.quiet = 0
            if r.chance(2, 3): self.tiny()
            self.query()
            for _ in range(nops):
                c = r.below(12)
                if c < 4: self.delete_some()
                elif c < 6: self.delete_front_middle_end()
                elif c == 6: self.toggle()
                elif c == 7: self.tiny()
                elif c == 8: self.do("GC")
                elif c == 9: self.swap_some()
                elif c == 10: self.debris()
                else: self.do("EnDef %d" % r.below(2))
        elif p == "iterdel":
            # deleted prefixes / suffixes: everything deferred, delete from both ends inward
            self.mode(deferred=1, bu=7 if r.chance(1, 2) else None)
            self.quiet = 1; self.build(); self.quiet = 0
            self.tiny()
            for _ in range(nops):
                self.delete_front_middle_end()
                if self.nq < self.qmax + 3 and r.chance(1, 2): self.query()
                if r.chance(1, 5): self.do("GC")
                if r.chance(1, 6): self.toggle()
        elif p == "itermodes":
            # every subset of incidence kinds on the same mesh
            self.mode(bu=7)
            self.quiet = 1; self.build(); self.quiet = 0
            if r.chance(1, 2): self.tiny()
            if r.chance(1, 2): self.delete_front_middle_end()
            order = r.shuffle(range(8))
            for b in order[:max(2, min(8, nops // 3))]:
                self.quiet = 1
                self.do("EnVBU %d" % (b & 1)); self.do("EnEBU %d" % ((b >> 1) & 1)); self.do("EnFBU %d" % ((b >> 2) & 1))
                self.quiet = 0
                self.qmax += 1
                self.query()
        else:
            raise ValueError(p)
        if self.nq == 0 or r.chance(1, 2):
            self.qmax += 1
            self.query()

def generate(driver, seed, count, profiles, nops, out_path, prefix="q"):
    """driver: an executable speaking kdriver's interactive protocol (build/ml/iterdriver/iterdriver or kdriver)"""
    sess = kgen.Session(driver)
    names = []
    with open(out_path, "w") as out:
        for i in range(count):
            profile = profiles[i % len(profiles)]
            rng = kgen.Rng((seed * 1000003 + i) * 0x9E3779B97F4A7C15 + kgen.hash_str("iter:" + profile))
            name = "%s-%d-%d-%s" % (prefix, seed, i, profile)
            sess.begin(name)
            g = IterGen(sess, rng, profile)
            g.run(nops)
            out.write("#### %s\n" % name)
            for ln in sess.lines: out.write(ln + "\n")
            names.append(name)
    sess.close()
    return names

if __name__ == "__main__":
    import argparse
    ap = argparse.ArgumentParser()
    ap.add_argument("--driver", default=os.path.join(os.path.dirname(os.path.dirname(os.path.abspath(__file__))), "build/ml/iterdriver/iterdriver"))
    ap.add_argument("--seed", type=int, default=int(os.environ.get("VERIF_SEED", "1")))
    ap.add_argument("--count", type=int, default=20)
    ap.add_argument("--nops", type=int, default=20)
    ap.add_argument("--profiles", default=",".join(PROFILES))
    ap.add_argument("--out", required=True)
    a = ap.parse_args()
    generate(a.driver, a.seed, a.count, a.profiles.split(","), a.nops, a.out)
