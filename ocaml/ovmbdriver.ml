(* ovmbdriver.ml -- runs the extracted OVMB models (coq/IO: encode, decode_impl, decode_impl_failing, decode_spec) on the
   same case files as harness/run_io.cc and prints the same canonical text.
     case <id> mode=read mesh=poly|tet|hex check=0|1 bu=0|1 api=... fault=none|read@<k> [spec=1]
     hex <bytes>            -> "== id" / "result=<ReadResult> state=<ReadState>" / mesh block when Ok [/ "spec=none|same|differs"]
     case <id> mode=encode mesh=poly|tet|hex topo=poly|tet|hex pending=0|1 accepts=<k>|inf
     nv / E / F / C / POS / W lines (the harness's observed block, properties in writer order)
                           -> "== id" / "wresult=..." / "detect=<topo>" / "wf=0|1" / "bytes <hex>" /
                              "small=0|1" (every element of encode m is a byte) /
                              "model_rt=ok|<what>" (decode_impl (encode m) = m ?) / "spec_rt=ok|<what>" (decode_spec (encode m) = m ?)
   Hand-written glue only: parsing, int <-> Z conversion, printing. *)
open Ovmb_model

let rec nat_of_int n = if n <= 0 then O else S (nat_of_int (n - 1))
let rec pos_of_int n = if n <= 1 then XH else if n land 1 = 0 then XO (pos_of_int (n lsr 1)) else XI (pos_of_int (n lsr 1))
let z_of_int n = if n = 0 then Z0 else if n > 0 then Zpos (pos_of_int n) else Zneg (pos_of_int (-n))
let rec int_of_pos = function XH -> 1 | XO p -> 2 * int_of_pos p | XI p -> 2 * int_of_pos p + 1
let int_of_z = function Z0 -> 0 | Zpos p -> int_of_pos p | Zneg p -> - (int_of_pos p)

let buf = Stdlib.Buffer.create (1 lsl 20)
let pr fmt = Stdlib.Printf.bprintf buf fmt

let hexdigit c = match c with '0' .. '9' -> Stdlib.Char.code c - 48 | 'a' .. 'f' -> Stdlib.Char.code c - 87 | 'A' .. 'F' -> Stdlib.Char.code c - 55 | _ -> failwith "hex"
let bytes_of_hex h : int list =
  if h = "-" then [] else Stdlib.List.init (Stdlib.String.length h / 2) (fun i -> 16 * hexdigit h.[2 * i] + hexdigit h.[2 * i + 1])
let hex_of_ints (l : int list) =
  let b = Stdlib.Buffer.create (2 * Stdlib.List.length l) in
  Stdlib.List.iter (fun x -> Stdlib.Buffer.add_string b (Stdlib.Printf.sprintf "%02x" x)) l; Stdlib.Buffer.contents b
let hex_or_dash l = if l = [] then "-" else hex_of_ints l
let zbytes (l : int list) : z list = Stdlib.List.map z_of_int l
let ibytes (l : z list) : int list = Stdlib.List.map int_of_z l
(* a 64-bit pattern <-> its 8 little-endian bytes *)
let pattern_of_hex h = le_decode (zbytes (bytes_of_hex h))
let hex_of_pattern p = hex_of_ints (ibytes (le_encode (nat_of_int 8) p))
let string_of_ints l = Stdlib.String.init (Stdlib.List.length l) (fun i -> Stdlib.Char.chr (Stdlib.List.nth l i))

let ent_names = [| "V"; "E"; "HE"; "F"; "HF"; "C"; "M" |]
let code_of_order = [| 0; 1; 4; 2; 5; 3; 6 |]          (* for_each_entity order -> OVMB PropertyEntity *)
let order_of_code c = let r = ref 6 in Stdlib.Array.iteri (fun i x -> if x = c then r := i) code_of_order; !r

let result_name = function RR_Ok -> "Ok" | RR_OtherError -> "OtherError" | RR_InvalidFile -> "InvalidFile"
  | RR_CannotOpenFile -> "CannotOpenFile" | RR_BadStream -> "BadStream" | RR_IncompatibleMesh -> "IncompatibleMesh"
let state_name = function S_Ok -> "Ok" | S_CannotOpenFile -> "CannotOpenFile" | S_BadStream -> "BadStream" | S_Init -> "Init"
  | S_HeaderRead -> "HeaderRead" | S_ReadingChunks -> "ReadingChunks" | S_Finished -> "Finished" | S_Error -> "Error"
  | S_ErrorInvalidFile -> "ErrorInvalidFile" | S_ErrorEndNotReached -> "ErrorEndNotReached" | S_ErrorIncompatible -> "ErrorIncompatible"
  | S_ErrorChunkTooBig -> "ErrorChunkTooBig" | S_ErrorMissingData -> "ErrorMissingData"
  | S_ErrorUnsupportedChunkType -> "ErrorUnsupportedChunkType" | S_ErrorUnsupportedChunkVersion -> "ErrorUnsupportedChunkVersion"
  | S_ErrorInvalidTopoType -> "ErrorInvalidTopoType" | S_ErrorHandleRange -> "ErrorHandleRange"
  | S_ErrorInvalidEncoding -> "ErrorInvalidEncoding" | S_ErrorEmptyList -> "ErrorEmptyList" | S_ErrorInvalidChunkSize -> "ErrorInvalidChunkSize"
let ub_name = function UB_edge_index -> "edge_index" | UB_face_index -> "face_index" | UB_empty_face -> "empty_face" | UB_fuel -> "fuel"

type cprop = { cent : int; cname : int list; ctype : Stdlib.String.t; cdef : int list; cvals : int list list }

let cprops (m : meshfile) : cprop list =
  Stdlib.List.map (fun p -> { cent = order_of_code (int_of_z p.p_ent); cname = ibytes p.p_name; ctype = string_of_ints (ibytes p.p_tname);
                       cdef = ibytes p.p_def; cvals = Stdlib.List.map ibytes p.p_vals }) m.m_props

let mesh_block (m : meshfile) (dim : int) =
  let nv = int_of_z m.m_nv in
  pr "nv %d\n" nv;
  pr "E%s\n" (Stdlib.String.concat "" (Stdlib.List.map (fun (a, b) -> Stdlib.Printf.sprintf " %d,%d" (int_of_z a) (int_of_z b)) m.m_edges));
  let hl l = "[" ^ Stdlib.String.concat " " (Stdlib.List.map (fun h -> string_of_int (int_of_z h)) l) ^ "]" in
  pr "F%s\n" (Stdlib.String.concat "" (Stdlib.List.map (fun l -> " " ^ hl l) m.m_faces));
  pr "C%s\n" (Stdlib.String.concat "" (Stdlib.List.map (fun l -> " " ^ hl l) m.m_cells));
  pr "POS%s\n" (Stdlib.String.concat "" (Stdlib.List.map (fun p -> " " ^ Stdlib.String.concat "," (Stdlib.List.map hex_of_pattern p)) m.m_pos));
  let ps = Stdlib.List.stable_sort (fun a b -> compare (a.cent, string_of_ints a.cname, a.ctype) (b.cent, string_of_ints b.cname, b.ctype)) (cprops m) in
  Stdlib.List.iter (fun p ->
      pr "P %s %s %s def=%s n=%d :%s\n" ent_names.(p.cent) (hex_or_dash p.cname) p.ctype (hex_or_dash p.cdef) (Stdlib.List.length p.cvals)
        (Stdlib.String.concat "" (Stdlib.List.map (fun v -> " " ^ hex_or_dash v) p.cvals))) ps

let canon (m : meshfile) =
  let save = Stdlib.Buffer.contents buf in
  Stdlib.Buffer.clear buf; mesh_block m 3; let s = Stdlib.Buffer.contents buf in
  Stdlib.Buffer.clear buf; Stdlib.Buffer.add_string buf save; s

type case = { mutable id : Stdlib.String.t; mutable mode : Stdlib.String.t; mutable mesh : Stdlib.String.t; mutable check : int; mutable bu : int;
              mutable fault : Stdlib.String.t; mutable topo : Stdlib.String.t; mutable pending : int; mutable accepts : Stdlib.String.t; mutable spec : int;
              mutable bytes : int list list; mutable lines : Stdlib.String.t list }

let split_ws s = Stdlib.List.filter (fun x -> x <> "") (Stdlib.String.split_on_char ' ' (Stdlib.String.trim s))

let mkind = function "tet" -> MTet | "hex" -> MHex | _ -> MPoly
let topo_code = function "tet" -> 1 | "hex" -> 2 | _ -> 0
let topo_name z = match int_of_z z with 1 -> "tet" | 2 -> "hex" | _ -> "poly"

let u64_at (b : int array) off =
  (* None when the value does not fit 62 bits *)
  let v = ref 0 and big = ref false in
  for i = 7 downto 0 do
    if off + i < Stdlib.Array.length b then begin
      if !v >= 1 lsl 53 then big := true;
      v := !v * 256 + b.(off + i) end
  done;
  if !big then None else Some !v

let run_read (c : case) =
  let bytes = Stdlib.List.concat (Stdlib.List.rev c.bytes) in
  let arr = Stdlib.Array.of_list bytes in
  let big = Stdlib.Array.length arr >= 48 &&
            Stdlib.List.exists (fun off -> match u64_at arr off with None -> true | Some v -> v > 1 lsl 22) [16; 24; 32; 40] in
  if big then pr "result=BIG state=-\n"
  else begin
    let o = { o_mesh = mkind c.mesh; o_check = c.check <> 0; o_bu = c.bu <> 0; o_dim = z_of_int 3 } in
    let zb = zbytes bytes in
    let out =
      if Stdlib.String.length c.fault > 5 && Stdlib.String.sub c.fault 0 5 = "read@" then
        decode_impl_failing o (z_of_int (int_of_string (Stdlib.String.sub c.fault 5 (Stdlib.String.length c.fault - 5)))) zb
      else decode_impl o zb in
    (match out with
     | ROk m -> pr "result=Ok state=Ok\n"; mesh_block m 3
     | RErr (r, s) -> pr "result=%s state=%s\n" (result_name r) (state_name s)
     | RUB w -> pr "!! UB %s\n" (ub_name w));
    if c.spec <> 0 then begin
      match decode_spec (z_of_int 3) zb, out with
      | None, _ -> pr "spec=none\n"
      | Some ms, ROk m -> pr "spec=%s\n" (if canon ms = canon m then "same" else "differs")
      | Some _, _ -> pr "spec=accepts-but-impl-rejects\n"
    end
  end

let parse_mesh (lines : Stdlib.String.t list) : meshfile =
  let nv = ref 0 and es = ref [] and fs = ref [] and cs = ref [] and pos = ref [] and props = ref [] in
  let parse_ll rest =
    (* "[a b] [c d]" *)
    let out = ref [] and cur = ref [] and inb = ref false and tok = Stdlib.Buffer.create 8 in
    let flush () = if Stdlib.Buffer.length tok > 0 then begin cur := int_of_string (Stdlib.Buffer.contents tok) :: !cur; Stdlib.Buffer.clear tok end in
    Stdlib.String.iter (fun ch -> match ch with
        | '[' -> inb := true; cur := []
        | ']' -> flush (); out := Stdlib.List.rev !cur :: !out; inb := false
        | ' ' -> flush ()
        | ch -> if !inb then Stdlib.Buffer.add_char tok ch) rest;
    Stdlib.List.rev !out in
  Stdlib.List.iter (fun l ->
      let l = Stdlib.String.trim l in
      let tag, rest = match Stdlib.String.index_opt l ' ' with None -> l, "" | Some i -> Stdlib.String.sub l 0 i, Stdlib.String.sub l (i + 1) (Stdlib.String.length l - i - 1) in
      match tag with
      | "nv" -> nv := int_of_string (Stdlib.String.trim rest)
      | "E" -> es := Stdlib.List.map (fun t -> match Stdlib.String.split_on_char ',' t with [a; b] -> (z_of_int (int_of_string a), z_of_int (int_of_string b)) | _ -> failwith "E") (split_ws rest)
      | "F" -> fs := Stdlib.List.map (Stdlib.List.map z_of_int) (parse_ll rest)
      | "C" -> cs := Stdlib.List.map (Stdlib.List.map z_of_int) (parse_ll rest)
      | "POS" -> pos := Stdlib.List.map (fun t -> Stdlib.List.map pattern_of_hex (Stdlib.String.split_on_char ',' t)) (split_ws rest)
      | "W" ->
        (match split_ws rest with
         | kind :: name :: ty :: def :: _n :: ":" :: vals | kind :: name :: ty :: def :: _n :: vals ->
           let vals = Stdlib.List.filter (fun v -> v <> ":") vals in
           let ent = let r = ref 6 in Stdlib.Array.iteri (fun i x -> if x = kind then r := i) ent_names; code_of_order.(!r) in
           let def = Stdlib.String.sub def 4 (Stdlib.String.length def - 4) in
           props := { p_ent = z_of_int ent; p_name = zbytes (bytes_of_hex name);
                      p_tname = zbytes (Stdlib.List.init (Stdlib.String.length ty) (fun i -> Stdlib.Char.code ty.[i]));
                      p_def = zbytes (bytes_of_hex def); p_vals = Stdlib.List.map (fun v -> zbytes (bytes_of_hex v)) vals } :: !props
         | _ -> failwith "W")
      | _ -> ()) lines;
  { m_nv = z_of_int !nv; m_pos = !pos; m_edges = !es; m_faces = !fs; m_cells = !cs; m_props = Stdlib.List.rev !props }

let run_encode (c : case) =
  let m = parse_mesh (Stdlib.List.rev c.lines) in
  let dim = z_of_int 3 in
  let topo = z_of_int (topo_code c.topo) in
  let full = encode dim topo m in
  let accepts = if c.accepts = "inf" then z_of_int (Stdlib.List.length full + 1) else z_of_int (int_of_string c.accepts) in
  let (wr, bytes) = write_result (c.pending <> 0) dim topo m accepts in
  pr "wresult=%s\n" (match wr with WOk -> "Ok" | WError -> "Error" | WCannotOpenFile -> "CannotOpenFile" | WBadStream -> "BadStream");
  pr "detect=%s\n" (topo_name (detect_topo (z_of_int (topo_code c.mesh)) m));
  pr "wf=%d\n" (if wf_fileb dim m then 1 else 0);
  pr "bytes %s\n" (hex_or_dash (ibytes bytes));
  (* the hypothesis `small (encode m)` of C18_prefix, evaluated: every element a byte (length < 2^62 is vacuous here) *)
  pr "small=%d\n" (if Stdlib.List.for_all (fun b -> b >= 0 && b < 256) (ibytes full) then 1 else 0);
  if c.pending = 0 then begin
    (* the supported (unknown-type properties are not written) part of m, for the model-side round trips *)
    let m' = { m with m_props = Stdlib.List.filter (fun p -> codec_of p.p_tname <> None) m.m_props } in
    let o = { o_mesh = mkind c.mesh; o_check = false; o_bu = false; o_dim = dim } in
    (match decode_impl o full with
     | ROk r -> pr "model_rt=%s\n" (if canon r = canon m' then "ok" else "differs")
     | RErr (r, s) -> pr "model_rt=%s/%s\n" (result_name r) (state_name s)
     | RUB w -> pr "model_rt=UB-%s\n" (ub_name w));
    (* decode_spec keeps its tables as association lists (quadratic): evaluated on files up to 20 kB only *)
    if Stdlib.List.length full > 20000 then pr "spec_rt=skipped\n" else
    (match decode_spec dim full with
     | Some r -> pr "spec_rt=%s\n" (if canon r = canon m' then "ok" else "differs")
     | None -> pr "spec_rt=none\n")
  end

let () =
  let ic = if Stdlib.Array.length Sys.argv > 1 then open_in Sys.argv.(1) else stdin in
  let cur = ref None in
  let fresh () = { id = ""; mode = "read"; mesh = "poly"; check = 1; bu = 1; fault = "none"; topo = "poly"; pending = 0;
                   accepts = "inf"; spec = 0; bytes = []; lines = [] } in
  (try
     while true do
       let line = input_line ic in
       if Stdlib.String.length line > 0 && line.[0] <> '#' then begin
         let t = split_ws line in
         match t with
         | "case" :: id :: kv ->
           let c = fresh () in
           c.id <- id;
           Stdlib.List.iter (fun s -> match Stdlib.String.index_opt s '=' with
               | None -> ()
               | Some i ->
                 let k = Stdlib.String.sub s 0 i and v = Stdlib.String.sub s (i + 1) (Stdlib.String.length s - i - 1) in
                 (match k with
                  | "mode" -> c.mode <- v | "mesh" -> c.mesh <- v | "check" -> c.check <- int_of_string v | "bu" -> c.bu <- int_of_string v
                  | "fault" -> c.fault <- v | "topo" -> c.topo <- v | "pending" -> c.pending <- int_of_string v
                  | "accepts" -> c.accepts <- v | "spec" -> c.spec <- int_of_string v | _ -> ())) kv;
           cur := Some c
         | "hex" :: h :: _ -> (match !cur with Some c -> c.bytes <- bytes_of_hex h :: c.bytes | None -> ())
         | "end" :: _ ->
           (match !cur with
            | Some c ->
              pr "== %s\n" c.id;
              (try if c.mode = "encode" then run_encode c else run_read c
               with Stack_overflow -> pr "!! MODEL-STACK\n" | Failure m -> pr "!! MODEL-FAILURE %s\n" m);
              print_string (Stdlib.Buffer.contents buf); Stdlib.Buffer.clear buf
            | None -> ());
           cur := None
         | _ -> (match !cur with Some c -> c.lines <- line :: c.lines | None -> ())
       end
     done
   with End_of_file -> ());
  print_string (Stdlib.Buffer.contents buf)
