(* iterdriver.ml -- runs kernel scripts on the extracted kernel model (coq/Kernel) and, on every
   "Query ..." line, prints what the extracted iterator / circulator model (coq/Iter) says about every
   entity iterator, every circulator class on every centre entity, valence, is_boundary and the six
   boundary iterators.  harness/run_iter.cc prints the same text from the REAL iterators; the two
   outputs are compared line by line (lib/checks_iter.py).
   Script parsing / operand resolution / state dump are those of ocaml/kdriver.ml.
   Hand-written glue only: parsing, nat/Z <-> int, loops that apply the extracted step functions. *)
open Iter_model

let rec nat_of_int n = if n <= 0 then O else S (nat_of_int (n - 1))
let rec int_of_nat = function O -> 0 | S n -> 1 + int_of_nat n
let rec pos_of_int n = if n <= 1 then XH else if n land 1 = 0 then XO (pos_of_int (n lsr 1)) else XI (pos_of_int (n lsr 1))
let z_of_int n = if n = 0 then Z0 else if n > 0 then Zpos (pos_of_int n) else Zneg (pos_of_int (-n))
let rec int_of_pos = function XH -> 1 | XO p -> 2 * int_of_pos p | XI p -> 2 * int_of_pos p + 1
let int_of_z = function Z0 -> 0 | Zpos p -> int_of_pos p | Zneg p -> - (int_of_pos p)

let buf = Buffer.create (1 lsl 20)
let pr fmt = Printf.bprintf buf fmt

let ilist l = String.concat " " (List.map (fun n -> string_of_int (int_of_nat n)) l)
let bools l = String.concat "" (List.map (fun b -> if b then "1" else "0") l)
let b2i b = if b then 1 else 0

let kinds = [ ("V", KV); ("E", KE); ("HE", KHE); ("F", KF); ("HF", KHF); ("C", KC); ("M", KM) ]

let dump (s : mesh) =
  pr "nv %d\n" (int_of_nat s.nv);
  pr "E %s\n" (String.concat " " (List.map (fun (a, b) -> Printf.sprintf "%d,%d" (int_of_nat a) (int_of_nat b)) s.edges));
  pr "F %s\n" (String.concat " " (List.map (fun l -> "[" ^ ilist l ^ "]") s.faces));
  pr "C %s\n" (String.concat " " (List.map (fun l -> "[" ^ ilist l ^ "]") s.cells));
  pr "del V:%s E:%s F:%s C:%s\n" (bools s.vdel) (bools s.edel) (bools s.fdel) (bools s.cdel);
  pr "cnt %d %d %d %d\n" (int_of_nat s.ndv) (int_of_nat s.nde) (int_of_nat s.ndf) (int_of_nat s.ndc);
  pr "flags v=%d e=%d f=%d def=%d fast=%d\n" (b2i s.vbu) (b2i s.ebu) (b2i s.fbu) (b2i s.deferred) (b2i s.fast);
  pr "OUT %s\n" (String.concat " " (List.map (fun l -> "[" ^ ilist l ^ "]") s.out_hes));
  pr "HFS %s\n" (String.concat " " (List.map (fun l -> "[" ^ ilist l ^ "]") s.inc_hfs));
  pr "CELL %s\n" (String.concat " " (List.map (function None -> "-" | Some c -> string_of_int (int_of_nat c)) s.inc_cell));
  List.iter (fun (kn, k) ->
      List.iteri (fun i p ->
          pr "P %s %d def=%d : %s\n" kn i (int_of_z p.pdef)
            (String.concat " " (List.map (fun z -> string_of_int (int_of_z z)) p.pdata)))
        (props k s)) kinds

(* ---- operand resolution (relative operands; "@Op" lines carry absolute operands) *)
let live_list n isdel = List.filter (fun i -> not (List.nth isdel i)) (List.init n (fun i -> i))

exception Unresolvable

let pick l k = match l with [] -> raise Unresolvable | _ -> List.nth l (k mod List.length l)
let modn n k = if n = 0 then raise Unresolvable else k mod n

type resolver = { lv : int -> int; le : int -> int; lf : int -> int; lc : int -> int;
                  lhe : int -> int; lhf : int -> int;
                  av : int -> int; ae : int -> int; af : int -> int; ac : int -> int }

let resolver (s : mesh) abs =
  if abs then
    let id k = k in
    { lv = id; le = id; lf = id; lc = id; lhe = id; lhf = id; av = id; ae = id; af = id; ac = id }
  else
    let nvv = int_of_nat s.nv and nee = List.length s.edges and nff = List.length s.faces and ncc = List.length s.cells in
    let vs = live_list nvv s.vdel and es = live_list nee s.edel and fs = live_list nff s.fdel and cs = live_list ncc s.cdel in
    { lv = pick vs; le = pick es; lf = pick fs; lc = pick cs;
      lhe = (fun k -> 2 * pick es (k / 2) + (k land 1));
      lhf = (fun k -> 2 * pick fs (k / 2) + (k land 1));
      av = modn nvv; ae = modn nee; af = modn nff; ac = modn ncc }

let kind_of_string k = List.assoc k kinds

let parse_op (s : mesh) (toks : string list) : op * string =
  let abs, name, args =
    match toks with
    | [] -> failwith "empty"
    | t :: rest -> if t.[0] = '@' then (true, String.sub t 1 (String.length t - 1), rest) else (false, t, rest) in
  let r = resolver s abs in
  let ints = List.map int_of_string in
  let n = nat_of_int in
  let nl f l = List.map (fun k -> n (f k)) l in
  let echo nm l = nm ^ (if l = [] then "" else " ") ^ String.concat " " (List.map string_of_int l) in
  match name, args with
  | "AddV", [] -> (AddVertex, "AddV")
  | "AddVs", [k] -> (AddVertices (n (int_of_string k)), "AddVs " ^ k)
  | "AddE", [a; b; d] ->
      let a = r.lv (int_of_string a) and b = r.lv (int_of_string b) in
      (AddEdge (n a, n b, d = "1"), echo "AddE" [a; b; int_of_string d])
  | "AddF", c :: hes ->
      let l = List.map r.lhe (ints hes) in
      (AddFace (nl (fun x -> x) l, c = "1"), echo "AddF" (int_of_string c :: l))
  | "AddFV", vs ->
      let l = List.map r.lv (ints vs) in
      (AddFaceV (nl (fun x -> x) l), echo "AddFV" l)
  | "AddC", c :: hfs ->
      let l = List.map r.lhf (ints hfs) in
      (AddCell (nl (fun x -> x) l, c = "1"), echo "AddC" (int_of_string c :: l))
  | "SetE", [e; a; b] ->
      let e = r.le (int_of_string e) and a = r.lv (int_of_string a) and b = r.lv (int_of_string b) in
      (SetEdge (n e, n a, n b), echo "SetE" [e; a; b])
  | "SetF", f :: hes ->
      let f = r.lf (int_of_string f) and l = List.map r.lhe (ints hes) in
      (SetFace (n f, nl (fun x -> x) l), echo "SetF" (f :: l))
  | "SetC", c :: hfs ->
      let c = r.lc (int_of_string c) and l = List.map r.lhf (ints hfs) in
      (SetCell (n c, nl (fun x -> x) l), echo "SetC" (c :: l))
  | "DelV", [v] -> let v = r.lv (int_of_string v) in (DelVertex (n v), echo "DelV" [v])
  | "DelE", [v] -> let v = r.le (int_of_string v) in (DelEdge (n v), echo "DelE" [v])
  | "DelF", [v] -> let v = r.lf (int_of_string v) in (DelFace (n v), echo "DelF" [v])
  | "DelC", [v] -> let v = r.lc (int_of_string v) in (DelCell (n v), echo "DelC" [v])
  | "SwapV", [a; b] -> let a = r.av (int_of_string a) and b = r.av (int_of_string b) in (SwapV (n a, n b), echo "SwapV" [a; b])
  | "SwapE", [a; b] -> let a = r.ae (int_of_string a) and b = r.ae (int_of_string b) in (SwapE (n a, n b), echo "SwapE" [a; b])
  | "SwapF", [a; b] -> let a = r.af (int_of_string a) and b = r.af (int_of_string b) in (SwapF (n a, n b), echo "SwapF" [a; b])
  | "SwapC", [a; b] -> let a = r.ac (int_of_string a) and b = r.ac (int_of_string b) in (SwapC (n a, n b), echo "SwapC" [a; b])
  | "GC", [] -> (CollectGarbage, "GC")
  | "Clear", [b] -> (Clear (b = "1"), "Clear " ^ b)
  | "EnVBU", [b] -> (EnableVBU (b = "1"), "EnVBU " ^ b)
  | "EnEBU", [b] -> (EnableEBU (b = "1"), "EnEBU " ^ b)
  | "EnFBU", [b] -> (EnableFBU (b = "1"), "EnFBU " ^ b)
  | "EnDef", [b] -> (EnableDeferred (b = "1"), "EnDef " ^ b)
  | "EnFast", [b] -> (EnableFast (b = "1"), "EnFast " ^ b)
  | "PCreate", k :: d :: _ -> (PropCreate (kind_of_string k, z_of_int (int_of_string d)), "PCreate " ^ k ^ " " ^ d)
  | "PSet", [k; p; i; v] ->
      let kd = kind_of_string k in
      let ps = props kd s in
      let p = if abs then int_of_string p else modn (List.length ps) (int_of_string p) in
      let len = (try List.length (List.nth ps p).pdata with _ -> 0) in
      let i = if abs then int_of_string i else modn len (int_of_string i) in
      (PropSet (kd, n p, n i, z_of_int (int_of_string v)), Printf.sprintf "PSet %s %d %d %s" k p i v)
  | "PDrop", [k; p] ->
      let kd = kind_of_string k in
      let p = if abs then int_of_string p else modn (List.length (props kd s)) (int_of_string p) in
      (PropDrop (kd, n p), Printf.sprintf "PDrop %s %d" k p)
  | _ -> failwith ("bad op: " ^ String.concat " " toks)

(* ------------------------------------------------------------------ queries *)

let circs = [ ("vv", VV); ("voh", VOH); ("vih", VIH); ("ve", VE); ("vhf", VHF); ("vf", VF); ("vc", VC);
              ("hehf", HEHF); ("hef", HEF); ("hec", HEC); ("ehf", EHF); ("ef", EF); ("ec", EC);
              ("hfhe", HFHE); ("hfe", HFE); ("hfv", HFV); ("fv", FV); ("fhe", FHE); ("fe", FE);
              ("cv", CV); ("che", CHE); ("ce", CE); ("chf", CHF); ("cf", CF); ("cc", CC); ("bhfhf", BHFHF) ]
let ent_kinds = [ ("V", KV); ("E", KE); ("HE", KHE); ("F", KF); ("HF", KHF); ("C", KC) ]
let bnd_kinds = [ ("V", KV); ("HE", KHE); ("E", KE); ("HF", KHF); ("F", KF); ("C", KC) ]

let cur_int = function None -> -1 | Some x -> int_of_nat x
let cobs c = Printf.sprintf "(%d,%d,%d)" (cur_int c.c_cur) (b2i c.c_valid) (int_of_z c.c_lap)
let eobs e = Printf.sprintf "(%d,%d)" (int_of_z e.e_idx) (b2i e.e_valid)
let bobs b = Printf.sprintf "(%d,%d)" (int_of_z b.b_cur) (b2i b.b_valid)

exception UB

let get = function Some x -> x | None -> raise UB

(* forward trace: values while valid, then the state reached; returns (values, final, steps) *)
let ctrace k l m c0 =
  let rec go c acc n =
    if c.c_valid then go (get (circ_next k l m c)) (cur_int c.c_cur :: acc) (n + 1) else (List.rev acc, c, n) in
  go c0 [] 0

let query_entity (s : mesh) (walks : string list) =
  List.iter (fun (kn, k) ->
      let n = int_of_nat (ent_n k s) in
      (try
         let b = get (ent_begin k s O) and e = get (ent_begin k s (ent_n k s)) in
         let rec fwd c acc = if c.e_valid then fwd (get (ent_next k s c)) (int_of_z c.e_idx :: acc) else (List.rev acc, c) in
         let (vals, fin) = fwd b [] in
         let sv = String.concat " " (List.map string_of_int vals) in
         pr "I %s fwd : %s | %s\n" kn sv (eobs fin);
         (* range-for over the (begin,end) pair: for (it = begin; it != end; ++it) *)
         let rec rng c acc fuel =
           if e_eqb c e || fuel = 0 then List.rev acc else rng (get (ent_next k s c)) (int_of_z c.e_idx :: acc) (fuel - 1) in
         pr "I %s range : %s\n" kn (String.concat " " (List.map string_of_int (rng b [] (n + 3))));
         pr "I %s pair : %s %s eq=%d\n" kn (eobs b) (eobs e) (b2i (e_eqb fin e));
         (* backward from end *)
         let rec back c i acc = if i = 0 then List.rev acc else let c' = get (ent_prev k s c) in back c' (i - 1) (eobs c' :: acc) in
         pr "I %s rev : %s\n" kn (String.concat " " (back e (n + 2) []));
         (let p2 = get (ent_next k s (get (ent_next k s b))) in
          let t = if int_of_z p2.e_idx > n then "s" else eobs (get (ent_prev k s p2)) in
          pr "I %s arith : %s %s %s\n" kn (eobs p2) t (eobs (get (ent_prev k s b))));
         List.iter (fun w ->
             let c = ref b in
             let out = ref [] in
             String.iter (fun ch ->
                 if ch = '+' then begin c := get (ent_next k s !c); out := eobs !c :: !out end
                 else if int_of_z !c.e_idx > n then out := "s" :: !out
                 else begin c := get (ent_prev k s !c); out := eobs !c :: !out end) w;
             pr "I %s walk %s : %s\n" kn w (String.concat " " (List.rev !out))) walks
       with UB -> pr "I %s UB\n" kn)) ent_kinds

let query_circs (s : mesh) (m : int) (walks : string list) =
  List.iter (fun (nm, k) ->
      let cnt = int_of_nat (count (centre k) s) in
      for x = 0 to cnt - 1 do
        let l = clist k s (nat_of_int x) in
        match circ_begin k l with
        | None -> pr "C %s %d : U\n" nm x
        | Some b ->
            (try
               List.iter (fun mm ->
                   let mz = z_of_int mm in
                   let (vals, fin, steps) = ctrace k l mz b in
                   let e = c_make_end mz b in
                   pr "C %s %d m=%d : %s | %s end %s eq=%d\n" nm x mm (String.concat " " (List.map string_of_int vals))
                     (cobs fin) (cobs e) (b2i (c_eqb fin e))) [1; 2];
               (* range-for over the pair accessor, max_laps = 1 *)
               let e = c_make_end (z_of_int 1) b in
               let rec rng c acc fuel =
                 if c_eqb c e || fuel = 0 then List.rev acc else rng (get (circ_next k l (z_of_int 1) c)) (cur_int c.c_cur :: acc) (fuel - 1) in
               pr "C %s %d range : %s\n" nm x (String.concat " " (List.map string_of_int (rng b [] (List.length l + 2))));
               if b.c_valid then begin
                 (* the copying forms: it + 2, (it + 2) - 1, it - 1 *)
                 let mz = z_of_int m in
                 let p2 = get (circ_next k l mz (get (circ_next k l mz b))) in
                 pr "C %s %d arith m=%d : %s %s %s\n" nm x m (cobs p2) (cobs (get (circ_prev k l p2))) (cobs (get (circ_prev k l b)))
               end;
               if b.c_valid then
                 List.iter (fun w ->
                     let c = ref b in
                     let out = ref [] in
                     String.iter (fun ch ->
                         (if ch = '+' then c := get (circ_next k l (z_of_int m) !c) else c := get (circ_prev k l !c));
                         out := cobs !c :: !out) w;
                     pr "C %s %d walk m=%d %s : %s\n" nm x m w (String.concat " " (List.rev !out))) walks
             with UB -> pr "C %s %d UB\n" nm x)
      done) circs

let query_scalar (s : mesh) =
  List.iter (fun (kn, k) ->
      let n = int_of_nat (count k s) in
      pr "B val %s : %s\n" kn
        (String.concat " " (List.init n (fun i -> match valence k s (nat_of_int i) with None -> "U" | Some v -> string_of_int (int_of_nat v)))))
    [ ("V", KV); ("E", KE); ("F", KF); ("C", KC) ];
  List.iter (fun (kn, k) ->
      let n = int_of_nat (count k s) in
      pr "B isb %s : %s\n" kn
        (String.concat " " (List.init n (fun i -> match is_boundary k s (nat_of_int i) with None -> "U" | Some b -> string_of_int (b2i b)))))
    [ ("V", KV); ("E", KE); ("HE", KHE); ("F", KF); ("HF", KHF); ("C", KC) ]

let has_live (s : mesh) k =
  let b = ent_begin k s O in match b with Some e -> e.e_valid | None -> false

let query_bnd_kind (s : mesh) (walks : string list) (kn, k) =
  match bnd_begin k s with
  | None -> pr "BI %s : U\n" kn
  | Some b ->
      (try
         let rec fwd c acc = if c.b_valid then fwd (get (bnd_next k s c)) (int_of_z c.b_cur :: acc) else (List.rev acc, c) in
         let (vals, fin) = fwd b [] in
         pr "BI %s fwd : %s | %s\n" kn (String.concat " " (List.map string_of_int vals)) (bobs fin);
         let live = has_live s k in
         if b.b_valid then begin
           let p1 = get (bnd_next k s b) in
           pr "BI %s arith : %s %s\n" kn (bobs p1) (if live then bobs (get (bnd_prev k s p1)) else "s")
         end;
         List.iter (fun w ->
             let c = ref b in
             let out = ref [] in
             String.iter (fun ch ->
                 if ch = '+' then (if !c.b_valid then begin c := get (bnd_next k s !c); out := bobs !c :: !out end else out := "s" :: !out)
                 else (if live then begin c := get (bnd_prev k s !c); out := bobs !c :: !out end else out := "s" :: !out)) w;
             pr "BI %s walk %s : %s\n" kn w (String.concat " " (List.rev !out))) walks
       with UB -> pr "BI %s UB\n" kn)

(* a stored definition that names an entity that does not exist (only outside the valid histories) *)
let refs_ok (s : mesh) =
  let nvv = int_of_nat s.nv and nee = List.length s.edges and nff = List.length s.faces in
  List.for_all (fun (a, b) -> int_of_nat a < nvv && int_of_nat b < nvv) s.edges
  && List.for_all (List.for_all (fun h -> int_of_nat h < 2 * nee)) s.faces
  && List.for_all (List.for_all (fun h -> int_of_nat h < 2 * nff)) s.cells

let query (s : mesh) (m : int) (walks : string list) =
  if not (refs_ok s) then pr "Q skipped: a stored handle is out of range\n" else begin
  query_entity s walks;
  query_circs s m walks;
  query_scalar s;
  List.iter (query_bnd_kind s walks) bnd_kinds
  end

let () =
  let interactive = Array.length Sys.argv > 1 && Sys.argv.(1) = "-i" in
  let ic = if (not interactive) && Array.length Sys.argv > 1 then open_in Sys.argv.(1) else stdin in
  let st = ref empty_mesh in
  let lineno = ref 0 in
  let flush_out () = print_string (Buffer.contents buf); Buffer.clear buf in
  (try
     while true do
       let line = String.trim (input_line ic) in
       if line = "" || line.[0] = '%' then ()
       else if String.length line >= 4 && String.sub line 0 4 = "####" then begin
         pr "%s\n" line; st := empty_mesh; lineno := 0;
         if interactive then begin pr ".\n"; flush_out (); flush stdout end
       end else begin
         incr lineno;
         let toks = List.filter (fun t -> t <> "") (String.split_on_char ' ' line) in
         (match toks with
          | "Query" :: m :: walks ->
              pr "== %d %s -> Ok -\n" !lineno (String.concat " " toks);
              dump !st;
              query !st (int_of_string m) walks
          | [ "QueryBC" ] ->
              (* D8 replay: bc_iter() without any guard on the harness side *)
              pr "== %d QueryBC -> Ok -\n" !lineno;
              dump !st;
              query_bnd_kind !st [] ("C", KC)
          | [ "QueryCF" ] ->
              (* D15 replay: cf_iter(c); --it; ++it; without the walk-stopping rule *)
              pr "== %d QueryCF -> Ok -\n" !lineno;
              dump !st;
              let s = !st in
              for x = 0 to int_of_nat (count KC s) - 1 do
                let l = clist CF s (nat_of_int x) in
                if l <> [] then
                  match circ_begin CF l with
                  | None -> pr "CFB %d : U\n" x
                  | Some b ->
                      (match circ_prev CF l b with
                       | None -> pr "CFB %d : U\n" x
                       | Some c ->
                           (match circ_next CF l (z_of_int 1) c with
                            | None -> pr "CFB %d : %s U\n" x (cobs c)
                            | Some d -> pr "CFB %d : %s %s\n" x (cobs c) (cobs d)))
              done
          | [ "QueryD11" ] ->
              (* D11 replay: only the impl-side protocol oracle does something on this line *)
              pr "== %d QueryD11 -> Ok -\n" !lineno;
              dump !st
          | _ ->
              (match (try Some (parse_op !st toks) with Unresolvable -> None) with
               | None -> pr "== %d %s -> Unresolvable\n" !lineno line
               | Some (o, echo) ->
                   (match step !st o with
                    | Rejected -> pr "== %d %s -> Rejected\n" !lineno echo
                    | Ok (s', r) ->
                        st := s';
                        pr "== %d %s -> Ok %s\n" !lineno echo
                          (match r with None -> "-" | Some h -> string_of_int (int_of_nat h))));
              dump !st);
         if interactive then begin pr ".\n"; flush_out (); flush stdout end
         else if Buffer.length buf > (1 lsl 19) then flush_out ()
       end
     done
   with End_of_file -> ());
  flush_out ()
