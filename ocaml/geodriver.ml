(* geodriver.ml -- runs the extracted vector / geometry model (geo_model.ml, from coq/Geo) on the same
   input files as harness/run_geo.cc and prints the same canonical lines.
     geodriver vec  <cases>     "<ty> <dim> <kind> <mask> values..."
     geodriver mesh <scripts>   kernel scripts with absolute operands, "Pos v x y z", "Q"
   Hand-written glue only: parsing, int <-> nat/Z conversion, bit pattern -> exact rational, printing.
   int / unsigned results are printed in decimal; results of the rational reference (types f, d) are
   printed as "q[-]<hex numerator>/<hex denominator>" (reduced). *)
open Geo_model

let rec nat_of_int n = if n <= 0 then O else S (nat_of_int (n - 1))
let rec int_of_nat = function O -> 0 | S n -> 1 + int_of_nat n
let rec pos_of_int n = if n <= 1 then XH else if n land 1 = 0 then XO (pos_of_int (n lsr 1)) else XI (pos_of_int (n lsr 1))
let z_of_int n = if n = 0 then Z0 else if n > 0 then Zpos (pos_of_int n) else Zneg (pos_of_int (-n))
let rec int_of_pos = function XH -> 1 | XO p -> 2 * int_of_pos p | XI p -> 2 * int_of_pos p + 1
let int_of_z = function Z0 -> 0 | Zpos p -> int_of_pos p | Zneg p -> - (int_of_pos p)

(* ---- positives as hexadecimal text *)
let rec bits_of_pos = function XH -> [1] | XO p -> 0 :: bits_of_pos p | XI p -> 1 :: bits_of_pos p   (* LSB first *)
let hex_of_pos p =
  let rec groups = function
    | [] -> []
    | b0 :: r0 -> (match r0 with
        | [] -> [b0]
        | b1 :: r1 -> (match r1 with
            | [] -> [b0 + 2 * b1]
            | b2 :: r2 -> (match r2 with
                | [] -> [b0 + 2 * b1 + 4 * b2]
                | b3 :: r3 -> (b0 + 2 * b1 + 4 * b2 + 8 * b3) :: groups r3))) in
  let ds = List.rev (groups (bits_of_pos p)) in
  String.concat "" (List.map (fun d -> String.make 1 "0123456789abcdef".[d]) ds)
let show_q (x : q) =
  let x = qred x in
  match x.qnum with
  | Z0 -> "q0/1"
  | Zpos p -> "q" ^ hex_of_pos p ^ "/" ^ hex_of_pos x.qden
  | Zneg p -> "q-" ^ hex_of_pos p ^ "/" ^ hex_of_pos x.qden

(* ---- IEEE bit patterns as exact rationals: m * 2^e *)
let rec shift_pos p k = if k <= 0 then p else shift_pos (XO p) (k - 1)
let q_of_m_e neg m e =
  if m = 0 then { qnum = Z0; qden = XH }
  else
    let pm = pos_of_int m in
    let num, den = if e >= 0 then (shift_pos pm e, XH) else (pm, shift_pos XH (- e)) in
    qred { qnum = (if neg then Zneg num else Zpos num); qden = den }
exception Nonfinite
let q_of_double_bits (s : string) =      (* "x" + 16 hex digits *)
  let hi = int_of_string ("0x" ^ String.sub s 1 8) and lo = int_of_string ("0x" ^ String.sub s 9 8) in
  let neg = hi land 0x80000000 <> 0 in
  let ex = (hi lsr 20) land 0x7ff in
  let mant = ((hi land 0xfffff) lsl 32) lor lo in
  if ex = 0x7ff then raise Nonfinite
  else if ex = 0 then q_of_m_e neg mant (-1074)
  else q_of_m_e neg (mant lor (1 lsl 52)) (ex - 1075)
let q_of_float_bits (s : string) =       (* "y" + 8 hex digits *)
  let b = int_of_string ("0x" ^ String.sub s 1 8) in
  let neg = b land 0x80000000 <> 0 in
  let ex = (b lsr 23) land 0xff in
  let mant = b land 0x7fffff in
  if ex = 0xff then raise Nonfinite
  else if ex = 0 then q_of_m_e neg mant (-149)
  else q_of_m_e neg (mant lor (1 lsl 23)) (ex - 150)

let buf = Buffer.create (1 lsl 20)
let pr fmt = Printf.bprintf buf fmt
let flush_out () = print_string (Buffer.contents buf); Buffer.clear buf
let b2s b = if b then "1" else "0"
let has mask c = String.contains mask c

let rec take n l = if n <= 0 then [] else match l with [] -> [] | x :: t -> x :: take (n - 1) t
let rec drop n l = if n <= 0 then l else match l with [] -> [] | _ :: t -> drop (n - 1) t

(* ---- one vector case, polymorphic in the scalar record *)
let run_ops (type a) (o : a sops) (parse : string -> a) (show : a -> string) ~(has_abs : bool) ~(is_int : bool)
    lineno d kind mask (vals : string list) =
  let showv v = String.concat " " (List.map show v) in
  let emit op s = pr "%d %s %s\n" lineno op s in
  let a = List.map parse (take d vals) in
  match kind with
  | 'U' ->
      if has mask 'x' then begin emit "max" (show (vmax o a)); emit "min" (show (vmin o a)) end;
      if has mask 'a' then begin
        emit "neg" (showv (vneg o a));
        emit "sqrnorm" (show (sqrnorm o a));
        emit "l1_norm" (show (l1_norm o a));
        emit "mean" (show (mean o a));
        if has_abs then begin
          emit "max_abs" (show (max_abs o a)); emit "min_abs" (show (min_abs o a));
          emit "l8_norm" (show (l8_norm o a)); emit "mean_abs" (show (mean_abs o a))
        end
      end;
      if has mask 'd' then begin
        if d = 4 && not (o.seqb (List.nth a 3) o.s0) then emit "homogenized" (showv (homogenized o a))
      end
  | 'B' ->
      let b = List.map parse (take d (drop d vals)) in
      if has mask 'x' then begin
        emit "eq" (b2s (veq o a b)); emit "neq" (b2s (vneq o a b)); emit "lt" (b2s (vlt o a b));
        emit "minimize" (showv (minimize o a b)); emit "maximize" (showv (maximize o a b));
        emit "min2" (showv (vmin2 o a b)); emit "max2" (showv (vmax2 o a b));
        let (f1, v1) = minimized o a b in emit "minimized" (b2s f1 ^ " " ^ showv v1);
        let (f2, v2) = maximized o a b in emit "maximized" (b2s f2 ^ " " ^ showv v2)
      end;
      if has mask 'a' then begin
        emit "add" (showv (vadd o a b)); emit "sub" (showv (vsub o a b)); emit "mul" (showv (vmul o a b));
        emit "dot" (show (dot o a b));
        if d = 3 then emit "cross" (showv (cross o a b))
      end;
      if has mask 'd' then begin
        if List.for_all (fun y -> not (o.seqb y o.s0)) b then emit "div" (showv (vdiv o a b))
      end
  | 'S' ->
      let s = parse (List.nth vals d) in
      if has mask 'x' then emit "vectorize" (showv (vectorize (nat_of_int d) s));
      if has mask 'a' then begin emit "smul" (showv (vscale o a s)); emit "smul_left" (showv (vscale_left o s a)) end;
      if has mask 'd' && not (o.seqb s o.s0) then emit "sdiv" (showv (vsdiv o a s))
  | 'T' ->
      let b = List.map parse (take d (drop d vals)) in
      let toks = List.append (vout a) (TSp :: vout b) in
      if is_int then
        emit "stream_text" (String.concat "" (List.map (function TNum x -> show x | TSp -> "_") toks));
      (match vin (nat_of_int d) toks with
       | Some (a', r) ->
           (match vin (nat_of_int d) r with
            | Some (b', _) -> emit "stream_in" (showv a' ^ " " ^ showv b')
            | None -> emit "stream_in" "fail")
       | None -> emit "stream_in" "fail");
      (match vin (nat_of_int d) (vout (take (d - 1) a)) with
       | None -> emit "stream_fail" "1"
       | Some _ -> emit "stream_fail" "0")
  | _ -> failwith "bad kind"

(* ---- conversions between the instantiated scalar types *)
let run_conv ty lineno d mask vals =
  let emit op s = pr "%d %s %s\n" lineno op s in
  let sz v = String.concat " " (List.map (fun z -> string_of_int (int_of_z z)) v) in
  let sq v = String.concat " " (List.map show_q v) in
  let vals = take d vals in
  match ty with
  | "i" | "u" ->
      let a = List.map (fun t -> z_of_int (int_of_string t)) vals in
      if has mask 'i' then emit "conv_i" (sz (vconvert (if ty = "u" then conv_uint_int else (fun x -> x)) a));
      if has mask 'u' then emit "conv_u" (sz (vconvert (if ty = "i" then conv_int_uint else (fun x -> x)) a));
      if has mask 'f' then emit "conv_f" (sq (vconvert conv_int_q a));
      if has mask 'd' then emit "conv_d" (sq (vconvert conv_int_q a))
  | _ ->
      let a = List.map (if ty = "d" then q_of_double_bits else q_of_float_bits) vals in
      (* float/double -> int/unsigned: truncation toward zero (in range by the generator's contract) *)
      if has mask 'i' then emit "conv_i" (sz (vconvert conv_q_int a));
      if has mask 'u' then emit "conv_u" (sz (vconvert conv_q_int a));
      if has mask 'f' then emit "conv_f" (sq a);
      if has mask 'd' then emit "conv_d" (sq a)

let split_ws line = List.filter (fun t -> t <> "") (String.split_on_char ' ' (String.trim line))

let run_vec path =
  let ic = open_in path in
  let lineno = ref 0 in
  (try
     while true do
       let line = input_line ic in
       incr lineno;
       (match split_ws line with
        | [] -> ()
        | t :: _ when t.[0] = '%' -> ()
        | ty :: ds :: kind :: mask :: vals ->
            let d = int_of_string ds in
            let kind = kind.[0] in
            (try
               if kind = 'C' then run_conv ty !lineno d mask vals
               else (match ty with
                   | "i" -> run_ops zops (fun t -> z_of_int (int_of_string t)) (fun z -> string_of_int (int_of_z z))
                              ~has_abs:true ~is_int:true !lineno d kind mask vals
                   | "u" -> run_ops uops (fun t -> z_of_int (int_of_string t)) (fun z -> string_of_int (int_of_z z))
                              ~has_abs:false ~is_int:true !lineno d kind mask vals
                   | "d" -> run_ops qops q_of_double_bits show_q ~has_abs:true ~is_int:false !lineno d kind mask vals
                   | "f" -> run_ops qops q_of_float_bits show_q ~has_abs:true ~is_int:false !lineno d kind mask vals
                   | _ -> failwith "bad type")
             with Nonfinite -> pr "%d nonfinite -\n" !lineno)
        | _ -> failwith ("bad line: " ^ line));
       if Buffer.length buf > (1 lsl 19) then flush_out ()
     done
   with End_of_file -> ());
  pr "done\n";
  flush_out ()

(* ------------------------------------------------------------------ meshes *)

let ilist l = String.concat " " (List.map string_of_int l)
let n = nat_of_int

(* absolute operands only ("@Op ...") *)
let parse_op (toks : string list) : op * string =
  let name, args = match toks with
    | t :: rest when t.[0] = '@' -> (String.sub t 1 (String.length t - 1), List.map int_of_string rest)
    | _ -> failwith ("geodriver: only absolute operations are supported: " ^ String.concat " " toks) in
  let echo = name ^ (if args = [] then "" else " " ^ ilist args) in
  let nl = List.map n in
  let o = match name, args with
    | "AddV", [] -> AddVertex
    | "AddVs", [k] -> AddVertices (n k)
    | "AddE", [a; b; d] -> AddEdge (n a, n b, d <> 0)
    | "AddF", c :: hes -> AddFace (nl hes, c <> 0)
    | "AddFV", vs -> AddFaceV (nl vs)
    | "AddC", c :: hfs -> AddCell (nl hfs, c <> 0)
    | "SetE", [e; a; b] -> SetEdge (n e, n a, n b)
    | "SetF", f :: hes -> SetFace (n f, nl hes)
    | "SetC", c :: hfs -> SetCell (n c, nl hfs)
    | "DelV", [v] -> DelVertex (n v) | "DelE", [v] -> DelEdge (n v)
    | "DelF", [v] -> DelFace (n v) | "DelC", [v] -> DelCell (n v)
    | "SwapV", [a; b] -> SwapV (n a, n b) | "SwapE", [a; b] -> SwapE (n a, n b)
    | "SwapF", [a; b] -> SwapF (n a, n b) | "SwapC", [a; b] -> SwapC (n a, n b)
    | "GC", [] -> CollectGarbage
    | "Clear", [b] -> Clear (b <> 0)
    | "EnVBU", [b] -> EnableVBU (b <> 0) | "EnEBU", [b] -> EnableEBU (b <> 0) | "EnFBU", [b] -> EnableFBU (b <> 0)
    | "EnDef", [b] -> EnableDeferred (b <> 0) | "EnFast", [b] -> EnableFast (b <> 0)
    | _ -> failwith ("geodriver: bad op " ^ echo) in
  (o, echo)

let sz3 v = String.concat " " (List.map (fun z -> string_of_int (int_of_z z)) v)
let sq3 v = String.concat " " (List.map show_q v)
let nats l = String.concat "" (List.map (fun x -> " " ^ string_of_int (int_of_nat x)) l)

let query_dump (s : mesh) =
  let nee = int_of_nat (ne s) and nff = int_of_nat (nf s) and ncc = int_of_nat (nc s) in
  for e = 0 to nee - 1 do
    if live_e s (n e) then begin
      pr "vec_e %d %s\n" e (sz3 (geo_vector_e s (n e)));
      pr "vec_he %d %s\n" (2 * e) (sz3 (geo_vector_he s (n (2 * e))));
      pr "vec_he %d %s\n" (2 * e + 1) (sz3 (geo_vector_he s (n (2 * e + 1))));
      pr "len2_e %d %d\n" e (int_of_z (geo_sqrlen_e s (n e)));
      pr "len2_he %d %d\n" (2 * e + 1) (int_of_z (geo_sqrlen_he s (n (2 * e + 1))));
      pr "bary_e %d %s\n" e (sq3 (geo_bary_edge s (n e)))
    end
  done;
  for f = 0 to nff - 1 do
    if live_f s (n f) then begin
      let vs = geo_face_vertices s (n f) in
      pr "fverts %d%s\n" f (nats vs);
      if vs <> [] then begin
        pr "bary_f %d %s\n" f (sq3 (geo_bary_face s (n f)));
        List.iter (fun hf ->
            pr "ndeg %d %s\n" hf (b2s (geo_normal_degenerate s (n hf)));
            pr "nraw %d %s\n" hf (sz3 (geo_normal_raw s (n hf)))) [2 * f; 2 * f + 1]
      end
    end
  done;
  for c = 0 to ncc - 1 do
    if live_c s (n c) then begin
      let vs = geo_cell_vertices s (n c) in
      pr "cverts %d%s\n" c (nats vs);
      if vs <> [] then pr "bary_c %d %s\n" c (sq3 (geo_bary_cell s (n c)))
    end
  done

let fresh () =
  (* three vertex property arrays x, y, z (indices 0, 1, 2) hold the positions *)
  List.fold_left (fun s _ -> match step s (PropCreate (KV, Z0)) with Ok (s', _) -> s' | Rejected -> s) empty_mesh [0; 1; 2]

let run_mesh path =
  let ic = open_in path in
  let st = ref (fresh ()) in
  let lineno = ref 0 in
  (try
     while true do
       let line = String.trim (input_line ic) in
       if line = "" || line.[0] = '%' then ()
       else if String.length line >= 4 && String.sub line 0 4 = "####" then begin
         pr "%s\n" line; st := fresh (); lineno := 0
       end else begin
         incr lineno;
         let toks = split_ws line in
         (match toks with
          | "Pos" :: v :: xyz ->
              let v = int_of_string v in
              let c = List.map int_of_string xyz in
              pr "== %d Pos %d %s -> " !lineno v (ilist c);
              if v < 0 || v >= int_of_nat !st.nv then pr "Rejected\n"
              else begin
                List.iteri (fun p x ->
                    match step !st (PropSet (KV, n p, n v, z_of_int x)) with
                    | Ok (s', _) -> st := s'
                    | Rejected -> failwith "geodriver: position write rejected") c;
                pr "Ok -\n"
              end
          | ["Q"] -> pr "== %d Q\n" !lineno; query_dump !st
          | _ ->
              let (o, echo) = parse_op toks in
              (match step !st o with
               | Rejected -> pr "== %d %s -> Rejected\n" !lineno echo
               | Ok (s', r) ->
                   st := s';
                   pr "== %d %s -> Ok %s\n" !lineno echo (match r with None -> "-" | Some h -> string_of_int (int_of_nat h))));
         if Buffer.length buf > (1 lsl 19) then flush_out ()
       end
     done
   with End_of_file -> ());
  flush_out ()

let () =
  match Array.to_list Sys.argv with
  | [_; "vec"; path] -> run_vec path
  | [_; "mesh"; path] -> run_mesh path
  | _ -> prerr_endline "usage: geodriver vec <cases> | geodriver mesh <scripts>"; exit 2
