(* regdriver.ml -- runs registry / copy scripts (gen/reggen.py) on the model extracted from
   coq/Reg/RegistryModel.v (reg_model.ml) and prints the canonical dump that harness/run_registry.cc prints
   from the real library.  Hand-written glue only: script parsing, the table script-variable -> model id,
   kernel operand resolution (as in kdriver.ml), nat/Z <-> int conversion, printing. *)
open Reg_model

let rec nat_of_int n = if n <= 0 then O else S (nat_of_int (n - 1))
let rec int_of_nat = function O -> 0 | S n -> 1 + int_of_nat n
let rec pos_of_int n = if n <= 1 then XH else if n land 1 = 0 then XO (pos_of_int (n lsr 1)) else XI (pos_of_int (n lsr 1))
let z_of_int n = if n = 0 then Z0 else if n > 0 then Zpos (pos_of_int n) else Zneg (pos_of_int (-n))
let rec int_of_pos = function XH -> 1 | XO p -> 2 * int_of_pos p | XI p -> 2 * int_of_pos p + 1
let int_of_z = function Z0 -> 0 | Zpos p -> int_of_pos p | Zneg p -> - (int_of_pos p)

let buf = Buffer.create (1 lsl 20)
let pr fmt = Printf.bprintf buf fmt

let ilist l = String.concat " " (List.map (fun n -> string_of_int (int_of_nat n)) l)
let bools l = String.concat "" (List.map (fun b -> if b then "1" else "0") l)
let b2i b = if b then 1 else 0

let kinds = [ ("V", KV); ("E", KE); ("HE", KHE); ("F", KF); ("HF", KHF); ("C", KC); ("M", KM) ]
let kind_name k = fst (List.find (fun (_, x) -> x = k) kinds)
let kind_of_string k = List.assoc k kinds
let types = [ ("int", TInt); ("bool", TBool); ("double", TDouble); ("string", TString); ("vec3d", TVec) ]
let type_name t = fst (List.find (fun (_, x) -> x = t) types)
let type_of_string t = List.assoc t types

(* ---- kernel state lines, as ocaml/kdriver.ml *)
let kdump pre (s : mesh) =
  pr "%snv %d\n" pre (int_of_nat s.nv);
  pr "%sE %s\n" pre (String.concat " " (List.map (fun (a, b) -> Printf.sprintf "%d,%d" (int_of_nat a) (int_of_nat b)) s.edges));
  pr "%sF %s\n" pre (String.concat " " (List.map (fun l -> "[" ^ ilist l ^ "]") s.faces));
  pr "%sC %s\n" pre (String.concat " " (List.map (fun l -> "[" ^ ilist l ^ "]") s.cells));
  pr "%sdel V:%s E:%s F:%s C:%s\n" pre (bools s.vdel) (bools s.edel) (bools s.fdel) (bools s.cdel);
  pr "%scnt %d %d %d %d\n" pre (int_of_nat s.ndv) (int_of_nat s.nde) (int_of_nat s.ndf) (int_of_nat s.ndc);
  pr "%sflags v=%d e=%d f=%d def=%d fast=%d\n" pre (b2i s.vbu) (b2i s.ebu) (b2i s.fbu) (b2i s.deferred) (b2i s.fast);
  pr "%sOUT %s\n" pre (String.concat " " (List.map (fun l -> "[" ^ ilist l ^ "]") s.out_hes));
  pr "%sHFS %s\n" pre (String.concat " " (List.map (fun l -> "[" ^ ilist l ^ "]") s.inc_hfs));
  pr "%sCELL %s\n" pre (String.concat " " (List.map (function None -> "-" | Some c -> string_of_int (int_of_nat c)) s.inc_cell))

(* ---- kernel operand resolution, as ocaml/kdriver.ml *)
let live_list n isdel = List.filter (fun i -> not (List.nth isdel i)) (List.init n (fun i -> i))
exception Unresolvable
let pick l k = match l with [] -> raise Unresolvable | _ -> List.nth l (k mod List.length l)
let modn n k = if n = 0 then raise Unresolvable else k mod n
type resolver = { lv : int -> int; le : int -> int; lf : int -> int; lc : int -> int;
                  lhe : int -> int; lhf : int -> int;
                  av : int -> int; ae : int -> int; af : int -> int; ac : int -> int }
let resolver (s : mesh) abs =
  if abs then
    let id k = k in
    { lv = id; le = id; lf = id; lc = id; lhe = id; lhf = id; av = id; ae = id; af = id; ac = id }
  else
    let nvv = int_of_nat s.nv and nee = List.length s.edges and nff = List.length s.faces and ncc = List.length s.cells in
    let vs = live_list nvv s.vdel and es = live_list nee s.edel and fs = live_list nff s.fdel and cs = live_list ncc s.cdel in
    { lv = pick vs; le = pick es; lf = pick fs; lc = pick cs;
      lhe = (fun k -> 2 * pick es (k / 2) + (k land 1));
      lhf = (fun k -> 2 * pick fs (k / 2) + (k land 1));
      av = modn nvv; ae = modn nee; af = modn nff; ac = modn ncc }

exception Not_kernel
let parse_kop (s : mesh) (toks : string list) : op * string =
  let abs, name, args =
    match toks with
    | [] -> failwith "empty"
    | t :: rest -> if t.[0] = '@' then (true, String.sub t 1 (String.length t - 1), rest) else (false, t, rest) in
  let r = resolver s abs in
  let ints = List.map int_of_string in
  let n = nat_of_int in
  let nl l = List.map n l in
  let echo nm l = nm ^ (if l = [] then "" else " ") ^ String.concat " " (List.map string_of_int l) in
  match name, args with
  | "AddV", [] -> (AddVertex, "AddV")
  | "AddVs", [k] -> (AddVertices (n (int_of_string k)), "AddVs " ^ k)
  | "AddE", [a; b; d] ->
      let a = r.lv (int_of_string a) and b = r.lv (int_of_string b) in
      (AddEdge (n a, n b, d = "1"), echo "AddE" [a; b; int_of_string d])
  | "AddF", c :: hes -> let l = List.map r.lhe (ints hes) in (AddFace (nl l, c = "1"), echo "AddF" (int_of_string c :: l))
  | "AddFV", vs -> let l = List.map r.lv (ints vs) in (AddFaceV (nl l), echo "AddFV" l)
  | "AddC", c :: hfs -> let l = List.map r.lhf (ints hfs) in (AddCell (nl l, c = "1"), echo "AddC" (int_of_string c :: l))
  | "SetE", [e; a; b] ->
      let e = r.le (int_of_string e) and a = r.lv (int_of_string a) and b = r.lv (int_of_string b) in
      (SetEdge (n e, n a, n b), echo "SetE" [e; a; b])
  | "SetF", f :: hes -> let f = r.lf (int_of_string f) and l = List.map r.lhe (ints hes) in (SetFace (n f, nl l), echo "SetF" (f :: l))
  | "SetC", c :: hfs -> let c = r.lc (int_of_string c) and l = List.map r.lhf (ints hfs) in (SetCell (n c, nl l), echo "SetC" (c :: l))
  | "DelV", [v] -> let v = r.lv (int_of_string v) in (DelVertex (n v), echo "DelV" [v])
  | "DelE", [v] -> let v = r.le (int_of_string v) in (DelEdge (n v), echo "DelE" [v])
  | "DelF", [v] -> let v = r.lf (int_of_string v) in (DelFace (n v), echo "DelF" [v])
  | "DelC", [v] -> let v = r.lc (int_of_string v) in (DelCell (n v), echo "DelC" [v])
  | "SwapV", [a; b] -> let a = r.av (int_of_string a) and b = r.av (int_of_string b) in (SwapV (n a, n b), echo "SwapV" [a; b])
  | "SwapE", [a; b] -> let a = r.ae (int_of_string a) and b = r.ae (int_of_string b) in (SwapE (n a, n b), echo "SwapE" [a; b])
  | "SwapF", [a; b] -> let a = r.af (int_of_string a) and b = r.af (int_of_string b) in (SwapF (n a, n b), echo "SwapF" [a; b])
  | "SwapC", [a; b] -> let a = r.ac (int_of_string a) and b = r.ac (int_of_string b) in (SwapC (n a, n b), echo "SwapC" [a; b])
  | "GC", [] -> (CollectGarbage, "GC")
  | "Clear", [b] -> (Clear (b = "1"), "Clear " ^ b)
  | "EnVBU", [b] -> (EnableVBU (b = "1"), "EnVBU " ^ b)
  | "EnEBU", [b] -> (EnableEBU (b = "1"), "EnEBU " ^ b)
  | "EnFBU", [b] -> (EnableFBU (b = "1"), "EnFBU " ^ b)
  | "EnDef", [b] -> (EnableDeferred (b = "1"), "EnDef " ^ b)
  | "EnFast", [b] -> (EnableFast (b = "1"), "EnFast " ^ b)
  | ("PCreate" | "PSet" | "PDrop"), _ -> raise Not_kernel
  | _ -> failwith ("bad kernel op: " ^ String.concat " " toks)

(* ---- storage lines *)
let storage_line (st : storage) =
  Printf.sprintf "%s %s %d sh=%d pe=%d n=%d def=%d :%s" (kind_name st.s_kind) (type_name st.s_type) (int_of_nat st.s_name)
    (b2i st.s_shared) (b2i st.s_pers) (List.length st.s_data) (int_of_z st.s_def)
    (String.concat "" (List.map (fun z -> " " ^ string_of_int (int_of_z z)) st.s_data))

let sid_line w s = match get_st w s with Some st -> storage_line st | None -> "<dangling>"

(* script variable -> model id *)
let mvars : (int, int * char) Hashtbl.t = Hashtbl.create 16
let hvars : (int, int) Hashtbl.t = Hashtbl.create 16

let sorted_keys tbl = List.sort compare (Hashtbl.fold (fun k _ acc -> k :: acc) tbl [])

let dump (w : world) =
  List.iter (fun var ->
      let (mid, _) = Hashtbl.find mvars var in
      match get_mesh w (nat_of_int mid) with
      | None -> ()
      | Some r ->
          let pre = Printf.sprintf "M %d " var in
          let cnt f = String.concat "," (List.map (fun (_, k) -> string_of_int (List.length (f w r k))) kinds) in
          pr "%scnt nprops=%s npers=%s\n" pre (cnt tracked_k) (cnt pers_k);
          kdump (pre ^ "k ") r.m_k;
          List.iter (fun l -> pr "%sS %s\n" pre l) (List.sort compare (List.map (sid_line w) r.m_tracked));
          List.iter (fun l -> pr "%sPS %s\n" pre l) (List.sort compare (List.map (sid_line w) r.m_pers));
          pr "%spos %s\n" pre (match r.m_pos with Some p -> sid_line w p | None -> "<none>"))
    (sorted_keys mvars);
  List.iter (fun var ->
      let hid = Hashtbl.find hvars var in
      match get_h w (nat_of_int hid) with
      | None -> ()
      | Some s ->
          (match get_st w s with
           | Some st -> pr "H %d att=%d %s\n" var (b2i (st.s_owner <> None)) (storage_line st)
           | None -> pr "H %d <dangling>\n" var))
    (sorted_keys hvars)

let live_mesh w var =
  match Hashtbl.find_opt mvars var with
  | Some (mid, _) -> (match get_mesh w (nat_of_int mid) with Some _ -> Some mid | None -> None)
  | None -> None
let live_handle w var =
  match Hashtbl.find_opt hvars var with
  | Some hid -> (match get_h w (nat_of_int hid) with Some _ -> Some hid | None -> None)
  | None -> None

type parsed = Op of rop | Res of string    (* Res: decided by the glue (dead variable, unsupported, ...) *)

let () =
  let ic = if Array.length Sys.argv > 1 then open_in Sys.argv.(1) else stdin in
  let st = ref empty_world in
  let lineno = ref 0 in
  let dead = ref false in               (* the model predicted UB: the real process is gone *)
  let flush_out () = print_string (Buffer.contents buf); Buffer.clear buf in
  (try
     while true do
       let line = String.trim (input_line ic) in
       if line = "" || line.[0] = '%' then ()
       else if String.length line >= 4 && String.sub line 0 4 = "####" then begin
         pr "%s\n" line; st := empty_world; lineno := 0; dead := false;
         Hashtbl.reset mvars; Hashtbl.reset hvars
       end else if !dead then ()
       else begin
         incr lineno;
         let toks = List.filter (fun t -> t <> "") (String.split_on_char ' ' (String.map (fun c -> if c = '\t' then ' ' else c) line)) in
         let w = !st in
         let i k = int_of_string (List.nth toks k) in
         let n k = nat_of_int (i k) in
         let echo = ref (String.concat " " toks) in
         let bind_m = ref None and bind_h = ref None in
         let need_m k f = match live_mesh w (i k) with Some m -> f (nat_of_int m) | None -> Res "Rejected" in
         let need_h k f = match live_handle w (i k) with Some h -> f (nat_of_int h) | None -> Res "Rejected" in
         let fresh_h k f = if live_handle w (i k) <> None then Res "Rejected" else (bind_h := Some (i k); f ()) in
         let fresh_m k ty f = if live_mesh w (i k) <> None then Res "Rejected" else (bind_m := Some (i k, ty); f ()) in
         let knd k = kind_of_string (List.nth toks k) and typ k = type_of_string (List.nth toks k) in
         let dflt tk dk = let v = i dk in z_of_int (if typ tk = TBool then (if v <> 0 then 1 else 0) else v) in
         let p =
           match List.hd toks with
           | "NewMesh" -> fresh_m 1 (List.nth toks 2).[0] (fun () -> Op NewMesh)
           | "CopyMesh" ->
               (match Hashtbl.find_opt mvars (i 2) with
                | Some (_, ty) -> need_m 2 (fun s -> fresh_m 1 ty (fun () -> Op (CopyMesh s)))
                | None -> Res "Rejected")
           | "Assign" -> need_m 1 (fun d -> need_m 2 (fun s -> Op (Assign (d, s))))
           | "DelMesh" -> need_m 1 (fun m -> Op (DelMesh m))
           | "K" ->
               need_m 1 (fun m ->
                   let (_, ty) = Hashtbl.find mvars (i 1) in
                   let kt = List.tl (List.tl toks) in
                   let kn = let t = List.hd kt in if t.[0] = '@' then String.sub t 1 (String.length t - 1) else t in
                   if ty <> 'P' && (kn = "AddF" || kn = "AddFV" || kn = "AddC") then Res "Unsupported"
                   else
                     match get_mesh w m with
                     | None -> Res "Rejected"
                     | Some r ->
                         (try
                            let (o, e) = parse_kop r.m_k kt in
                            echo := "K " ^ List.nth toks 1 ^ " " ^ e;
                            Op (Kernel (m, o))
                          with Unresolvable -> Res "Unresolvable" | Not_kernel -> Res "Rejected"))
           | "Request" -> need_m 2 (fun m -> fresh_h 1 (fun () -> Op (Request (m, knd 3, typ 4, n 5, dflt 4 6))))
           | "CreateShared" -> need_m 2 (fun m -> fresh_h 1 (fun () -> Op (CreateShared (m, knd 3, typ 4, n 5, dflt 4 6))))
           | "CreatePersistent" -> need_m 2 (fun m -> fresh_h 1 (fun () -> Op (CreatePersistent (m, knd 3, typ 4, n 5, dflt 4 6))))
           | "CreatePrivate" -> need_m 2 (fun m -> fresh_h 1 (fun () -> Op (CreatePrivate (m, knd 3, typ 4, n 5, dflt 4 6))))
           | "Get" -> need_m 2 (fun m -> fresh_h 1 (fun () -> Op (GetProp (m, knd 3, typ 4, n 5))))
           | "Exists" -> need_m 1 (fun m -> Op (Exists (m, knd 2, typ 3, n 4)))
           | "SetShared" -> need_m 1 (fun m -> need_h 2 (fun h -> Op (SetShared (m, h, i 3 <> 0))))
           | "SetPersistent" -> need_m 1 (fun m -> need_h 2 (fun h -> Op (SetPersistent (m, h, i 3 <> 0))))
           | "SetName" -> need_h 1 (fun h -> Op (SetName (h, n 2)))
           | "HCopy" -> need_h 2 (fun h -> fresh_h 1 (fun () -> Op (HCopy h)))
           | "HMove" -> need_h 2 (fun h -> fresh_h 1 (fun () -> Op (HMove h)))
           | "HDrop" -> need_h 1 (fun h -> Op (HDrop h))
           | "HSet" ->
               need_h 1 (fun h ->
                   if i 2 < 0 then Res "Rejected"
                   else
                     (* bool properties: the token map of the harness is v <> 0 (tokens 0/1) *)
                     let isbool = (match get_h w h with
                                   | Some s -> (match get_st w s with Some st -> st.s_type = TBool | None -> false)
                                   | None -> false) in
                     let v = if isbool then (if i 3 <> 0 then 1 else 0) else i 3 in
                     Op (HSet (h, n 2, z_of_int v)))
           | "Pos" -> need_m 2 (fun m -> fresh_h 1 (fun () -> Op (PosHandle m)))
           | "ClearProps" -> need_m 1 (fun m -> Op (ClearProps (m, knd 2)))
           | "ClearAll" -> need_m 1 (fun m -> Op (ClearAllProps m))
           | "NProps" -> need_m 1 (fun m -> Op (NProps (m, knd 2)))
           | "NPers" -> need_m 1 (fun m -> Op (NPers (m, knd 2)))
           | _ -> failwith ("bad op: " ^ line) in
         let res =
           match p with
           | Res s -> s
           | Op o ->
               let (w', r) = rstep w o in
               st := w';
               (match r with
                | ROk -> "Ok"
                | RMesh m -> (match !bind_m with Some (var, ty) -> Hashtbl.replace mvars var (int_of_nat m, ty) | None -> ()); "Ok mesh"
                | RHandle h -> (match !bind_h with Some var -> Hashtbl.replace hvars var (int_of_nat h) | None -> ()); "Ok handle"
                | RNoHandle -> "Ok none"
                | RBool b -> if b then "Ok 1" else "Ok 0"
                | RNat k -> "Ok " ^ string_of_int (int_of_nat k)
                | RKernel None -> "Ok -"
                | RKernel (Some h) -> "Ok " ^ string_of_int (int_of_nat h)
                | RThrow -> "Throw"
                | RRejected -> "Rejected"
                | RUB y -> dead := true; "UB " ^ string_of_int (int_of_nat y)) in
         pr "== %d %s -> %s\n" !lineno !echo res;
         if not !dead then dump !st;
         if Buffer.length buf > (1 lsl 19) then flush_out ()
       end
     done
   with End_of_file -> ());
  flush_out ()
