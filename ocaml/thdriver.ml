(* thdriver.ml -- runs tet / hex scripts (kernel script language + the tet/hex operations and queries) on the
   model extracted from coq/Mesh (th_model.ml) and
   prints the canonical observable state after every operation.  The C++ harness run_kernel.cc
   prints the same format from the real library; the two outputs are compared line by line.
   Hand-written glue: script parsing, operand resolution, nat/Z <-> int conversion, printing. *)
open Th_model

let rec nat_of_int n = if n <= 0 then O else S (nat_of_int (n - 1))
let rec int_of_nat = function O -> 0 | S n -> 1 + int_of_nat n
let rec pos_of_int n = if n <= 1 then XH else if n land 1 = 0 then XO (pos_of_int (n lsr 1)) else XI (pos_of_int (n lsr 1))
let z_of_int n = if n = 0 then Z0 else if n > 0 then Zpos (pos_of_int n) else Zneg (pos_of_int (-n))
let rec int_of_pos = function XH -> 1 | XO p -> 2 * int_of_pos p | XI p -> 2 * int_of_pos p + 1
let int_of_z = function Z0 -> 0 | Zpos p -> int_of_pos p | Zneg p -> - (int_of_pos p)

let buf = Buffer.create (1 lsl 20)
let pr fmt = Printf.bprintf buf fmt

let ilist l = String.concat " " (List.map (fun n -> string_of_int (int_of_nat n)) l)
let bools l = String.concat "" (List.map (fun b -> if b then "1" else "0") l)
let b2i b = if b then 1 else 0

let kinds = [ ("V", KV); ("E", KE); ("HE", KHE); ("F", KF); ("HF", KHF); ("C", KC); ("M", KM) ]

let dump (s : mesh) =
  pr "nv %d\n" (int_of_nat s.nv);
  pr "E %s\n" (String.concat " " (List.map (fun (a, b) -> Printf.sprintf "%d,%d" (int_of_nat a) (int_of_nat b)) s.edges));
  pr "F %s\n" (String.concat " " (List.map (fun l -> "[" ^ ilist l ^ "]") s.faces));
  pr "C %s\n" (String.concat " " (List.map (fun l -> "[" ^ ilist l ^ "]") s.cells));
  pr "del V:%s E:%s F:%s C:%s\n" (bools s.vdel) (bools s.edel) (bools s.fdel) (bools s.cdel);
  pr "cnt %d %d %d %d\n" (int_of_nat s.ndv) (int_of_nat s.nde) (int_of_nat s.ndf) (int_of_nat s.ndc);
  pr "flags v=%d e=%d f=%d def=%d fast=%d\n" (b2i s.vbu) (b2i s.ebu) (b2i s.fbu) (b2i s.deferred) (b2i s.fast);
  pr "OUT %s\n" (String.concat " " (List.map (fun l -> "[" ^ ilist l ^ "]") s.out_hes));
  pr "HFS %s\n" (String.concat " " (List.map (fun l -> "[" ^ ilist l ^ "]") s.inc_hfs));
  pr "CELL %s\n" (String.concat " " (List.map (function None -> "-" | Some c -> string_of_int (int_of_nat c)) s.inc_cell));
  List.iter (fun (kn, k) ->
      List.iteri (fun i p ->
          pr "P %s %d def=%d : %s\n" kn i (int_of_z p.pdef)
            (String.concat " " (List.map (fun z -> string_of_int (int_of_z z)) p.pdata)))
        (props k s)) kinds

(* ---- operand resolution (relative operands; "@Op" lines carry absolute operands) *)
let live_list n isdel = List.filter (fun i -> not (List.nth isdel i)) (List.init n (fun i -> i))

exception Unresolvable

let pick l k = match l with [] -> raise Unresolvable | _ -> List.nth l (k mod List.length l)
let modn n k = if n = 0 then raise Unresolvable else k mod n

type resolver = { lv : int -> int; le : int -> int; lf : int -> int; lc : int -> int;
                  lhe : int -> int; lhf : int -> int;
                  av : int -> int; ae : int -> int; af : int -> int; ac : int -> int }

let resolver (s : mesh) abs =
  if abs then
    let id k = k in
    { lv = id; le = id; lf = id; lc = id; lhe = id; lhf = id; av = id; ae = id; af = id; ac = id }
  else
    let nvv = int_of_nat s.nv and nee = List.length s.edges and nff = List.length s.faces and ncc = List.length s.cells in
    let vs = live_list nvv s.vdel and es = live_list nee s.edel and fs = live_list nff s.fdel and cs = live_list ncc s.cdel in
    { lv = pick vs; le = pick es; lf = pick fs; lc = pick cs;
      lhe = (fun k -> 2 * pick es (k / 2) + (k land 1));
      lhf = (fun k -> 2 * pick fs (k / 2) + (k land 1));
      av = modn nvv; ae = modn nee; af = modn nff; ac = modn ncc }

let kind_of_string k = List.assoc k kinds

let parse_op (s : mesh) (toks : string list) : op * string =
  let abs, name, args =
    match toks with
    | [] -> failwith "empty"
    | t :: rest -> if t.[0] = '@' then (true, String.sub t 1 (String.length t - 1), rest) else (false, t, rest) in
  let r = resolver s abs in
  let ints = List.map int_of_string in
  let n = nat_of_int in
  let nl f l = List.map (fun k -> n (f k)) l in
  let echo nm l = nm ^ (if l = [] then "" else " ") ^ String.concat " " (List.map string_of_int l) in
  match name, args with
  | "AddV", [] -> (AddVertex, "AddV")
  | "AddVs", [k] -> (AddVertices (n (int_of_string k)), "AddVs " ^ k)
  | "AddE", [a; b; d] ->
      let a = r.lv (int_of_string a) and b = r.lv (int_of_string b) in
      (AddEdge (n a, n b, d = "1"), echo "AddE" [a; b; int_of_string d])
  | "AddF", c :: hes ->
      let l = List.map r.lhe (ints hes) in
      (AddFace (nl (fun x -> x) l, c = "1"), echo "AddF" (int_of_string c :: l))
  | "AddFV", vs ->
      let l = List.map r.lv (ints vs) in
      (AddFaceV (nl (fun x -> x) l), echo "AddFV" l)
  | "AddC", c :: hfs ->
      let l = List.map r.lhf (ints hfs) in
      (AddCell (nl (fun x -> x) l, c = "1"), echo "AddC" (int_of_string c :: l))
  | "SetE", [e; a; b] ->
      let e = r.le (int_of_string e) and a = r.lv (int_of_string a) and b = r.lv (int_of_string b) in
      (SetEdge (n e, n a, n b), echo "SetE" [e; a; b])
  | "SetF", f :: hes ->
      let f = r.lf (int_of_string f) and l = List.map r.lhe (ints hes) in
      (SetFace (n f, nl (fun x -> x) l), echo "SetF" (f :: l))
  | "SetC", c :: hfs ->
      let c = r.lc (int_of_string c) and l = List.map r.lhf (ints hfs) in
      (SetCell (n c, nl (fun x -> x) l), echo "SetC" (c :: l))
  | "DelV", [v] -> let v = r.lv (int_of_string v) in (DelVertex (n v), echo "DelV" [v])
  | "DelE", [v] -> let v = r.le (int_of_string v) in (DelEdge (n v), echo "DelE" [v])
  | "DelF", [v] -> let v = r.lf (int_of_string v) in (DelFace (n v), echo "DelF" [v])
  | "DelC", [v] -> let v = r.lc (int_of_string v) in (DelCell (n v), echo "DelC" [v])
  | "SwapV", [a; b] -> let a = r.av (int_of_string a) and b = r.av (int_of_string b) in (SwapV (n a, n b), echo "SwapV" [a; b])
  | "SwapE", [a; b] -> let a = r.ae (int_of_string a) and b = r.ae (int_of_string b) in (SwapE (n a, n b), echo "SwapE" [a; b])
  | "SwapF", [a; b] -> let a = r.af (int_of_string a) and b = r.af (int_of_string b) in (SwapF (n a, n b), echo "SwapF" [a; b])
  | "SwapC", [a; b] -> let a = r.ac (int_of_string a) and b = r.ac (int_of_string b) in (SwapC (n a, n b), echo "SwapC" [a; b])
  | "GC", [] -> (CollectGarbage, "GC")
  | "Clear", [b] -> (Clear (b = "1"), "Clear " ^ b)
  | "EnVBU", [b] -> (EnableVBU (b = "1"), "EnVBU " ^ b)
  | "EnEBU", [b] -> (EnableEBU (b = "1"), "EnEBU " ^ b)
  | "EnFBU", [b] -> (EnableFBU (b = "1"), "EnFBU " ^ b)
  | "EnDef", [b] -> (EnableDeferred (b = "1"), "EnDef " ^ b)
  | "EnFast", [b] -> (EnableFast (b = "1"), "EnFast " ^ b)
  | "PCreate", k :: d :: _ -> (PropCreate (kind_of_string k, z_of_int (int_of_string d)), "PCreate " ^ k ^ " " ^ d)
  | "PSet", [k; p; i; v] ->
      let kd = kind_of_string k in
      let ps = props kd s in
      let p = if abs then int_of_string p else modn (List.length ps) (int_of_string p) in
      let len = (try List.length (List.nth ps p).pdata with _ -> 0) in
      let i = if abs then int_of_string i else modn len (int_of_string i) in
      (PropSet (kd, n p, n i, z_of_int (int_of_string v)), Printf.sprintf "PSet %s %d %d %s" k p i v)
  | "PDrop", [k; p] ->
      let kd = kind_of_string k in
      let p = if abs then int_of_string p else modn (List.length (props kd s)) (int_of_string p) in
      (PropDrop (kd, n p), Printf.sprintf "PDrop %s %d" k p)
  | _ -> failwith ("bad op: " ^ String.concat " " toks)


(* ------------------------------------------------------------------ tet / hex layer *)

type mode = Tet | Hex
let mode = ref Tet

let tag_names = [ (1, "cv"); (2, "cvv"); (3, "cvh"); (4, "cvhe"); (5, "hov"); (6, "voh"); (7, "tvi"); (8, "tt"); (9, "tth");
                  (10, "ttcv"); (11, "ttc"); (12, "ttok"); (13, "tri"); (20, "hv"); (21, "or"); (22, "opp"); (23, "goh");
                  (24, "sheet"); (25, "surf"); (26, "csc"); (27, "hfshf"); (28, "layout"); (29, "orth") ]

let olist l = String.concat "" (List.map (function None -> " -" | Some n -> " " ^ string_of_int (int_of_nat n)) l)

(* prints one Q line; returns false when the result is UB (a batch stops there) *)
let print_q ((tag, args), res) =
  let nm = List.assoc (int_of_nat tag) tag_names in
  let a = String.concat "" (List.map (fun n -> " " ^ string_of_int (int_of_nat n)) args) in
  (match res with
   | None -> pr "Q %s%s : UB\n" nm a; false
   | Some l -> pr "Q %s%s :%s\n" nm a (olist l); true)

let rec print_batch = function
  | [] -> ()
  | q :: t -> if print_q q then print_batch t else ()

type action =
  | Mutate of top * hop * string * int    (* the operation in both kernels' languages, echo, 0 = both kinds / 1 = tet only / 2 = hex only *)
  | Query of string * (nat * nat list) * qres Lazy.t * bool      (* echo, line, precondition *)
  | Batch of string * qline list Lazy.t * bool
  | SetMode of mode * string

let opt_v r abs k = if k < 0 then None else Some (nat_of_int (if abs then k else r.lv k))

let parse_th (s : mesh) (toks : string list) : action =
  let abs, name, args =
    match toks with
    | [] -> failwith "empty"
    | t :: rest -> if t.[0] = '@' then (true, String.sub t 1 (String.length t - 1), rest) else (false, t, rest) in
  let r = resolver s abs in
  let n = nat_of_int in
  let i = int_of_string in
  let echo nm l = nm ^ (if l = [] then "" else " ") ^ String.concat " " (List.map string_of_int l) in
  let lv k = live_v s (n k) and lc k = live_c s (n k) in
  let lhe k = k >= 0 && live_e s (n (k / 2)) and lhf k = k >= 0 && live_f s (n (k / 2)) in
  let lvo k = k < 0 || lv k in
  let f = s.fbu in
  let q nm tag l res ok = Query (echo nm l, (tag, List.map n (List.filter (fun x -> x >= 0) l)), res, ok) in
  match name, args with
  | "Mesh", ["tet"] -> SetMode (Tet, "Mesh tet")
  | "Mesh", ["hex"] -> SetMode (Hex, "Mesh hex")
  | "TAddCellV", c :: vs ->
      let l = List.map (fun x -> r.lv (i x)) vs in
      let o = TAddCellV (List.map n l, c = "1") in
      Mutate (o, HK AddVertex, echo "TAddCellV" (i c :: l), 1)
  | "HAddCellV", c :: vs ->
      let l = List.map (fun x -> r.lv (i x)) vs in
      Mutate (TK AddVertex, HAddCellV (List.map n l, c = "1"), echo "HAddCellV" (i c :: l), 2)
  | "TAddCell4", [c; a; b; cc; d] ->
      let a = r.lv (i a) and b = r.lv (i b) and cc = r.lv (i cc) and d = r.lv (i d) in
      Mutate (TAddCell4 (n a, n b, n cc, n d, c = "1"), HK AddVertex, echo "TAddCell4" [i c; a; b; cc; d], 1)
  | "THalfEdge", [a; b] ->
      let a = r.lv (i a) and b = r.lv (i b) in
      Mutate (THalfEdge (n a, n b), HK AddVertex, echo "THalfEdge" [a; b], 1)
  | "THalfFaceV", [c; a; b; cc] ->
      let a = r.lv (i a) and b = r.lv (i b) and cc = r.lv (i cc) in
      Mutate (THalfFaceV (n a, n b, n cc, c = "1"), HK AddVertex, echo "THalfFaceV" [i c; a; b; cc], 1)
  | "THalfFace", c :: hes ->
      let l = List.map (fun x -> r.lhe (i x)) hes in
      Mutate (THalfFace (List.map n l, c = "1"), HK AddVertex, echo "THalfFace" (i c :: l), 1)
  | "TCollapse", [he] ->
      let he = r.lhe (i he) in
      Mutate (TCollapse (n he), HK AddVertex, echo "TCollapse" [he], 1)
  (* ---- tet queries *)
  | "QCV", [c] -> let c = r.lc (i c) in q "QCV" t_cv [c] (lazy (q_cv s (n c))) (f && lc c)
  | "QCVV", [c; v] -> let c = r.lc (i c) and v = r.lv (i v) in q "QCVV" t_cvv [c; v] (lazy (q_cvv s (n c) (n v))) (f && lc c && lv v)
  | "QCVH", [h] -> let h = r.lhf (i h) in q "QCVH" t_cvh [h] (lazy (q_cvh s (n h))) (f && lhf h)
  | "QCVHE", [h; e] -> let h = r.lhf (i h) and e = r.lhe (i e) in q "QCVHE" t_cvhe [h; e] (lazy (q_cvhe s (n h) (n e))) (f && lhf h && lhe e)
  | "QHOV", [h] -> let h = r.lhf (i h) in q "QHOV" t_hov [h] (lazy (q_hov s (n h))) (f && lhf h)
  | "QVOH", [c; v] -> let c = r.lc (i c) and v = r.lv (i v) in q "QVOH" t_voh [c; v] (lazy (q_voh s (n c) (n v))) (f && lc c && lv v)
  | "QTVI", [c; l] -> let c = r.lc (i c) and l = i l in q "QTVI" t_tvi [c; l] (lazy (q_tvi s (n c) (n l))) (f && lc c && l >= 1 && l <= 3)
  | "QTT", [c; h; v] ->
      let c = r.lc (i c) and h = r.lhf (i h) in
      let v = if i v < 0 then -1 else r.lv (i v) in
      q "QTT" t_tt [c; h; v] (lazy (q_tt s (n c) (n h) (if v < 0 then None else Some (n v)))) (f && lc c && lhf h && lvo v)
  | "QTTOK", [c; h; v] ->
      let c = r.lc (i c) and h = r.lhf (i h) in
      let v = if i v < 0 then -1 else r.lv (i v) in
      q "QTTOK" t_ttok [c; h; v] (lazy (q_ttok s (n c) (n h) (if v < 0 then None else Some (n v)))) (f && lc c && lhf h && lvo v)
  | "QTTH", [h; v] ->
      let h = r.lhf (i h) in
      let v = if i v < 0 then -1 else r.lv (i v) in
      q "QTTH" t_tth [h; v] (lazy (q_tth s (n h) (if v < 0 then None else Some (n v)))) (f && lhf h && lvo v)
  | "QTTCV", [c; v] -> let c = r.lc (i c) and v = r.lv (i v) in q "QTTCV" t_ttcv [c; v] (lazy (q_ttcv s (n c) (n v))) (f && lc c && lv v)
  | "QTTC", [c] -> let c = r.lc (i c) in q "QTTC" t_ttc [c] (lazy (q_ttc s (n c))) (f && lc c)
  | "QTRI", [h; v] ->
      let h = r.lhf (i h) in
      let v = if i v < 0 then -1 else r.lv (i v) in
      q "QTRI" t_tri [h; v] (lazy (q_tri s (n h) (if v < 0 then None else Some (n v)))) (f && lhf h && lvo v)
  | "QTetAll", [] -> Batch ("QTetAll", lazy (q_tet_all s), f)
  (* ---- hex queries *)
  | "QHV", [c] -> let c = r.lc (i c) in q "QHV" t_hv [c] (lazy (q_hv s (n c))) (f && lc c)
  | "QOR", [h; c] -> let h = r.lhf (i h) and c = r.lc (i c) in q "QOR" t_or [h; c] (lazy (q_or s (n h) (n c))) (f && lhf h && lc c)
  | "QOPP", [h; c] -> let h = r.lhf (i h) and c = r.lc (i c) in q "QOPP" t_opp [h; c] (lazy (q_opp s (n h) (n c))) (f && lhf h && lc c)
  | "QGOH", [o; c] -> let o = i o and c = r.lc (i c) in q "QGOH" t_goh [o; c] (lazy (q_goh s (n o) (n c))) (f && lc c && o >= 0 && o < 256)
  | "QSHEET", [h; e] -> let h = r.lhf (i h) and e = r.lhe (i e) in q "QSHEET" t_sheet [h; e] (lazy (q_sheet s (n h) (n e))) (f && lhf h && lhe e)
  | "QSURF", [h; e] -> let h = r.lhf (i h) and e = r.lhe (i e) in q "QSURF" t_surf [h; e] (lazy (q_surf s (n h) (n e))) (f && lhf h && lhe e)
  | "QCSC", [c; d] -> let c = r.lc (i c) and d = i d in q "QCSC" t_csc [c; d] (lazy (q_csc s (n c) (n d))) (f && lc c && d >= 0 && d < 256)
  | "QHFSHF", [h] -> let h = r.lhf (i h) in q "QHFSHF" t_hfshf [h] (lazy (q_hfshf s (n h))) (f && lhf h)
  | "QLAYOUT", [c] -> let c = r.lc (i c) in q "QLAYOUT" t_layout [c] (lazy (q_layout s (n c))) (f && lc c)
  | "QHexAll", [] -> Batch ("QHexAll", lazy (q_hex_all s), f)
  | "QOrthAll", [] -> Batch ("QOrthAll", lazy q_orth_all, true)
  | _ -> let (o, e) = parse_op s toks in Mutate (TK o, HK o, e, 0)

let () =
  let interactive = Array.length Sys.argv > 1 && Sys.argv.(1) = "-i" in
  let ic = if (not interactive) && Array.length Sys.argv > 1 then open_in Sys.argv.(1) else stdin in
  let st = ref empty_mesh in
  let lineno = ref 0 in
  let dead = ref false in        (* after a UB outcome of a mutating operation the script is over (the C++ child died) *)
  let flush_out () = print_string (Buffer.contents buf); Buffer.clear buf in
  (try
     while true do
       let line = String.trim (input_line ic) in
       if line = "" || line.[0] = '%' then ()
       else if String.length line >= 4 && String.sub line 0 4 = "####" then begin
         pr "%s\n" line; st := empty_mesh; lineno := 0; dead := false; mode := Tet;
         if interactive then begin pr ".\n"; flush_out (); flush stdout end
       end else if !dead then begin
         if interactive then begin pr "== 0 dead -> UB\n.\n"; flush_out (); flush stdout end
       end else begin
         incr lineno;
         let toks = List.filter (fun t -> t <> "") (String.split_on_char ' ' line) in
         (match (try Some (parse_th !st toks) with Unresolvable -> None) with
          | None -> pr "== %d %s -> Unresolvable\n" !lineno line; dump !st
          | Some (SetMode (m, e)) -> mode := m; pr "== %d %s -> Ok -\n" !lineno e; dump !st
          | Some (Query (e, l, res, ok)) ->
              if not ok then pr "== %d %s -> Rejected\n" !lineno e
              else begin pr "== %d %s -> Ok -\n" !lineno e; ignore (print_q (l, Lazy.force res)) end
          | Some (Batch (e, ls, ok)) ->
              if not ok then pr "== %d %s -> Rejected\n" !lineno e
              else begin pr "== %d %s -> Ok -\n" !lineno e; print_batch (Lazy.force ls) end
          | Some (Mutate (t, h, e, only)) ->
              if (only = 1 && !mode = Hex) || (only = 2 && !mode = Tet) then failwith ("operation not available for this mesh kind: " ^ e);
              let res = (match !mode with
                         | Tet -> (match tet_step !st t with TOk (s', r) -> `Ok (s', r) | TRejected -> `Rej | TUB -> `UB)
                         | Hex -> (match hex_step !st h with HROk (s', r) -> `Ok (s', r) | HRRejected -> `Rej)) in
              (match res with
               | `Rej -> pr "== %d %s -> Rejected\n" !lineno e; dump !st
               | `UB -> pr "== %d %s -> UB\n" !lineno e; dead := true
               | `Ok (s', r) ->
                   st := s';
                   pr "== %d %s -> Ok %s\n" !lineno e (match r with None -> "-" | Some h -> string_of_int (int_of_nat h));
                   dump !st));
         if interactive then begin pr ".\n"; flush_out (); flush stdout end
         else if Buffer.length buf > (1 lsl 19) then flush_out ()
       end
     done
   with End_of_file -> ());
  flush_out ()
