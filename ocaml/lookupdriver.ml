(* lookupdriver.ml -- runs kernel scripts on the kernel model (coq/Kernel) and, on a line
   "QLookup <seed> <mask>", prints the result of every lookup model of coq/Kernel2/LookupModel.v on an
   exhaustive batch of arguments derived from the current state.  harness/run_lookup.cc prints the same
   lines from the real library; the two outputs are compared line by line (lib/checks_lookup.py).
   Script parsing / operand resolution / state dump are those of kdriver.ml (same script language).
   mask bit 0: the C10 groups (find_*, get_halfface_vertices, is_incident, n_vertices_in_cell, next/prev);
   mask bit 1: the C09 groups (adjacent_halfface_in_cell).
   Hand-written glue only: parsing, nat <-> int conversion, enumeration of argument tuples, printing. *)
open Lookup_model

let rec nat_of_int n = if n <= 0 then O else S (nat_of_int (n - 1))
let rec int_of_nat = function O -> 0 | S n -> 1 + int_of_nat n
let rec pos_of_int n = if n <= 1 then XH else if n land 1 = 0 then XO (pos_of_int (n lsr 1)) else XI (pos_of_int (n lsr 1))
let z_of_int n = if n = 0 then Z0 else if n > 0 then Zpos (pos_of_int n) else Zneg (pos_of_int (-n))
let rec int_of_pos = function XH -> 1 | XO p -> 2 * int_of_pos p | XI p -> 2 * int_of_pos p + 1
let int_of_z = function Z0 -> 0 | Zpos p -> int_of_pos p | Zneg p -> - (int_of_pos p)

let buf = Buffer.create (1 lsl 20)
let pr fmt = Printf.bprintf buf fmt

let ilist l = String.concat " " (List.map (fun n -> string_of_int (int_of_nat n)) l)
let bools l = String.concat "" (List.map (fun b -> if b then "1" else "0") l)
let b2i b = if b then 1 else 0

let kinds = [ ("V", KV); ("E", KE); ("HE", KHE); ("F", KF); ("HF", KHF); ("C", KC); ("M", KM) ]

let dump (s : mesh) =
  pr "nv %d\n" (int_of_nat s.nv);
  pr "E %s\n" (String.concat " " (List.map (fun (a, b) -> Printf.sprintf "%d,%d" (int_of_nat a) (int_of_nat b)) s.edges));
  pr "F %s\n" (String.concat " " (List.map (fun l -> "[" ^ ilist l ^ "]") s.faces));
  pr "C %s\n" (String.concat " " (List.map (fun l -> "[" ^ ilist l ^ "]") s.cells));
  pr "del V:%s E:%s F:%s C:%s\n" (bools s.vdel) (bools s.edel) (bools s.fdel) (bools s.cdel);
  pr "cnt %d %d %d %d\n" (int_of_nat s.ndv) (int_of_nat s.nde) (int_of_nat s.ndf) (int_of_nat s.ndc);
  pr "flags v=%d e=%d f=%d def=%d fast=%d\n" (b2i s.vbu) (b2i s.ebu) (b2i s.fbu) (b2i s.deferred) (b2i s.fast);
  pr "OUT %s\n" (String.concat " " (List.map (fun l -> "[" ^ ilist l ^ "]") s.out_hes));
  pr "HFS %s\n" (String.concat " " (List.map (fun l -> "[" ^ ilist l ^ "]") s.inc_hfs));
  pr "CELL %s\n" (String.concat " " (List.map (function None -> "-" | Some c -> string_of_int (int_of_nat c)) s.inc_cell));
  List.iter (fun (kn, k) ->
      List.iteri (fun i p ->
          pr "P %s %d def=%d : %s\n" kn i (int_of_z p.pdef)
            (String.concat " " (List.map (fun z -> string_of_int (int_of_z z)) p.pdata)))
        (props k s)) kinds

(* ---- operand resolution (relative operands; "@Op" lines carry absolute operands) *)
let live_list n isdel = List.filter (fun i -> not (List.nth isdel i)) (List.init n (fun i -> i))

exception Unresolvable

let pick l k = match l with [] -> raise Unresolvable | _ -> List.nth l (k mod List.length l)
let modn n k = if n = 0 then raise Unresolvable else k mod n

type resolver = { lv : int -> int; le : int -> int; lf : int -> int; lc : int -> int;
                  lhe : int -> int; lhf : int -> int;
                  av : int -> int; ae : int -> int; af : int -> int; ac : int -> int }

let resolver (s : mesh) abs =
  if abs then
    let id k = k in
    { lv = id; le = id; lf = id; lc = id; lhe = id; lhf = id; av = id; ae = id; af = id; ac = id }
  else
    let nvv = int_of_nat s.nv and nee = List.length s.edges and nff = List.length s.faces and ncc = List.length s.cells in
    let vs = live_list nvv s.vdel and es = live_list nee s.edel and fs = live_list nff s.fdel and cs = live_list ncc s.cdel in
    { lv = pick vs; le = pick es; lf = pick fs; lc = pick cs;
      lhe = (fun k -> 2 * pick es (k / 2) + (k land 1));
      lhf = (fun k -> 2 * pick fs (k / 2) + (k land 1));
      av = modn nvv; ae = modn nee; af = modn nff; ac = modn ncc }

let kind_of_string k = List.assoc k kinds

let parse_op (s : mesh) (toks : string list) : op * string =
  let abs, name, args =
    match toks with
    | [] -> failwith "empty"
    | t :: rest -> if t.[0] = '@' then (true, String.sub t 1 (String.length t - 1), rest) else (false, t, rest) in
  let r = resolver s abs in
  let ints = List.map int_of_string in
  let n = nat_of_int in
  let nl f l = List.map (fun k -> n (f k)) l in
  let echo nm l = nm ^ (if l = [] then "" else " ") ^ String.concat " " (List.map string_of_int l) in
  match name, args with
  | "AddV", [] -> (AddVertex, "AddV")
  | "AddVs", [k] -> (AddVertices (n (int_of_string k)), "AddVs " ^ k)
  | "AddE", [a; b; d] ->
      let a = r.lv (int_of_string a) and b = r.lv (int_of_string b) in
      (AddEdge (n a, n b, d = "1"), echo "AddE" [a; b; int_of_string d])
  | "AddF", c :: hes ->
      let l = List.map r.lhe (ints hes) in
      (AddFace (nl (fun x -> x) l, c = "1"), echo "AddF" (int_of_string c :: l))
  | "AddFV", vs ->
      let l = List.map r.lv (ints vs) in
      (AddFaceV (nl (fun x -> x) l), echo "AddFV" l)
  | "AddC", c :: hfs ->
      let l = List.map r.lhf (ints hfs) in
      (AddCell (nl (fun x -> x) l, c = "1"), echo "AddC" (int_of_string c :: l))
  | "SetE", [e; a; b] ->
      let e = r.le (int_of_string e) and a = r.lv (int_of_string a) and b = r.lv (int_of_string b) in
      (SetEdge (n e, n a, n b), echo "SetE" [e; a; b])
  | "SetF", f :: hes ->
      let f = r.lf (int_of_string f) and l = List.map r.lhe (ints hes) in
      (SetFace (n f, nl (fun x -> x) l), echo "SetF" (f :: l))
  | "SetC", c :: hfs ->
      let c = r.lc (int_of_string c) and l = List.map r.lhf (ints hfs) in
      (SetCell (n c, nl (fun x -> x) l), echo "SetC" (c :: l))
  | "DelV", [v] -> let v = r.lv (int_of_string v) in (DelVertex (n v), echo "DelV" [v])
  | "DelE", [v] -> let v = r.le (int_of_string v) in (DelEdge (n v), echo "DelE" [v])
  | "DelF", [v] -> let v = r.lf (int_of_string v) in (DelFace (n v), echo "DelF" [v])
  | "DelC", [v] -> let v = r.lc (int_of_string v) in (DelCell (n v), echo "DelC" [v])
  | "SwapV", [a; b] -> let a = r.av (int_of_string a) and b = r.av (int_of_string b) in (SwapV (n a, n b), echo "SwapV" [a; b])
  | "SwapE", [a; b] -> let a = r.ae (int_of_string a) and b = r.ae (int_of_string b) in (SwapE (n a, n b), echo "SwapE" [a; b])
  | "SwapF", [a; b] -> let a = r.af (int_of_string a) and b = r.af (int_of_string b) in (SwapF (n a, n b), echo "SwapF" [a; b])
  | "SwapC", [a; b] -> let a = r.ac (int_of_string a) and b = r.ac (int_of_string b) in (SwapC (n a, n b), echo "SwapC" [a; b])
  | "GC", [] -> (CollectGarbage, "GC")
  | "Clear", [b] -> (Clear (b = "1"), "Clear " ^ b)
  | "EnVBU", [b] -> (EnableVBU (b = "1"), "EnVBU " ^ b)
  | "EnEBU", [b] -> (EnableEBU (b = "1"), "EnEBU " ^ b)
  | "EnFBU", [b] -> (EnableFBU (b = "1"), "EnFBU " ^ b)
  | "EnDef", [b] -> (EnableDeferred (b = "1"), "EnDef " ^ b)
  | "EnFast", [b] -> (EnableFast (b = "1"), "EnFast " ^ b)
  | "PCreate", k :: d :: _ -> (PropCreate (kind_of_string k, z_of_int (int_of_string d)), "PCreate " ^ k ^ " " ^ d)
  | "PSet", [k; p; i; v] ->
      let kd = kind_of_string k in
      let ps = props kd s in
      let p = if abs then int_of_string p else modn (List.length ps) (int_of_string p) in
      let len = (try List.length (List.nth ps p).pdata with _ -> 0) in
      let i = if abs then int_of_string i else modn len (int_of_string i) in
      (PropSet (kd, n p, n i, z_of_int (int_of_string v)), Printf.sprintf "PSet %s %d %d %s" k p i v)
  | "PDrop", [k; p] ->
      let kd = kind_of_string k in
      let p = if abs then int_of_string p else modn (List.length (props kd s)) (int_of_string p) in
      (PropDrop (kd, n p), Printf.sprintf "PDrop %s %d" k p)
  | _ -> failwith ("bad op: " ^ String.concat " " toks)

(* ------------------------------------------------------------------ the query batch *)

let n = nat_of_int
let i = int_of_nat
let ho = function None -> "-" | Some h -> string_of_int (i h)
let range k = List.init (max k 0) (fun x -> x)
let commas l = String.concat "," (List.map string_of_int l)
let nlist l = List.map n l
let sp l = String.concat "" (List.map (fun x -> " " ^ x) l)

(* the same linear congruential generator as harness/run_lookup.cc *)
let lcg = ref 1
let lcg_next k =
  lcg := (!lcg * 1103515245 + 12345) land 0x7fffffff;
  if k <= 0 then 0 else (!lcg lsr 8) mod k

let rotate k l =
  let len = List.length l in
  if len = 0 then l else List.init len (fun j -> List.nth l ((j + k) mod len))

let take k l = List.filteri (fun j _ -> j < k) l
let set_nth k x l = List.mapi (fun j y -> if j = k then x else y) l

(* vertex tuples: from every live halfface with >= 3 vertices: every rotation (the reversed cycles come from
   the opposite halfface), its 3-prefix, a vertex of another face substituted at position 2 and at
   position 0, one extra vertex appended; plus random tuples *)
let vertex_tuples (s : mesh) (seed : int) : int list list =
  let nvv = i s.nv and nff = List.length s.faces in
  let hfv hf = List.map (fun h -> i (he_from s h)) (halfface s (n hf)) in
  let out = ref [] in
  let add t = out := t :: !out in
  for hf = 0 to 2 * nff - 1 do
    if live_f s (n (hf / 2)) then begin
      let vs = hfv hf in
      let len = List.length vs in
      if len >= 3 then begin
        let other = if nff = 0 then [] else hfv ((hf + 2) mod (2 * nff)) in
        let w = match other with x :: _ -> x | [] -> 0 in
        for k = 0 to len - 1 do
          let r = rotate k vs in
          add r;
          if len > 3 then add (take 3 r)
        done;
        add (set_nth 2 w vs);
        add (set_nth 0 w vs);
        add (vs @ [w])
      end
    end
  done;
  lcg := (seed land 0x7fffffff) lor 1;
  if nvv > 0 then
    for _ = 1 to 24 do
      let len = 3 + lcg_next 2 in
      add (List.init len (fun _ -> lcg_next nvv))
    done;
  let all = List.rev !out in
  let cnt = List.length all in
  if cnt <= 400 then all
  else let stride = (cnt + 399) / 400 in List.filteri (fun j _ -> j mod stride = 0) all

let qlookup (s : mesh) (seed : int) (mask : int) =
  let nvv = i s.nv and nee = List.length s.edges and nff = List.length s.faces and ncc = List.length s.cells in
  let qx = Buffer.create 1024 in
  if mask land 1 <> 0 then begin
    (* find_halfedge: all ordered pairs of vertex handles *)
    List.iter (fun v1 ->
        pr "Q fhe %d :%s\n" v1 (sp (List.map (fun v2 -> ho (find_halfedge s (n v1) (n v2))) (range nvv))))
      (range nvv);
    (* find_halfedge_in_cell: all (pair, live cell) *)
    List.iter (fun c ->
        if live_c s (n c) then
          List.iter (fun v1 ->
              pr "Q fhec %d %d :%s\n" c v1
                (sp (List.map (fun v2 -> ho (find_halfedge_in_cell s (n v1) (n v2) (n c))) (range nvv))))
            (range nvv))
      (range ncc);
    (* find_halfface(vertices), find_halfface_extensive, find_halfface_in_cell *)
    let tuples = vertex_tuples s seed in
    List.iter (fun t ->
        pr "Q fhf %s : %s %s\n" (commas t) (ho (find_halfface_vs s (nlist t))) (ho (find_halfface_extensive s (nlist t))))
      tuples;
    if s.fbu then
      List.iter (fun c ->
          if live_c s (n c) then begin
            let closed = closed_cell_b s (n c) in
            List.iter (fun t ->
                let line = Printf.sprintf "%s fhfc %d %s : %s\n" (if closed then "Q" else "QX") c (commas t)
                    (ho (find_halfface_in_cell s (nlist t) (n c))) in
                if closed then Buffer.add_string buf line else Buffer.add_string qx line)
              tuples
          end)
        (range ncc);
    (* find_halfface(halfedges): all ordered pairs of halfedge handles *)
    List.iter (fun h0 ->
        pr "Q fhfh %d :%s\n" h0
          (sp (List.map (fun h1 -> ho (find_halfface_hes s [n h0; n h1])) (range (2 * nee)))))
      (range (2 * nee));
    (* get_halfface_vertices: (hf), (hf, v), (hf, he) *)
    List.iter (fun hf ->
        pr "Q ghv %d : %s\n" hf (ilist (get_halfface_vertices s (n hf)));
        pr "Q ghvv %d :%s\n" hf
          (sp (List.map (fun v -> "[" ^ ilist (get_halfface_vertices_v s (n hf) (n v)) ^ "]") (range nvv)));
        pr "Q ghvh %d :%s\n" hf
          (sp (List.map (fun h -> "[" ^ ilist (get_halfface_vertices_he s (n hf) (n h)) ^ "]") (range (2 * nee)))))
      (range (2 * nff));
    (* is_incident: all (face, edge) *)
    List.iter (fun f ->
        pr "Q inc %d : %s\n" f (bools (List.map (fun e -> is_incident s (n f) (n e)) (range nee))))
      (range nff);
    (* n_vertices_in_cell *)
    pr "Q nvc :%s\n" (sp (List.map (fun c -> string_of_int (i (n_vertices_in_cell s (n c)))) (range ncc)));
    (* next / prev_halfedge_in_halfface: every halfedge of the halfface, and the smallest non-member *)
    List.iter (fun hf ->
        let hes = List.map i (halfface s (n hf)) in
        let non = List.filter (fun h -> not (List.mem h hes)) (range (2 * nee)) in
        let args = hes @ (match non with x :: _ -> [x] | [] -> []) in
        pr "Q nxt %d :%s\n" hf
          (sp (List.map (fun h -> Printf.sprintf "%d=%s/%s" h
                                          (ho (next_halfedge_in_halfface s (n h) (n hf)))
                                          (ho (prev_halfedge_in_halfface s (n h) (n hf)))) args)))
      (range (2 * nff))
  end;
  if s.fbu then
    pr "Q closed : %s\n" (bools (List.map (fun c -> closed_cell_b s (n c)) (range ncc)))
  else pr "Q closed off\n";
  if mask land 2 <> 0 then begin
    if s.fbu then
      List.iter (fun hf ->
          let hes = List.map i (halfface s (n hf)) in
          let args = hes @ List.map (fun h -> h lxor 1) hes in
          pr "Q adj %d :%s\n" hf
            (sp (List.map (fun h -> Printf.sprintf "%d=%s" h (ho (adjacent_halfface_in_cell s (n hf) (n h)))) args)))
        (range (2 * nff))
    else pr "Q adj off\n"
  end;
  Buffer.add_buffer buf qx

let () =
  let interactive = Array.length Sys.argv > 1 && Sys.argv.(1) = "-i" in
  let ic = if (not interactive) && Array.length Sys.argv > 1 then open_in Sys.argv.(1) else stdin in
  let st = ref empty_mesh in
  let lineno = ref 0 in
  let flush_out () = print_string (Buffer.contents buf); Buffer.clear buf in
  (try
     while true do
       let line = String.trim (input_line ic) in
       if line = "" || line.[0] = '%' then ()
       else if String.length line >= 4 && String.sub line 0 4 = "####" then begin
         pr "%s\n" line; st := empty_mesh; lineno := 0;
         if interactive then begin pr ".\n"; flush_out (); flush stdout end
       end else begin
         incr lineno;
         let toks = List.filter (fun t -> t <> "") (String.split_on_char ' ' line) in
         (match toks with
          | "QLookup" :: seed :: mask :: _ ->
              pr "== %d QLookup %s %s -> Ok -\n" !lineno seed mask;
              dump !st;
              if not interactive then qlookup !st (int_of_string seed) (int_of_string mask)
          | _ ->
              (match (try Some (parse_op !st toks) with Unresolvable -> None) with
               | None -> pr "== %d %s -> Unresolvable\n" !lineno line
               | Some (o, echo) ->
                   (match step !st o with
                    | Rejected -> pr "== %d %s -> Rejected\n" !lineno echo
                    | Ok (s', r) ->
                        st := s';
                        pr "== %d %s -> Ok %s\n" !lineno echo
                          (match r with None -> "-" | Some h -> string_of_int (int_of_nat h))));
              dump !st);
         if interactive then begin pr ".\n"; flush_out (); flush stdout end
         else if Buffer.length buf > (1 lsl 19) then flush_out ()
       end
     done
   with End_of_file -> ());
  flush_out ()
