(* asciidriver.ml -- runs the extracted OVM-ASCII models (coq/IO/AsciiStream.v, AsciiReaderModel.v, AsciiWriterModel.v) on
   the same inputs as harness/run_ascii.cc and prints the same canonical text.
     asciidriver --tokens <maxlen> [alphabet-hex]     token-level differential of the istream-lite
     asciidriver --toklist                            tokens one per line (hex) on stdin
     asciidriver [file]                               case file (read / write cases, see run_ascii.cc)
   Hand-written glue only: parsing, int <-> Z conversion, printing, and the floating-point primitives that the models take
   as parameters (conv_d / conv_f = strtod + the overflow rule of libstdc++'s __convert_to_v; print_d = "%g"). *)
open Ascii_model

module L = Stdlib.List
module S = Stdlib.String
module P = Stdlib.Printf
module B = Stdlib.Buffer

let rec nat_of_int n = if n <= 0 then O else S (nat_of_int (n - 1))
let rec int_of_nat = function O -> 0 | S n -> 1 + int_of_nat n
let rec pos_of_int n = if n <= 1 then XH else if n land 1 = 0 then XO (pos_of_int (n lsr 1)) else XI (pos_of_int (n lsr 1))
let z_of_int n = if n = 0 then Z0 else if n > 0 then Zpos (pos_of_int n) else Zneg (pos_of_int (-n))
let rec int_of_pos = function XH -> 1 | XO p -> 2 * int_of_pos p | XI p -> 2 * int_of_pos p + 1
let int_of_z = function Z0 -> 0 | Zpos p -> int_of_pos p | Zneg p -> - (int_of_pos p)

(* arbitrary-size Z <-> decimal string (values up to 2^64 do not fit OCaml's 63-bit int) *)
let rec pos_to_digits p : int list =          (* little-endian decimal digits *)
  let dbl ds carry = let rec go ds c = match ds with [] -> if c = 0 then [] else [c] | d :: t -> let v = 2 * d + c in (v mod 10) :: go t (v / 10) in go ds carry in
  match p with XH -> [1] | XO q -> dbl (pos_to_digits q) 0 | XI q -> dbl (pos_to_digits q) 1
let string_of_pos p = S.concat "" (L.rev_map string_of_int (pos_to_digits p))
let string_of_z = function Z0 -> "0" | Zpos p -> string_of_pos p | Zneg p -> "-" ^ string_of_pos p
let z_of_string (s : S.t) : z =
  let neg = S.length s > 0 && s.[0] = '-' in
  let ds = if neg then S.sub s 1 (S.length s - 1) else s in
  (* binary digits by repeated halving of the decimal string *)
  let digits = Stdlib.Array.of_list (L.init (S.length ds) (fun i -> Stdlib.Char.code ds.[i] - 48)) in
  let n = Stdlib.Array.length digits in
  let is_zero () = Stdlib.Array.for_all (fun d -> d = 0) digits in
  let halve () = let r = ref 0 in for i = 0 to n - 1 do let v = !r * 10 + digits.(i) in digits.(i) <- v / 2; r := v mod 2 done; !r in
  let bits = ref [] in
  while not (is_zero ()) do bits := halve () :: !bits done;           (* most significant first *)
  let rec build acc = function [] -> acc | b :: t -> build (match acc with None -> if b = 1 then Some XH else None | Some p -> Some (if b = 1 then XI p else XO p)) t in
  match build None !bits with None -> Z0 | Some p -> if neg then Zneg p else Zpos p

let z_of_int64u (x : int64) : z =      (* unsigned interpretation *)
  let hi = Stdlib.Int64.to_int (Stdlib.Int64.shift_right_logical x 32) and lo = Stdlib.Int64.to_int (Stdlib.Int64.logand x 0xFFFFFFFFL) in
  let rec shift p k = if k = 0 then p else shift (XO p) (k - 1) in
  match z_of_int hi, z_of_int lo with
  | Z0, l -> l
  | Zpos h, Z0 -> Zpos (shift h 32)
  | Zpos h, Zpos l -> (* h*2^32 + l *) let rec add_low hp bits = (match bits with [] -> hp | b :: t -> add_low (if b then XI hp else XO hp) t) in
      let lbits = L.init 32 (fun i -> (lo lsr (31 - i)) land 1 = 1) in ignore l; Zpos (add_low h lbits)
  | _ -> Z0
let int64_of_z (v : z) : int64 =
  let rec go = function XH -> 1L | XO p -> Stdlib.Int64.shift_left (go p) 1 | XI p -> Stdlib.Int64.logor (Stdlib.Int64.shift_left (go p) 1) 1L in
  match v with Z0 -> 0L | Zpos p -> go p | Zneg p -> Stdlib.Int64.neg (go p)

let buf = B.create (1 lsl 20)
let pr fmt = P.bprintf buf fmt
let flush_out () = Stdlib.print_string (B.contents buf); B.clear buf

let hexdigit c = match c with '0' .. '9' -> Stdlib.Char.code c - 48 | 'a' .. 'f' -> Stdlib.Char.code c - 87 | 'A' .. 'F' -> Stdlib.Char.code c - 55 | _ -> failwith "hex"
let bytes_of_hex h : int list =
  if h = "-" then [] else L.init (S.length h / 2) (fun i -> 16 * hexdigit h.[2 * i] + hexdigit h.[2 * i + 1])
let hex_of_ints (l : int list) =
  let b = B.create (2 * L.length l + 1) in
  L.iter (fun x -> B.add_string b (P.sprintf "%02x" x)) l; B.contents b
let hex_or_dash l = if l = [] then "-" else hex_of_ints l
let zbytes (l : int list) : z list = L.map z_of_int l
let ibytes (l : z list) : int list = L.map int_of_z l
let string_of_ints l = let b = B.create 16 in L.iter (fun c -> B.add_char b (Stdlib.Char.chr c)) l; B.contents b
let ints_of_string s = L.init (S.length s) (fun i -> Stdlib.Char.code s.[i])

(* ---------------------------------------------------------------- floating-point primitives (parameters of the models) *)
let bits64 (x : float) = P.sprintf "%016Lx" (Stdlib.Int64.bits_of_float x)
let bits32_of_int32 (x : int32) = P.sprintf "%08lx" x
(* strtod on the characters num_get accumulated; they only contain [+-0-9.e] *)
let strtod_opt (s : S.t) : float option =
  if s = "" then None else
  if S.contains s '_' || S.contains s 'x' || S.contains s 'X' || S.contains s 'n' || S.contains s 'i' then None
  else Stdlib.float_of_string_opt s
let conv_d (x : z list) : z * bool =
  match strtod_opt (string_of_ints (ibytes x)) with
  | None -> (z_of_int64u (Stdlib.Int64.bits_of_float 0.0), true)
  | Some v ->
      if v = Stdlib.infinity then (z_of_int64u (Stdlib.Int64.bits_of_float Stdlib.max_float), true)
      else if v = Stdlib.neg_infinity then (z_of_int64u (Stdlib.Int64.bits_of_float (-. Stdlib.max_float)), true)
      else (z_of_int64u (Stdlib.Int64.bits_of_float v), false)
let flt_max_bits = 0x7f7fffffl
let conv_f (x : z list) : z * bool =
  let zb (b : int32) = z_of_int64u (Stdlib.Int64.logand (Stdlib.Int64.of_int32 b) 0xFFFFFFFFL) in
  match strtod_opt (string_of_ints (ibytes x)) with
  | None -> (zb 0l, true)
  | Some v ->
      let b = Stdlib.Int32.bits_of_float v in      (* round to nearest single, as strtof does (see driver note on double rounding) *)
      if b = 0x7f800000l then (zb flt_max_bits, true)
      else if b = 0xff800000l then (zb (Stdlib.Int32.logor flt_max_bits 0x80000000l), true)
      else (zb b, false)
let hex64_of_z v = P.sprintf "%016Lx" (int64_of_z v)
let hex32_of_z v = P.sprintf "%08Lx" (int64_of_z v)

(* ---------------------------------------------------------------- token differential *)
let alphabet = ref "0123456789+-.exa "

let bits_of (s : istream) = let r = (if s.eofb then "e" else "") ^ (if s.failb then "f" else "") in if r = "" then "g" else r
let consumed (tok : int list) (s : istream) = L.length tok - L.length s.rest

let tok_line tok tn (run : istream -> istream * S.t option) (sentinel : S.t) =
  let s0 = of_bytes (zbytes tok) in
  let (s1, a) = run s0 in
  let (s2, b) = run s1 in
  let sh = function None -> sentinel | Some x -> x in
  pr "%s %s %s %s %d | %s %s %d\n" (hex_or_dash tok) tn (sh a) (bits_of s1) (consumed tok s1) (sh b) (bits_of s2) (consumed tok s2)

let num tn ty tok = tok_line tok tn (fun s -> let (s', v) = get_num ty s in (s', match v with None -> None | Some z -> Some (string_of_z z))) "77"
let tok_all (tok : int list) =
  num "unsigned" NU32 tok; num "uint64" NU64 tok; num "int" NI32 tok; num "size_t" NU64 tok; num "short" NI16 tok; num "long" NI64 tok;
  tok_line tok "bool" (fun s -> let (s', v) = get_num NBool s in (s', match v with None -> None | Some z -> Some (string_of_z z))) "0";
  let ch s = let (s', v) = get_char s in (s', match v with None -> None | Some z -> Some (string_of_int (int_of_z z))) in
  tok_line tok "char" ch "77"; tok_line tok "uchar" ch "77";
  tok_line tok "double" (fun s -> let (s', v) = get_float conv_d s in (s', match v with None -> None | Some z -> Some (hex64_of_z z))) (bits64 77.0);
  tok_line tok "float" (fun s -> let (s', v) = get_float conv_f s in (s', match v with None -> None | Some z -> Some (hex32_of_z z))) (bits32_of_int32 (Stdlib.Int32.bits_of_float 77.0));
  let w f s = let (s', v) = f s in (s', match v with None -> None | Some l -> Some ("s" ^ hex_of_ints (ibytes l))) in
  tok_line tok "word" (w get_word) "s4d";
  tok_line tok "getline" (w getline) "s4d"

let rec tokens_rec (cur : int list) maxlen =
  tok_all (L.rev cur);
  if L.length cur < maxlen then S.iter (fun c -> tokens_rec (Stdlib.Char.code c :: cur) maxlen) !alphabet

(* ---------------------------------------------------------------- printing primitives for the writer model *)
let print_g (x : float) : z list = zbytes (ints_of_string (P.sprintf "%g" x))
let print_d (bits : z) : z list = print_g (Stdlib.Int64.float_of_bits (int64_of_z bits))
let print_f (bits : z) : z list = print_g (Stdlib.Int32.float_of_bits (Stdlib.Int64.to_int32 (int64_of_z bits)))

(* ---------------------------------------------------------------- canonical values *)
let kinds = [ ("V", KV); ("E", KE); ("HE", KHE); ("F", KF); ("HF", KHF); ("C", KC); ("M", KM) ]
let kind_name k = fst (L.find (fun (_, k') -> k' = k) kinds)
let kind_index k = let rec go i = function [] -> 7 | (_, k') :: t -> if k' = k then i else go (i + 1) t in go 0 kinds
let tname t = string_of_ints (ibytes (type_name t))

let rec show_val (t : atype) (v : aval) : S.t =
  match v with
  | VInt z -> string_of_z z
  | VFlt b -> (match t with TFloat | TVec (_, SF) -> hex32_of_z b | _ -> hex64_of_z b)
  | VStr l -> "s" ^ hex_of_ints (ibytes l)
  | VList l ->
      (match t with
       | TVec (_, _) -> "(" ^ S.concat "," (L.map (show_val t) l) ^ ")"
       | TMapHehInt -> "{" ^ S.concat "," (L.map (function VList [k; x] -> show_val TInt k ^ ":" ^ show_val TInt x | _ -> "?") l) ^ "}"
       | TVecVecHfh -> "[" ^ S.concat "," (L.map (show_val TVecHfh) l) ^ "]"
       | TVecDouble -> "[" ^ S.concat "," (L.map (show_val TDouble) l) ^ "]"
       | _ -> "[" ^ S.concat "," (L.map (show_val TInt) l) ^ "]")

(* recursive-descent parser of a canonical value of type t at position !i of s *)
let parse_val (t : atype) (s : S.t) : aval =
  let n = S.length s in
  let i = ref 0 in
  let peek () = if !i < n then s.[!i] else '\000' in
  let adv () = incr i in
  let take p = let st = !i in while !i < n && p s.[!i] do incr i done; S.sub s st (!i - st) in
  let is_hex c = (c >= '0' && c <= '9') || (c >= 'a' && c <= 'f') || (c >= 'A' && c <= 'F') in
  let int_tok () = z_of_string (take (fun c -> (c >= '0' && c <= '9') || c = '-')) in
  let flt k = let h = S.sub s !i (min k (n - !i)) in i := !i + S.length h; VFlt (z_of_int64u (Stdlib.Int64.of_string ("0x" ^ h))) in
  let rec seq close elem = (* after the opening bracket *)
    let acc = ref [] in
    while !i < n && peek () <> close do acc := elem () :: !acc; if peek () = ',' then adv () done;
    if peek () = close then adv ();
    L.rev !acc in
  let rec go t =
    match t with
    | TInt | TUInt | TShort | TLong | TULong | TChar | TUChar | TBool -> VInt (int_tok ())
    | TFloat -> flt 8
    | TDouble -> flt 16
    | TString -> if peek () = 's' then adv (); VStr (zbytes (bytes_of_hex (let h = take is_hex in if h = "" then "-" else h)))
    | TMapHehInt -> if peek () = '{' then adv ();
        VList (seq '}' (fun () -> let k = int_tok () in if peek () = ':' then adv (); let v = VInt (int_tok ()) in VList [VInt k; v]))
    | TVecDouble -> if peek () = '[' then adv (); VList (seq ']' (fun () -> go TDouble))
    | TVecVh | TVecHfh -> if peek () = '[' then adv (); VList (seq ']' (fun () -> go TInt))
    | TVecVecHfh -> if peek () = '[' then adv (); VList (seq ']' (fun () -> go TVecHfh))
    | TVec (_, sc) -> if peek () = '(' then adv ();
        VList (seq ')' (fun () -> go (match sc with SF -> TFloat | SD -> TDouble | SI -> TInt | SUI -> TUInt)))
  in go t

let type_of_string (n : S.t) : atype option = type_of_name (zbytes (ints_of_string n))

(* ---------------------------------------------------------------- mesh block *)
let ilist l = S.concat " " (L.map (fun n -> string_of_int (int_of_nat n)) l)
let bools l = S.concat "" (L.map (fun b -> if b then "1" else "0") l)
let b2i b = if b then 1 else 0

let mesh_block (f : fin) (writer_order : bool) (caches : bool) =
  let m = f.f_mesh in
  pr "nv %d\n" (int_of_nat m.nv);
  pr "E%s\n" (S.concat "" (L.map (fun (a, b) -> P.sprintf " %d,%d" (int_of_nat a) (int_of_nat b)) m.edges));
  pr "F%s\n" (S.concat "" (L.map (fun l -> " [" ^ ilist l ^ "]") m.faces));
  pr "C%s\n" (S.concat "" (L.map (fun l -> " [" ^ ilist l ^ "]") m.cells));
  let pos = match f.f_props with p :: _ -> p.p_vals | [] -> [] in
  pr "POS%s\n" (S.concat "" (L.map (function VList [x; y; z] -> " " ^ show_val TDouble x ^ "," ^ show_val TDouble y ^ "," ^ show_val TDouble z | _ -> " ?") pos));
  pr "del V:%s E:%s F:%s C:%s\n" (bools m.vdel) (bools m.edel) (bools m.fdel) (bools m.cdel);
  if caches then begin
    pr "flags v=%d e=%d f=%d\n" (b2i m.vbu) (b2i m.ebu) (b2i m.fbu);
    pr "OUT%s\n" (S.concat "" (L.map (fun l -> " [" ^ ilist l ^ "]") m.out_hes));
    pr "HFS%s\n" (S.concat "" (L.map (fun l -> " [" ^ ilist l ^ "]") m.inc_hfs));
    pr "CELL%s\n" (S.concat "" (L.map (function None -> " -" | Some c -> " " ^ string_of_int (int_of_nat c)) m.inc_cell))
  end;
  let props = L.filter (fun p -> p.p_persistent) f.f_props in
  let key p = (kind_index p.p_kind, string_of_ints (ibytes p.p_name), tname p.p_type) in
  let props = if writer_order then props else L.stable_sort (fun a b -> Stdlib.compare (key a) (key b)) props in
  L.iter (fun p ->
      pr "%s %s %s %s n=%d :%s\n" (if writer_order then "W" else "P") (kind_name p.p_kind) (hex_or_dash (ibytes p.p_name)) (tname p.p_type)
        (L.length p.p_vals) (S.concat "" (L.map (fun v -> " " ^ show_val p.p_type v) p.p_vals))) props

(* ---------------------------------------------------------------- cases *)
type case = { mutable id : S.t; mutable mode : S.t; mutable mesh : S.t; mutable check : int; mutable bu : int; mutable api : S.t;
              mutable aslimit : int; mutable bytes : int list; mutable lines : S.t list }

let split_ws (l : S.t) = L.filter (fun x -> x <> "") (S.split_on_char ' ' (S.map (fun c -> if c = '\t' then ' ' else c) l))

let parse_ll (rest : S.t list) : nat list list =      (* tokens of "[a b c] [d]" already split on blanks *)
  let cur = ref [] and out = ref [] and inside = ref false in
  L.iter (fun tok ->
      let tok = ref tok in
      if S.length !tok > 0 && !tok.[0] = '[' then (inside := true; cur := []; tok := S.sub !tok 1 (S.length !tok - 1));
      let closes = S.length !tok > 0 && !tok.[S.length !tok - 1] = ']' in
      if closes then tok := S.sub !tok 0 (S.length !tok - 1);
      if !tok <> "" then cur := nat_of_int (int_of_string !tok) :: !cur;
      if closes then (out := L.rev !cur :: !out; inside := false)) rest;
  L.rev !out

(* the model's allocation limit: small, so that no count-driven loop of the extracted code (unary nat, quadratic list
   operations of the kernel model) runs long; lib/checks_ascii.py treats the range between this and the real limit *)
let default_alloc = z_of_string "65536"

let run_read (c : case) =
  let o = { o_mesh = (match c.mesh with "tet" -> MTet | "hex" -> MHex | _ -> MPoly); o_check = c.check <> 0; o_bu = c.bu <> 0;
            o_alloc = default_alloc } in
  let st f = if c.api = "path" then "-" else bits_of f.f_is in
  match read_ascii conv_d conv_f o (zbytes c.bytes) with
  | RTrue f -> pr "result=true st=%s\n" (st f); mesh_block f false true
  | RFalse f -> pr "result=false st=%s\n" (st f); mesh_block f false true
  | RExn LengthError -> pr "result=exn:length_error st=?\n"
  | RExn BadAlloc -> pr "result=exn:bad_alloc st=?\n"
  | RUB -> pr "!! UB handle_overflow\n"
  | RSpin -> pr "!! SPIN\n"

(* mode=encode: the harness's observed block of a write case (nv / E / F / C / POS / del / W lines) -> write_ascii *)
let run_encode (c : case) =
  let nvv = ref 0 and es = ref [] and fs = ref [] and cs = ref [] and pos = ref [] and props = ref [] in
  let vdel = ref [] and edel = ref [] and fdel = ref [] and cdel = ref [] in
  let flags s = L.init (S.length s) (fun i -> s.[i] = '1') in
  L.iter (fun l ->
      match split_ws l with
      | "nv" :: n :: _ -> nvv := int_of_string n
      | "E" :: rest -> es := L.map (fun t -> match S.split_on_char ',' t with [a; b] -> (nat_of_int (int_of_string a), nat_of_int (int_of_string b)) | _ -> failwith "E") rest
      | "F" :: rest -> fs := parse_ll rest
      | "C" :: rest -> cs := parse_ll rest
      | "POS" :: rest -> pos := L.map (fun t -> match S.split_on_char ',' t with
            | [a; b; d] -> let h x = z_of_int64u (Stdlib.Int64.of_string ("0x" ^ x)) in ((h a, h b), h d) | _ -> failwith "POS") rest
      | "del" :: rest -> L.iter (fun t -> match S.split_on_char ':' t with
            | ["V"; x] -> vdel := flags x | ["E"; x] -> edel := flags x | ["F"; x] -> fdel := flags x | ["C"; x] -> cdel := flags x | _ -> ()) rest
      | "W" :: k :: name :: ty :: _n :: ":" :: vals ->
          (match type_of_string ty with
           | Some t -> props := { p_kind = L.assoc k kinds; p_name = zbytes (bytes_of_hex name); p_type = t; p_persistent = true;
                                  p_vals = L.map (parse_val t) vals } :: !props
           | None -> ())           (* "?": a type without typeName, skipped by the writer *)
      | _ -> ()) c.lines;
  let cnt l = nat_of_int (L.length (L.filter (fun b -> b) l)) in
  let m = { empty_mesh with nv = nat_of_int !nvv; edges = !es; faces = !fs; cells = !cs;
            vdel = !vdel; edel = !edel; fdel = !fdel; cdel = !cdel; ndv = cnt !vdel; nde = cnt !edel; ndf = cnt !fdel; ndc = cnt !cdel } in
  let w = { w_mesh = m; w_pos = !pos; w_props = L.rev !props } in
  let text = write_ascii print_d print_f w in
  pr "pending=%d\n" (b2i (needs_gc m));
  pr "text %s\n" (hex_or_dash (ibytes text));
  (* the model's own round trip on this concrete mesh: read (write m), and read (write (read (write m))) *)
  let o = { o_mesh = MPoly; o_check = false; o_bu = false; o_alloc = default_alloc } in
  let wm_of (f : fin) = { w_mesh = f.f_mesh;
                          w_pos = (match f.f_props with p :: _ -> L.map (function VList [VFlt x; VFlt y; VFlt z] -> ((x, y), z) | _ -> ((Z0, Z0), Z0)) p.p_vals | [] -> []);
                          w_props = L.filter (fun p -> p.p_persistent) f.f_props } in
  (match read_ascii conv_d conv_f o text with
   | RTrue f1 ->
       let t2 = write_ascii print_d print_f (wm_of f1) in
       (match read_ascii conv_d conv_f o t2 with
        | RTrue f2 ->
            let same = f1.f_mesh.nv = f2.f_mesh.nv && f1.f_mesh.edges = f2.f_mesh.edges && f1.f_mesh.faces = f2.f_mesh.faces
                       && f1.f_mesh.cells = f2.f_mesh.cells && f1.f_props = f2.f_props in
            let defs = f1.f_mesh.nv = m.nv && f1.f_mesh.edges = m.edges && f1.f_mesh.faces = m.faces && f1.f_mesh.cells = m.cells in
            pr "model_rt=%s\n" (if not defs then "differs" else if same then "ok" else "unstable")
        | _ -> pr "model_rt=readfail2\n")
   | RFalse _ -> pr "model_rt=readfail\n"
   | RExn _ -> pr "model_rt=exn\n"
   | RUB -> pr "model_rt=ub\n"
   | RSpin -> pr "model_rt=spin\n")

let run_case (c : case) =
  pr "== %s\n" c.id;
  (try (match c.mode with "read" -> run_read c | "encode" -> run_encode c | _ -> pr "# mode %s not handled by the model driver\n" c.mode)
   with Stdlib.Failure m -> pr "!! DRIVER %s\n" m | Stdlib.Not_found -> pr "!! DRIVER not_found\n"
      | Stdlib.Stack_overflow -> B.clear buf; pr "== %s\n!! DRIVER stack_overflow\n" c.id
      | Stdlib.Out_of_memory -> B.clear buf; pr "== %s\n!! DRIVER out_of_memory\n" c.id);
  flush_out ()

let run_file (ic : Stdlib.in_channel) =
  let cur = ref None in
  (try while true do
      let line = Stdlib.input_line ic in
      if line <> "" && line.[0] <> '#' then
        match split_ws line with
        | "case" :: id :: kv ->
            let c = { id; mode = "read"; mesh = "poly"; check = 1; bu = 1; api = "stream"; aslimit = 0; bytes = []; lines = [] } in
            L.iter (fun t -> match S.index_opt t '=' with
                | None -> ()
                | Some i -> let k = S.sub t 0 i and v = S.sub t (i + 1) (S.length t - i - 1) in
                    (match k with "mode" -> c.mode <- v | "mesh" -> c.mesh <- v | "check" -> c.check <- int_of_string v | "bu" -> c.bu <- int_of_string v
                                  | "api" -> c.api <- v | "aslimit" -> c.aslimit <- int_of_string v | _ -> ())) kv;
            cur := Some c
        | "hex" :: h :: _ -> (match !cur with Some c -> c.bytes <- c.bytes @ bytes_of_hex h | None -> ())
        | "end" :: _ -> (match !cur with Some c -> c.lines <- L.rev c.lines; run_case c; cur := None | None -> ())
        | _ -> (match !cur with Some c -> c.lines <- line :: c.lines | None -> ())
    done with End_of_file -> ())

(* ---------------------------------------------------------------- main *)
let () =
  let args = Stdlib.Array.to_list Stdlib.Sys.argv in
  match args with
  | _ :: "--tokens" :: n :: rest ->
      (match rest with a :: _ -> alphabet := string_of_ints (bytes_of_hex a) | [] -> ());
      tokens_rec [] (int_of_string n); flush_out ()
  | _ :: "--toklist" :: _ ->
      (try while true do let l = S.trim (Stdlib.input_line Stdlib.stdin) in if l <> "" then tok_all (bytes_of_hex l) done with End_of_file -> ());
      flush_out ()
  | _ :: file :: _ -> let ic = Stdlib.open_in file in run_file ic; Stdlib.close_in ic
  | _ -> run_file Stdlib.stdin
