(* asciidriver.ml -- runs the extracted OVM-ASCII models (coq/IO/AsciiStream.v, AsciiReaderModel.v, AsciiWriterModel.v) on
   the same inputs as harness/run_ascii.cc and prints the same canonical text.
     asciidriver --tokens <maxlen> [alphabet-hex]     token-level differential of the istream-lite
     asciidriver --toklist                            tokens one per line (hex) on stdin
     asciidriver [file]                               case file (read / write cases, see run_ascii.cc)
   Hand-written glue only: parsing, int <-> Z conversion, printing, and the floating-point primitives that the models take
   as parameters (conv_d / conv_f = strtod + the overflow rule of libstdc++'s __convert_to_v; print_d = "%g"). *)
open Ascii_model

module L = Stdlib.List
module S = Stdlib.String
module P = Stdlib.Printf
module B = Stdlib.Buffer

let rec nat_of_int n = if n <= 0 then O else S (nat_of_int (n - 1))
let rec int_of_nat = function O -> 0 | S n -> 1 + int_of_nat n
let rec pos_of_int n = if n <= 1 then XH else if n land 1 = 0 then XO (pos_of_int (n lsr 1)) else XI (pos_of_int (n lsr 1))
let z_of_int n = if n = 0 then Z0 else if n > 0 then Zpos (pos_of_int n) else Zneg (pos_of_int (-n))
let rec int_of_pos = function XH -> 1 | XO p -> 2 * int_of_pos p | XI p -> 2 * int_of_pos p + 1
let int_of_z = function Z0 -> 0 | Zpos p -> int_of_pos p | Zneg p -> - (int_of_pos p)

(* arbitrary-size Z <-> decimal string (values up to 2^64 do not fit OCaml's 63-bit int) *)
let rec pos_to_digits p : int list =          (* little-endian decimal digits *)
  let dbl ds carry = let rec go ds c = match ds with [] -> if c = 0 then [] else [c] | d :: t -> let v = 2 * d + c in (v mod 10) :: go t (v / 10) in go ds carry in
  match p with XH -> [1] | XO q -> dbl (pos_to_digits q) 0 | XI q -> dbl (pos_to_digits q) 1
let string_of_pos p = S.concat "" (L.rev_map string_of_int (pos_to_digits p))
let string_of_z = function Z0 -> "0" | Zpos p -> string_of_pos p | Zneg p -> "-" ^ string_of_pos p
let z_of_string (s : string) : z =
  let neg = S.length s > 0 && s.[0] = '-' in
  let ds = if neg then S.sub s 1 (S.length s - 1) else s in
  (* binary digits by repeated halving of the decimal string *)
  let digits = Stdlib.Array.of_list (L.init (S.length ds) (fun i -> Stdlib.Char.code ds.[i] - 48)) in
  let n = Stdlib.Array.length digits in
  let is_zero () = Stdlib.Array.for_all (fun d -> d = 0) digits in
  let halve () = let r = ref 0 in for i = 0 to n - 1 do let v = !r * 10 + digits.(i) in digits.(i) <- v / 2; r := v mod 2 done; !r in
  let bits = ref [] in
  while not (is_zero ()) do bits := halve () :: !bits done;           (* most significant first *)
  let rec build acc = function [] -> acc | b :: t -> build (match acc with None -> if b = 1 then Some XH else None | Some p -> Some (if b = 1 then XI p else XO p)) t in
  match build None !bits with None -> Z0 | Some p -> if neg then Zneg p else Zpos p

let z_of_int64u (x : int64) : z =      (* unsigned interpretation *)
  let hi = Stdlib.Int64.to_int (Stdlib.Int64.shift_right_logical x 32) and lo = Stdlib.Int64.to_int (Stdlib.Int64.logand x 0xFFFFFFFFL) in
  let rec shift p k = if k = 0 then p else shift (XO p) (k - 1) in
  match z_of_int hi, z_of_int lo with
  | Z0, l -> l
  | Zpos h, Z0 -> Zpos (shift h 32)
  | Zpos h, Zpos l -> (* h*2^32 + l *) let rec add_low hp bits = (match bits with [] -> hp | b :: t -> add_low (if b then XI hp else XO hp) t) in
      let lbits = L.init 32 (fun i -> (lo lsr (31 - i)) land 1 = 1) in ignore l; Zpos (add_low h lbits)
  | _ -> Z0
let int64_of_z (v : z) : int64 =
  let rec go = function XH -> 1L | XO p -> Stdlib.Int64.shift_left (go p) 1 | XI p -> Stdlib.Int64.logor (Stdlib.Int64.shift_left (go p) 1) 1L in
  match v with Z0 -> 0L | Zpos p -> go p | Zneg p -> Stdlib.Int64.neg (go p)

let buf = B.create (1 lsl 20)
let pr fmt = P.bprintf buf fmt
let flush_out () = Stdlib.print_string (B.contents buf); B.clear buf

let hexdigit c = match c with '0' .. '9' -> Stdlib.Char.code c - 48 | 'a' .. 'f' -> Stdlib.Char.code c - 87 | 'A' .. 'F' -> Stdlib.Char.code c - 55 | _ -> failwith "hex"
let bytes_of_hex h : int list =
  if h = "-" then [] else L.init (S.length h / 2) (fun i -> 16 * hexdigit h.[2 * i] + hexdigit h.[2 * i + 1])
let hex_of_ints (l : int list) =
  let b = B.create (2 * L.length l + 1) in
  L.iter (fun x -> B.add_string b (P.sprintf "%02x" x)) l; B.contents b
let hex_or_dash l = if l = [] then "-" else hex_of_ints l
let zbytes (l : int list) : z list = L.map z_of_int l
let ibytes (l : z list) : int list = L.map int_of_z l
let string_of_ints l = let b = B.create 16 in L.iter (fun c -> B.add_char b (Stdlib.Char.chr c)) l; B.contents b
let ints_of_string s = L.init (S.length s) (fun i -> Stdlib.Char.code s.[i])

(* ---------------------------------------------------------------- floating-point primitives (parameters of the models) *)
let bits64 (x : float) = P.sprintf "%016Lx" (Stdlib.Int64.bits_of_float x)
let bits32_of_int32 (x : int32) = P.sprintf "%08lx" x
(* strtod on the characters num_get accumulated; they only contain [+-0-9.e] *)
let strtod_opt (s : string) : float option =
  if s = "" then None else
  if S.contains s '_' || S.contains s 'x' || S.contains s 'X' || S.contains s 'n' || S.contains s 'i' then None
  else Stdlib.float_of_string_opt s
let conv_d (x : z list) : z * bool =
  match strtod_opt (string_of_ints (ibytes x)) with
  | None -> (z_of_int64u (Stdlib.Int64.bits_of_float 0.0), true)
  | Some v ->
      if v = Stdlib.infinity then (z_of_int64u (Stdlib.Int64.bits_of_float Stdlib.max_float), true)
      else if v = Stdlib.neg_infinity then (z_of_int64u (Stdlib.Int64.bits_of_float (-. Stdlib.max_float)), true)
      else (z_of_int64u (Stdlib.Int64.bits_of_float v), false)
let flt_max_bits = 0x7f7fffffl
let conv_f (x : z list) : z * bool =
  let zb (b : int32) = z_of_int64u (Stdlib.Int64.logand (Stdlib.Int64.of_int32 b) 0xFFFFFFFFL) in
  match strtod_opt (string_of_ints (ibytes x)) with
  | None -> (zb 0l, true)
  | Some v ->
      let b = Stdlib.Int32.bits_of_float v in      (* round to nearest single, as strtof does (see driver note on double rounding) *)
      if b = 0x7f800000l then (zb flt_max_bits, true)
      else if b = 0xff800000l then (zb (Stdlib.Int32.logor flt_max_bits 0x80000000l), true)
      else (zb b, false)
let hex64_of_z v = P.sprintf "%016Lx" (int64_of_z v)
let hex32_of_z v = P.sprintf "%08Lx" (int64_of_z v)

(* ---------------------------------------------------------------- token differential *)
let alphabet = ref "0123456789+-.exa "

let bits_of (s : istream) = let r = (if s.eofb then "e" else "") ^ (if s.failb then "f" else "") in if r = "" then "g" else r
let consumed (tok : int list) (s : istream) = L.length tok - L.length s.rest

let tok_line tok tn (run : istream -> istream * string option) (sentinel : string) =
  let s0 = of_bytes (zbytes tok) in
  let (s1, a) = run s0 in
  let (s2, b) = run s1 in
  let sh = function None -> sentinel | Some x -> x in
  pr "%s %s %s %s %d | %s %s %d\n" (hex_or_dash tok) tn (sh a) (bits_of s1) (consumed tok s1) (sh b) (bits_of s2) (consumed tok s2)

let num tn ty tok = tok_line tok tn (fun s -> let (s', v) = get_num ty s in (s', match v with None -> None | Some z -> Some (string_of_z z))) "77"
let tok_all (tok : int list) =
  num "unsigned" NU32 tok; num "uint64" NU64 tok; num "int" NI32 tok; num "size_t" NU64 tok; num "short" NI16 tok; num "long" NI64 tok;
  tok_line tok "bool" (fun s -> let (s', v) = get_num NBool s in (s', match v with None -> None | Some z -> Some (string_of_z z))) "0";
  let ch s = let (s', v) = get_char s in (s', match v with None -> None | Some z -> Some (string_of_int (int_of_z z))) in
  tok_line tok "char" ch "77"; tok_line tok "uchar" ch "77";
  tok_line tok "double" (fun s -> let (s', v) = get_float conv_d s in (s', match v with None -> None | Some z -> Some (hex64_of_z z))) (bits64 77.0);
  tok_line tok "float" (fun s -> let (s', v) = get_float conv_f s in (s', match v with None -> None | Some z -> Some (hex32_of_z z))) (bits32_of_int32 (Stdlib.Int32.bits_of_float 77.0));
  let w f s = let (s', v) = f s in (s', match v with None -> None | Some l -> Some ("s" ^ hex_of_ints (ibytes l))) in
  tok_line tok "word" (w get_word) "s4d";
  tok_line tok "getline" (w getline) "s4d"

let rec tokens_rec (cur : int list) maxlen =
  tok_all (L.rev cur);
  if L.length cur < maxlen then S.iter (fun c -> tokens_rec (Stdlib.Char.code c :: cur) maxlen) !alphabet

(* ---------------------------------------------------------------- main *)
let () =
  let args = Stdlib.Array.to_list Stdlib.Sys.argv in
  match args with
  | _ :: "--tokens" :: n :: rest ->
      (match rest with a :: _ -> alphabet := string_of_ints (bytes_of_hex a) | [] -> ());
      tokens_rec [] (int_of_string n); flush_out ()
  | _ :: "--toklist" :: _ ->
      (try while true do let l = S.trim (Stdlib.input_line Stdlib.stdin) in if l <> "" then tok_all (bytes_of_hex l) done with End_of_file -> ());
      flush_out ()
  | _ -> Stdlib.prerr_endline "asciidriver: case mode not built yet"; Stdlib.exit 2
