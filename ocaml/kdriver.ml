(* kdriver.ml -- runs kernel scripts on the model extracted from coq/Kernel (ovm_model.ml) and
   prints the canonical observable state after every operation.  The C++ harness run_kernel.cc
   prints the same format from the real library; the two outputs are compared line by line.
   Hand-written glue: script parsing, operand resolution, nat/Z <-> int conversion, printing. *)
open Ovm_model

let rec nat_of_int n = if n <= 0 then O else S (nat_of_int (n - 1))
let rec int_of_nat = function O -> 0 | S n -> 1 + int_of_nat n
let rec pos_of_int n = if n <= 1 then XH else if n land 1 = 0 then XO (pos_of_int (n lsr 1)) else XI (pos_of_int (n lsr 1))
let z_of_int n = if n = 0 then Z0 else if n > 0 then Zpos (pos_of_int n) else Zneg (pos_of_int (-n))
let rec int_of_pos = function XH -> 1 | XO p -> 2 * int_of_pos p | XI p -> 2 * int_of_pos p + 1
let int_of_z = function Z0 -> 0 | Zpos p -> int_of_pos p | Zneg p -> - (int_of_pos p)

let buf = Buffer.create (1 lsl 20)
let pr fmt = Printf.bprintf buf fmt

let ilist l = String.concat " " (List.map (fun n -> string_of_int (int_of_nat n)) l)
let bools l = String.concat "" (List.map (fun b -> if b then "1" else "0") l)
let b2i b = if b then 1 else 0

let kinds = [ ("V", KV); ("E", KE); ("HE", KHE); ("F", KF); ("HF", KHF); ("C", KC); ("M", KM) ]

let dump (s : mesh) =
  pr "nv %d\n" (int_of_nat s.nv);
  pr "E %s\n" (String.concat " " (List.map (fun (a, b) -> Printf.sprintf "%d,%d" (int_of_nat a) (int_of_nat b)) s.edges));
  pr "F %s\n" (String.concat " " (List.map (fun l -> "[" ^ ilist l ^ "]") s.faces));
  pr "C %s\n" (String.concat " " (List.map (fun l -> "[" ^ ilist l ^ "]") s.cells));
  pr "del V:%s E:%s F:%s C:%s\n" (bools s.vdel) (bools s.edel) (bools s.fdel) (bools s.cdel);
  pr "cnt %d %d %d %d\n" (int_of_nat s.ndv) (int_of_nat s.nde) (int_of_nat s.ndf) (int_of_nat s.ndc);
  pr "flags v=%d e=%d f=%d def=%d fast=%d\n" (b2i s.vbu) (b2i s.ebu) (b2i s.fbu) (b2i s.deferred) (b2i s.fast);
  pr "OUT %s\n" (String.concat " " (List.map (fun l -> "[" ^ ilist l ^ "]") s.out_hes));
  pr "HFS %s\n" (String.concat " " (List.map (fun l -> "[" ^ ilist l ^ "]") s.inc_hfs));
  pr "CELL %s\n" (String.concat " " (List.map (function None -> "-" | Some c -> string_of_int (int_of_nat c)) s.inc_cell));
  List.iter (fun (kn, k) ->
      List.iteri (fun i p ->
          pr "P %s %d def=%d : %s\n" kn i (int_of_z p.pdef)
            (String.concat " " (List.map (fun z -> string_of_int (int_of_z z)) p.pdata)))
        (props k s)) kinds

(* ---- operand resolution (relative operands; "@Op" lines carry absolute operands) *)
let live_list n isdel = List.filter (fun i -> not (List.nth isdel i)) (List.init n (fun i -> i))

exception Unresolvable

let pick l k = match l with [] -> raise Unresolvable | _ -> List.nth l (k mod List.length l)
let modn n k = if n = 0 then raise Unresolvable else k mod n

type resolver = { lv : int -> int; le : int -> int; lf : int -> int; lc : int -> int;
                  lhe : int -> int; lhf : int -> int;
                  av : int -> int; ae : int -> int; af : int -> int; ac : int -> int }

let resolver (s : mesh) abs =
  if abs then
    let id k = k in
    { lv = id; le = id; lf = id; lc = id; lhe = id; lhf = id; av = id; ae = id; af = id; ac = id }
  else
    let nvv = int_of_nat s.nv and nee = List.length s.edges and nff = List.length s.faces and ncc = List.length s.cells in
    let vs = live_list nvv s.vdel and es = live_list nee s.edel and fs = live_list nff s.fdel and cs = live_list ncc s.cdel in
    { lv = pick vs; le = pick es; lf = pick fs; lc = pick cs;
      lhe = (fun k -> 2 * pick es (k / 2) + (k land 1));
      lhf = (fun k -> 2 * pick fs (k / 2) + (k land 1));
      av = modn nvv; ae = modn nee; af = modn nff; ac = modn ncc }

let kind_of_string k = List.assoc k kinds

let parse_op (s : mesh) (toks : string list) : op * string =
  let abs, name, args =
    match toks with
    | [] -> failwith "empty"
    | t :: rest -> if t.[0] = '@' then (true, String.sub t 1 (String.length t - 1), rest) else (false, t, rest) in
  let r = resolver s abs in
  let ints = List.map int_of_string in
  let n = nat_of_int in
  let nl f l = List.map (fun k -> n (f k)) l in
  let echo nm l = nm ^ (if l = [] then "" else " ") ^ String.concat " " (List.map string_of_int l) in
  match name, args with
  | "AddV", [] -> (AddVertex, "AddV")
  | "AddVs", [k] -> (AddVertices (n (int_of_string k)), "AddVs " ^ k)
  | "AddE", [a; b; d] ->
      let a = r.lv (int_of_string a) and b = r.lv (int_of_string b) in
      (AddEdge (n a, n b, d = "1"), echo "AddE" [a; b; int_of_string d])
  | "AddF", c :: hes ->
      let l = List.map r.lhe (ints hes) in
      (AddFace (nl (fun x -> x) l, c = "1"), echo "AddF" (int_of_string c :: l))
  | "AddFV", vs ->
      let l = List.map r.lv (ints vs) in
      (AddFaceV (nl (fun x -> x) l), echo "AddFV" l)
  | "AddC", c :: hfs ->
      let l = List.map r.lhf (ints hfs) in
      (AddCell (nl (fun x -> x) l, c = "1"), echo "AddC" (int_of_string c :: l))
  | "SetE", [e; a; b] ->
      let e = r.le (int_of_string e) and a = r.lv (int_of_string a) and b = r.lv (int_of_string b) in
      (SetEdge (n e, n a, n b), echo "SetE" [e; a; b])
  | "SetF", f :: hes ->
      let f = r.lf (int_of_string f) and l = List.map r.lhe (ints hes) in
      (SetFace (n f, nl (fun x -> x) l), echo "SetF" (f :: l))
  | "SetC", c :: hfs ->
      let c = r.lc (int_of_string c) and l = List.map r.lhf (ints hfs) in
      (SetCell (n c, nl (fun x -> x) l), echo "SetC" (c :: l))
  | "DelV", [v] -> let v = r.lv (int_of_string v) in (DelVertex (n v), echo "DelV" [v])
  | "DelE", [v] -> let v = r.le (int_of_string v) in (DelEdge (n v), echo "DelE" [v])
  | "DelF", [v] -> let v = r.lf (int_of_string v) in (DelFace (n v), echo "DelF" [v])
  | "DelC", [v] -> let v = r.lc (int_of_string v) in (DelCell (n v), echo "DelC" [v])
  | "SwapV", [a; b] -> let a = r.av (int_of_string a) and b = r.av (int_of_string b) in (SwapV (n a, n b), echo "SwapV" [a; b])
  | "SwapE", [a; b] -> let a = r.ae (int_of_string a) and b = r.ae (int_of_string b) in (SwapE (n a, n b), echo "SwapE" [a; b])
  | "SwapF", [a; b] -> let a = r.af (int_of_string a) and b = r.af (int_of_string b) in (SwapF (n a, n b), echo "SwapF" [a; b])
  | "SwapC", [a; b] -> let a = r.ac (int_of_string a) and b = r.ac (int_of_string b) in (SwapC (n a, n b), echo "SwapC" [a; b])
  | "GC", [] -> (CollectGarbage, "GC")
  | "Clear", [b] -> (Clear (b = "1"), "Clear " ^ b)
  | "EnVBU", [b] -> (EnableVBU (b = "1"), "EnVBU " ^ b)
  | "EnEBU", [b] -> (EnableEBU (b = "1"), "EnEBU " ^ b)
  | "EnFBU", [b] -> (EnableFBU (b = "1"), "EnFBU " ^ b)
  | "EnDef", [b] -> (EnableDeferred (b = "1"), "EnDef " ^ b)
  | "EnFast", [b] -> (EnableFast (b = "1"), "EnFast " ^ b)
  | "PCreate", k :: d :: _ -> (PropCreate (kind_of_string k, z_of_int (int_of_string d)), "PCreate " ^ k ^ " " ^ d)
  | "PSet", [k; p; i; v] ->
      let kd = kind_of_string k in
      let ps = props kd s in
      let p = if abs then int_of_string p else modn (List.length ps) (int_of_string p) in
      let len = (try List.length (List.nth ps p).pdata with _ -> 0) in
      let i = if abs then int_of_string i else modn len (int_of_string i) in
      (PropSet (kd, n p, n i, z_of_int (int_of_string v)), Printf.sprintf "PSet %s %d %d %s" k p i v)
  | "PDrop", [k; p] ->
      let kd = kind_of_string k in
      let p = if abs then int_of_string p else modn (List.length (props kd s)) (int_of_string p) in
      (PropDrop (kd, n p), Printf.sprintf "PDrop %s %d" k p)
  | _ -> failwith ("bad op: " ^ String.concat " " toks)

let no_inv = ref (try Sys.getenv "KDRIVER_NO_INV" = "1" with Not_found -> false)
let () =
  let interactive = Array.length Sys.argv > 1 && Sys.argv.(1) = "-i" in
  let ic = if (not interactive) && Array.length Sys.argv > 1 then open_in Sys.argv.(1) else stdin in
  let st = ref empty_mesh in
  let lineno = ref 0 in
  let flush_out () = print_string (Buffer.contents buf); Buffer.clear buf in
  (try
     while true do
       let line = String.trim (input_line ic) in
       if line = "" || line.[0] = '%' then ()
       else if String.length line >= 4 && String.sub line 0 4 = "####" then begin
         pr "%s\n" line; st := empty_mesh; lineno := 0;
         if interactive then begin pr ".\n"; flush_out (); flush stdout end
       end else begin
         incr lineno;
         let toks = List.filter (fun t -> t <> "") (String.split_on_char ' ' line) in
         let trk = ref None in
         (match toks with
          | ("@StatusGC" | "StatusGC") :: pm :: rest ->
              (* @StatusGC pm V .. E .. F .. C .. TV .. THE .. THF .. TC ..  (absolute operands) *)
              let cur = ref "" and tbl = Hashtbl.create 8 in
              List.iter (fun t -> if t = "V" || t = "E" || t = "F" || t = "C" || t = "TV" || t = "THE" || t = "THF" || t = "TC"
                                  then (cur := t; Hashtbl.replace tbl t [])
                                  else Hashtbl.replace tbl !cur ((try Hashtbl.find tbl !cur with Not_found -> []) @ [int_of_string t])) rest;
              let g k = List.map nat_of_int (try Hashtbl.find tbl k with Not_found -> []) in
              let s = !st in
              let nvv = int_of_nat s.nv and nee = List.length s.edges and nff = List.length s.faces and ncc = List.length s.cells in
              let inr n l = List.for_all (fun x -> int_of_nat x < n) l in
              let ok = inr nvv (g "V") && inr nee (g "E") && inr nff (g "F") && inr ncc (g "C")
                       && inr nvv (g "TV") && inr (2 * nee) (g "THE") && inr (2 * nff) (g "THF") && inr ncc (g "TC") in
              let echo = String.concat " " ("StatusGC" :: pm :: rest) in
              if not ok then pr "== %d %s -> Rejected\n" !lineno echo
              else begin
                let (s', (((a, b), c), d)) = status_gc (pm = "1") (g "V") (g "E") (g "F") (g "C") (g "TV") (g "THE") (g "THF") (g "TC") s in
                st := s';
                pr "== %d %s -> Ok -\n" !lineno echo;
                let f l = String.concat " " (List.map (function None -> "-" | Some x -> string_of_int (int_of_nat x)) l) in
                trk := Some (Printf.sprintf "TRK v:%s | he:%s | hf:%s | c:%s" (f a) (f b) (f c) (f d))
              end
          | _ ->
         (match (try Some (parse_op !st toks) with Unresolvable -> None) with
          | None -> pr "== %d %s -> Unresolvable\n" !lineno line
          | Some (o, echo) ->
              (match step !st o with
               | Rejected -> pr "== %d %s -> Rejected\n" !lineno echo
               | Ok (s', r) ->
                   st := s';
                   pr "== %d %s -> Ok %s\n" !lineno echo
                     (match r with None -> "-" | Some h -> string_of_int (int_of_nat h)))));
         dump !st;
         (match !trk with Some t -> pr "%s\n" t | None -> ());
         (* decidable invariants of Kernel/InvB.v on the state just reached (model side only; diverted by lib/lockstep.py) *)
         if not interactive then begin
           let v = valid_b !st in
           let r = if !no_inv then [] else inv_report !st in
           pr "#I valid=%d checked=%d fail=%s\n" (b2i v) (b2i (not !no_inv)) (String.concat "," (List.map (fun n -> string_of_int (int_of_nat n)) r))
         end;
         if interactive then begin pr ".\n"; flush_out (); flush stdout end
         else if Buffer.length buf > (1 lsl 19) then flush_out ()
       end
     done
   with End_of_file -> ());
  flush_out ()
