(* ldriver.ml -- evaluates the translated leaves (extracted Gen/Handles.v) on "name a b" lines *)
open Leaf_model
let rec pos_of_int n = if n <= 1 then XH else if n land 1 = 0 then XO (pos_of_int (n lsr 1)) else XI (pos_of_int (n lsr 1))
let z_of_int n = if n = 0 then Z0 else if n > 0 then Zpos (pos_of_int n) else Zneg (pos_of_int (-n))
let rec int_of_pos = function XH -> 1 | XO p -> 2 * int_of_pos p | XI p -> 2 * int_of_pos p + 1
let int_of_z = function Z0 -> 0 | Zpos p -> int_of_pos p | Zneg p -> - (int_of_pos p)
let b2i b = if b then 1 else 0
let () =
  try
    while true do
      let line = String.trim (input_line stdin) in
      match List.filter (fun t -> t <> "") (String.split_on_char ' ' line) with
      | [] -> ()
      | n :: rest ->
          let a = (match rest with x :: _ -> int_of_string x | [] -> 0) in
          let b = (match rest with _ :: y :: _ -> int_of_string y | _ -> 0) in
          let za = z_of_int a and zb = z_of_int b in
          (* unsigned char parameter of the static TopologyKernel conversions *)
          let ub = z_of_int (b land 255) in
          let r = match n with
            | "HEH_subidx" -> Some (int_of_z (hEH_subidx za))
            | "HEH_full" -> Some (int_of_z (hEH_full za))
            | "HEH_opp" -> Some (int_of_z (hEH_opp za))
            | "HFH_subidx" -> Some (int_of_z (hFH_subidx za))
            | "HFH_full" -> Some (int_of_z (hFH_full za))
            | "HFH_opp" -> Some (int_of_z (hFH_opp za))
            | "EH_half" -> Some (int_of_z (eH_half za zb))
            | "FH_half" -> Some (int_of_z (fH_half za zb))
            | "Handle_is_valid" -> Some (b2i (handle_is_valid za))
            | "TK_halfedge_handle" -> Some (int_of_z (tK_halfedge_handle za ub))
            | "TK_halfface_handle" -> Some (int_of_z (tK_halfface_handle za ub))
            | "TK_edge_handle" -> Some (int_of_z (tK_edge_handle za))
            | "TK_face_handle" -> Some (int_of_z (tK_face_handle za))
            | "TK_opposite_halfedge_handle" -> Some (int_of_z (tK_opposite_halfedge_handle za))
            | "TK_opposite_halfface_handle" -> Some (int_of_z (tK_opposite_halfface_handle za))
            | "VCorr_correctValue" -> Some (int_of_z (vCorr_correctValue za zb))
            | "HECorr_correctValue" -> Some (int_of_z (hECorr_correctValue za zb))
            | "HFCorr_correctValue" -> Some (int_of_z (hFCorr_correctValue za zb))
            | "CCorr_correctValue" -> Some (int_of_z (cCorr_correctValue za zb))
            | _ -> None in
          (match r with
           | Some v -> Printf.printf "%s %d %d -> %d\n" n a b v
           | None -> Printf.printf "%s %d %d -> ?\n" n a b)
    done
  with End_of_file -> ()
