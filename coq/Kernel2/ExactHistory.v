(* Kernel2/ExactHistory.v -- C01: the strengthened cache-exactness invariant bu_inv2 holds after EVERY history of
   add_vertex / add_n_vertices / add_edge / add_face / add_face(vertices) / add_cell (topology-checked) /
   delete_vertex / delete_edge / delete_face / delete_cell / enable_vertex_bottom_up_incidences / enable_fast_deletion
   in deferred-deletion mode, provided every call is valid (Kernel/Ops.v valid_op; rejected calls are skipped) and
   satisfies valid_op2 (new faces list no halfedge twice and no halfedge with its opposite; new cells are checked,
   use halffaces that belong to no cell yet, and contain no halfface together with its opposite). *)
From Coq Require Import ZArith Lia Bool Arith List ZifyNat ZifyBool Permutation.
From OVM Require Import Base.ListLemmas2 Kernel.State Kernel.Ops Kernel.Mirror Kernel.Recompute Kernel.Closure Kernel.DeferredDelete Kernel.InvB
                        Kernel.ExactInv Kernel.ExactRun Kernel.ExactDelete
                        Kernel2.LookupModel Kernel2.ListAux Kernel2.AdjacentProofs Kernel2.RotationProofs Kernel2.ReorderExact
                        Kernel2.ExactBase Kernel2.ExactAddCell Kernel2.ExactDelCell Kernel2.ExactDelFace Kernel2.ExactDeletions.
Import ListNotations.
Ltac Zify.zify_post_hook ::= Z.div_mod_to_equations.
Local Open Scope nat_scope.

(* ================================================================== transferring the parts about faces and cells *)

Lemma upper_transfer s t :
  faces t = faces s -> cells t = cells s -> fdel t = fdel s -> cdel t = cdel s -> inc_cell t = inc_cell s ->
  cells_ref_live s -> live_cells_closed s -> faces_simple s ->
  cells_ref_live t /\ live_cells_closed t /\ faces_simple t.
Proof.
  intros A B C D E.
  unfold cells_ref_live, live_cells_closed, closed_cell, adj_matches, faces_simple, nc, nf, c_deleted, f_deleted, cell_at, cell_of,
    halfface, face_at. rewrite A, B, C, D, E. tauto.
Qed.

Lemma bu_inv2_intro s : bu_inv s -> ebu s = true -> fbu s = true -> deferred s = true -> slots_nodup s ->
  cells_ref_live s /\ live_cells_closed s /\ faces_simple s -> bu_inv2 s.
Proof. unfold bu_inv2. tauto. Qed.

(* ================================================================== add_vertex, add_edge *)

Lemma deferred_add_vertex s : deferred (fst (add_vertex s)) = deferred s.
Proof. unfold add_vertex. cbn [fst]. destruct (vbu s) eqn:V; cbn; rewrite ?V; reflexivity. Qed.

Theorem bu_inv2_add_vertex s : bu_inv2 s -> bu_inv2 (fst (add_vertex s)).
Proof.
  intros (B & E & F & D & N & CL & CC & FS). pose proof (add_vertex_view s) as W. cbv zeta in W.
  destruct W as (w1&w2&w3&w4&w5&w6&w7&w8&w9&w10&w11&w12&w13).
  apply bu_inv2_intro; [apply bu_inv_add_vertex; exact B|congruence|congruence|rewrite deferred_add_vertex; exact D| |].
  - intros h Hh. unfold ne, hfs_at in *. rewrite w2 in Hh. rewrite w11. exact (N h Hh).
  - apply (upper_transfer s); assumption.
Qed.

Theorem bu_inv2_add_n_vertices n : forall s, bu_inv2 s -> bu_inv2 (add_n_vertices n s).
Proof. induction n as [|n IH]; intros s H; [exact H|]. simpl. apply IH. apply bu_inv2_add_vertex. exact H. Qed.

Lemma deferred_append_edge s a b : deferred (fst (append_edge s a b)) = deferred s.
Proof. unfold append_edge. cbn [fst]. destruct (vbu s) eqn:V; destruct (ebu s) eqn:E; cbn; rewrite ?V, ?E; cbn; rewrite ?V, ?E; reflexivity. Qed.

Theorem bu_inv2_append_edge s a b : bu_inv2 s -> a < nv s -> b < nv s -> bu_inv2 (fst (append_edge s a b)).
Proof.
  intros (B & E & F & D & N & CL & CC & FS) Ha Hb. pose proof (append_edge_view s a b) as W. cbv zeta in W.
  destruct W as (w1&w2&w3&w4&w5&w6&w7&w8&w9&w10&w11&w12&w13).
  pose proof B as (_ & _ & _ & _ & (_ & L2 & _)).
  apply bu_inv2_intro; [apply bu_inv_append_edge; assumption|congruence|congruence|rewrite deferred_append_edge; exact D| |].
  - intros h Hh. unfold hfs_at. rewrite w13, E. unfold resize. rewrite firstn_all2 by (rewrite (L2 E); lia).
    destruct (Nat.lt_ge_cases h (length (inc_hfs s))) as [Hl|Hg].
    + rewrite app_nth1 by exact Hl. apply N. rewrite <- (L2 E). exact Hl.
    + rewrite app_nth2 by exact Hg. rewrite nth_repeat. constructor.
  - apply (upper_transfer s); assumption.
Qed.

Theorem bu_inv2_add_edge s a b d : bu_inv2 s -> a < nv s -> b < nv s -> bu_inv2 (fst (add_edge s a b d)).
Proof.
  intros H Ha Hb. unfold add_edge. destruct d; [apply bu_inv2_append_edge; assumption|].
  destruct (find_dup_edge s a b); [exact H|apply bu_inv2_append_edge; assumption].
Qed.

(* ================================================================== add_face *)

Lemma fold_estep_nodup f k : forall hes ll, k < length ll -> NoDup hes -> NoDup (nth k ll []) ->
  (In (2 * f) (nth k ll []) -> ~ In k hes) -> (In (2 * f + 1) (nth k ll []) -> ~ In (opp k) hes) ->
  NoDup (nth k (fold_left (estep_in f) hes ll) []).
Proof.
  induction hes as [|he r IH]; intros ll Hk Nh Nl H0 H1; [exact Nl|]. cbn [fold_left].
  inversion Nh as [|? ? Hnot Nr]; subst.
  assert (Eq : nth k (estep_in f ll he) [] =
               (nth k ll [] ++ (if he =? k then [2 * f] else [])) ++ (if opp he =? k then [2 * f + 1] else [])).
  { unfold estep_in. rewrite nth_push_at by (rewrite push_at_length; exact Hk). rewrite nth_push_at by exact Hk.
    destruct (opp he =? k); destruct (he =? k); rewrite ?app_nil_r; reflexivity. }
  assert (Ok : opp he = k <-> he = opp k) by (split; [intros <-; symmetry|intros ->]; apply opp_involutive).
  apply IH.
  - rewrite estep_in_length. exact Hk.
  - exact Nr.
  - rewrite Eq. destruct (Nat.eqb_spec he k) as [E0|E0]; destruct (Nat.eqb_spec (opp he) k) as [E1|E1]; rewrite ?app_nil_r.
    + exfalso. rewrite <- E0 in E1. exact (opp_neq he E1).
    + apply NoDup_app_intro; [exact Nl|repeat constructor; simpl; tauto|]. intros x Hx [<-|[]]. apply (H0 Hx). left. exact E0.
    + apply NoDup_app_intro; [exact Nl|repeat constructor; simpl; tauto|]. intros x Hx [<-|[]]. apply (H1 Hx). left. apply Ok. exact E1.
    + exact Nl.
  - rewrite Eq. rewrite !in_app_iff. intros [[Hin|Hin]|Hin] Hr.
    + apply (H0 Hin). right. exact Hr.
    + destruct (Nat.eqb_spec he k) as [<-|]; [contradiction|destruct Hin].
    + destruct (opp he =? k); [destruct Hin as [Hin|[]]; lia|destruct Hin].
  - rewrite Eq. rewrite !in_app_iff. intros [[Hin|Hin]|Hin] Hr.
    + apply (H1 Hin). right. exact Hr.
    + destruct (he =? k); [destruct Hin as [Hin|[]]; lia|destruct Hin].
    + destruct (Nat.eqb_spec (opp he) k) as [E1|]; [|destruct Hin]. apply Ok in E1. subst he. contradiction.
Qed.

Lemma adj_matches_ext s s' c hf he : cell_at s' c = cell_at s c ->
  (forall g, In g (cell_at s c) -> halfface s' g = halfface s g) -> adj_matches s' c hf he = adj_matches s c hf he.
Proof.
  intros A H. unfold adj_matches. rewrite A. revert H. generalize (cell_at s c). intros l.
  induction l as [|g l IH]; intros H; [reflexivity|].
  cbn [flat_map]. rewrite (H g (or_introl eq_refl)). f_equal. apply IH. intros g' Hg'. apply H. right. exact Hg'.
Qed.

Lemma closed_cell_ext s s' c : cell_at s' c = cell_at s c ->
  (forall g, In g (cell_at s c) -> cell_of s' g = cell_of s g /\ halfface s' g = halfface s g) ->
  closed_cell s c -> closed_cell s' c.
Proof.
  intros A H Hcl hf Hhf. rewrite A in Hhf. destruct (Hcl hf Hhf) as [P Q]. destruct (H hf Hhf) as [H1 H2]. split; [congruence|].
  intros he Hhe. rewrite H2 in Hhe. rewrite (adj_matches_ext s s' c hf he A (fun g Hg => proj2 (H g Hg))). exact (Q he Hhe).
Qed.

Lemma deferred_append_face s hes : deferred (fst (append_face s hes)) = deferred s.
Proof. unfold append_face. cbn [fst]. destruct (ebu s) eqn:E; destruct (fbu s) eqn:F; cbn; rewrite ?E, ?F; cbn; rewrite ?E, ?F; reflexivity. Qed.

Theorem bu_inv2_append_face s hes : bu_inv2 s -> (forall h, In h hes -> h < 2 * ne s) -> simple_hes hes ->
  bu_inv2 (fst (append_face s hes)).
Proof.
  intros (B & E & F & D & N & CL & CC & FS) Hr [Hnd Hno]. pose proof (append_face_view s hes) as W. cbv zeta in W.
  set (s' := fst (append_face s hes)) in *.
  destruct W as (w1&w2&w3&w4&w5&w6&w7&w8&w9&w10&w11&w12&w13).
  pose proof B as (_ & EO & FO & (_ & _ & R3) & (_ & L2 & L3 & _ & L5 & _)).
  assert (NF : nf s' = S (nf s)) by (unfold nf; rewrite w3, app_length; simpl; lia).
  assert (FAt : forall f, face_at s' f = if f <? nf s then face_at s f else if f =? nf s then hes else []).
  { intros f. unfold face_at, nf. rewrite w3. apply nth_app_last. }
  assert (FD : forall f, f_deleted s' f = if f <? nf s then f_deleted s f else false).
  { intros f. unfold f_deleted. rewrite w6, nth_app_last, L5. destruct (f <? nf s); [reflexivity|]. destruct (f =? nf s); reflexivity. }
  assert (HFo : forall x, x / 2 < nf s -> halfface s' x = halfface s x).
  { intros x Hx. unfold halfface. rewrite FAt. replace (x / 2 <? nf s) with true by (symmetry; apply Nat.ltb_lt; exact Hx). reflexivity. }
  assert (COo : forall x, x < 2 * nf s -> cell_of s' x = cell_of s x).
  { intros x Hx. unfold cell_of. rewrite w13, F. unfold resize. rewrite firstn_all2 by (rewrite (L3 F); lia).
    apply app_nth1. rewrite (L3 F). exact Hx. }
  apply bu_inv2_intro; [apply bu_inv_append_face; assumption|congruence|congruence|unfold s'; rewrite deferred_append_face; exact D| |].
  - (* slots_nodup *)
    intros k Hk. unfold ne in Hk. rewrite w2 in Hk. fold (ne s) in Hk. unfold hfs_at. rewrite w12, E, add_face_inc_eq.
    assert (Fresh : forall y, In y (nth k (inc_hfs s) []) -> y / 2 < nf s) by (intros y Hy; apply (EO E k Hk y) in Hy; tauto).
    apply fold_estep_nodup; [rewrite (L2 E); exact Hk|exact Hnd|apply N; exact Hk| |].
    + intros Hin. specialize (Fresh _ Hin). lia.
    + intros Hin. specialize (Fresh _ Hin). lia.
  - split; [|split].
    + intros c hf Hc Hd Hhf. unfold nc, c_deleted, cell_at in *. rewrite w4 in Hc, Hhf. rewrite w7 in Hd.
      destruct (CL c hf Hc Hd Hhf) as [A Bf]. rewrite NF, FD. replace (hf / 2 <? nf s) with true by (symmetry; apply Nat.ltb_lt; exact A).
      split; [lia|exact Bf].
    + intros c Hc Hd. unfold nc, c_deleted in *. rewrite w4 in Hc. rewrite w7 in Hd.
      apply (closed_cell_ext s s' c); [unfold cell_at; rewrite w4; reflexivity| |exact (CC c Hc Hd)].
      intros g Hg. destruct (CL c g Hc Hd Hg) as [A _]. split; [apply COo; lia|apply HFo; exact A].
    + intros f Hf Hd. rewrite NF in Hf. rewrite FD in Hd. rewrite FAt. destruct (Nat.ltb_spec f (nf s)) as [Hl|Hg]; [exact (FS f Hl Hd)|].
      replace (f =? nf s) with true by (symmetry; apply Nat.eqb_eq; lia). split; assumption.
Qed.

Theorem bu_inv2_add_face s hes c : bu_inv2 s -> (forall h, In h hes -> h < 2 * ne s) -> simple_hes hes ->
  bu_inv2 (fst (add_face s hes c)).
Proof.
  intros H Hr Hs. unfold add_face. destruct (c && negb (loop_ok s hes)); [exact H|].
  pose proof (bu_inv2_append_face s hes H Hr Hs). destruct (append_face s hes). exact H0.
Qed.

(* ================================================================== add_face from vertices *)

Lemma add_face_v_edges_inv2 first : forall vs acc, bu_inv2 (fst acc) -> first < nv (fst acc) -> (forall v, In v vs -> v < nv (fst acc)) ->
  bu_inv2 (fst (add_face_v_edges first vs acc)).
Proof.
  induction vs as [|v t IH]; intros acc H Hf Hvs; simpl; [exact H|].
  assert (St : forall w, w < nv (fst acc) -> bu_inv2 (fst (add_face_v_step v w acc)) /\ nv (fst (add_face_v_step v w acc)) = nv (fst acc)).
  { intros w Hw. destruct acc as [s hes]. cbn [fst] in *. unfold add_face_v_step.
    pose proof (bu_inv2_add_edge s v w false H (Hvs v (or_introl eq_refl)) Hw) as B2.
    pose proof (add_edge_result_in_range s v w false (proj1 H) (Hvs v (or_introl eq_refl))) as (_ & _ & R3).
    destruct (add_edge s v w false) as [s' e]. cbn [fst snd] in *. split; assumption. }
  destruct t as [|w t'].
  - exact (proj1 (St first Hf)).
  - destruct (St w (Hvs w (or_intror (or_introl eq_refl)))) as [A B]. apply IH; [exact A|rewrite B; exact Hf|].
    intros u Hu. rewrite B. apply Hvs. right. exact Hu.
Qed.

Theorem bu_inv2_add_face_v s vs : bu_inv2 s -> (forall v, In v vs -> v < nv s) ->
  (forall f t, vs = f :: t -> simple_hes (snd (add_face_v_edges f vs (s, [])))) ->
  bu_inv2 (fst (add_face_v s vs)).
Proof.
  intros H Hvs Hsimple. unfold add_face_v. destruct vs as [|f t]; [exact H|].
  pose proof (add_face_v_edges_inv f (f :: t) (s, []) (proj1 H) (Hvs f (or_introl eq_refl)) Hvs ltac:(intros h [])) as (_ & R).
  pose proof (add_face_v_edges_inv2 f (f :: t) (s, []) H (Hvs f (or_introl eq_refl)) Hvs) as B2.
  specialize (Hsimple f t eq_refl).
  destruct (add_face_v_edges f (f :: t) (s, [])) as [s1 hes]. cbn [fst snd] in *. apply bu_inv2_add_face; assumption.
Qed.

(* ================================================================== toggles *)

Theorem bu_inv2_enable_vbu b s : bu_inv2 s -> bu_inv2 (enable_vbu b s).
Proof.
  intros (B & E & F & D & N & CL & CC & FS). pose proof (bu_inv_enable_vbu b s B) as B'.
  unfold enable_vbu in *. destruct b; destruct (vbu s); cbn [andb negb] in *;
    (split; [exact B'|]); repeat (split; [assumption|]); assumption.
Qed.

Theorem bu_inv2_enable_fast b s : bu_inv2 s -> bu_inv2 (enable_fast b s).
Proof.
  intros (B & E & F & D & N & CL & CC & FS). pose proof (bu_inv_enable_fast b s B) as B'.
  unfold enable_fast in *. split; [exact B'|]. repeat (split; [assumption|]). assumption.
Qed.

Lemma bu_inv2_empty : bu_inv2 empty_mesh.
Proof.
  apply bu_inv2_intro; [apply bu_inv_empty|reflexivity|reflexivity|reflexivity| |].
  - intros h Hh. unfold ne in Hh. simpl in Hh. lia.
  - split; [|split].
    + intros c hf Hc. unfold nc in Hc. simpl in Hc. lia.
    + intros c Hc. unfold nc in Hc. simpl in Hc. lia.
    + intros f Hf. unfold nf in Hf. simpl in Hf. lia.
Qed.

(* ================================================================== histories *)

Definition simple_b (hes : list nat) : bool := nodup_b hes && forallb (fun h => negb (memb (opp h) hes)) hes.

Lemma simple_b_sound hes : simple_b hes = true -> simple_hes hes.
Proof.
  unfold simple_b. rewrite andb_true_iff, forallb_forall. intros [A B]. split; [apply nodup_b_spec; exact A|].
  intros h Hh Hin. specialize (B h Hh). apply Base.ListLemmas.memb_In in Hin. rewrite Hin in B. discriminate.
Qed.

(* the extra validity conditions (beyond Kernel/Ops.v valid_op) *)
Definition valid_op2 (s : mesh) (o : op) : bool :=
  match o with
  | AddFace hes _ => simple_b hes
  | AddFaceV vs => match vs with [] => true | f :: _ => simple_b (snd (add_face_v_edges f vs (s, []))) end
  | AddCell hfs chk =>
      chk && forallb (fun hf => match cell_of s hf with None => true | Some _ => false end) hfs
          && forallb (fun hf => negb (memb (opp hf) hfs)) hfs
  | _ => true
  end.

(* the operations covered *)
Definition hist_op (o : op) : bool :=
  match o with
  | AddVertex | AddVertices _ | AddEdge _ _ _ | AddFace _ _ | AddFaceV _ | AddCell _ _
  | DelVertex _ | DelEdge _ | DelFace _ | DelCell _ | EnableVBU _ | EnableFast _ => true
  | _ => false
  end.

Definition next (s : mesh) (o : op) : mesh := match step s o with Ok s' _ => s' | Rejected => s end.

Fixpoint hist_ok_from (s : mesh) (ops : list op) : bool :=
  match ops with
  | [] => true
  | o :: r => hist_op o && (negb (valid_op s o) || valid_op2 s o) && hist_ok_from (next s o) r
  end.
Definition hist_ok (ops : list op) : bool := hist_ok_from empty_mesh ops.

Lemma live_f_lt s f : live_f s f = true -> f < nf s /\ f_deleted s f = false.
Proof. unfold live_f. rewrite andb_true_iff, Nat.ltb_lt, negb_true_iff. tauto. Qed.
Lemma live_e_lt s e : live_e s e = true -> e < ne s /\ e_deleted s e = false.
Proof. unfold live_e. rewrite andb_true_iff, Nat.ltb_lt, negb_true_iff. tauto. Qed.
Lemma live_c_lt s c : live_c s c = true -> c < nc s /\ c_deleted s c = false.
Proof. unfold live_c. rewrite andb_true_iff, Nat.ltb_lt, negb_true_iff. tauto. Qed.

Theorem bu_inv2_step s o : bu_inv2 s -> hist_op o = true -> (valid_op s o = true -> valid_op2 s o = true) -> bu_inv2 (next s o).
Proof.
  intros H G V2. unfold next, step. destruct (valid_op s o) eqn:V; [|exact H]. specialize (V2 eq_refl).
  destruct o; try discriminate; cbn [exec valid_op valid_op2] in *.
  - pose proof (bu_inv2_add_vertex s H). destruct (add_vertex s). exact H0.
  - apply bu_inv2_add_n_vertices. exact H.
  - apply andb_true_iff in V. destruct V as [V1 V3].
    pose proof (bu_inv2_add_edge s a b dup H (live_v_lt _ _ V1) (live_v_lt _ _ V3)). destruct (add_edge s a b dup). exact H0.
  - apply andb_true_iff in V. destruct V as [_ V3].
    pose proof (bu_inv2_add_face s hes check H (fun h Hh => live_he_lt s h (forallb_lt _ _ V3 h Hh)) (simple_b_sound _ V2)).
    destruct (add_face s hes check). exact H0.
  - apply andb_true_iff in V. destruct V as [_ V3].
    assert (Hs : forall f t, vs = f :: t -> simple_hes (snd (add_face_v_edges f vs (s, [])))).
    { intros f t ->. apply simple_b_sound. exact V2. }
    pose proof (bu_inv2_add_face_v s vs H (fun v Hv => live_v_lt s v (forallb_lt _ _ V3 v Hv)) Hs).
    destruct (add_face_v s vs). exact H0.
  - (* add_cell *)
    apply andb_true_iff in V2. destruct V2 as [V2 Vopp]. apply andb_true_iff in V2. destruct V2 as [Vchk Vfree]. subst check.
    destruct (cell_check s hfs) eqn:CK.
    + assert (NC : new_cell_ok s hfs).
      { split; [exact CK|]. intros hf Hhf. pose proof (forallb_lt _ _ V hf Hhf) as Lf. apply live_f_lt in Lf.
        pose proof (forallb_lt _ _ Vfree hf Hhf) as Fr. pose proof (forallb_lt _ _ Vopp hf Hhf) as Op. cbn beta in Fr, Op.
        destruct Lf as [A B]. split; [exact A|]. split; [exact B|]. split.
        - revert Fr. destruct (cell_of s hf); intros Fr; [discriminate Fr|reflexivity].
        - intros Hin. apply Base.ListLemmas.memb_In in Hin. rewrite Hin in Op. discriminate. }
      pose proof (bu_inv2_add_cell s hfs H NC). destruct (add_cell s hfs true). exact H0.
    + pose proof (add_cell_rejected_state s hfs CK). destruct (add_cell s hfs true). cbn [fst] in H0. subst. exact H.
  - apply bu_inv2_delete_vertex; [exact H|apply live_v_lt; exact V].
  - apply live_e_lt in V. apply bu_inv2_delete_edge; tauto.
  - apply live_f_lt in V. apply bu_inv2_delete_face; tauto.
  - apply live_c_lt in V. apply bu_inv2_delete_cell; tauto.
  - apply bu_inv2_enable_vbu. exact H.
  - apply bu_inv2_enable_fast. exact H.
Qed.

Theorem bu_inv2_along_histories ops : hist_ok ops = true -> bu_inv2 (run ops).
Proof.
  unfold hist_ok, run.
  assert (G : forall ops s, bu_inv2 s -> hist_ok_from s ops = true -> bu_inv2 (run_from s ops)).
  { induction ops0 as [|o r IH]; intros s H F; [exact H|]. cbn [hist_ok_from] in F.
    apply andb_true_iff in F. destruct F as [F F3]. apply andb_true_iff in F. destruct F as [F1 F2].
    unfold run_from. cbn [fold_left]. apply IH; [|exact F3]. apply bu_inv2_step; [exact H|exact F1|].
    intros V. rewrite V in F2. exact F2. }
  intros F. apply G; [apply bu_inv2_empty|exact F].
Qed.

(* EXAMPLE: two tetrahedra sharing a face, a vertex deleted (closure: 3 edges, 3 faces, one cell), another cell added *)
Definition example_history : list op :=
  [AddVertices 6;
   AddFaceV [0; 1; 2]; AddFaceV [0; 2; 3]; AddFaceV [0; 3; 1]; AddFaceV [1; 3; 2]; AddCell [0; 2; 4; 6] true;
   AddFaceV [1; 2; 4]; AddFaceV [2; 3; 4]; AddFaceV [3; 1; 4]; AddCell [7; 9; 11; 13] true;
   DelVertex 0; EnableVBU false;
   AddFaceV [2; 1; 5]; AddFaceV [4; 2; 5]; AddFaceV [1; 4; 5]; AddCell [8; 14; 16; 18] true;
   DelFace 5; DelEdge 8; DelCell 2; EnableVBU true].

Example example_history_ok :
  hist_ok example_history = true /\ bu_inv2 (run example_history) /\
  cdel (run (firstn 10 example_history)) = [false; false] /\      (* both tetrahedra accepted *)
  cdel (run (firstn 11 example_history)) = [true; false] /\       (* delete_vertex 0 took the first one *)
  cdel (run (firstn 16 example_history)) = [true; false; false] /\ (* the third cell accepted *)
  cdel (run example_history) = [true; true; true].
Proof.
  assert (H : hist_ok example_history = true) by (vm_compute; reflexivity).
  split; [exact H|]. split; [apply bu_inv2_along_histories; exact H|]. repeat split; vm_compute; reflexivity.
Qed.
