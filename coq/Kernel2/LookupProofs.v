(* Kernel2/LookupProofs.v -- C10: every lookup of Kernel2/LookupModel.v against its brute-force relation
   over the stored definitions of not-deleted entities: soundness and completeness, under explicitly stated
   cache-exactness / well-formedness hypotheses (predicates below; that they hold in every reachable state is
   proved elsewhere) and the documented preconditions. *)
From Coq Require Import ZArith Lia Bool Arith List ZifyNat ZifyBool Permutation.
From OVM Require Import Kernel.State Kernel.Ops Kernel.Mirror Kernel2.LookupModel Kernel2.ListAux Kernel2.AdjacentProofs.
Import ListNotations.
Ltac Zify.zify_post_hook ::= Z.div_mod_to_equations.
Local Open Scope nat_scope.

(* ================================================================== hypotheses *)

(* every cache holds exactly the live incident entities *)
Definition vbu_exact (s : mesh) : Prop :=
  vbu s = true /\ forall v h, In h (out_at s v) <-> (live_he s h = true /\ he_from s h = v).
Definition ebu_exact (s : mesh) : Prop :=
  ebu s = true /\ forall h hf, In hf (hfs_at s h) <-> (live_hf s hf = true /\ In h (halfface s hf)).
Definition fbu_exact (s : mesh) : Prop :=
  fbu s = true /\ forall hf c, cell_of s hf = Some c <-> (live_c s c = true /\ In hf (cell_at s c)).
(* the part of fbu_exact the in-cell lookups need, per cell *)
Definition cell_cache_ok (s : mesh) (c : nat) : Prop := forall hf, In hf (cell_at s c) -> cell_of s hf = Some c.

(* stored handles are in range and live entities reference live sub-entities
   (live_x s i = true includes i < number of x) *)
Definition wf_edges (s : mesh) : Prop :=
  forall e, live_e s e = true -> live_v s (fst (edge_at s e)) = true /\ live_v s (snd (edge_at s e)) = true.
Definition wf_faces (s : mesh) : Prop :=
  forall f h, live_f s f = true -> In h (face_at s f) -> live_he s h = true.
Definition wf_cells (s : mesh) : Prop :=
  forall c hf, live_c s c = true -> In hf (cell_at s c) -> live_hf s hf = true.
Definition wf_mesh (s : mesh) : Prop := wf_edges s /\ wf_faces s /\ wf_cells s.

(* shape conditions of the "coincides with the full relation" theorems *)
Definition no_parallel_edges (s : mesh) : Prop :=
  forall h1 h2, live_he s h1 = true -> live_he s h2 = true ->
                he_from s h1 = he_from s h2 -> he_to s h1 = he_to s h2 -> h1 = h2.
Definition hf_vertices (s : mesh) (hf : nat) : list nat := map (he_from s) (halfface s hf).
Definition closed_face (s : mesh) (hf : nat) : Prop := closed_cycle s (halfface s hf).
Definition simple_face (s : mesh) (hf : nat) : Prop := NoDup (hf_vertices s hf).

Lemma fbu_exact_cell_cache_ok s c : fbu_exact s -> live_c s c = true -> cell_cache_ok s c.
Proof. intros [_ H] L hf Hin. apply H. auto. Qed.

Lemma live_he_opp s h : live_he s (opp h) = live_he s h.
Proof. unfold live_he. rewrite opp_div2. reflexivity. Qed.
Lemma live_hf_opp s h : live_hf s (opp h) = live_hf s h.
Proof. unfold live_hf. rewrite opp_div2. reflexivity. Qed.

Lemma In_halfface_face s hf h : In h (halfface s hf) -> In h (face_at s (hf / 2)) \/ In (opp h) (face_at s (hf / 2)).
Proof.
  unfold halfface. destruct (Nat.even hf); [auto|]. rewrite <- in_rev, in_map_iff.
  intros [x [<- Hx]]. right. rewrite opp_involutive. exact Hx.
Qed.

Lemma halfface_live_he s hf h : wf_faces s -> live_hf s hf = true -> In h (halfface s hf) -> live_he s h = true.
Proof.
  intros W L Hin. destruct (In_halfface_face s hf h Hin) as [H|H].
  - exact (W _ _ L H).
  - rewrite <- live_he_opp. exact (W _ _ L H).
Qed.

Lemma halfface_length s hf : length (halfface s hf) = length (face_at s (hf / 2)).
Proof. unfold halfface. destruct (Nat.even hf); [reflexivity|]. rewrite rev_length, map_length. reflexivity. Qed.

Lemma hf_vertices_length s hf : length (hf_vertices s hf) = length (halfface s hf).
Proof. apply map_length. Qed.

Lemma hf_vertices_nth s hf i : i < length (halfface s hf) -> nth i (hf_vertices s hf) 0 = he_from s (nth i (halfface s hf) 0).
Proof.
  intros H. unfold hf_vertices. rewrite (nth_indep _ 0 (he_from s 0)) by (rewrite map_length; exact H). apply map_nth.
Qed.

Lemma simple_face_NoDup s hf : simple_face s hf -> NoDup (halfface s hf).
Proof. apply NoDup_map_inv. Qed.

(* ================================================================== find_halfedge *)

Definition R_halfedge (s : mesh) (v1 v2 h : nat) : Prop :=
  live_he s h = true /\ he_from s h = v1 /\ he_to s h = v2.

Theorem find_halfedge_sound s v1 v2 h :
  vbu_exact s -> find_halfedge s v1 v2 = Some h -> R_halfedge s v1 v2 h.
Proof.
  intros [Hv Hx] H. unfold find_halfedge, voh_list in H. rewrite Hv in H.
  apply find_some in H. destruct H as [Hin E]. apply Nat.eqb_eq in E. apply Hx in Hin. unfold R_halfedge. tauto.
Qed.

Theorem find_halfedge_complete s v1 v2 :
  vbu_exact s -> (exists h, R_halfedge s v1 v2 h) -> find_halfedge s v1 v2 <> None.
Proof.
  intros [Hv Hx] [h [H1 [H2 H3]]]. unfold find_halfedge, voh_list. rewrite Hv.
  apply (find_not_None _ _ h); [apply Hx; auto | apply Nat.eqb_eq; exact H3].
Qed.

Lemma find_halfedge_unique s v1 v2 h :
  vbu_exact s -> no_parallel_edges s -> R_halfedge s v1 v2 h -> find_halfedge s v1 v2 = Some h.
Proof.
  intros Hv Hp R. destruct (find_halfedge s v1 v2) as [h'|] eqn:E.
  - destruct (find_halfedge_sound s v1 v2 h' Hv E) as [A [B C]]. destruct R as [A' [B' C']].
    f_equal. apply Hp; congruence.
  - exfalso. apply (find_halfedge_complete s v1 v2 Hv); eauto.
Qed.

(* without vertex bottom-up incidences the circulator is invalid from the start *)
Lemma find_halfedge_no_incidences s v1 v2 : vbu s = false -> find_halfedge s v1 v2 = None.
Proof. intros H. unfold find_halfedge, voh_list. rewrite H. reflexivity. Qed.

(* ================================================================== find_halfedge_in_cell *)

Definition R_halfedge_in_cell (s : mesh) (v1 v2 c h : nat) : Prop :=
  he_from s h = v1 /\ he_to s h = v2 /\
  exists hf, In hf (cell_at s c) /\ (In h (halfface s hf) \/ In (opp h) (halfface s hf)).

Lemma fhec_hes_sound s v1 v2 hes h :
  fhec_hes s v1 v2 hes = Some h -> he_from s h = v1 /\ he_to s h = v2 /\ (In h hes \/ In (opp h) hes).
Proof.
  induction hes as [|a t IH]; simpl; [discriminate|].
  destruct ((he_from s a =? v1) && (he_to s a =? v2)) eqn:E1.
  - intros H. inversion H; subst. apply andb_true_iff in E1. destruct E1 as [A B].
    apply Nat.eqb_eq in A. apply Nat.eqb_eq in B. auto.
  - destruct ((he_from s a =? v2) && (he_to s a =? v1)) eqn:E2.
    + intros H. inversion H; subst. apply andb_true_iff in E2. destruct E2 as [A B].
      apply Nat.eqb_eq in A. apply Nat.eqb_eq in B. rewrite he_from_opp, he_to_opp, opp_involutive. auto.
    + intros H. destruct (IH H) as [A [B C]]. intuition.
Qed.

Lemma fhec_hes_complete s v1 v2 hes h :
  In h hes \/ In (opp h) hes -> he_from s h = v1 -> he_to s h = v2 -> fhec_hes s v1 v2 hes <> None.
Proof.
  intros Hin Hf Ht. induction hes as [|a t IH]; simpl; [destruct Hin as [[]|[]]|].
  destruct ((he_from s a =? v1) && (he_to s a =? v2)) eqn:E1; [congruence|].
  destruct ((he_from s a =? v2) && (he_to s a =? v1)) eqn:E2; [congruence|].
  apply IH. destruct Hin as [[->|H]|[E|H]]; auto.
  - rewrite Hf, Ht, !Nat.eqb_refl in E1. discriminate.
  - subst a. rewrite he_from_opp, he_to_opp, Hf, Ht, !Nat.eqb_refl in E2. discriminate.
Qed.

Theorem find_halfedge_in_cell_sound s v1 v2 c h :
  find_halfedge_in_cell s v1 v2 c = Some h -> R_halfedge_in_cell s v1 v2 c h.
Proof.
  intros H. apply first_some_Some in H. destruct H as [hf [Hin E]].
  destruct (fhec_hes_sound _ _ _ _ _ E) as [A [B C]]. unfold R_halfedge_in_cell. eauto.
Qed.

Theorem find_halfedge_in_cell_complete s v1 v2 c :
  (exists h, R_halfedge_in_cell s v1 v2 c h) -> find_halfedge_in_cell s v1 v2 c <> None.
Proof.
  intros [h [A [B [hf [Hin C]]]]]. apply (first_some_not_None _ _ hf Hin).
  apply (fhec_hes_complete s v1 v2 _ h); auto.
Qed.

(* the returned halfedge is live when the cell is (live entities reference live sub-entities) *)
Lemma find_halfedge_in_cell_live s v1 v2 c h :
  wf_faces s -> wf_cells s -> live_c s c = true -> find_halfedge_in_cell s v1 v2 c = Some h -> live_he s h = true.
Proof.
  intros Wf Wc L H. destruct (find_halfedge_in_cell_sound _ _ _ _ _ H) as [_ [_ [hf [Hin [C|C]]]]].
  - exact (halfface_live_he s hf h Wf (Wc _ _ L Hin) C).
  - rewrite <- live_he_opp. exact (halfface_live_he s hf _ Wf (Wc _ _ L Hin) C).
Qed.

(* ================================================================== find_halfface(halfedges) *)

(* documented relation: only the first two halfedges are checked *)
Definition R_halfface_hes (s : mesh) (he0 he1 hf : nat) : Prop :=
  live_hf s hf = true /\ In he0 (halfface s hf) /\ In he1 (halfface s hf).
(* full relation: all given halfedges belong to the halfface *)
Definition R_halfface_hes_full (s : mesh) (hes : list nat) (hf : nat) : Prop :=
  live_hf s hf = true /\ forall h, In h hes -> In h (halfface s hf).

Theorem find_halfface_hes_sound s he0 he1 rest hf :
  ebu_exact s -> find_halfface_hes s (he0 :: he1 :: rest) = Some hf -> R_halfface_hes s he0 he1 hf.
Proof.
  intros [He Hx] H. unfold find_halfface_hes, hehf_list in H. rewrite He in H.
  apply find_some in H. destruct H as [Hin M]. apply memb_In in M. apply Hx in Hin. unfold R_halfface_hes. tauto.
Qed.

Theorem find_halfface_hes_complete s he0 he1 rest :
  ebu_exact s -> (exists hf, R_halfface_hes s he0 he1 hf) -> find_halfface_hes s (he0 :: he1 :: rest) <> None.
Proof.
  intros [He Hx] [hf [L [A B]]]. unfold find_halfface_hes, hehf_list. rewrite He.
  apply (find_not_None _ _ hf); [apply Hx; auto | apply memb_In; exact B].
Qed.

Lemma R_halfface_hes_full_prefix s he0 he1 rest hf :
  R_halfface_hes_full s (he0 :: he1 :: rest) hf -> R_halfface_hes s he0 he1 hf.
Proof. intros [L H]. split; [exact L|]. split; apply H; simpl; auto. Qed.

(* the prefix relation determines the halfface as soon as two halfedges determine a halfface
   (true in a proper cell complex; NOT implied by "no parallel edges + simple faces": two quads may share two
   consecutive edges, see prefix_not_full_refuted in Props) *)
Definition two_halfedges_determine_halfface (s : mesh) : Prop :=
  forall hf1 hf2 a b, a <> b -> live_hf s hf1 = true -> live_hf s hf2 = true ->
    In a (halfface s hf1) -> In b (halfface s hf1) -> In a (halfface s hf2) -> In b (halfface s hf2) -> hf1 = hf2.

Theorem find_halfface_hes_full s he0 he1 rest hf :
  ebu_exact s -> two_halfedges_determine_halfface s -> he0 <> he1 ->
  R_halfface_hes_full s (he0 :: he1 :: rest) hf -> find_halfface_hes s (he0 :: he1 :: rest) = Some hf.
Proof.
  intros He Hd Hne R. pose proof (R_halfface_hes_full_prefix _ _ _ _ _ R) as [L [A B]].
  destruct (find_halfface_hes s (he0 :: he1 :: rest)) as [x|] eqn:E.
  - destruct (find_halfface_hes_sound _ _ _ _ _ He E) as [L' [A' B']]. f_equal. apply (Hd x hf he0 he1); auto.
  - exfalso. apply (find_halfface_hes_complete s he0 he1 rest He); [|exact E]. exists hf. split; auto.
Qed.

(* ================================================================== find_halfface(vertices) *)

(* documented relation ("only the first three vertices are checked"): a live halfface containing a live
   halfedge v0->v1 and a live halfedge v1->v2 *)
Definition R_halfface_doc (s : mesh) (v0 v1 v2 hf : nat) : Prop :=
  exists he0 he1, R_halfedge s v0 v1 he0 /\ R_halfedge s v1 v2 he1 /\
                  live_hf s hf = true /\ In he0 (halfface s hf) /\ In he1 (halfface s hf).

(* vertex-level relation: v0, v1, v2 are consecutive in the vertex cycle of the live halfface *)
Definition R_halfface_consec (s : mesh) (v0 v1 v2 hf : nat) : Prop :=
  live_hf s hf = true /\
  let vs := hf_vertices s hf in let n := length vs in
  exists i, i < n /\ nth i vs 0 = v0 /\ nth (circ_next n i) vs 0 = v1 /\ nth (circ_next n (circ_next n i)) vs 0 = v2.

Theorem find_halfface_vs_sound s v0 v1 v2 rest hf :
  vbu_exact s -> ebu_exact s -> find_halfface_vs s (v0 :: v1 :: v2 :: rest) = Some hf -> R_halfface_doc s v0 v1 v2 hf.
Proof.
  intros Hv He H. unfold find_halfface_vs in H.
  destruct (find_halfedge s v0 v1) as [he0|] eqn:E0; [|discriminate].
  destruct (find_halfedge s v1 v2) as [he1|] eqn:E1; [|discriminate].
  destruct (find_halfface_hes_sound _ _ _ _ _ He H) as [L [A B]].
  exists he0, he1. repeat split; auto; try (apply (find_halfedge_sound _ _ _ _ Hv); assumption).
  all: try (destruct (find_halfedge_sound _ _ _ _ Hv E0) as [X [Y Z]]; assumption).
  all: try (destruct (find_halfedge_sound _ _ _ _ Hv E1) as [X [Y Z]]; assumption).
Qed.

(* completeness holds on meshes without parallel edges ... *)
Theorem find_halfface_vs_complete_partial s v0 v1 v2 rest :
  vbu_exact s -> ebu_exact s -> no_parallel_edges s ->
  (exists hf, R_halfface_doc s v0 v1 v2 hf) -> find_halfface_vs s (v0 :: v1 :: v2 :: rest) <> None.
Proof.
  intros Hv He Hp [hf [he0 [he1 [R0 [R1 [L [A B]]]]]]]. unfold find_halfface_vs.
  rewrite (find_halfedge_unique _ _ _ _ Hv Hp R0), (find_halfedge_unique _ _ _ _ Hv Hp R1).
  apply (find_halfface_hes_complete s he0 he1 [] He). exists hf. split; auto.
Qed.

(* doc relation <-> vertex-level relation on closed simple faces *)
Lemma closed_cycle_next s l i : closed_cycle s l -> i < length l ->
  he_to s (nth i l 0) = he_from s (nth (circ_next (length l) i) l 0).
Proof. intros [_ H] Hi. exact (H i Hi). Qed.

Theorem R_halfface_consec_doc s v0 v1 v2 hf :
  wf_faces s -> closed_face s hf -> R_halfface_consec s v0 v1 v2 hf -> R_halfface_doc s v0 v1 v2 hf.
Proof.
  intros W Hc [L [i [Hi [A [B C]]]]]. rewrite hf_vertices_length in *.
  set (l := halfface s hf) in *. set (n := length l) in *.
  assert (Hj : circ_next n i < n) by (apply circ_next_lt; exact Hi).
  assert (Hk : circ_next n (circ_next n i) < n) by (apply circ_next_lt; exact Hj).
  rewrite hf_vertices_nth in A, B, C by assumption. fold l in A, B, C.
  exists (nth i l 0), (nth (circ_next n i) l 0).
  assert (I0 : In (nth i l 0) l) by (apply nth_In; exact Hi).
  assert (I1 : In (nth (circ_next n i) l 0) l) by (apply nth_In; exact Hj).
  repeat split; auto.
  - exact (halfface_live_he s hf _ W L I0).
  - pose proof (closed_cycle_next s l i Hc Hi) as Ci. fold n in Ci. rewrite Ci. exact B.
  - exact (halfface_live_he s hf _ W L I1).
  - pose proof (closed_cycle_next s l _ Hc Hj) as Cj. fold n in Cj. rewrite Cj. exact C.
Qed.

Theorem R_halfface_doc_consec s v0 v1 v2 hf :
  closed_face s hf -> simple_face s hf -> R_halfface_doc s v0 v1 v2 hf -> R_halfface_consec s v0 v1 v2 hf.
Proof.
  intros Hc Hs [he0 [he1 [[_ [F0 T0]] [[_ [F1 T1]] [L [A B]]]]]]. split; [exact L|]. cbv zeta.
  rewrite hf_vertices_length. set (l := halfface s hf) in *. set (n := length l) in *.
  destruct (In_nth l he0 0 A) as [i [Hi Ei]]. destruct (In_nth l he1 0 B) as [j [Hj Ej]]. fold n in Hi, Hj.
  assert (Hi' : circ_next n i < n) by (apply circ_next_lt; exact Hi).
  assert (Hj' : circ_next n j < n) by (apply circ_next_lt; exact Hj).
  pose proof (closed_cycle_next s l i Hc Hi) as Ci. pose proof (closed_cycle_next s l j Hc Hj) as Cj.
  fold n in Ci, Cj.
  (* the halfedge leaving v1 is the successor of the one entering it, because v1 occurs once *)
  assert (J : j = circ_next n i).
  { apply (proj1 (NoDup_nth (hf_vertices s hf) 0) Hs); try (rewrite hf_vertices_length; assumption).
    rewrite !hf_vertices_nth by assumption. fold l. rewrite Ej, F1, <- Ci, Ei. symmetry. exact T0. }
  exists i. split; [exact Hi|]. rewrite !hf_vertices_nth by (try assumption; subst j; assumption). fold l.
  split; [rewrite Ei; exact F0|]. split.
  - rewrite <- Ci, Ei. exact T0.
  - rewrite <- J. rewrite <- Cj, Ej. exact T1.
Qed.

(* ================================================================== find_halfface_extensive *)

(* full relation: vs is exactly the vertex cycle of the live halfface, starting anywhere *)
Definition R_halfface_ext (s : mesh) (vs : list nat) (hf : nat) : Prop :=
  live_hf s hf = true /\ length (halfface s hf) = length vs /\
  exists k, k < length vs /\
            forall i, i < length vs -> nth ((i + k) mod length vs) (hf_vertices s hf) 0 = nth i vs 0.

Lemma ext_match_true s vs he0 hf :
  ext_match s vs he0 hf = true <->
  length (halfface s hf) = length vs /\
  forall i, i < length vs ->
    he_from s (nth ((i + ext_offset he0 (halfface s hf)) mod length vs) (halfface s hf) 0) = nth i vs 0.
Proof.
  unfold ext_match. set (hes := halfface s hf).
  destruct (Nat.eqb_spec (length hes) (length vs)) as [E|E]; simpl.
  - rewrite forallb_forall. rewrite E. split.
    + intros H. split; [reflexivity|]. intros i Hi. apply Nat.eqb_eq. apply H. apply in_seq. lia.
    + intros [_ H] i Hi. apply in_seq in Hi. apply Nat.eqb_eq. apply H. lia.
  - split; [discriminate|]. intros [H _]. congruence.
Qed.

Theorem find_halfface_extensive_sound s v0 v1 v2 rest hf :
  vbu_exact s -> ebu_exact s ->
  find_halfface_extensive s (v0 :: v1 :: v2 :: rest) = Some hf -> R_halfface_ext s (v0 :: v1 :: v2 :: rest) hf.
Proof.
  intros Hv [He Hx] H. set (vs := v0 :: v1 :: v2 :: rest) in *.
  unfold find_halfface_extensive in H. fold vs in H. unfold vs at 1 in H.
  destruct (find_halfedge s v0 v1) as [he0|] eqn:E0; [|discriminate].
  apply find_some in H. destruct H as [Hin M]. unfold hehf_list in Hin. rewrite He in Hin.
  apply Hx in Hin. destruct Hin as [L _]. apply ext_match_true in M. destruct M as [Hl M].
  assert (Hn : length vs <> 0) by (unfold vs; simpl; lia).
  split; [exact L|]. split; [exact Hl|].
  exists (ext_offset he0 (halfface s hf) mod length vs). split; [apply Nat.mod_upper_bound; exact Hn|].
  intros i Hi. rewrite Nat.add_mod_idemp_r by exact Hn.
  rewrite hf_vertices_nth by (rewrite Hl; apply Nat.mod_upper_bound; exact Hn). apply M. exact Hi.
Qed.

Lemma ext_offset_from_absent he0 : forall hes i off, ~ In he0 hes -> ext_offset_from he0 hes i off = off.
Proof.
  induction hes as [|h t IH]; intros i off Hn; simpl; [reflexivity|].
  destruct (Nat.eqb_spec h he0) as [->|N]; [exfalso; apply Hn; left; reflexivity|].
  apply IH. intros H. apply Hn. right. exact H.
Qed.

Lemma ext_offset_from_NoDup he0 : forall hes i off k,
  NoDup hes -> k < length hes -> nth k hes 0 = he0 -> ext_offset_from he0 hes i off = i + k.
Proof.
  induction hes as [|h t IH]; intros i off k Hnd Hk E; simpl in *; [lia|].
  inversion Hnd as [|x l Hnotin Hnd']; subst x l.
  destruct k as [|k].
  - subst h. rewrite Nat.eqb_refl. rewrite ext_offset_from_absent by exact Hnotin. lia.
  - destruct (Nat.eqb_spec h he0) as [->|N].
    + exfalso. apply Hnotin. rewrite <- E. apply nth_In. lia.
    + rewrite (IH (S i) off k Hnd' ltac:(lia) E). lia.
Qed.

(* completeness holds on meshes without parallel edges for closed faces without a repeated halfedge *)
Theorem find_halfface_extensive_complete_partial s v0 v1 v2 rest :
  vbu_exact s -> ebu_exact s -> wf_faces s -> no_parallel_edges s ->
  (exists hf, R_halfface_ext s (v0 :: v1 :: v2 :: rest) hf /\ closed_face s hf /\ NoDup (halfface s hf)) ->
  find_halfface_extensive s (v0 :: v1 :: v2 :: rest) <> None.
Proof.
  intros Hv He W Hp [hf [[L [Hl [k [Hk R]]]] [Hc Hnd]]]. set (vs := v0 :: v1 :: v2 :: rest) in *.
  set (hes := halfface s hf) in *. set (n := length vs) in *.
  assert (Hn3 : 3 <= n) by (unfold n, vs; simpl; lia).
  assert (Hkl : k < length hes) by lia.
  set (h := nth k hes 0).
  assert (Hin : In h hes) by (apply nth_In; exact Hkl).
  assert (R0 : R_halfedge s v0 v1 h).
  { split; [exact (halfface_live_he s hf h W L Hin)|]. split.
    - pose proof (R 0 ltac:(lia)) as R00. rewrite Nat.add_0_l, Nat.mod_small in R00 by exact Hk.
      rewrite hf_vertices_nth in R00 by exact Hkl. exact R00.
    - pose proof (closed_cycle_next s hes k Hc Hkl) as Ck. fold h in Ck. rewrite Ck.
      rewrite circ_next_mod by exact Hkl. rewrite Hl. fold n.
      pose proof (R 1 ltac:(lia)) as R1. change (nth 1 vs 0) with v1 in R1.
      replace (1 + k) with (k + 1) in R1 by lia.
      rewrite hf_vertices_nth in R1 by (fold hes; rewrite Hl; apply Nat.mod_upper_bound; lia). exact R1. }
  unfold find_halfface_extensive. fold vs. unfold vs at 1.
  rewrite (find_halfedge_unique s v0 v1 h Hv Hp R0).
  destruct He as [He Hx]. unfold hehf_list. rewrite He.
  apply (find_not_None _ _ hf); [apply Hx; auto|].
  apply ext_match_true. split; [exact Hl|]. intros i Hi. fold hes. fold n.
  unfold ext_offset. rewrite (ext_offset_from_NoDup h hes 0 0 k Hnd Hkl eq_refl). rewrite Nat.add_0_l.
  pose proof (R i Hi) as Ri.
  rewrite hf_vertices_nth in Ri by (fold hes; rewrite Hl; apply Nat.mod_upper_bound; lia). exact Ri.
Qed.

(* for triangles the documented prefix relation IS the full relation *)
Theorem R_halfface_consec_ext_triangle s v0 v1 v2 hf :
  length (halfface s hf) = 3 -> R_halfface_consec s v0 v1 v2 hf -> R_halfface_ext s [v0; v1; v2] hf.
Proof.
  intros H3 [L [i [Hi [A [B C]]]]]. rewrite hf_vertices_length, H3 in *.
  split; [exact L|]. split; [exact H3|]. exists i. split; [exact Hi|]. simpl length.
  pose proof (circ_next_lt 3 i Hi) as Hi'.
  rewrite (circ_next_mod 3 (circ_next 3 i) Hi') in C. rewrite (circ_next_mod 3 i Hi) in B, C.
  intros j Hj.
  destruct j as [|[|[|j]]]; try lia.
  - change (nth 0 [v0; v1; v2] 0) with v0. rewrite Nat.add_0_l, Nat.mod_small by lia. exact A.
  - change (nth 1 [v0; v1; v2] 0) with v1. replace (1 + i) with (i + 1) by lia. exact B.
  - change (nth 2 [v0; v1; v2] 0) with v2. rewrite <- C. f_equal. rewrite Nat.add_mod_idemp_l by lia. f_equal. lia.
Qed.

(* ================================================================== next / prev_halfedge_in_halfface *)

Definition circ_prev (n i : nat) : nat := if i =? 0 then n - 1 else i - 1.

Lemma next_Some s he hf x :
  next_halfedge_in_halfface s he hf = Some x ->
  let l := halfface s hf in
  exists i, i < length l /\ nth i l 0 = he /\ (forall j, j < i -> nth j l 0 <> he) /\ x = nth (circ_next (length l) i) l 0.
Proof.
  unfold next_halfedge_in_halfface. cbv zeta. set (l := halfface s hf).
  destruct (find_index (Nat.eqb he) l) as [i|] eqn:E; [|discriminate].
  destruct (find_index_Some _ 0 _ _ E) as [Hi [Hp Hf]]. apply Nat.eqb_eq in Hp.
  intros H. exists i. split; [exact Hi|]. split; [auto|]. split.
  - intros j Hj. specialize (Hf j Hj). apply Nat.eqb_neq in Hf. congruence.
  - unfold circ_next. destruct (S i =? length l); inversion H; reflexivity.
Qed.

Lemma next_None s he hf : next_halfedge_in_halfface s he hf = None <-> ~ In he (halfface s hf).
Proof.
  unfold next_halfedge_in_halfface. destruct (find_index (Nat.eqb he) (halfface s hf)) as [i|] eqn:E.
  - destruct (find_index_Some _ 0 _ _ E) as [Hi [Hp _]]. apply Nat.eqb_eq in Hp.
    split; [destruct (S i =? _); discriminate|]. intros H. exfalso. apply H. rewrite Hp. apply nth_In. exact Hi.
  - rewrite find_index_None in E. split; [|reflexivity]. intros _ H. specialize (E he H). rewrite Nat.eqb_refl in E. discriminate.
Qed.

Lemma next_NoDup s hf i :
  NoDup (halfface s hf) -> i < length (halfface s hf) ->
  next_halfedge_in_halfface s (nth i (halfface s hf) 0) hf
  = Some (nth (circ_next (length (halfface s hf)) i) (halfface s hf) 0).
Proof.
  intros Hnd Hi. unfold next_halfedge_in_halfface. rewrite (find_index_nth_NoDup _ i Hnd Hi).
  unfold circ_next. destruct (S i =? length (halfface s hf)); reflexivity.
Qed.

Lemma prev_Some s he hf x :
  prev_halfedge_in_halfface s he hf = Some x ->
  let l := halfface s hf in
  exists i, i < length l /\ nth i l 0 = he /\ (forall j, j < i -> nth j l 0 <> he) /\ x = nth (circ_prev (length l) i) l 0.
Proof.
  unfold prev_halfedge_in_halfface. cbv zeta. set (l := halfface s hf).
  destruct (find_index (Nat.eqb he) l) as [i|] eqn:E; [|discriminate].
  destruct (find_index_Some _ 0 _ _ E) as [Hi [Hp Hf]]. apply Nat.eqb_eq in Hp.
  intros H. exists i. split; [exact Hi|]. split; [auto|]. split.
  - intros j Hj. specialize (Hf j Hj). apply Nat.eqb_neq in Hf. congruence.
  - unfold circ_prev. destruct (i =? 0); inversion H; reflexivity.
Qed.

Lemma prev_None s he hf : prev_halfedge_in_halfface s he hf = None <-> ~ In he (halfface s hf).
Proof.
  unfold prev_halfedge_in_halfface. destruct (find_index (Nat.eqb he) (halfface s hf)) as [i|] eqn:E.
  - destruct (find_index_Some _ 0 _ _ E) as [Hi [Hp _]]. apply Nat.eqb_eq in Hp.
    split; [destruct (i =? 0); discriminate|]. intros H. exfalso. apply H. rewrite Hp. apply nth_In. exact Hi.
  - rewrite find_index_None in E. split; [|reflexivity]. intros _ H. specialize (E he H). rewrite Nat.eqb_refl in E. discriminate.
Qed.

(* ================================================================== find_halfface_in_cell *)

(* a halfface of the cell in which a halfedge v0->v1 is followed by a halfedge ending in v2 *)
Definition R_halfface_in_cell (s : mesh) (v0 v1 v2 c hf : nat) : Prop :=
  In hf (cell_at s c) /\
  let l := halfface s hf in
  exists i, i < length l /\ he_from s (nth i l 0) = v0 /\ he_to s (nth i l 0) = v1 /\
            he_to s (nth (circ_next (length l) i) l 0) = v2.

Lemma fhfc_he_sound s v0 v1 v2 c hfh heh hf :
  cell_cache_ok s c -> In hfh (cell_at s c) -> In heh (halfface s hfh) ->
  fhfc_he s v0 v1 v2 hfh heh = Some (Some hf) -> R_halfface_in_cell s v0 v1 v2 c hf.
Proof.
  intros Hok Hin Hhe. unfold fhfc_he.
  destruct ((he_from s heh =? v0) && (he_to s heh =? v1)
            && (he_to s (rd (next_halfedge_in_halfface s heh hfh)) =? v2)) eqn:E1.
  - intros H. inversion H; subst hf. apply andb_true_iff in E1. destruct E1 as [E1 C].
    apply andb_true_iff in E1. destruct E1 as [A B].
    apply Nat.eqb_eq in A. apply Nat.eqb_eq in B. apply Nat.eqb_eq in C.
    destruct (next_halfedge_in_halfface s heh hfh) as [x|] eqn:N; [|apply next_None in N; contradiction].
    destruct (next_Some _ _ _ _ N) as [i [Hi [Ei [_ Ex]]]]. simpl in C. subst x.
    split; [exact Hin|]. exists i. rewrite Ei. auto.
  - destruct ((he_from s heh =? v1) && (he_to s heh =? v0)) eqn:E2; [|discriminate].
    cbv zeta. destruct (he_to s (rd (next_halfedge_in_halfface s (opp heh) (rd (adjacent_halfface_in_cell s hfh heh)))) =? v2) eqn:E3; [|discriminate].
    intros H. inversion H as [Hadj]. rewrite Hadj in E3. simpl rd in E3.
    destruct (adjacent_result_spec s hfh heh hf Hadj) as [c' [he1 [Hc' [Hr [Hcell [_ [_ Hopp]]]]]]].
    rewrite (Hok hfh Hin) in Hc'. inversion Hc'; subst c'.
    rewrite (resolve_he_member s hfh heh Hhe) in Hr. inversion Hr; subst he1.
    apply andb_true_iff in E2. destruct E2 as [A B]. apply Nat.eqb_eq in A. apply Nat.eqb_eq in B. apply Nat.eqb_eq in E3.
    destruct (next_halfedge_in_halfface s (opp heh) hf) as [x|] eqn:N; [|apply next_None in N; contradiction].
    destruct (next_Some _ _ _ _ N) as [i [Hi [Ei [_ Ex]]]]. simpl in E3. subst x.
    split; [exact Hcell|]. exists i. rewrite Ei, he_from_opp, he_to_opp. auto.
Qed.

Theorem find_halfface_in_cell_sound s v0 v1 v2 rest c hf :
  cell_cache_ok s c ->
  find_halfface_in_cell s (v0 :: v1 :: v2 :: rest) c = Some hf -> R_halfface_in_cell s v0 v1 v2 c hf.
Proof.
  intros Hok. unfold find_halfface_in_cell.
  destruct (first_some _ (cell_at s c)) as [r|] eqn:E; [|discriminate].
  intros ->. apply first_some_Some in E. destruct E as [hfh [Hin E]].
  apply first_some_Some in E. destruct E as [heh [Hhe E]].
  exact (fhfc_he_sound s v0 v1 v2 c hfh heh hf Hok Hin Hhe E).
Qed.

Theorem find_halfface_in_cell_complete s v0 v1 v2 rest c :
  closed_cell s c -> (forall hf, In hf (cell_at s c) -> NoDup (halfface s hf)) ->
  (exists hf, R_halfface_in_cell s v0 v1 v2 c hf) -> find_halfface_in_cell s (v0 :: v1 :: v2 :: rest) c <> None.
Proof.
  intros Hcl Hnd [hf [Hin [i [Hi [A [B C]]]]]]. unfold find_halfface_in_cell.
  destruct (first_some _ (cell_at s c)) as [r|] eqn:E.
  - (* whatever returns first returns a valid handle: adjacency is total in a closed cell *)
    apply first_some_Some in E. destruct E as [hfh [Hin' E]].
    apply first_some_Some in E. destruct E as [heh [Hhe E]]. unfold fhfc_he in E.
    destruct ((he_from s heh =? v0) && (he_to s heh =? v1) && _) in E; [inversion E; discriminate|].
    destruct ((he_from s heh =? v1) && (he_to s heh =? v0)) in E; [|discriminate].
    cbv zeta in E. destruct (_ =? v2) in E; [|discriminate]. inversion E as [Hr].
    apply (adjacent_total_closed s c hfh heh Hcl Hin' Hhe).
  - exfalso. rewrite first_some_None in E. specialize (E hf Hin). rewrite first_some_None in E.
    specialize (E (nth i (halfface s hf) 0) (nth_In _ _ Hi)). unfold fhfc_he in E.
    rewrite (next_NoDup s hf i (Hnd hf Hin) Hi) in E. simpl rd in E.
    rewrite A, B, C, !Nat.eqb_refl in E. simpl in E. discriminate.
Qed.

(* ================================================================== get_halfface_vertices *)

Lemma hfv_cur_spec s hf i :
  i < length (halfface s hf) -> hfv_cur s hf i = nth i (hf_vertices s hf) 0.
Proof.
  intros Hi. rewrite hf_vertices_nth by exact Hi. rewrite halfface_length in Hi.
  unfold hfv_cur, halfface. destruct (Nat.even hf); [reflexivity|].
  set (f := face_at s (hf / 2)) in *.
  rewrite rev_nth by (rewrite map_length; exact Hi). rewrite map_length.
  rewrite (nth_indep (map opp f) 0 (opp 0)) by (rewrite map_length; lia). rewrite map_nth, he_from_opp.
  f_equal. f_equal. lia.
Qed.

Lemma map_nth_seq (l : list nat) : forall k m, k + m <= length l ->
  map (fun j => nth j l 0) (seq k m) = firstn m (skipn k l).
Proof.
  induction l as [|x t IH]; intros k m H; simpl in H.
  - assert (m = 0) by lia. subst. destruct k; reflexivity.
  - destruct k as [|k].
    + destruct m as [|m]; [reflexivity|]. simpl. f_equal.
      rewrite <- seq_shift, map_map. rewrite (IH 0 m) by lia. reflexivity.
    + simpl skipn. rewrite <- (IH k m) by lia. rewrite <- seq_shift, map_map. reflexivity.
Qed.

Theorem get_halfface_vertices_spec s hf : get_halfface_vertices s hf = hf_vertices s hf.
Proof.
  unfold get_halfface_vertices. rewrite <- halfface_length.
  rewrite (map_ext_in _ (fun j => nth j (hf_vertices s hf) 0)).
  - rewrite map_nth_seq by (rewrite hf_vertices_length; lia). simpl skipn.
    rewrite <- hf_vertices_length. apply firstn_all.
  - intros j Hj. apply in_seq in Hj. apply hfv_cur_spec. lia.
Qed.

(* the second loop: m pushes starting at index i without passing the end of the cycle *)
Lemma ghv_take_seg s hf : forall m i, i + m <= length (halfface s hf) ->
  ghv_take s hf (length (halfface s hf)) m i = map (fun j => nth j (hf_vertices s hf) 0) (seq i m).
Proof.
  induction m as [|m IH]; intros i H; [reflexivity|]. simpl. f_equal; [apply hfv_cur_spec; lia|].
  destruct m as [|m]; [reflexivity|].
  replace (circ_next (length (halfface s hf)) i) with (S i).
  - apply IH. lia.
  - unfold circ_next. destruct (Nat.eqb_spec (S i) (length (halfface s hf))); [lia|reflexivity].
Qed.

(* ... and passing it once *)
Lemma ghv_take_wrap s hf : forall d k m, k + d = length (halfface s hf) -> 0 < d ->
  ghv_take s hf (length (halfface s hf)) (d + m) k
  = map (fun j => nth j (hf_vertices s hf) 0) (seq k d) ++ ghv_take s hf (length (halfface s hf)) m 0.
Proof.
  induction d as [|d IH]; intros k m H Hd; [lia|]. simpl. f_equal; [apply hfv_cur_spec; lia|].
  destruct d as [|d].
  - simpl. replace (circ_next (length (halfface s hf)) k) with 0; [reflexivity|].
    unfold circ_next. destruct (Nat.eqb_spec (S k) (length (halfface s hf))); [reflexivity|lia].
  - replace (circ_next (length (halfface s hf)) k) with (S k).
    + apply IH; lia.
    + unfold circ_next. destruct (Nat.eqb_spec (S k) (length (halfface s hf))); [lia|reflexivity].
Qed.

Lemma ghv_take_rot s hf k : k < length (halfface s hf) ->
  ghv_take s hf (length (halfface s hf)) (length (halfface s hf)) k
  = skipn k (hf_vertices s hf) ++ firstn k (hf_vertices s hf).
Proof.
  intros Hk. set (n := length (halfface s hf)) in *.
  replace (ghv_take s hf n n k) with (ghv_take s hf n ((n - k) + k) k) by (f_equal; lia).
  unfold n. rewrite ghv_take_wrap by (fold n; lia). rewrite ghv_take_seg by lia. fold n.
  rewrite !map_nth_seq by (rewrite hf_vertices_length; fold n; lia). simpl skipn. f_equal.
  apply firstn_all2. rewrite skipn_length, hf_vertices_length. fold n. lia.
Qed.

(* the first loop: the first position of v in the remaining part of the lap, or 0 after a fruitless lap *)
Lemma ghv_seek_spec s hf v : forall m i,
  i + m = length (halfface s hf) -> 0 < m ->
  (forall j, j < i -> nth j (hf_vertices s hf) 0 <> v) ->
  let r := ghv_seek s hf v (length (halfface s hf)) m i in
  (r < length (halfface s hf) /\ nth r (hf_vertices s hf) 0 = v /\ forall j, j < r -> nth j (hf_vertices s hf) 0 <> v)
  \/ (r = 0 /\ forall j, j < length (halfface s hf) -> nth j (hf_vertices s hf) 0 <> v).
Proof.
  induction m as [|m IH]; intros i H Hm Hbefore; [lia|]. cbv zeta. simpl.
  rewrite hfv_cur_spec by lia.
  destruct (Nat.eqb_spec (nth i (hf_vertices s hf) 0) v) as [E|E].
  - left. split; [lia|]. split; [exact E|exact Hbefore].
  - destruct m as [|m].
    + right. simpl. unfold circ_next. destruct (Nat.eqb_spec (S i) (length (halfface s hf))); [|lia].
      split; [reflexivity|]. intros j Hj. destruct (Nat.eq_dec j i) as [->|N]; [exact E|]. apply Hbefore. lia.
    + replace (circ_next (length (halfface s hf)) i) with (S i)
        by (unfold circ_next; destruct (Nat.eqb_spec (S i) (length (halfface s hf))); [lia|reflexivity]).
      apply (IH (S i)); [lia|lia|]. intros j Hj. destruct (Nat.eq_dec j i) as [->|N]; [exact E|]. apply Hbefore. lia.
Qed.

(* get_halfface_vertices(hf, v): the vertex cycle rotated to start at the FIRST occurrence of v;
   the unrotated cycle if v is not a vertex of the halfface *)
Theorem get_halfface_vertices_v_spec s hf v :
  let vs := hf_vertices s hf in
  (In v vs -> exists k, k < length vs /\ nth k vs 0 = v /\ (forall j, j < k -> nth j vs 0 <> v) /\
                        get_halfface_vertices_v s hf v = skipn k vs ++ firstn k vs) /\
  (~ In v vs -> get_halfface_vertices_v s hf v = vs).
Proof.
  cbv zeta. unfold get_halfface_vertices_v. rewrite <- halfface_length.
  set (n := length (halfface s hf)).
  destruct (Nat.eq_dec n 0) as [Z|NZ].
  - assert (hf_vertices s hf = []) by (apply length0_nil; rewrite hf_vertices_length; exact Z).
    rewrite H, Z. simpl. split; [intros []|reflexivity].
  - pose proof (ghv_seek_spec s hf v n 0 ltac:(unfold n; lia) ltac:(lia) ltac:(intros j Hj; lia)) as S.
    cbv zeta in S. fold n in S. set (r := ghv_seek s hf v n n 0) in *.
    assert (Z0 : ghv_take s hf n n 0 = hf_vertices s hf).
    { unfold n. rewrite ghv_take_rot by (fold n; lia). simpl. rewrite app_nil_r. reflexivity. }
    destruct S as [[Hr [Ev Hfirst]]|[Hr Hnone]].
    + split.
      * intros _. exists r. rewrite hf_vertices_length. fold n. repeat split; auto.
        unfold n. apply ghv_take_rot. exact Hr.
      * intros Hn. exfalso. apply Hn. rewrite <- Ev. apply nth_In. rewrite hf_vertices_length. exact Hr.
    + rewrite Hr. split; [|intros _; exact Z0].
      intros Hin. exfalso. destruct (In_nth _ _ 0 Hin) as [j [Hj Ej]]. rewrite hf_vertices_length in Hj.
      exact (Hnone j Hj Ej).
Qed.

Theorem get_halfface_vertices_he_spec s hf he :
  get_halfface_vertices_he s hf he = get_halfface_vertices_v s hf (he_from s he).
Proof. reflexivity. Qed.

(* the result is always a rotation of the vertex cycle: same length, same members *)
Corollary get_halfface_vertices_v_rotation s hf v :
  exists k, k <= length (hf_vertices s hf) /\
            get_halfface_vertices_v s hf v = skipn k (hf_vertices s hf) ++ firstn k (hf_vertices s hf).
Proof.
  destruct (get_halfface_vertices_v_spec s hf v) as [A B].
  destruct (in_dec Nat.eq_dec v (hf_vertices s hf)) as [Hin|Hn].
  - destruct (A Hin) as [k [Hk [_ [_ E]]]]. exists k. split; [lia|exact E].
  - exists 0. split; [lia|]. rewrite (B Hn). simpl. rewrite app_nil_r. reflexivity.
Qed.

(* ================================================================== is_incident *)

Theorem is_incident_spec s f e : is_incident s f e = true <-> exists h, In h (face_at s f) /\ h / 2 = e.
Proof.
  unfold is_incident. rewrite existsb_exists. split; intros [h [Hin E]]; exists h; split; auto.
  - apply Nat.eqb_eq. exact E.
  - apply Nat.eqb_eq. exact E.
Qed.

(* ================================================================== n_vertices_in_cell *)

Definition cell_vertex (s : mesh) (c v : nat) : Prop :=
  exists hf he, In hf (cell_at s c) /\ In he (halfface s hf) /\ he_to s he = v.

(* the number of distinct vertices the halfedges of the cell's halffaces point to *)
Theorem n_vertices_in_cell_spec s c l :
  NoDup l -> (forall v, In v l <-> cell_vertex s c v) -> n_vertices_in_cell s c = length l.
Proof.
  intros Hnd Hl. unfold n_vertices_in_cell. apply NoDup_same_length; [apply set_of_list_NoDup|exact Hnd|].
  intros v. rewrite set_of_list_In, Hl, in_map_iff. unfold cell_vertex. split.
  - intros [he [E Hin]]. apply in_concat in Hin. destruct Hin as [hes [Hhes Hhe]].
    apply in_map_iff in Hhes. destruct Hhes as [hf [<- Hhf]]. eauto.
  - intros [hf [he [A [B C]]]]. exists he. split; [exact C|]. apply in_concat. exists (halfface s hf).
    split; [apply in_map; exact A|exact B].
Qed.

(* with closed faces these are all the vertices the cell's edges touch *)
Lemma cell_vertex_from s c hf he :
  closed_face s hf -> In hf (cell_at s c) -> In he (halfface s hf) -> cell_vertex s c (he_from s he).
Proof.
  intros Hc Hin Hhe. destruct (In_nth _ _ 0 Hhe) as [i [Hi Ei]].
  set (l := halfface s hf) in *. set (n := length l) in *.
  (* the predecessor of position i points to he's from-vertex *)
  set (p := circ_prev n i).
  assert (Hp : p < n) by (unfold p, circ_prev; destruct (Nat.eqb_spec i 0); lia).
  assert (Hpi : circ_next n p = i).
  { unfold p, circ_prev, circ_next. destruct (Nat.eqb_spec i 0) as [->|N].
    - destruct (Nat.eqb_spec (S (n - 1)) n); lia.
    - destruct (Nat.eqb_spec (S (i - 1)) n); lia. }
  exists hf, (nth p l 0). split; [exact Hin|]. split; [apply nth_In; exact Hp|].
  pose proof (closed_cycle_next s l p Hc Hp) as C. fold n in C. rewrite C, Hpi, Ei. reflexivity.
Qed.

(* ================================================================== checking the hypotheses on a concrete state *)
(* Boolean checkers with soundness lemmas, used for the non-vacuity examples and the refutation witnesses
   (states built by [run]); B bounds the halfedge handles that occur. *)

Definition vbu_check (s : mesh) : bool :=
  vbu s && (length (out_hes s) <=? nv s)
  && forallb (fun e => (fst e <? nv s) && (snd e <? nv s)) (edges s)
  && forallb (forallb (fun h => h <? 2 * ne s)) (out_hes s)
  && forallb (fun v => forallb (fun h => Bool.eqb (memb h (out_at s v)) (live_he s h && (he_from s h =? v)))
                               (seq 0 (2 * ne s))) (seq 0 (nv s)).

Lemma nth_In_or_default {A} (l : list A) i d : In (nth i l d) l \/ nth i l d = d.
Proof. destruct (Nat.lt_ge_cases i (length l)); [left; apply nth_In; assumption | right; apply nth_overflow; assumption]. Qed.

Lemma live_he_bound s h : live_he s h = true -> h < 2 * ne s.
Proof.
  unfold live_he, live_e. intros L. apply andb_true_iff in L. destruct L as [L _]. apply Nat.ltb_lt in L. lia.
Qed.

Lemma vbu_check_sound s : vbu_check s = true -> vbu_exact s.
Proof.
  unfold vbu_check. rewrite !andb_true_iff. intros [[[[Hv Hlen] Hedges] Hout] Htab].
  apply Nat.leb_le in Hlen. rewrite forallb_forall in Hedges, Hout, Htab.
  split; [exact Hv|]. intros v h.
  assert (Hin_bound : In h (out_at s v) -> h < 2 * ne s /\ v < nv s).
  { intros Hin. unfold out_at in Hin. destruct (nth_In_or_default (out_hes s) v []) as [Hm|Hd].
    - specialize (Hout _ Hm). rewrite forallb_forall in Hout. specialize (Hout h Hin). apply Nat.ltb_lt in Hout.
      split; [exact Hout|]. destruct (Nat.lt_ge_cases v (nv s)); [assumption|].
      rewrite nth_overflow in Hin by lia. destruct Hin.
    - rewrite Hd in Hin. destruct Hin. }
  assert (Hfrom_bound : live_he s h = true -> he_from s h < nv s).
  { intros L. pose proof (live_he_bound s h L) as Hb. unfold he_from, edge_at.
    assert (Hm : In (nth (h / 2) (edges s) (0, 0)) (edges s)) by (apply nth_In; unfold ne in Hb; lia).
    specialize (Hedges _ Hm). destruct (nth (h / 2) (edges s) (0, 0)) as [a b]. simpl in Hedges.
    apply andb_true_iff in Hedges. destruct Hedges as [Ha Hb']. apply Nat.ltb_lt in Ha. apply Nat.ltb_lt in Hb'.
    destruct (Nat.even h); assumption. }
  assert (K : h < 2 * ne s -> v < nv s -> (In h (out_at s v) <-> live_he s h = true /\ he_from s h = v)).
  { intros Hh Hvv. specialize (Htab v ltac:(apply in_seq; lia)). rewrite forallb_forall in Htab.
    specialize (Htab h ltac:(apply in_seq; lia)). apply eqb_prop in Htab.
    rewrite <- memb_In, Htab, andb_true_iff, Nat.eqb_eq. reflexivity. }
  split.
  - intros Hin. destruct (Hin_bound Hin). apply K; assumption.
  - intros [L F]. apply K; [exact (live_he_bound s h L)|rewrite <- F; exact (Hfrom_bound L)|auto].
Qed.

Definition ebu_check (s : mesh) : bool :=
  ebu s && (length (inc_hfs s) <=? 2 * ne s)
  && forallb (forallb (fun h => h <? 2 * ne s)) (faces s)
  && forallb (forallb (fun hf => hf <? 2 * nf s)) (inc_hfs s)
  && forallb (fun h => forallb (fun hf => Bool.eqb (memb hf (hfs_at s h)) (live_hf s hf && memb h (halfface s hf)))
                               (seq 0 (2 * nf s))) (seq 0 (2 * ne s)).

Lemma opp_lt_even_bound h n : h < 2 * n -> opp h < 2 * n.
Proof. intros H. rewrite opp_spec. lia. Qed.

Lemma live_hf_bound s hf : live_hf s hf = true -> hf < 2 * nf s.
Proof.
  unfold live_hf, live_f. intros L. apply andb_true_iff in L. destruct L as [L _]. apply Nat.ltb_lt in L. lia.
Qed.

Lemma ebu_check_sound s : ebu_check s = true -> ebu_exact s.
Proof.
  unfold ebu_check. rewrite !andb_true_iff. intros [[[[He Hlen] Hfaces] Hinc] Htab].
  apply Nat.leb_le in Hlen. rewrite forallb_forall in Hfaces, Hinc, Htab.
  split; [exact He|]. intros h hf.
  assert (Hface_bound : forall f x, In x (face_at s f) -> x < 2 * ne s).
  { intros f x Hx. unfold face_at in Hx. destruct (nth_In_or_default (faces s) f []) as [Hm|Hd].
    - specialize (Hfaces _ Hm). rewrite forallb_forall in Hfaces. apply Nat.ltb_lt. apply Hfaces. exact Hx.
    - rewrite Hd in Hx. destruct Hx. }
  assert (Hhf_bound : In h (halfface s hf) -> h < 2 * ne s).
  { intros Hin. destruct (In_halfface_face s hf h Hin) as [H|H].
    - exact (Hface_bound _ _ H).
    - pose proof (Hface_bound _ _ H) as Hb. apply opp_lt_even_bound in Hb. rewrite opp_involutive in Hb. exact Hb. }
  assert (Hin_bound : In hf (hfs_at s h) -> hf < 2 * nf s /\ h < 2 * ne s).
  { intros Hin. unfold hfs_at in Hin. destruct (nth_In_or_default (inc_hfs s) h []) as [Hm|Hd].
    - specialize (Hinc _ Hm). rewrite forallb_forall in Hinc. specialize (Hinc hf Hin). apply Nat.ltb_lt in Hinc.
      split; [exact Hinc|]. destruct (Nat.lt_ge_cases h (2 * ne s)); [assumption|].
      rewrite nth_overflow in Hin by lia. destruct Hin.
    - rewrite Hd in Hin. destruct Hin. }
  assert (K : h < 2 * ne s -> hf < 2 * nf s -> (In hf (hfs_at s h) <-> live_hf s hf = true /\ In h (halfface s hf))).
  { intros Hh Hhf. specialize (Htab h ltac:(apply in_seq; lia)). rewrite forallb_forall in Htab.
    specialize (Htab hf ltac:(apply in_seq; lia)). apply eqb_prop in Htab.
    rewrite <- memb_In, Htab, andb_true_iff, memb_In. reflexivity. }
  split.
  - intros Hin. destruct (Hin_bound Hin). apply K; assumption.
  - intros [L I]. apply K; [exact (Hhf_bound I)|exact (live_hf_bound s hf L)|auto].
Qed.

Definition wf_faces_check (s : mesh) : bool :=
  forallb (fun f => negb (live_f s f) || forallb (live_he s) (face_at s f)) (seq 0 (nf s)).

Lemma wf_faces_check_sound s : wf_faces_check s = true -> wf_faces s.
Proof.
  unfold wf_faces_check. rewrite forallb_forall. intros H f h L Hin.
  assert (Hf : f < nf s).
  { unfold live_f in L. apply andb_true_iff in L. destruct L as [L _]. apply Nat.ltb_lt in L. exact L. }
  specialize (H f ltac:(apply in_seq; lia)). rewrite L in H. simpl in H. rewrite forallb_forall in H. apply H. exact Hin.
Qed.

Definition no_parallel_check (s : mesh) : bool :=
  forallb (fun h1 => forallb (fun h2 =>
     negb (live_he s h1 && live_he s h2 && (he_from s h1 =? he_from s h2) && (he_to s h1 =? he_to s h2)) || (h1 =? h2))
     (seq 0 (2 * ne s))) (seq 0 (2 * ne s)).

Lemma no_parallel_check_sound s : no_parallel_check s = true -> no_parallel_edges s.
Proof.
  unfold no_parallel_check. rewrite forallb_forall. intros H h1 h2 L1 L2 F T.
  specialize (H h1 ltac:(apply in_seq; pose proof (live_he_bound s h1 L1); lia)). rewrite forallb_forall in H.
  specialize (H h2 ltac:(apply in_seq; pose proof (live_he_bound s h2 L2); lia)).
  rewrite L1, L2, F, T, !Nat.eqb_refl in H. simpl in H. apply Nat.eqb_eq. exact H.
Qed.

(* ================================================================== refutation witnesses *)

(* completeness of the vertex forms on meshes WITH parallel edges: find_halfedge returns the FIRST live halfedge
   v0->v1 of the vertex's outgoing list; a face built on another of the parallel edges is not found *)
Definition parallel_witness : mesh :=
  run [AddVertices 3; AddEdge 0 1 false; AddEdge 0 1 true; AddEdge 1 2 false; AddEdge 2 0 false; AddFace [2; 4; 6] true].

Lemma find_halfface_complete_refuted :
  exists s vs hf, vbu_exact s /\ ebu_exact s /\ wf_faces s /\ closed_face s hf /\ simple_face s hf /\
    R_halfface_doc s 0 1 2 hf /\ R_halfface_ext s vs hf /\ vs = [0; 1; 2] /\
    find_halfface_vs s vs = None /\ find_halfface_extensive s vs = None.
Proof.
  exists parallel_witness, [0; 1; 2], 0.
  split; [apply vbu_check_sound; vm_compute; reflexivity|].
  split; [apply ebu_check_sound; vm_compute; reflexivity|].
  split; [apply wf_faces_check_sound; vm_compute; reflexivity|].
  split; [apply loop_ok_spec; vm_compute; reflexivity|].
  split; [vm_compute; repeat constructor; simpl; intuition discriminate|].
  split; [exists 2, 4; vm_compute; intuition|].
  split.
  { split; [vm_compute; reflexivity|]. split; [vm_compute; reflexivity|]. exists 0. split; [simpl; lia|].
    intros i Hi. simpl in Hi. destruct i as [|[|[|i]]]; try lia; vm_compute; reflexivity. }
  split; [reflexivity|]. split; vm_compute; reflexivity.
Qed.

(* "the prefix relation coincides with the full relation on meshes without parallel edges and with simple faces":
   false beyond triangles -- two quads sharing two consecutive edges *)
Definition two_quads : mesh := run [AddVertices 5; AddFaceV [0; 1; 2; 3]; AddFaceV [0; 1; 2; 4]].

Lemma prefix_relation_full_refuted :
  exists s vs hf hf', vbu_exact s /\ ebu_exact s /\ wf_faces s /\ no_parallel_edges s /\
    closed_face s hf /\ simple_face s hf /\ closed_face s hf' /\ simple_face s hf' /\
    R_halfface_ext s vs hf' /\ find_halfface_vs s vs = Some hf /\ ~ R_halfface_ext s vs hf /\
    find_halfface_extensive s vs = Some hf'.
Proof.
  exists two_quads, [0; 1; 2; 4], 0, 2.
  split; [apply vbu_check_sound; vm_compute; reflexivity|].
  split; [apply ebu_check_sound; vm_compute; reflexivity|].
  split; [apply wf_faces_check_sound; vm_compute; reflexivity|].
  split; [apply no_parallel_check_sound; vm_compute; reflexivity|].
  split; [apply loop_ok_spec; vm_compute; reflexivity|].
  split; [vm_compute; repeat constructor; simpl; intuition discriminate|].
  split; [apply loop_ok_spec; vm_compute; reflexivity|].
  split; [vm_compute; repeat constructor; simpl; intuition discriminate|].
  split.
  { split; [vm_compute; reflexivity|]. split; [vm_compute; reflexivity|]. exists 0. split; [simpl; lia|].
    intros i Hi. simpl in Hi. destruct i as [|[|[|[|i]]]]; try lia; vm_compute; reflexivity. }
  split; [vm_compute; reflexivity|]. split; [|vm_compute; reflexivity].
  intros [_ [_ [k [Hk R]]]]. simpl in Hk.
  pose proof (R 3 ltac:(simpl; lia)) as R3.
  destruct k as [|[|[|[|k]]]]; try lia; vm_compute in R3; discriminate.
Qed.
