(* Kernel2/LookupProofs.v -- C10: every lookup of Kernel2/LookupModel.v against its brute-force relation
   over the stored definitions of not-deleted entities: soundness and completeness, under explicitly stated
   cache-exactness / well-formedness hypotheses (predicates below; that they hold in every reachable state is
   proved elsewhere) and the documented preconditions. *)
From Coq Require Import ZArith Lia Bool Arith List ZifyNat ZifyBool Permutation.
From OVM Require Import Kernel.State Kernel.Ops Kernel.Mirror Kernel2.LookupModel Kernel2.ListAux Kernel2.AdjacentProofs.
Import ListNotations.
Ltac Zify.zify_post_hook ::= Z.div_mod_to_equations.
Local Open Scope nat_scope.

(* ================================================================== hypotheses *)

(* every cache holds exactly the live incident entities *)
Definition vbu_exact (s : mesh) : Prop :=
  vbu s = true /\ forall v h, In h (out_at s v) <-> (live_he s h = true /\ he_from s h = v).
Definition ebu_exact (s : mesh) : Prop :=
  ebu s = true /\ forall h hf, In hf (hfs_at s h) <-> (live_hf s hf = true /\ In h (halfface s hf)).
Definition fbu_exact (s : mesh) : Prop :=
  fbu s = true /\ forall hf c, cell_of s hf = Some c <-> (live_c s c = true /\ In hf (cell_at s c)).
(* the part of fbu_exact the in-cell lookups need, per cell *)
Definition cell_cache_ok (s : mesh) (c : nat) : Prop := forall hf, In hf (cell_at s c) -> cell_of s hf = Some c.

(* stored handles are in range and live entities reference live sub-entities
   (live_x s i = true includes i < number of x) *)
Definition wf_edges (s : mesh) : Prop :=
  forall e, live_e s e = true -> live_v s (fst (edge_at s e)) = true /\ live_v s (snd (edge_at s e)) = true.
Definition wf_faces (s : mesh) : Prop :=
  forall f h, live_f s f = true -> In h (face_at s f) -> live_he s h = true.
Definition wf_cells (s : mesh) : Prop :=
  forall c hf, live_c s c = true -> In hf (cell_at s c) -> live_hf s hf = true.
Definition wf_mesh (s : mesh) : Prop := wf_edges s /\ wf_faces s /\ wf_cells s.

(* shape conditions of the "coincides with the full relation" theorems *)
Definition no_parallel_edges (s : mesh) : Prop :=
  forall h1 h2, live_he s h1 = true -> live_he s h2 = true ->
                he_from s h1 = he_from s h2 -> he_to s h1 = he_to s h2 -> h1 = h2.
Definition hf_vertices (s : mesh) (hf : nat) : list nat := map (he_from s) (halfface s hf).
Definition closed_face (s : mesh) (hf : nat) : Prop := closed_cycle s (halfface s hf).
Definition simple_face (s : mesh) (hf : nat) : Prop := NoDup (hf_vertices s hf).

Lemma fbu_exact_cell_cache_ok s c : fbu_exact s -> live_c s c = true -> cell_cache_ok s c.
Proof. intros [_ H] L hf Hin. apply H. auto. Qed.

Lemma live_he_opp s h : live_he s (opp h) = live_he s h.
Proof. unfold live_he. rewrite opp_div2. reflexivity. Qed.
Lemma live_hf_opp s h : live_hf s (opp h) = live_hf s h.
Proof. unfold live_hf. rewrite opp_div2. reflexivity. Qed.

Lemma In_halfface_face s hf h : In h (halfface s hf) -> In h (face_at s (hf / 2)) \/ In (opp h) (face_at s (hf / 2)).
Proof.
  unfold halfface. destruct (Nat.even hf); [auto|]. rewrite <- in_rev, in_map_iff.
  intros [x [<- Hx]]. right. rewrite opp_involutive. exact Hx.
Qed.

Lemma halfface_live_he s hf h : wf_faces s -> live_hf s hf = true -> In h (halfface s hf) -> live_he s h = true.
Proof.
  intros W L Hin. destruct (In_halfface_face s hf h Hin) as [H|H].
  - exact (W _ _ L H).
  - rewrite <- live_he_opp. exact (W _ _ L H).
Qed.

Lemma halfface_length s hf : length (halfface s hf) = length (face_at s (hf / 2)).
Proof. unfold halfface. destruct (Nat.even hf); [reflexivity|]. rewrite rev_length, map_length. reflexivity. Qed.

Lemma hf_vertices_length s hf : length (hf_vertices s hf) = length (halfface s hf).
Proof. apply map_length. Qed.

Lemma hf_vertices_nth s hf i : i < length (halfface s hf) -> nth i (hf_vertices s hf) 0 = he_from s (nth i (halfface s hf) 0).
Proof.
  intros H. unfold hf_vertices. rewrite (nth_indep _ 0 (he_from s 0)) by (rewrite map_length; exact H). apply map_nth.
Qed.

Lemma simple_face_NoDup s hf : simple_face s hf -> NoDup (halfface s hf).
Proof. apply NoDup_map_inv. Qed.

(* ================================================================== find_halfedge *)

Definition R_halfedge (s : mesh) (v1 v2 h : nat) : Prop :=
  live_he s h = true /\ he_from s h = v1 /\ he_to s h = v2.

Theorem find_halfedge_sound s v1 v2 h :
  vbu_exact s -> find_halfedge s v1 v2 = Some h -> R_halfedge s v1 v2 h.
Proof.
  intros [Hv Hx] H. unfold find_halfedge, voh_list in H. rewrite Hv in H.
  apply find_some in H. destruct H as [Hin E]. apply Nat.eqb_eq in E. apply Hx in Hin. unfold R_halfedge. tauto.
Qed.

Theorem find_halfedge_complete s v1 v2 :
  vbu_exact s -> (exists h, R_halfedge s v1 v2 h) -> find_halfedge s v1 v2 <> None.
Proof.
  intros [Hv Hx] [h [H1 [H2 H3]]]. unfold find_halfedge, voh_list. rewrite Hv.
  apply (find_not_None _ _ h); [apply Hx; auto | apply Nat.eqb_eq; exact H3].
Qed.

Lemma find_halfedge_unique s v1 v2 h :
  vbu_exact s -> no_parallel_edges s -> R_halfedge s v1 v2 h -> find_halfedge s v1 v2 = Some h.
Proof.
  intros Hv Hp R. destruct (find_halfedge s v1 v2) as [h'|] eqn:E.
  - destruct (find_halfedge_sound s v1 v2 h' Hv E) as [A [B C]]. destruct R as [A' [B' C']].
    f_equal. apply Hp; congruence.
  - exfalso. apply (find_halfedge_complete s v1 v2 Hv); eauto.
Qed.

(* without vertex bottom-up incidences the circulator is invalid from the start *)
Lemma find_halfedge_no_incidences s v1 v2 : vbu s = false -> find_halfedge s v1 v2 = None.
Proof. intros H. unfold find_halfedge, voh_list. rewrite H. reflexivity. Qed.

(* ================================================================== find_halfedge_in_cell *)

Definition R_halfedge_in_cell (s : mesh) (v1 v2 c h : nat) : Prop :=
  he_from s h = v1 /\ he_to s h = v2 /\
  exists hf, In hf (cell_at s c) /\ (In h (halfface s hf) \/ In (opp h) (halfface s hf)).

Lemma fhec_hes_sound s v1 v2 hes h :
  fhec_hes s v1 v2 hes = Some h -> he_from s h = v1 /\ he_to s h = v2 /\ (In h hes \/ In (opp h) hes).
Proof.
  induction hes as [|a t IH]; simpl; [discriminate|].
  destruct ((he_from s a =? v1) && (he_to s a =? v2)) eqn:E1.
  - intros H. inversion H; subst. apply andb_true_iff in E1. destruct E1 as [A B].
    apply Nat.eqb_eq in A. apply Nat.eqb_eq in B. auto.
  - destruct ((he_from s a =? v2) && (he_to s a =? v1)) eqn:E2.
    + intros H. inversion H; subst. apply andb_true_iff in E2. destruct E2 as [A B].
      apply Nat.eqb_eq in A. apply Nat.eqb_eq in B. rewrite he_from_opp, he_to_opp, opp_involutive. auto.
    + intros H. destruct (IH H) as [A [B C]]. intuition.
Qed.

Lemma fhec_hes_complete s v1 v2 hes h :
  In h hes \/ In (opp h) hes -> he_from s h = v1 -> he_to s h = v2 -> fhec_hes s v1 v2 hes <> None.
Proof.
  intros Hin Hf Ht. induction hes as [|a t IH]; simpl; [destruct Hin as [[]|[]]|].
  destruct ((he_from s a =? v1) && (he_to s a =? v2)) eqn:E1; [congruence|].
  destruct ((he_from s a =? v2) && (he_to s a =? v1)) eqn:E2; [congruence|].
  apply IH. destruct Hin as [[->|H]|[E|H]]; auto.
  - rewrite Hf, Ht, !Nat.eqb_refl in E1. discriminate.
  - subst a. rewrite he_from_opp, he_to_opp, Hf, Ht, !Nat.eqb_refl in E2. discriminate.
Qed.

Theorem find_halfedge_in_cell_sound s v1 v2 c h :
  find_halfedge_in_cell s v1 v2 c = Some h -> R_halfedge_in_cell s v1 v2 c h.
Proof.
  intros H. apply first_some_Some in H. destruct H as [hf [Hin E]].
  destruct (fhec_hes_sound _ _ _ _ _ E) as [A [B C]]. unfold R_halfedge_in_cell. eauto.
Qed.

Theorem find_halfedge_in_cell_complete s v1 v2 c :
  (exists h, R_halfedge_in_cell s v1 v2 c h) -> find_halfedge_in_cell s v1 v2 c <> None.
Proof.
  intros [h [A [B [hf [Hin C]]]]]. apply (first_some_not_None _ _ hf Hin).
  apply (fhec_hes_complete s v1 v2 _ h); auto.
Qed.

(* the returned halfedge is live when the cell is (live entities reference live sub-entities) *)
Lemma find_halfedge_in_cell_live s v1 v2 c h :
  wf_faces s -> wf_cells s -> live_c s c = true -> find_halfedge_in_cell s v1 v2 c = Some h -> live_he s h = true.
Proof.
  intros Wf Wc L H. destruct (find_halfedge_in_cell_sound _ _ _ _ _ H) as [_ [_ [hf [Hin [C|C]]]]].
  - exact (halfface_live_he s hf h Wf (Wc _ _ L Hin) C).
  - rewrite <- live_he_opp. exact (halfface_live_he s hf _ Wf (Wc _ _ L Hin) C).
Qed.

(* ================================================================== find_halfface(halfedges) *)

(* documented relation: only the first two halfedges are checked *)
Definition R_halfface_hes (s : mesh) (he0 he1 hf : nat) : Prop :=
  live_hf s hf = true /\ In he0 (halfface s hf) /\ In he1 (halfface s hf).
(* full relation: all given halfedges belong to the halfface *)
Definition R_halfface_hes_full (s : mesh) (hes : list nat) (hf : nat) : Prop :=
  live_hf s hf = true /\ forall h, In h hes -> In h (halfface s hf).

Theorem find_halfface_hes_sound s he0 he1 rest hf :
  ebu_exact s -> find_halfface_hes s (he0 :: he1 :: rest) = Some hf -> R_halfface_hes s he0 he1 hf.
Proof.
  intros [He Hx] H. unfold find_halfface_hes, hehf_list in H. rewrite He in H.
  apply find_some in H. destruct H as [Hin M]. apply memb_In in M. apply Hx in Hin. unfold R_halfface_hes. tauto.
Qed.

Theorem find_halfface_hes_complete s he0 he1 rest :
  ebu_exact s -> (exists hf, R_halfface_hes s he0 he1 hf) -> find_halfface_hes s (he0 :: he1 :: rest) <> None.
Proof.
  intros [He Hx] [hf [L [A B]]]. unfold find_halfface_hes, hehf_list. rewrite He.
  apply (find_not_None _ _ hf); [apply Hx; auto | apply memb_In; exact B].
Qed.

Lemma R_halfface_hes_full_prefix s he0 he1 rest hf :
  R_halfface_hes_full s (he0 :: he1 :: rest) hf -> R_halfface_hes s he0 he1 hf.
Proof. intros [L H]. split; [exact L|]. split; apply H; simpl; auto. Qed.

(* the prefix relation determines the halfface as soon as two halfedges determine a halfface
   (true in a proper cell complex; NOT implied by "no parallel edges + simple faces": two quads may share two
   consecutive edges, see prefix_not_full_refuted in Props) *)
Definition two_halfedges_determine_halfface (s : mesh) : Prop :=
  forall hf1 hf2 a b, a <> b -> live_hf s hf1 = true -> live_hf s hf2 = true ->
    In a (halfface s hf1) -> In b (halfface s hf1) -> In a (halfface s hf2) -> In b (halfface s hf2) -> hf1 = hf2.

Theorem find_halfface_hes_full s he0 he1 rest hf :
  ebu_exact s -> two_halfedges_determine_halfface s -> he0 <> he1 ->
  R_halfface_hes_full s (he0 :: he1 :: rest) hf -> find_halfface_hes s (he0 :: he1 :: rest) = Some hf.
Proof.
  intros He Hd Hne R. pose proof (R_halfface_hes_full_prefix _ _ _ _ _ R) as [L [A B]].
  destruct (find_halfface_hes s (he0 :: he1 :: rest)) as [x|] eqn:E.
  - destruct (find_halfface_hes_sound _ _ _ _ _ He E) as [L' [A' B']]. f_equal. apply (Hd x hf he0 he1); auto.
  - exfalso. apply (find_halfface_hes_complete s he0 he1 rest He); [|exact E]. exists hf. split; auto.
Qed.

(* ================================================================== find_halfface(vertices) *)

(* documented relation ("only the first three vertices are checked"): a live halfface containing a live
   halfedge v0->v1 and a live halfedge v1->v2 *)
Definition R_halfface_doc (s : mesh) (v0 v1 v2 hf : nat) : Prop :=
  exists he0 he1, R_halfedge s v0 v1 he0 /\ R_halfedge s v1 v2 he1 /\
                  live_hf s hf = true /\ In he0 (halfface s hf) /\ In he1 (halfface s hf).

(* vertex-level relation: v0, v1, v2 are consecutive in the vertex cycle of the live halfface *)
Definition R_halfface_consec (s : mesh) (v0 v1 v2 hf : nat) : Prop :=
  live_hf s hf = true /\
  let vs := hf_vertices s hf in let n := length vs in
  exists i, i < n /\ nth i vs 0 = v0 /\ nth (circ_next n i) vs 0 = v1 /\ nth (circ_next n (circ_next n i)) vs 0 = v2.

Theorem find_halfface_vs_sound s v0 v1 v2 rest hf :
  vbu_exact s -> ebu_exact s -> find_halfface_vs s (v0 :: v1 :: v2 :: rest) = Some hf -> R_halfface_doc s v0 v1 v2 hf.
Proof.
  intros Hv He H. unfold find_halfface_vs in H.
  destruct (find_halfedge s v0 v1) as [he0|] eqn:E0; [|discriminate].
  destruct (find_halfedge s v1 v2) as [he1|] eqn:E1; [|discriminate].
  destruct (find_halfface_hes_sound _ _ _ _ _ He H) as [L [A B]].
  exists he0, he1. repeat split; auto; try (apply (find_halfedge_sound _ _ _ _ Hv); assumption).
  all: try (destruct (find_halfedge_sound _ _ _ _ Hv E0) as [X [Y Z]]; assumption).
  all: try (destruct (find_halfedge_sound _ _ _ _ Hv E1) as [X [Y Z]]; assumption).
Qed.

(* completeness holds on meshes without parallel edges ... *)
Theorem find_halfface_vs_complete_partial s v0 v1 v2 rest :
  vbu_exact s -> ebu_exact s -> no_parallel_edges s ->
  (exists hf, R_halfface_doc s v0 v1 v2 hf) -> find_halfface_vs s (v0 :: v1 :: v2 :: rest) <> None.
Proof.
  intros Hv He Hp [hf [he0 [he1 [R0 [R1 [L [A B]]]]]]]. unfold find_halfface_vs.
  rewrite (find_halfedge_unique _ _ _ _ Hv Hp R0), (find_halfedge_unique _ _ _ _ Hv Hp R1).
  apply (find_halfface_hes_complete s he0 he1 [] He). exists hf. split; auto.
Qed.

(* doc relation <-> vertex-level relation on closed simple faces *)
Lemma closed_cycle_next s l i : closed_cycle s l -> i < length l ->
  he_to s (nth i l 0) = he_from s (nth (circ_next (length l) i) l 0).
Proof. intros [_ H] Hi. exact (H i Hi). Qed.

Theorem R_halfface_consec_doc s v0 v1 v2 hf :
  wf_faces s -> closed_face s hf -> R_halfface_consec s v0 v1 v2 hf -> R_halfface_doc s v0 v1 v2 hf.
Proof.
  intros W Hc [L [i [Hi [A [B C]]]]]. rewrite hf_vertices_length in *.
  set (l := halfface s hf) in *. set (n := length l) in *.
  assert (Hj : circ_next n i < n) by (apply circ_next_lt; exact Hi).
  assert (Hk : circ_next n (circ_next n i) < n) by (apply circ_next_lt; exact Hj).
  rewrite hf_vertices_nth in A, B, C by assumption. fold l in A, B, C.
  exists (nth i l 0), (nth (circ_next n i) l 0).
  assert (I0 : In (nth i l 0) l) by (apply nth_In; exact Hi).
  assert (I1 : In (nth (circ_next n i) l 0) l) by (apply nth_In; exact Hj).
  repeat split; auto.
  - exact (halfface_live_he s hf _ W L I0).
  - pose proof (closed_cycle_next s l i Hc Hi) as Ci. fold n in Ci. rewrite Ci. exact B.
  - exact (halfface_live_he s hf _ W L I1).
  - pose proof (closed_cycle_next s l _ Hc Hj) as Cj. fold n in Cj. rewrite Cj. exact C.
Qed.

Theorem R_halfface_doc_consec s v0 v1 v2 hf :
  closed_face s hf -> simple_face s hf -> R_halfface_doc s v0 v1 v2 hf -> R_halfface_consec s v0 v1 v2 hf.
Proof.
  intros Hc Hs [he0 [he1 [[_ [F0 T0]] [[_ [F1 T1]] [L [A B]]]]]]. split; [exact L|]. cbv zeta.
  rewrite hf_vertices_length. set (l := halfface s hf) in *. set (n := length l) in *.
  destruct (In_nth l he0 0 A) as [i [Hi Ei]]. destruct (In_nth l he1 0 B) as [j [Hj Ej]]. fold n in Hi, Hj.
  assert (Hi' : circ_next n i < n) by (apply circ_next_lt; exact Hi).
  assert (Hj' : circ_next n j < n) by (apply circ_next_lt; exact Hj).
  pose proof (closed_cycle_next s l i Hc Hi) as Ci. pose proof (closed_cycle_next s l j Hc Hj) as Cj.
  fold n in Ci, Cj.
  (* the halfedge leaving v1 is the successor of the one entering it, because v1 occurs once *)
  assert (J : j = circ_next n i).
  { apply (proj1 (NoDup_nth (hf_vertices s hf) 0) Hs); try (rewrite hf_vertices_length; assumption).
    rewrite !hf_vertices_nth by assumption. fold l. rewrite Ej, F1, <- Ci, Ei. symmetry. exact T0. }
  exists i. split; [exact Hi|]. rewrite !hf_vertices_nth by (try assumption; subst j; assumption). fold l.
  split; [rewrite Ei; exact F0|]. split.
  - rewrite <- Ci, Ei. exact T0.
  - rewrite <- J. rewrite <- Cj, Ej. exact T1.
Qed.

(* ================================================================== find_halfface_extensive *)

(* full relation: vs is exactly the vertex cycle of the live halfface, starting anywhere *)
Definition R_halfface_ext (s : mesh) (vs : list nat) (hf : nat) : Prop :=
  live_hf s hf = true /\ length (halfface s hf) = length vs /\
  exists k, k < length vs /\
            forall i, i < length vs -> nth ((i + k) mod length vs) (hf_vertices s hf) 0 = nth i vs 0.

Lemma ext_match_true s vs he0 hf :
  ext_match s vs he0 hf = true <->
  length (halfface s hf) = length vs /\
  forall i, i < length vs ->
    he_from s (nth ((i + ext_offset he0 (halfface s hf)) mod length vs) (halfface s hf) 0) = nth i vs 0.
Proof.
  unfold ext_match. set (hes := halfface s hf).
  destruct (Nat.eqb_spec (length hes) (length vs)) as [E|E]; simpl.
  - rewrite forallb_forall. rewrite E. split.
    + intros H. split; [reflexivity|]. intros i Hi. apply Nat.eqb_eq. apply H. apply in_seq. lia.
    + intros [_ H] i Hi. apply in_seq in Hi. apply Nat.eqb_eq. apply H. lia.
  - split; [discriminate|]. intros [H _]. congruence.
Qed.

Theorem find_halfface_extensive_sound s v0 v1 v2 rest hf :
  vbu_exact s -> ebu_exact s ->
  find_halfface_extensive s (v0 :: v1 :: v2 :: rest) = Some hf -> R_halfface_ext s (v0 :: v1 :: v2 :: rest) hf.
Proof.
  intros Hv [He Hx] H. set (vs := v0 :: v1 :: v2 :: rest) in *.
  unfold find_halfface_extensive in H. fold vs in H. unfold vs at 1 in H.
  destruct (find_halfedge s v0 v1) as [he0|] eqn:E0; [|discriminate].
  apply find_some in H. destruct H as [Hin M]. unfold hehf_list in Hin. rewrite He in Hin.
  apply Hx in Hin. destruct Hin as [L _]. apply ext_match_true in M. destruct M as [Hl M].
  assert (Hn : length vs <> 0) by (unfold vs; simpl; lia).
  split; [exact L|]. split; [exact Hl|].
  exists (ext_offset he0 (halfface s hf) mod length vs). split; [apply Nat.mod_upper_bound; exact Hn|].
  intros i Hi. rewrite Nat.add_mod_idemp_r by exact Hn.
  rewrite hf_vertices_nth by (rewrite Hl; apply Nat.mod_upper_bound; exact Hn). apply M. exact Hi.
Qed.

Lemma ext_offset_from_absent he0 : forall hes i off, ~ In he0 hes -> ext_offset_from he0 hes i off = off.
Proof.
  induction hes as [|h t IH]; intros i off Hn; simpl; [reflexivity|].
  destruct (Nat.eqb_spec h he0) as [->|N]; [exfalso; apply Hn; left; reflexivity|].
  apply IH. intros H. apply Hn. right. exact H.
Qed.

Lemma ext_offset_from_NoDup he0 : forall hes i off k,
  NoDup hes -> k < length hes -> nth k hes 0 = he0 -> ext_offset_from he0 hes i off = i + k.
Proof.
  induction hes as [|h t IH]; intros i off k Hnd Hk E; simpl in *; [lia|].
  inversion Hnd as [|x l Hnotin Hnd']; subst x l.
  destruct k as [|k].
  - subst h. rewrite Nat.eqb_refl. rewrite ext_offset_from_absent by exact Hnotin. lia.
  - destruct (Nat.eqb_spec h he0) as [->|N].
    + exfalso. apply Hnotin. rewrite <- E. apply nth_In. lia.
    + rewrite (IH (S i) off k Hnd' ltac:(lia) E). lia.
Qed.

(* completeness holds on meshes without parallel edges for closed faces without a repeated halfedge *)
Theorem find_halfface_extensive_complete_partial s v0 v1 v2 rest :
  vbu_exact s -> ebu_exact s -> wf_faces s -> no_parallel_edges s ->
  (exists hf, R_halfface_ext s (v0 :: v1 :: v2 :: rest) hf /\ closed_face s hf /\ NoDup (halfface s hf)) ->
  find_halfface_extensive s (v0 :: v1 :: v2 :: rest) <> None.
Proof.
  intros Hv He W Hp [hf [[L [Hl [k [Hk R]]]] [Hc Hnd]]]. set (vs := v0 :: v1 :: v2 :: rest) in *.
  set (hes := halfface s hf) in *. set (n := length vs) in *.
  assert (Hn3 : 3 <= n) by (unfold n, vs; simpl; lia).
  assert (Hkl : k < length hes) by lia.
  set (h := nth k hes 0).
  assert (Hin : In h hes) by (apply nth_In; exact Hkl).
  assert (R0 : R_halfedge s v0 v1 h).
  { split; [exact (halfface_live_he s hf h W L Hin)|]. split.
    - pose proof (R 0 ltac:(lia)) as R00. rewrite Nat.add_0_l, Nat.mod_small in R00 by exact Hk.
      rewrite hf_vertices_nth in R00 by exact Hkl. exact R00.
    - pose proof (closed_cycle_next s hes k Hc Hkl) as Ck. fold h in Ck. rewrite Ck.
      rewrite circ_next_mod by exact Hkl. rewrite Hl. fold n.
      pose proof (R 1 ltac:(lia)) as R1. change (nth 1 vs 0) with v1 in R1.
      replace (1 + k) with (k + 1) in R1 by lia.
      rewrite hf_vertices_nth in R1 by (fold hes; rewrite Hl; apply Nat.mod_upper_bound; lia). exact R1. }
  unfold find_halfface_extensive. fold vs. unfold vs at 1.
  rewrite (find_halfedge_unique s v0 v1 h Hv Hp R0).
  destruct He as [He Hx]. unfold hehf_list. rewrite He.
  apply (find_not_None _ _ hf); [apply Hx; auto|].
  apply ext_match_true. split; [exact Hl|]. intros i Hi. fold hes. fold n.
  unfold ext_offset. rewrite (ext_offset_from_NoDup h hes 0 0 k Hnd Hkl eq_refl). simpl.
  rewrite <- hf_vertices_nth by (fold hes; rewrite Hl; apply Nat.mod_upper_bound; lia). apply R. exact Hi.
Qed.

(* for triangles the documented prefix relation IS the full relation *)
Theorem R_halfface_consec_ext_triangle s v0 v1 v2 hf :
  length (halfface s hf) = 3 -> R_halfface_consec s v0 v1 v2 hf -> R_halfface_ext s [v0; v1; v2] hf.
Proof.
  intros H3 [L [i [Hi [A [B C]]]]]. rewrite hf_vertices_length, H3 in *.
  split; [exact L|]. split; [exact H3|]. exists i. split; [exact Hi|]. simpl length.
  intros j Hj. rewrite circ_next_mod in B, C by (try apply Nat.mod_upper_bound; lia).
  destruct j as [|[|[|j]]]; try lia; simpl nth.
  - rewrite Nat.mod_small by lia. exact A.
  - replace (1 + i) with (i + 1) by lia. exact B.
  - rewrite <- C. f_equal. rewrite Nat.add_mod_idemp_l by lia. f_equal. lia.
Qed.

(* ================================================================== next / prev_halfedge_in_halfface *)

Definition circ_prev (n i : nat) : nat := if i =? 0 then n - 1 else i - 1.

Lemma next_Some s he hf x :
  next_halfedge_in_halfface s he hf = Some x ->
  let l := halfface s hf in
  exists i, i < length l /\ nth i l 0 = he /\ (forall j, j < i -> nth j l 0 <> he) /\ x = nth (circ_next (length l) i) l 0.
Proof.
  unfold next_halfedge_in_halfface. cbv zeta. set (l := halfface s hf).
  destruct (find_index (Nat.eqb he) l) as [i|] eqn:E; [|discriminate].
  destruct (find_index_Some _ 0 _ _ E) as [Hi [Hp Hf]]. apply Nat.eqb_eq in Hp.
  intros H. exists i. split; [exact Hi|]. split; [auto|]. split.
  - intros j Hj. specialize (Hf j Hj). apply Nat.eqb_neq in Hf. congruence.
  - unfold circ_next. destruct (S i =? length l); inversion H; reflexivity.
Qed.

Lemma next_None s he hf : next_halfedge_in_halfface s he hf = None <-> ~ In he (halfface s hf).
Proof.
  unfold next_halfedge_in_halfface. destruct (find_index (Nat.eqb he) (halfface s hf)) as [i|] eqn:E.
  - destruct (find_index_Some _ 0 _ _ E) as [Hi [Hp _]]. apply Nat.eqb_eq in Hp.
    split; [destruct (S i =? _); discriminate|]. intros H. exfalso. apply H. rewrite Hp. apply nth_In. exact Hi.
  - rewrite find_index_None in E. split; [|reflexivity]. intros _ H. specialize (E he H). rewrite Nat.eqb_refl in E. discriminate.
Qed.

Lemma next_NoDup s hf i :
  NoDup (halfface s hf) -> i < length (halfface s hf) ->
  next_halfedge_in_halfface s (nth i (halfface s hf) 0) hf
  = Some (nth (circ_next (length (halfface s hf)) i) (halfface s hf) 0).
Proof.
  intros Hnd Hi. unfold next_halfedge_in_halfface. rewrite (find_index_nth_NoDup _ i Hnd Hi).
  unfold circ_next. destruct (S i =? length (halfface s hf)); reflexivity.
Qed.

Lemma prev_Some s he hf x :
  prev_halfedge_in_halfface s he hf = Some x ->
  let l := halfface s hf in
  exists i, i < length l /\ nth i l 0 = he /\ (forall j, j < i -> nth j l 0 <> he) /\ x = nth (circ_prev (length l) i) l 0.
Proof.
  unfold prev_halfedge_in_halfface. cbv zeta. set (l := halfface s hf).
  destruct (find_index (Nat.eqb he) l) as [i|] eqn:E; [|discriminate].
  destruct (find_index_Some _ 0 _ _ E) as [Hi [Hp Hf]]. apply Nat.eqb_eq in Hp.
  intros H. exists i. split; [exact Hi|]. split; [auto|]. split.
  - intros j Hj. specialize (Hf j Hj). apply Nat.eqb_neq in Hf. congruence.
  - unfold circ_prev. destruct (i =? 0); inversion H; reflexivity.
Qed.

Lemma prev_None s he hf : prev_halfedge_in_halfface s he hf = None <-> ~ In he (halfface s hf).
Proof.
  unfold prev_halfedge_in_halfface. destruct (find_index (Nat.eqb he) (halfface s hf)) as [i|] eqn:E.
  - destruct (find_index_Some _ 0 _ _ E) as [Hi [Hp _]]. apply Nat.eqb_eq in Hp.
    split; [destruct (i =? 0); discriminate|]. intros H. exfalso. apply H. rewrite Hp. apply nth_In. exact Hi.
  - rewrite find_index_None in E. split; [|reflexivity]. intros _ H. specialize (E he H). rewrite Nat.eqb_refl in E. discriminate.
Qed.

(* ================================================================== find_halfface_in_cell *)

(* a halfface of the cell in which a halfedge v0->v1 is followed by a halfedge ending in v2 *)
Definition R_halfface_in_cell (s : mesh) (v0 v1 v2 c hf : nat) : Prop :=
  In hf (cell_at s c) /\
  let l := halfface s hf in
  exists i, i < length l /\ he_from s (nth i l 0) = v0 /\ he_to s (nth i l 0) = v1 /\
            he_to s (nth (circ_next (length l) i) l 0) = v2.

Lemma fhfc_he_sound s v0 v1 v2 c hfh heh hf :
  cell_cache_ok s c -> In hfh (cell_at s c) -> In heh (halfface s hfh) ->
  fhfc_he s v0 v1 v2 hfh heh = Some (Some hf) -> R_halfface_in_cell s v0 v1 v2 c hf.
Proof.
  intros Hok Hin Hhe. unfold fhfc_he.
  destruct ((he_from s heh =? v0) && (he_to s heh =? v1)
            && (he_to s (rd (next_halfedge_in_halfface s heh hfh)) =? v2)) eqn:E1.
  - intros H. inversion H; subst hf. apply andb_true_iff in E1. destruct E1 as [E1 C].
    apply andb_true_iff in E1. destruct E1 as [A B].
    apply Nat.eqb_eq in A. apply Nat.eqb_eq in B. apply Nat.eqb_eq in C.
    destruct (next_halfedge_in_halfface s heh hfh) as [x|] eqn:N; [|apply next_None in N; contradiction].
    destruct (next_Some _ _ _ _ N) as [i [Hi [Ei [_ Ex]]]]. simpl in C. subst x.
    split; [exact Hin|]. exists i. rewrite Ei. auto.
  - destruct ((he_from s heh =? v1) && (he_to s heh =? v0)) eqn:E2; [|discriminate].
    cbv zeta. destruct (he_to s (rd (next_halfedge_in_halfface s (opp heh) (rd (adjacent_halfface_in_cell s hfh heh)))) =? v2) eqn:E3; [|discriminate].
    intros H. inversion H as [Hadj]. rewrite Hadj in E3. simpl rd in E3.
    destruct (adjacent_result_spec s hfh heh hf Hadj) as [c' [he1 [Hc' [Hr [Hcell [_ [_ Hopp]]]]]]].
    rewrite (Hok hfh Hin) in Hc'. inversion Hc'; subst c'.
    rewrite (resolve_he_member s hfh heh Hhe) in Hr. inversion Hr; subst he1.
    apply andb_true_iff in E2. destruct E2 as [A B]. apply Nat.eqb_eq in A. apply Nat.eqb_eq in B. apply Nat.eqb_eq in E3.
    destruct (next_halfedge_in_halfface s (opp heh) hf) as [x|] eqn:N; [|apply next_None in N; contradiction].
    destruct (next_Some _ _ _ _ N) as [i [Hi [Ei [_ Ex]]]]. simpl in E3. subst x.
    split; [exact Hcell|]. exists i. rewrite Ei, he_from_opp, he_to_opp. auto.
Qed.

Theorem find_halfface_in_cell_sound s v0 v1 v2 rest c hf :
  cell_cache_ok s c ->
  find_halfface_in_cell s (v0 :: v1 :: v2 :: rest) c = Some hf -> R_halfface_in_cell s v0 v1 v2 c hf.
Proof.
  intros Hok. unfold find_halfface_in_cell.
  destruct (first_some _ (cell_at s c)) as [r|] eqn:E; [|discriminate].
  intros ->. apply first_some_Some in E. destruct E as [hfh [Hin E]].
  apply first_some_Some in E. destruct E as [heh [Hhe E]].
  exact (fhfc_he_sound s v0 v1 v2 c hfh heh hf Hok Hin Hhe E).
Qed.

Theorem find_halfface_in_cell_complete s v0 v1 v2 rest c :
  closed_cell s c -> (forall hf, In hf (cell_at s c) -> NoDup (halfface s hf)) ->
  (exists hf, R_halfface_in_cell s v0 v1 v2 c hf) -> find_halfface_in_cell s (v0 :: v1 :: v2 :: rest) c <> None.
Proof.
  intros Hcl Hnd [hf [Hin [i [Hi [A [B C]]]]]]. unfold find_halfface_in_cell.
  destruct (first_some _ (cell_at s c)) as [r|] eqn:E.
  - (* whatever returns first returns a valid handle: adjacency is total in a closed cell *)
    apply first_some_Some in E. destruct E as [hfh [Hin' E]].
    apply first_some_Some in E. destruct E as [heh [Hhe E]]. unfold fhfc_he in E.
    destruct ((he_from s heh =? v0) && (he_to s heh =? v1) && _) in E; [inversion E; discriminate|].
    destruct ((he_from s heh =? v1) && (he_to s heh =? v0)) in E; [|discriminate].
    cbv zeta in E. destruct (_ =? v2) in E; [|discriminate]. inversion E as [Hr].
    apply (adjacent_total_closed s c hfh heh Hcl Hin' Hhe).
  - exfalso. rewrite first_some_None in E. specialize (E hf Hin). rewrite first_some_None in E.
    specialize (E (nth i (halfface s hf) 0) (nth_In _ _ Hi)). unfold fhfc_he in E.
    rewrite (next_NoDup s hf i (Hnd hf Hin) Hi) in E. simpl rd in E.
    rewrite A, B, C, !Nat.eqb_refl in E. simpl in E. discriminate.
Qed.
