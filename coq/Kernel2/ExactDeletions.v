(* Kernel2/ExactDeletions.v -- C01: the four public deletions in deferred mode keep bu_inv2 on live handles.
   The closure lists come from the caches (Kernel/Closure.v: they are the brute-force closures, live, in range, without
   repetition); del_desc runs the cores in descending order; the cores are covered by ExactDelCell.v / ExactDelFace.v
   (cells, faces) and Kernel/ExactDelete.v (edges, vertices). *)
From Coq Require Import ZArith Lia Bool Arith List ZifyNat ZifyBool Permutation.
From OVM Require Import Kernel.State Kernel.Ops Kernel.Mirror Kernel.Recompute Kernel.Closure Kernel.DeferredDelete
                        Kernel.ExactInv Kernel.ExactDelete
                        Kernel2.LookupModel Kernel2.ListAux Kernel2.AdjacentProofs Kernel2.RotationProofs Kernel2.ReorderExact
                        Kernel2.ExactBase Kernel2.ExactAddCell Kernel2.ExactDelCell Kernel2.ExactDelFace.
Import ListNotations.
Ltac Zify.zify_post_hook ::= Z.div_mod_to_equations.
Local Open Scope nat_scope.

(* ================================================================== descending loops *)

Lemma del_desc_inv (core : nat -> mesh -> mesh) (Inv : mesh -> Prop) (ok : mesh -> nat -> Prop) l :
  (forall t x, Inv t -> ok t x -> Inv (core x t)) ->
  (forall t x y, Inv t -> ok t x -> ok t y -> x <> y -> ok (core x t) y) ->
  NoDup l -> forall s, Inv s -> (forall x, In x l -> ok s x) -> Inv (del_desc core l s).
Proof.
  intros H1 H2 N. unfold del_desc. assert (N' : NoDup (rev l)) by (apply NoDup_rev; exact N).
  assert (G : forall r, NoDup r -> forall s, Inv s -> (forall x, In x r -> ok s x) -> Inv (fold_left (fun s x => core x s) r s)).
  { induction r as [|x r IH]; intros Nr s I O; [exact I|]. cbn [fold_left]. inversion Nr as [|? ? Hx Nr']; subst.
    apply IH; [exact Nr'|apply H1; [exact I|apply O; left; reflexivity]|].
    intros y Hy. apply H2; auto; [apply O; left; reflexivity|apply O; right; exact Hy|]. intros ->. contradiction. }
  intros s I O. apply G; [exact N'|exact I|]. intros x Hx. apply O. apply in_rev. exact Hx.
Qed.

Definition ok_cell (t : mesh) (c : nat) : Prop := c < nc t /\ c_deleted t c = false.
Definition ok_face (t : mesh) (f : nat) : Prop :=
  f < nf t /\ f_deleted t f = false /\ cell_of t (2 * f) = None /\ cell_of t (2 * f + 1) = None.
Definition ok_edge (t : mesh) (e : nat) : Prop := e < ne t /\ e_deleted t e = false.

Lemma bu_inv2_flags s : bu_inv2 s -> ebu s = true /\ fbu s = true /\ deferred s = true.
Proof. intros (_ & E & F & D & _). auto. Qed.

Lemma bu_inv2_del_desc_cells l s : NoDup l -> bu_inv2 s -> (forall c, In c l -> ok_cell s c) ->
  bu_inv2 (del_desc delete_cell_core l s).
Proof.
  intros N I O. apply (del_desc_inv delete_cell_core bu_inv2 ok_cell); auto.
  - intros t x It [A B]. apply bu_inv2_delete_cell_core; assumption.
  - intros t x y It [A B] [C D'] Nxy. destruct (bu_inv2_flags t It) as (E & F & D).
    destruct (delete_cell_core_view x t D F E) as (_&_&_&w4&_&_&w7&_). unfold ok_cell, nc, c_deleted. rewrite w4, w7.
    rewrite Base.ListLemmas.nth_upd_neq by exact Nxy. split; assumption.
Qed.

Lemma bu_inv2_del_desc_faces l s : NoDup l -> bu_inv2 s -> (forall f, In f l -> ok_face s f) ->
  bu_inv2 (del_desc delete_face_core l s).
Proof.
  intros N I O. apply (del_desc_inv delete_face_core bu_inv2 ok_face); auto.
  - intros t x It (A & B & C & D'). apply bu_inv2_delete_face_core; assumption.
  - intros t x y It _ (A & B & C & D') Nxy. destruct (bu_inv2_flags t It) as (E & F & D).
    destruct (delete_face_core_view x t D E) as (_&_&w3&_&_&_&w7&_&w9&_).
    unfold ok_face, nf, f_deleted, cell_of. rewrite w3, w7, w9.
    rewrite Base.ListLemmas.nth_upd_neq by exact Nxy. repeat split; assumption.
Qed.

(* ================================================================== edge and vertex cores *)

Theorem bu_inv2_delete_edge_core h s : bu_inv2 s -> h < ne s -> e_deleted s h = false -> bu_inv2 (delete_edge_core h s).
Proof.
  intros (B & E & F & D & N & CL & CC & FS) Hh Hl.
  pose proof (bu_inv_delete_edge_core_deferred h s D B Hh Hl) as B'.
  unfold delete_edge_core in *. rewrite D in *. cbn [negb] in *. rewrite andb_false_r in *.
  destruct (vbu s); destruct (edge_at s h) as [v0 v1]; cbn [deferred set_out_hes] in *; rewrite D in *;
    (split; [exact B'|]); repeat (split; [assumption|]); assumption.
Qed.

Theorem bu_inv2_delete_vertex_core h s : bu_inv2 s -> bu_inv2 (delete_vertex_core h s).
Proof.
  intros (B & E & F & D & N & CL & CC & FS).
  pose proof (bu_inv_delete_vertex_core_deferred h s D B) as B'.
  unfold delete_vertex_core in *. rewrite D in *. cbn [negb] in *. rewrite andb_false_r in *. rewrite D in *.
  split; [exact B'|]. repeat (split; [assumption|]). assumption.
Qed.

Lemma delete_edge_core_view h s : deferred s = true ->
  let s' := delete_edge_core h s in
  edges s' = edges s /\ edel s' = upd h true (edel s) /\ deferred s' = true.
Proof.
  intros D. cbv zeta. unfold delete_edge_core. rewrite D. cbn [negb]. rewrite andb_false_r.
  destruct (vbu s); destruct (edge_at s h) as [v0 v1]; cbn [deferred set_out_hes]; rewrite D; repeat split; try reflexivity; exact D.
Qed.

Lemma bu_inv2_del_desc_edges l s : NoDup l -> bu_inv2 s -> (forall e, In e l -> ok_edge s e) ->
  bu_inv2 (del_desc delete_edge_core l s).
Proof.
  intros N I O. apply (del_desc_inv delete_edge_core bu_inv2 ok_edge); auto.
  - intros t x It [A B]. apply bu_inv2_delete_edge_core; assumption.
  - intros t x y It _ [C D'] Nxy. destruct (bu_inv2_flags t It) as (E & F & D).
    destruct (delete_edge_core_view x t D) as (w1 & w2 & _). unfold ok_edge, ne, e_deleted. rewrite w1, w2.
    rewrite Base.ListLemmas.nth_upd_neq by exact Nxy. split; assumption.
Qed.

(* ================================================================== the phases of a public deletion *)

(* after the incident cells of the faces fs are gone, no cache entry points from their halffaces to a cell *)
Lemma cells_phase s fs : bu_inv2 s -> (forall f, In f fs -> f < nf s) ->
  let cs := incident_cells_of_faces s fs in
  let t := del_desc delete_cell_core cs s in
  bu_inv2 t /\ dstep s t [] [] [] (rev cs) /\ (forall f, In f fs -> f_deleted s f = false -> ok_face t f).
Proof.
  intros I Hfs cs t. pose proof I as ((_ & _ & FO & _ & (_ & _ & _ & _ & _ & L6)) & E & F & D & _).
  assert (Ecs : cs = cells_at_faces s fs) by (apply incident_cells_cache_is_scan; assumption).
  assert (It : bu_inv2 t).
  { apply bu_inv2_del_desc_cells; [rewrite Ecs; apply NoDup_cells_at_faces|exact I|].
    intros c Hc. rewrite Ecs in Hc. exact (cells_at_faces_live s fs c Hc). }
  pose proof (del_desc_cells cs s D) as DS. fold t in DS. split; [exact It|]. split; [exact DS|].
  intros f Hf Hlive. destruct DS as (_&_&d3&d4&_&_&d7&d8&_).
  pose proof It as ((_ & _ & FOt & _) & _ & Ft & _).
  assert (NFt : nf t = nf s) by (unfold nf; rewrite d3; reflexivity).
  assert (Free : forall hf, hf / 2 = f -> cell_of t hf = None).
  { intros hf Ehf. destruct (cell_of t hf) as [c|] eqn:Cx; [|reflexivity]. exfalso.
    assert (Hlt : hf < 2 * nf t) by (rewrite NFt; specialize (Hfs f Hf); lia).
    destruct (proj1 (FOt Ft hf Hlt c) Cx) as (A & B & Cc).
    unfold nc in A. rewrite d4 in A. fold (nc s) in A. unfold cell_at in Cc. rewrite d4 in Cc. fold (cell_at s c) in Cc.
    unfold c_deleted in B. rewrite d8, nth_flag_all in B by (rewrite L6; exact A). apply orb_false_iff in B. destruct B as [B1 B2].
    rewrite memb_rev in B2.
    assert (In c cs).
    { rewrite Ecs. unfold cells_at_faces. apply filter_In. split; [apply In_live_cells; split; [exact A|exact B1]|].
      apply existsb_exists. exists hf. split; [exact Cc|]. apply Base.ListLemmas.memb_In. rewrite Ehf. exact Hf. }
    apply Base.ListLemmas.memb_In in H. congruence. }
  unfold ok_face. rewrite NFt. split; [exact (Hfs f Hf)|]. split.
  - unfold f_deleted. rewrite d7. exact Hlive.
  - split; apply Free; lia.
Qed.

Theorem bu_inv2_delete_face f s : bu_inv2 s -> f < nf s -> f_deleted s f = false -> bu_inv2 (delete_face f s).
Proof.
  intros I Hf Hl. unfold delete_face.
  destruct (cells_phase s [f] I ltac:(intros x [<-|[]]; exact Hf)) as (It & _ & O).
  destruct (O f (or_introl eq_refl) Hl) as (A & B & C & D). apply bu_inv2_delete_face_core; assumption.
Qed.

(* cells then faces then edges *)
Lemma upper_phases s es : bu_inv2 s -> (forall e, In e es -> e < ne s) ->
  let fs := incident_faces_of_edges s es in
  let cs := incident_cells_of_faces s fs in
  let t2 := del_desc delete_face_core fs (del_desc delete_cell_core cs s) in
  bu_inv2 t2 /\ edges t2 = edges s /\ edel t2 = edel s.
Proof.
  intros I Hes fs cs t2. pose proof I as ((_ & EO & _) & E & F & D & _).
  assert (Efs : fs = faces_at_edges s es) by (apply incident_faces_cache_is_scan; assumption).
  assert (Hfs : forall f, In f fs -> f < nf s /\ f_deleted s f = false) by (intros f Hf; rewrite Efs in Hf; exact (faces_at_edges_live s es f Hf)).
  destruct (cells_phase s fs I (fun f Hf => proj1 (Hfs f Hf))) as (It & DS & O). fold cs in It, DS, O.
  set (t1 := del_desc delete_cell_core cs s) in *.
  assert (It2 : bu_inv2 t2).
  { apply bu_inv2_del_desc_faces; [rewrite Efs; apply NoDup_faces_at_edges|exact It|].
    intros f Hf. apply O; [exact Hf|exact (proj2 (Hfs f Hf))]. }
  split; [exact It2|].
  pose proof (del_desc_faces fs t1 (dstep_deferred _ _ _ _ _ _ DS D)) as DS2. fold t2 in DS2.
  destruct DS as (_&a2&_&_&_&a6&_). destruct DS2 as (_&b2&_&_&_&b6&_). unfold flag_all in *. simpl in a6, b6.
  split; congruence.
Qed.

Theorem bu_inv2_delete_edge e s : bu_inv2 s -> e < ne s -> e_deleted s e = false -> bu_inv2 (delete_edge e s).
Proof.
  intros I He Hl. unfold delete_edge.
  destruct (upper_phases s [e] I ltac:(intros x [<-|[]]; exact He)) as (It & E1 & E2).
  apply bu_inv2_delete_edge_core; [exact It| |].
  - unfold ne. rewrite E1. exact He.
  - unfold e_deleted. rewrite E2. exact Hl.
Qed.

Theorem bu_inv2_delete_vertex v s : bu_inv2 s -> v < nv s -> bu_inv2 (delete_vertex v s).
Proof.
  intros I Hv. unfold delete_vertex. pose proof I as ((VO & _) & _).
  set (es := incident_edges_of_vertex s v).
  assert (Ees : es = edges_at_vertex s v) by (apply incident_edges_cache_is_scan; assumption).
  assert (Hes : forall e, In e es -> e < ne s /\ e_deleted s e = false) by (intros e He; rewrite Ees in He; exact (edges_at_vertex_live s v e He)).
  destruct (upper_phases s es I (fun e He => proj1 (Hes e He))) as (It & E1 & E2).
  apply bu_inv2_delete_vertex_core. apply bu_inv2_del_desc_edges; [rewrite Ees; apply NoDup_edges_at_vertex|exact It|].
  intros e He. destruct (Hes e He) as [A B]. unfold ok_edge, ne, e_deleted. rewrite E1, E2. split; assumption.
Qed.
