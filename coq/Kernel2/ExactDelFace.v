(* Kernel2/ExactDelFace.v -- C01: delete_face_core / delete_face in deferred mode keep bu_inv2.
   delete_face_core walks over the halfedges of the dying face: it removes the face's two halffaces from the lists of
   the halfedge and its opposite and re-runs reorder on that edge, and flags the face at the end.  In the
   intermediate states the lists are exact "except for the dying face at the halfedges already processed"
   (P_ex); reorder keeps that specification (Kernel2/ExactBase.v reorder_keeps_slots_spec: the dying face is in no
   cell the walk reads), and flagging the face turns it into exactness. *)
From Coq Require Import ZArith Lia Bool Arith List ZifyNat ZifyBool Permutation.
From OVM Require Import Kernel.State Kernel.Ops Kernel.Mirror Kernel.Recompute Kernel.Closure Kernel.ExactInv Kernel.ExactDelete
                        Kernel2.LookupModel Kernel2.ListAux Kernel2.AdjacentProofs Kernel2.RotationProofs Kernel2.ReorderExact
                        Kernel2.ExactBase Kernel2.ExactAddCell Kernel2.ExactDelCell.
Import ListNotations.
Ltac Zify.zify_post_hook ::= Z.div_mod_to_equations.
Local Open Scope nat_scope.

Definition fstep (h : nat) (s' : mesh) (he : nat) : mesh :=
  let s'' := set_inc_hfs (remove_at (opp he) (2 * h + 1) (remove_at he (2 * h) (inc_hfs s'))) s' in
  if fbu s'' then reorder_incident_halffaces (he / 2) s'' else s''.
Definition flagf (h : nat) (t : mesh) : mesh :=
  set_fdel (upd h true (fdel t)) (set_counts (ndv t) (nde t) (S (ndf t)) (ndc t) t).

Lemma fstep_frame h t he : exists x, fstep h t he = set_inc_hfs x t /\ length x = length (inc_hfs t).
Proof.
  unfold fstep. cbv zeta. set (y := remove_at (opp he) (2 * h + 1) (remove_at he (2 * h) (inc_hfs t))).
  assert (Ly : length y = length (inc_hfs t)) by (unfold y; rewrite !remove_at_length; reflexivity).
  destruct (fbu (set_inc_hfs y t)).
  - destruct (reorder_is_set_inc_hfs (he / 2) (set_inc_hfs y t)) as [x [-> Lx]]. exists x. split; [reflexivity|].
    rewrite Lx. exact Ly.
  - exists y. split; [reflexivity|exact Ly].
Qed.

Lemma fold_fstep_frame h hes : forall t, exists x, fold_left (fstep h) hes t = set_inc_hfs x t /\ length x = length (inc_hfs t).
Proof.
  induction hes as [|he r IH]; intros t.
  - exists (inc_hfs t). split; [symmetry; apply set_inc_hfs_self|reflexivity].
  - cbn [fold_left]. destruct (fstep_frame h t he) as [x [-> Lx]]. destruct (IH (set_inc_hfs x t)) as [y [-> Ly]].
    exists y. split; [reflexivity|]. rewrite Ly. exact Lx.
Qed.

Lemma delete_face_core_eq h s : deferred s = true -> ebu s = true ->
  delete_face_core h s = flagf h (fold_left (fstep h) (face_at s h) s).
Proof.
  intros D E. unfold delete_face_core. rewrite D. cbn [negb]. rewrite andb_false_r. rewrite E.
  fold (fstep h). destruct (fold_fstep_frame h (face_at s h) s) as [x [-> _]].
  change (deferred (set_inc_hfs x s)) with (deferred s). rewrite D. reflexivity.
Qed.

(* ================================================================== the intermediate list specification *)

(* exact, except that the dying face h is already gone from the halfedges in D and their opposites *)
Definition P_ex (s : mesh) (h : nat) (D : list nat) (k x : nat) : Prop :=
  P_live s k x /\ ~ (x / 2 = h /\ (In k D \/ In (opp k) D)).

Lemma P_ex_sym s h D : spec_sym (P_ex s h D).
Proof.
  intros k x [A B]. split; [apply P_live_sym; exact A|]. rewrite opp_div2, opp_involutive. tauto.
Qed.

Lemma P_ex_sound s h D x0 : spec_sound (set_inc_hfs x0 s) (P_ex s h D).
Proof. intros k x [A _]. exact (P_live_sound s k x A). Qed.

Lemma halfface_even s h : halfface s (2 * h) = face_at s h.
Proof.
  unfold halfface. replace (2 * h / 2) with h by lia.
  replace (Nat.even (2 * h)) with true by (symmetry; rewrite even_mod2; apply Nat.eqb_eq; lia). reflexivity.
Qed.
Lemma In_halfface_odd s h k : In k (halfface s (2 * h + 1)) <-> In (opp k) (face_at s h).
Proof.
  rewrite In_halfface. replace ((2 * h + 1) / 2) with h by lia.
  replace (Nat.even (2 * h + 1)) with false by (symmetry; rewrite even_mod2; apply Nat.eqb_neq; lia). reflexivity.
Qed.

Section Face.
Context (s : mesh) (h : nat).
Context (HI : core_inv s) (Hh : h < nf s) (Hlive : f_deleted s h = false).
Context (Hfree0 : cell_of s (2 * h) = None) (Hfree1 : cell_of s (2 * h + 1) = None).

Let hes := face_at s h.

Lemma hes_range he : In he hes -> he < 2 * ne s /\ opp he < 2 * ne s.
Proof.
  destruct HI as (_ & _ & _ & _ & _ & (_ & R2 & _) & _). intros H. pose proof (R2 h Hh Hlive he H). rewrite opp_spec. lia.
Qed.

Lemma hes_simple : simple_hes hes.
Proof. destruct HI as (_ & _ & _ & _ & _ & _ & _ & _ & _ & FS). exact (FS h Hh Hlive). Qed.

(* the halffaces of the cells the walk reads do not belong to the dying face *)
Lemma read_cells_avoid_face z c g : z / 2 < nf s -> cell_of s z = Some c -> c_deleted s c = false -> In g (cell_at s c) ->
  g / 2 <> h /\ g / 2 < nf s /\ f_deleted s (g / 2) = false.
Proof.
  destruct HI as (_ & F & _ & _ & FO & _ & _ & CL & _). intros Hz Hc Hd Hg.
  destruct (proj1 (FO F z (div2_lt_bound _ _ Hz) c) Hc) as [Hcn _].
  destruct (CL c g Hcn Hd Hg) as [A B]. split; [|auto]. intros E.
  assert (Cg : cell_of s g = Some c) by (apply (FO F g (div2_lt_bound _ _ A) c); auto).
  assert (g = 2 * h \/ g = 2 * h + 1) as [->| ->] by lia; congruence.
Qed.

Lemma P_ex_feed D x0 : spec_feed (set_inc_hfs x0 s) (P_ex s h D).
Proof.
  intros k z c g Hz Hc Hd Hg. destruct (read_cells_avoid_face z c g Hz Hc Hd Hg) as (N & A & B). split; intros H.
  - split; [repeat split; assumption|]. tauto.
  - split.
    + unfold P_live. rewrite opp_div2. repeat split; auto. apply In_halfface_opp. rewrite !opp_involutive. exact H.
    + rewrite opp_div2. tauto.
Qed.

(* one iteration: remove the two halffaces at he / opp he, then reorder that edge *)
Lemma fstep_spec D he x : In he hes -> length x = length (inc_hfs s) ->
  slots_spec (set_inc_hfs x s) (P_ex s h D) ->
  exists x', fstep h (set_inc_hfs x s) he = set_inc_hfs x' s /\ length x' = length (inc_hfs s) /\
             slots_spec (set_inc_hfs x' s) (P_ex s h (D ++ [he])).
Proof.
  intros Hhe Lx SP. pose proof HI as (E & F & _ & _ & _ & _ & (_ & L2 & _) & _).
  destruct (hes_range he Hhe) as [R0 R1]. destruct hes_simple as [_ Hsim].
  set (y := remove_at (opp he) (2 * h + 1) (remove_at he (2 * h) x)).
  assert (Ly : length y = length (inc_hfs s)) by (unfold y; rewrite !remove_at_length; exact Lx).
  assert (SY : slots_spec (set_inc_hfs y s) (P_ex s h (D ++ [he]))).
  { intros k Hk. change (ne (set_inc_hfs y s)) with (ne s) in Hk. destruct (SP k Hk) as [N M].
    change (hfs_at (set_inc_hfs x s) k) with (nth k x []) in N, M.
    change (hfs_at (set_inc_hfs y s) k) with (nth k y []). unfold y.
    rewrite nth_remove_at, remove_at_length, nth_remove_at, Lx, (L2 E).
    replace (opp he <? 2 * ne s) with true by (symmetry; apply Nat.ltb_lt; exact R1).
    replace (he <? 2 * ne s) with true by (symmetry; apply Nat.ltb_lt; exact R0). rewrite !andb_true_r.
    assert (Key : forall v, In v (nth k x []) ->
              ((~ (k = he /\ v = 2 * h) /\ ~ (k = opp he /\ v = 2 * h + 1)) <->
               ~ (v / 2 = h /\ (In k (D ++ [he]) \/ In (opp k) (D ++ [he]))))).
    { intros v Hv. apply M in Hv. destruct Hv as [(A & B & Cc) Nx]. rewrite !in_app_iff. cbn [In]. split.
      - intros [N1 N2] [Ev [[Hd|[Hd|[]]]|[Hd|[Hd|[]]]]]; try tauto.
        + (* k = he: v must be 2h+1, but then opp he would be a halfedge of the face *)
          subst k. assert (v = 2 * h + 1) by (assert (v = 2 * h \/ v = 2 * h + 1) as [->| ->] by lia; [exfalso; apply N1; auto|reflexivity]).
          subst v. apply In_halfface_odd in Cc. exact (Hsim he Hhe Cc).
        + (* opp k = he *)
          assert (k = opp he) by (rewrite Hd; symmetry; apply opp_involutive). subst k.
          assert (v = 2 * h) by (assert (v = 2 * h \/ v = 2 * h + 1) as [->| ->] by lia; [reflexivity|exfalso; apply N2; auto]).
          subst v. rewrite halfface_even in Cc. exact (Hsim he Hhe Cc).
      - intros Nn. split; intros [Ek Ev]; apply Nn; subst.
        + split; [lia|]. left. right. left. reflexivity.
        + split; [lia|]. right. right. left. symmetry. apply opp_involutive. }
    split.
    - destruct (opp he =? k); destruct (he =? k); unfold remove_val; repeat apply NoDup_filter; exact N.
    - intros v. unfold P_ex at 1. split.
      + intros Hin.
        assert (Hold : In v (nth k x []) /\ ~ (k = he /\ v = 2 * h) /\ ~ (k = opp he /\ v = 2 * h + 1)).
        { destruct (Nat.eqb_spec (opp he) k) as [E1|E1]; destruct (Nat.eqb_spec he k) as [E0|E0];
            rewrite ?Base.ListLemmas.remove_val_In in Hin; intuition (subst; try tauto; try lia). }
        destruct Hold as (Ho & N1 & N2). split; [apply (proj1 (M v) Ho)|]. apply (Key v Ho). tauto.
      + intros [A Nn]. assert (Ho : In v (nth k x [])).
        { apply M. split; [exact A|]. intros [Ev Hd]. apply Nn. split; [exact Ev|]. rewrite !in_app_iff. tauto. }
        apply (Key v Ho) in Nn. destruct Nn as [N1 N2].
        destruct (Nat.eqb_spec (opp he) k) as [E1|E1]; destruct (Nat.eqb_spec he k) as [E0|E0];
          rewrite ?Base.ListLemmas.remove_val_In; repeat split; auto; intros Ev; subst; tauto. }
  unfold fstep. cbv zeta. change (inc_hfs (set_inc_hfs x s)) with x. fold y.
  change (set_inc_hfs y (set_inc_hfs x s)) with (set_inc_hfs y s). change (fbu (set_inc_hfs y s)) with (fbu s). rewrite F.
  destruct (reorder_is_set_inc_hfs (he / 2) (set_inc_hfs y s)) as [x' [Ex Lx']]. exists x'.
  split; [rewrite Ex; reflexivity|]. split; [rewrite Lx'; exact Ly|].
  change (set_inc_hfs x' s) with (set_inc_hfs x' (set_inc_hfs y s)). rewrite <- Ex.
  apply reorder_keeps_slots_spec; [exact SY|apply P_ex_sound|apply P_ex_sym|exact (core_cell_read_closed s HI)|apply P_ex_feed].
Qed.

Lemma fold_fstep_spec : forall rest D x, (forall he, In he rest -> In he hes) -> length x = length (inc_hfs s) ->
  slots_spec (set_inc_hfs x s) (P_ex s h D) ->
  exists x', fold_left (fstep h) rest (set_inc_hfs x s) = set_inc_hfs x' s /\ length x' = length (inc_hfs s) /\
             slots_spec (set_inc_hfs x' s) (P_ex s h (D ++ rest)).
Proof.
  induction rest as [|he r IH]; intros D x Hin Lx SP.
  - exists x. rewrite app_nil_r. auto.
  - cbn [fold_left]. destruct (fstep_spec D he x (Hin he (or_introl eq_refl)) Lx SP) as [x1 [E1 [L1 S1]]]. rewrite E1.
    destruct (IH (D ++ [he]) x1 (fun he' H' => Hin he' (or_intror H')) L1 S1) as [x2 [E2 [L2 S2]]].
    exists x2. rewrite <- app_assoc in S2. auto.
Qed.

Theorem delete_face_core_exact : slots_spec s (P_live s) -> bu_inv2 (delete_face_core h s).
Proof.
  intros SP. pose proof HI as (E & F & D & VO & FO & (R1 & R2 & R3) & (L1 & L2 & L3 & L4 & L5 & L6) & CL & CC & FS).
  rewrite (delete_face_core_eq h s D E). fold hes.
  assert (S0 : slots_spec (set_inc_hfs (inc_hfs s) s) (P_ex s h [])).
  { rewrite set_inc_hfs_self. intros k Hk. destruct (SP k Hk) as [N M]. split; [exact N|]. intros x. rewrite M. unfold P_ex. simpl. tauto. }
  replace (fold_left (fstep h) hes s) with (fold_left (fstep h) hes (set_inc_hfs (inc_hfs s) s)) by (rewrite set_inc_hfs_self; reflexivity).
  destruct (fold_fstep_spec hes [] (inc_hfs s) (fun he H => H) eq_refl S0) as [x [-> [Lx Sx]]]. cbn [app] in Sx.
  set (u := flagf h (set_inc_hfs x s)).
  assert (FD : forall f, f_deleted u f = if f =? h then true else f_deleted s f).
  { intros f. unfold u, flagf, f_deleted. cbn [fdel set_fdel set_counts set_inc_hfs]. rewrite Base.ListLemmas.nth_upd, L5.
    destruct (Nat.eqb_spec h f) as [->|N]; cbn [andb].
    - replace (f <? nf s) with true by (symmetry; apply Nat.ltb_lt; exact Hh). rewrite Nat.eqb_refl. reflexivity.
    - destruct (Nat.eqb_spec f h); [congruence|reflexivity]. }
  apply bu_inv2_iff. split.
  - unfold core_inv. split; [exact E|]. split; [exact F|]. split; [exact D|]. split; [exact VO|]. split; [exact FO|].
    split; [|split; [|split; [|split]]].
    + split; [exact R1|]. split; [|exact R3]. intros f Hf Hd he Hhe. rewrite FD in Hd. destruct (f =? h); [discriminate|].
      exact (R2 f Hf Hd he Hhe).
    + unfold lens_ok. split; [exact L1|]. split; [|split; [exact L3|split; [exact L4|split; [|exact L6]]]].
      * intros _. unfold u, flagf. cbn [inc_hfs set_fdel set_counts set_inc_hfs]. rewrite Lx. exact (L2 E).
      * unfold u, flagf. cbn [fdel set_fdel set_counts set_inc_hfs]. rewrite upd_length. exact L5.
    + intros c hf Hc Hd Hhf. change (nf u) with (nf s). rewrite FD.
      assert (Cx : cell_of s hf = Some c).
      { destruct (CL c hf Hc Hd Hhf) as [A _]. apply (FO F hf (div2_lt_bound _ _ A) c). auto. }
      destruct (read_cells_avoid_face hf c hf (proj1 (CL c hf Hc Hd Hhf)) Cx Hd Hhf) as (N & A & B).
      destruct (Nat.eqb_spec (hf / 2) h); [contradiction|]. auto.
    + exact CC.
    + intros f Hf Hd. rewrite FD in Hd. destruct (f =? h); [discriminate|]. exact (FS f Hf Hd).
  - intros k Hk. change (ne u) with (ne s) in Hk. destruct (Sx k Hk) as [N M]. split; [exact N|].
    intros v. change (hfs_at u k) with (hfs_at (set_inc_hfs x s) k). rewrite M. unfold P_ex, P_live.
    change (nf u) with (nf s). change (halfface u v) with (halfface s v). rewrite FD. split.
    + intros [(A & B & Cc) Nn]. destruct (Nat.eqb_spec (v / 2) h) as [Ev|Nv]; [|auto].
      exfalso. apply Nn. split; [exact Ev|].
      assert (v = 2 * h \/ v = 2 * h + 1) as [->| ->] by lia.
      * left. rewrite halfface_even in Cc. exact Cc.
      * right. apply In_halfface_odd in Cc. exact Cc.
    + intros (A & B & Cc). destruct (Nat.eqb_spec (v / 2) h) as [Ev|Nv]; [discriminate|]. split; [auto|]. tauto.
Qed.

End Face.

Theorem bu_inv2_delete_face_core h s : bu_inv2 s -> h < nf s -> f_deleted s h = false ->
  cell_of s (2 * h) = None -> cell_of s (2 * h + 1) = None -> bu_inv2 (delete_face_core h s).
Proof.
  intros H Hh Hl F0 F1. apply bu_inv2_iff in H. destruct H as [C SP].
  exact (delete_face_core_exact s h C Hh Hl F0 F1 SP).
Qed.

Lemma delete_face_core_view h s : deferred s = true -> ebu s = true ->
  let s' := delete_face_core h s in
  nv s' = nv s /\ edges s' = edges s /\ faces s' = faces s /\ cells s' = cells s /\ edel s' = edel s /\ cdel s' = cdel s /\
  fdel s' = upd h true (fdel s) /\ out_hes s' = out_hes s /\ inc_cell s' = inc_cell s /\ vbu s' = vbu s.
Proof.
  intros D E. cbv zeta. rewrite (delete_face_core_eq h s D E).
  destruct (fold_fstep_frame h (face_at s h) s) as [x [-> _]]. repeat split; reflexivity.
Qed.
