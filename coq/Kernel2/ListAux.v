(* Kernel2/ListAux.v -- list lemmas used by the lookup and rotation proofs (first_some, memb,
   find_index, upd/nth, set_of_list, cyclic successor index, "linked" lists). *)
From Coq Require Import ZArith Lia Bool Arith List ZifyNat ZifyBool Permutation.
From OVM Require Import Base.ListX Kernel2.LookupModel.
Import ListNotations.
Ltac Zify.zify_post_hook ::= Z.div_mod_to_equations.
Local Open Scope nat_scope.

(* ------------------------------------------------------------------ memb *)

Lemma memb_In x l : memb x l = true <-> In x l.
Proof.
  unfold memb. rewrite existsb_exists. split.
  - intros [y [Hy E]]. apply Nat.eqb_eq in E. subst. exact Hy.
  - intros H. exists x. split; [exact H | apply Nat.eqb_refl].
Qed.

Lemma memb_false x l : memb x l = false <-> ~ In x l.
Proof. rewrite <- memb_In. destruct (memb x l); split; congruence. Qed.

(* ------------------------------------------------------------------ first_some *)

Lemma first_some_Some {A B} (f : A -> option B) l r :
  first_some f l = Some r -> exists x, In x l /\ f x = Some r.
Proof.
  induction l as [|x t IH]; simpl; [discriminate|].
  destruct (f x) eqn:E.
  - intros H. inversion H; subst. exists x. auto.
  - intros H. destruct (IH H) as [y [Hy Ey]]. exists y. auto.
Qed.

Lemma first_some_None {A B} (f : A -> option B) l :
  first_some f l = None <-> forall x, In x l -> f x = None.
Proof.
  induction l as [|x t IH]; simpl.
  - split; [intros _ y [] | reflexivity].
  - destruct (f x) eqn:E.
    + split; [discriminate|]. intros H. rewrite (H x) in E by auto. discriminate.
    + rewrite IH. split.
      * intros H y [<-|Hy]; auto.
      * intros H y Hy. apply H. auto.
Qed.

Lemma first_some_not_None {A B} (f : A -> option B) l x :
  In x l -> f x <> None -> first_some f l <> None.
Proof. intros Hx Hf E. rewrite first_some_None in E. exact (Hf (E x Hx)). Qed.

(* ------------------------------------------------------------------ find *)

Lemma find_not_None {A} (p : A -> bool) l x : In x l -> p x = true -> find p l <> None.
Proof. intros Hx Hp E. pose proof (find_none p l E x Hx). congruence. Qed.

(* ------------------------------------------------------------------ find_index *)

Lemma find_index_from_Some {A} (p : A -> bool) (d : A) l : forall k i,
  find_index_from p l k = Some i ->
  k <= i /\ i - k < length l /\ p (nth (i - k) l d) = true /\ forall j, j < i - k -> p (nth j l d) = false.
Proof.
  induction l as [|x t IH]; intros k i; simpl; [discriminate|].
  destruct (p x) eqn:E.
  - intros H. inversion H; subst. replace (i - i) with 0 by lia. repeat split; try lia; auto.
  - intros H. destruct (IH _ _ H) as [H1 [H2 [H3 H4]]].
    replace (i - k) with (S (i - S k)) by lia. repeat split; try lia; auto.
    intros j Hj. destruct j; [exact E|]. apply H4. lia.
Qed.

Lemma find_index_from_None {A} (p : A -> bool) l : forall k,
  find_index_from p l k = None <-> forall x, In x l -> p x = false.
Proof.
  induction l as [|x t IH]; intros k; simpl.
  - split; [intros _ y []|reflexivity].
  - destruct (p x) eqn:E.
    + split; [discriminate|]. intros H. rewrite (H x) in E by auto. discriminate.
    + rewrite IH. split.
      * intros H y [<-|Hy]; auto.
      * intros H y Hy. apply H; auto.
Qed.

Lemma find_index_Some {A} (p : A -> bool) (d : A) l i :
  find_index p l = Some i ->
  i < length l /\ p (nth i l d) = true /\ forall j, j < i -> p (nth j l d) = false.
Proof.
  unfold find_index. intros H. destruct (find_index_from_Some p d l 0 i H) as [_ [H2 [H3 H4]]].
  rewrite Nat.sub_0_r in *. auto.
Qed.

Lemma find_index_None {A} (p : A -> bool) l :
  find_index p l = None <-> forall x, In x l -> p x = false.
Proof. apply find_index_from_None. Qed.

Lemma find_index_In l x : In x l -> exists i, find_index (Nat.eqb x) l = Some i.
Proof.
  intros H. destruct (find_index (Nat.eqb x) l) eqn:E; [eauto|].
  rewrite find_index_None in E. specialize (E x H). rewrite Nat.eqb_refl in E. discriminate.
Qed.

(* first occurrence in a duplicate-free list is the occurrence *)
Lemma NoDup_nth_inj (l : list nat) i j : NoDup l -> i < length l -> j < length l -> nth i l 0 = nth j l 0 -> i = j.
Proof. intros H Hi Hj E. exact (proj1 (NoDup_nth l 0) H i j Hi Hj E). Qed.

Lemma find_index_nth_NoDup l i : NoDup l -> i < length l -> find_index (Nat.eqb (nth i l 0)) l = Some i.
Proof.
  intros Hnd Hi. destruct (find_index_In l (nth i l 0) (nth_In _ _ Hi)) as [j E].
  destruct (find_index_Some _ 0 _ _ E) as [Hj [Hp _]]. apply Nat.eqb_eq in Hp.
  rewrite E. f_equal. symmetry. apply (NoDup_nth_inj l); auto.
Qed.

(* ------------------------------------------------------------------ upd / nth *)

Lemma upd_length {A} i (x : A) l : length (upd i x l) = length l.
Proof. revert i. induction l as [|y t IH]; intros [|i]; simpl; auto. Qed.

Lemma nth_upd_same {A} i (x d : A) l : i < length l -> nth i (upd i x l) d = x.
Proof. revert i. induction l as [|y t IH]; intros [|i] H; simpl in *; try lia; auto. apply IH. lia. Qed.

Lemma nth_upd_other {A} i j (x d : A) l : i <> j -> nth i (upd j x l) d = nth i l d.
Proof.
  revert i j. induction l as [|y t IH]; intros [|i] [|j] H; simpl; auto; try lia.
Qed.

Lemma nth_nonnil_lt {A} (ll : list (list A)) i : nth i ll [] <> [] -> i < length ll.
Proof.
  intros H. destruct (Nat.lt_ge_cases i (length ll)); [assumption|].
  rewrite nth_overflow in H by assumption. congruence.
Qed.

(* ------------------------------------------------------------------ cyclic successor *)

Lemma circ_next_mod n i : i < n -> circ_next n i = (i + 1) mod n.
Proof.
  intros H. unfold circ_next. destruct (Nat.eqb_spec (S i) n) as [E|E].
  - subst. replace (i + 1) with (1 * S i) by lia. rewrite Nat.mod_mul; lia.
  - rewrite Nat.mod_small; lia.
Qed.

Lemma circ_next_lt n i : i < n -> circ_next n i < n.
Proof. intros H. unfold circ_next. destruct (Nat.eqb_spec (S i) n); lia. Qed.

(* ------------------------------------------------------------------ lists of length one *)

Lemma length1_In {A} (l : list A) x : length l = 1 -> In x l -> l = [x].
Proof. destruct l as [|y [|z t]]; simpl; try discriminate. intros _ [->|[]]. reflexivity. Qed.

Lemma NoDup_same_length (l1 l2 : list nat) :
  NoDup l1 -> NoDup l2 -> (forall x, In x l1 <-> In x l2) -> length l1 = length l2.
Proof.
  intros H1 H2 H. apply Nat.le_antisymm; apply NoDup_incl_length; auto; intros x Hx; apply H; exact Hx.
Qed.

(* ------------------------------------------------------------------ last / hd *)

Lemma last_cons_cons {A} (x y : A) t d : last (x :: y :: t) d = last (y :: t) d.
Proof. reflexivity. Qed.

Lemma last_app_cons {A} (a : list A) x b d : last (a ++ x :: b) d = last (x :: b) d.
Proof.
  induction a as [|y a IH]; [reflexivity|].
  change ((y :: a) ++ x :: b) with (y :: (a ++ x :: b)).
  destruct (a ++ x :: b) eqn:E; [destruct a; discriminate|]. exact IH.
Qed.

Lemma last_indep {A} (l : list A) d d' : l <> [] -> last l d = last l d'.
Proof.
  induction l as [|x t IH]; [congruence|]. intros _. destruct t as [|y t]; [reflexivity|].
  rewrite !last_cons_cons. apply IH. congruence.
Qed.

Lemma last_snoc {A} (l : list A) x d : last (l ++ [x]) d = x.
Proof. rewrite last_app_cons. reflexivity. Qed.

(* ------------------------------------------------------------------ linked lists: consecutive elements related *)

Inductive linked (R : nat -> nat -> Prop) : list nat -> Prop :=
| linked_nil : linked R []
| linked_one x : linked R [x]
| linked_cons x y t : R x y -> linked R (y :: t) -> linked R (x :: y :: t).

Lemma linked_inv R x y t : linked R (x :: y :: t) -> R x y /\ linked R (y :: t).
Proof. intros H. inversion H; subst. auto. Qed.

Lemma linked_tail R x t : linked R (x :: t) -> linked R t.
Proof. intros H. inversion H; subst; [constructor | assumption]. Qed.

Lemma linked_app_r R a b : linked R (a ++ b) -> linked R b.
Proof. induction a as [|x a IH]; simpl; [auto|]. intros H. apply IH. exact (linked_tail _ _ _ H). Qed.

Lemma linked_app_l R a b : linked R (a ++ b) -> linked R a.
Proof.
  induction a as [|x a IH]; simpl; [constructor|]. intros H.
  destruct a as [|y a]; [constructor|]. simpl in *. apply linked_inv in H. destruct H as [H1 H2].
  constructor; auto.
Qed.

(* the junction of a concatenation is a link *)
Lemma linked_app_mid R a x y b : linked R (a ++ x :: y :: b) -> R x y.
Proof. intros H. apply linked_app_r in H. apply linked_inv in H. tauto. Qed.

Lemma linked_join R a b d :
  linked R a -> linked R b -> (a <> [] -> b <> [] -> R (last a d) (hd d b)) -> linked R (a ++ b).
Proof.
  induction a as [|x a IH]; intros Ha Hb J; simpl; [exact Hb|].
  destruct a as [|y a].
  - simpl. destruct b as [|z b]; [constructor|]. constructor; [|exact Hb]. apply (J ltac:(congruence) ltac:(congruence)).
  - apply linked_inv in Ha. destruct Ha as [H1 H2]. simpl. constructor; [exact H1|].
    apply IH; auto. intros _ Hb'. rewrite last_cons_cons in J. apply J; congruence.
Qed.

Lemma linked_rev R l : linked R l -> linked (fun x y => R y x) (rev l).
Proof.
  induction 1; simpl; try constructor.
  simpl in IHlinked. apply (linked_join _ _ _ 0); [exact IHlinked | constructor|].
  intros _ _. rewrite last_snoc. simpl. assumption.
Qed.

(* index form: every element but the last is related to its successor *)
Lemma linked_nth R l i : linked R l -> S i < length l -> R (nth i l 0) (nth (S i) l 0).
Proof.
  intros H. revert i. induction H; intros i Hi; simpl in Hi; try lia.
  destruct i as [|i]; [exact H|]. apply (IHlinked i). simpl. lia.
Qed.

Lemma last_nth (l : list nat) d : l <> [] -> last l d = nth (length l - 1) l d.
Proof.
  induction l as [|x t IH]; [congruence|]. intros _. destruct t as [|y t]; [reflexivity|].
  rewrite last_cons_cons, IH by congruence. simpl. rewrite Nat.sub_0_r. reflexivity.
Qed.

(* ------------------------------------------------------------------ set_of_list *)

Lemma set_insert_In x y l : In y (set_insert x l) <-> y = x \/ In y l.
Proof.
  induction l as [|z t IH]; simpl; [intuition|].
  destruct (x <? z); [simpl; intuition|].
  destruct (Nat.eqb_spec x z) as [->|N]; simpl; [intuition|]. rewrite IH. intuition.
Qed.

Inductive asc : list nat -> Prop :=
| asc_nil : asc []
| asc_one x : asc [x]
| asc_cons x y t : x < y -> asc (y :: t) -> asc (x :: y :: t).

Lemma asc_insert x l : asc l -> asc (set_insert x l).
Proof.
  induction 1 as [|y|y z t Hyz H IH]; simpl.
  - constructor.
  - destruct (Nat.ltb_spec x y); [constructor; [lia|constructor]|].
    destruct (Nat.eqb_spec x y); [constructor|]. constructor; [lia|constructor].
  - destruct (Nat.ltb_spec x y); [constructor; [lia|constructor; auto]|].
    destruct (Nat.eqb_spec x y); [constructor; auto|].
    simpl in IH. destruct (Nat.ltb_spec x z).
    + constructor; [lia|]. constructor; auto.
    + destruct (Nat.eqb_spec x z); [constructor; auto|]. constructor; auto.
Qed.

Lemma asc_lt_all x l : asc (x :: l) -> forall y, In y l -> x < y.
Proof.
  revert x. induction l as [|z t IH]; intros x H y Hy; [destruct Hy|].
  inversion H as [| |x' z' t' Hlt Hasc]; subst.
  destruct Hy as [<-|Hy]; [exact Hlt|].
  specialize (IH z Hasc y Hy). lia.
Qed.

Lemma asc_NoDup l : asc l -> NoDup l.
Proof.
  induction 1 as [|x|x y t Hxy H IH]; constructor; auto; try constructor.
  intros [->|Hin]; [lia|]. pose proof (asc_lt_all _ _ H _ Hin). lia.
Qed.

Lemma set_of_list_spec l : (forall y, In y (set_of_list l) <-> In y l) /\ asc (set_of_list l).
Proof.
  unfold set_of_list.
  assert (G : forall l acc, asc acc ->
             (forall y, In y (fold_left (fun a x => set_insert x a) l acc) <-> In y l \/ In y acc)
             /\ asc (fold_left (fun a x => set_insert x a) l acc)).
  { clear l. induction l as [|x t IH]; intros acc Ha; simpl; [split; [intuition|exact Ha]|].
    destruct (IH (set_insert x acc) (asc_insert x acc Ha)) as [I1 I2]. split; [|exact I2].
    intros y. rewrite I1, set_insert_In. intuition. }
  destruct (G l [] asc_nil) as [G1 G2]. split; [|exact G2]. intros y. rewrite G1. simpl. intuition.
Qed.

Lemma set_of_list_In l y : In y (set_of_list l) <-> In y l.
Proof. apply set_of_list_spec. Qed.
Lemma set_of_list_NoDup l : NoDup (set_of_list l).
Proof. apply asc_NoDup, set_of_list_spec. Qed.
