(* Kernel2/ExactBase.v -- C01 along histories with cells: the strengthened invariant bu_inv2, its split into a part
   that does not read the halfedge->halfface lists (core_inv) and a specification of those lists (slots_spec), and
   the generic fact that reorder_incident_halffaces / reorder_edges keep ANY symmetric, sound list specification
   that the read cells feed (from Kernel2/ReorderExact.v, local form). *)
From Coq Require Import ZArith Lia Bool Arith List ZifyNat ZifyBool Permutation.
From OVM Require Import Kernel.State Kernel.Ops Kernel.Mirror Kernel.Recompute Kernel.Closure Kernel.ExactInv
                        Kernel2.LookupModel Kernel2.ListAux Kernel2.AdjacentProofs Kernel2.RotationProofs Kernel2.ReorderExact.
Import ListNotations.
Ltac Zify.zify_post_hook ::= Z.div_mod_to_equations.
Local Open Scope nat_scope.

(* ================================================================== the invariant *)

(* a live face lists no halfedge twice and no halfedge together with its opposite *)
Definition simple_hes (hes : list nat) : Prop := NoDup hes /\ forall h, In h hes -> ~ In (opp h) hes.
Definition faces_simple (s : mesh) : Prop := forall f, f < nf s -> f_deleted s f = false -> simple_hes (face_at s f).

Definition bu_inv2 (s : mesh) : Prop :=
  bu_inv s /\ ebu s = true /\ fbu s = true /\ deferred s = true /\
  slots_nodup s /\ cells_ref_live s /\ live_cells_closed s /\ faces_simple s.

(* everything that does not read the contents of inc_hfs *)
Definition core_inv (s : mesh) : Prop :=
  ebu s = true /\ fbu s = true /\ deferred s = true /\
  vbu_ok s /\ fbu_ok s /\ refs_ok s /\ lens_ok s /\ cells_ref_live s /\ live_cells_closed s /\ faces_simple s.

(* the lists: duplicate-free, membership given by P *)
Definition slots_spec (s : mesh) (P : nat -> nat -> Prop) : Prop :=
  forall k, k < 2 * ne s -> NoDup (hfs_at s k) /\ forall x, In x (hfs_at s k) <-> P k x.

(* the membership specification of an exact cache *)
Definition P_live (s : mesh) (k x : nat) : Prop := x / 2 < nf s /\ f_deleted s (x / 2) = false /\ In k (halfface s x).

Lemma bu_inv2_iff s : bu_inv2 s <-> core_inv s /\ slots_spec s (P_live s).
Proof.
  unfold bu_inv2, core_inv, bu_inv, slots_spec, slots_nodup. split.
  - intros ((VO & EO & FO & R & L) & E & F & D & N & CL & CC & FS). split; [tauto|].
    intros k Hk. split; [apply N; exact Hk|]. exact (EO E k Hk).
  - intros ((E & F & D & VO & FO & R & L & CL & CC & FS) & S).
    assert (EO : ebu_ok s) by (intros _ k Hk x; apply (proj2 (S k Hk))).
    assert (N : forall h, h < 2 * ne s -> NoDup (hfs_at s h)) by (intros k Hk; apply (proj1 (S k Hk))).
    tauto.
Qed.

(* ================================================================== reorder keeps a list specification *)

Definition spec_sound (s : mesh) (P : nat -> nat -> Prop) : Prop := forall k x, P k x -> x / 2 < nf s /\ In k (halfface s x).
Definition spec_sym (P : nat -> nat -> Prop) : Prop := forall k x, P k x -> P (opp k) (opp x).
Definition spec_feed (s : mesh) (P : nat -> nat -> Prop) : Prop :=
  forall k z c g, z / 2 < nf s -> cell_of s z = Some c -> c_deleted s c = false -> In g (cell_at s c) ->
    (In k (halfface s g) -> P k g) /\ (In (opp k) (halfface s g) -> P k (opp g)).

Lemma opp_odd e : opp (2 * e + 1) = 2 * e.
Proof. rewrite opp_spec. lia. Qed.

Lemma ne_reorder e s : ne (reorder_incident_halffaces e s) = ne s.
Proof. destruct (reorder_frame e s) as [x ->]. reflexivity. Qed.

Theorem reorder_keeps_slots_spec e s P :
  slots_spec s P -> spec_sound s P -> spec_sym P -> cell_read_closed s -> spec_feed s P ->
  slots_spec (reorder_incident_halffaces e s) P.
Proof.
  intros S Hs Hsym Hcr Hfeed k Hk. rewrite ne_reorder in Hk.
  assert (Keep : forall k', k' < 2 * ne s -> Permutation (hfs_at (reorder_incident_halffaces e s) k') (hfs_at s k') ->
                 NoDup (hfs_at (reorder_incident_halffaces e s) k') /\ forall x, In x (hfs_at (reorder_incident_halffaces e s) k') <-> P k' x).
  { intros k' Hk' Pm. destruct (S k' Hk') as [N M]. split.
    - apply (Permutation_NoDup (Permutation_sym Pm)). exact N.
    - intros x. rewrite <- M. split; apply Permutation_in; [exact Pm|apply Permutation_sym; exact Pm]. }
  destruct (Nat.eq_dec k (2 * e)) as [E0|N0]; [|destruct (Nat.eq_dec k (2 * e + 1)) as [E1|N1]].
  3: { rewrite (reorder_other_slots e s k N0 N1). exact (S k Hk). }
  all: assert (He : e < ne s) by lia.
  all: destruct (S (2 * e) ltac:(lia)) as [N0' M0]; destruct (S (2 * e + 1) ltac:(lia)) as [N1' M1].
  all: assert (Sound : slot_sound s (2 * e) (hfs_at s (2 * e))) by (intros x Hx; apply Hs; apply M0; exact Hx).
  all: assert (Feed : cells_feed_slot s (2 * e) (hfs_at s (2 * e)))
         by (intros z c g Hz Hc Hd Hg; destruct (Hfeed (2 * e) z c g Hz Hc Hd Hg) as [A B];
             split; intros H; apply M0; [exact (A H)|exact (B H)]).
  all: assert (Mir : Permutation (hfs_at s (2 * e + 1)) (map opp (hfs_at s (2 * e)))).
  1,3: apply NoDup_Permutation; [exact N1'|apply NoDup_map_opp; exact N0'|];
       intros y; rewrite in_map_iff, M1; split;
       [ intros Hy; exists (opp y); rewrite opp_involutive; split; [reflexivity|]; apply M0;
         rewrite <- (opp_odd e); apply Hsym; exact Hy
       | intros [x [<- Hx]]; rewrite <- opp_double'; apply Hsym; apply M0; exact Hx ].
  all: destruct (reorder_permutes_local s e N0' (walk_closed_of_cells s _ _ Sound Feed)
                   (adj_involutive_of_read_closed s _ _ Hcr Sound) Mir) as [P0 [_ [P1 _]]].
  - subst k. apply Keep; [exact Hk|exact P0].
  - subst k. apply Keep; [exact Hk|exact P1].
Qed.

(* the hypotheses other than slots_spec do not read inc_hfs *)
Lemma reorder_hyps_frame e s P :
  (spec_sound s P -> spec_sound (reorder_incident_halffaces e s) P) /\
  (cell_read_closed s -> cell_read_closed (reorder_incident_halffaces e s)) /\
  (spec_feed s P -> spec_feed (reorder_incident_halffaces e s) P).
Proof. destruct (reorder_frame e s) as [x ->]. split; [|split]; intros H0; exact H0. Qed.

Theorem reorder_edges_keeps_slots_spec es P : forall s,
  slots_spec s P -> spec_sound s P -> spec_sym P -> cell_read_closed s -> spec_feed s P ->
  slots_spec (reorder_edges es s) P.
Proof.
  unfold reorder_edges. induction es as [|e es IH]; intros s S Hs Hsym Hcr Hfeed; simpl; [exact S|].
  destruct (reorder_hyps_frame e s P) as (A & B & C).
  apply IH; auto. apply reorder_keeps_slots_spec; assumption.
Qed.

Lemma reorder_edges_frame2 es : forall s, exists x, reorder_edges es s = set_inc_hfs x s /\ length x = length (inc_hfs s).
Proof.
  unfold reorder_edges. induction es as [|e es IH]; intros s; simpl.
  - exists (inc_hfs s). split; [symmetry; apply set_inc_hfs_self|reflexivity].
  - destruct (reorder_is_set_inc_hfs e s) as [x [Ex Lx]]. rewrite Ex.
    destruct (IH (set_inc_hfs x s)) as [y [Ey Ly]]. rewrite Ey. exists y. split; [reflexivity|].
    rewrite Ly. exact Lx.
Qed.

(* ================================================================== core_inv does not read the lists *)

Lemma core_inv_set_inc_hfs x s : length x = length (inc_hfs s) -> core_inv s -> core_inv (set_inc_hfs x s).
Proof.
  intros Lx (E & F & D & VO & FO & R & (L1 & L2 & L3 & L4 & L5 & L6) & CL & CC & FS).
  unfold core_inv.
  split; [exact E|]. split; [exact F|]. split; [exact D|]. split; [exact VO|]. split; [exact FO|]. split; [exact R|].
  split; [|split; [exact CL|split; [exact CC|exact FS]]].
  unfold lens_ok. split; [exact L1|]. split; [|split; [exact L3|split; [exact L4|split; [exact L5|exact L6]]]].
  intros _. cbn [inc_hfs set_inc_hfs]. rewrite Lx. exact (L2 E).
Qed.

(* the facts about P_live that reorder needs, from core_inv *)
Lemma P_live_sound s : spec_sound s (P_live s).
Proof. intros k x (A & _ & C). auto. Qed.

Lemma P_live_sym s : spec_sym (P_live s).
Proof. intros k x (A & B & C). unfold P_live. rewrite opp_div2. repeat split; auto. apply (proj1 (In_halfface_opp s x k)). exact C. Qed.

Lemma core_cell_read_closed s : core_inv s -> cell_read_closed s.
Proof.
  intros (E & F & D & VO & FO & R & L & CL & CC & FS). apply cell_read_ok_closed. apply cell_read_ok_of_global; assumption.
Qed.

Lemma P_live_feed s : core_inv s -> spec_feed s (P_live s).
Proof.
  intros (E & F & D & VO & FO & R & L & CL & CC & FS) k z c g Hz Hc Hd Hg.
  destruct (proj1 (FO F z (div2_lt_bound _ _ Hz) c) Hc) as [Hcn _].
  destruct (CL c g Hcn Hd Hg) as [A B]. split; intros H.
  - repeat split; assumption.
  - unfold P_live. rewrite opp_div2. repeat split; auto. apply In_halfface_opp. rewrite !opp_involutive. exact H.
Qed.

Lemma P_live_set_inc_hfs x s k y : P_live (set_inc_hfs x s) k y <-> P_live s k y.
Proof. reflexivity. Qed.

Theorem bu_inv2_reorder_edges es s : bu_inv2 s -> bu_inv2 (reorder_edges es s).
Proof.
  rewrite !bu_inv2_iff. intros [C S].
  pose proof (reorder_edges_keeps_slots_spec es (P_live s) s S (P_live_sound s) (P_live_sym s)
                (core_cell_read_closed s C) (P_live_feed s C)) as S'.
  destruct (reorder_edges_frame2 es s) as [x [Ex Lx]]. rewrite Ex in *.
  split; [apply core_inv_set_inc_hfs; assumption|exact S'].
Qed.
