(* Kernel2/RotationProofs.v -- C09: halffaces around an edge in rotational order.
   sigma s h hf = the halfface that follows hf around halfedge h (the opposite of hf's neighbour across the
   edge inside hf's cell); an edge is a single fan if the sigma-graph on its incident halffaces is one
   cycle, or one chain ending at a boundary halfface.  reorder_incident_halffaces (Kernel/Ops.v,
   TopologyKernel.cc 275-379) on a single fan leaves the halfedge's list in rotational order and the
   opposite halfedge's list as its mirrored reverse (C09_reorder_post).  The statement about
   adjacent_halfface_in_cell in closed cells (C09_adjacent) is proved in Kernel2/AdjacentProofs.v. *)
From Coq Require Import ZArith Lia Bool Arith List ZifyNat ZifyBool Permutation.
From OVM Require Import Kernel.State Kernel.Ops Kernel.Mirror Kernel2.LookupModel Kernel2.ListAux Kernel2.AdjacentProofs.
Import ListNotations.
Ltac Zify.zify_post_hook ::= Z.div_mod_to_equations.
Local Open Scope nat_scope.

(* ================================================================== definitions *)

(* the next halfface around halfedge h; None at a boundary halfface (no live incident cell) or when the
   adjacency query fails *)
Definition sigma (s : mesh) (h hf : nat) : option nat :=
  if hf_is_open s hf then None else option_map opp (adjacent_halfface_in_cell s hf h).

(* hf is followed by y around h / y is preceded by x (what the backward walk computes) *)
Definition fwd_link (s : mesh) (h x y : nat) : Prop :=
  hf_is_open s x = false /\ adjacent_halfface_in_cell s x h = Some (opp y).
Definition bwd_link (s : mesh) (h x y : nat) : Prop :=
  hf_is_open s (opp y) = false /\ adjacent_halfface_in_cell s (opp y) (opp h) = Some x.

Lemma fwd_link_sigma s h x y : fwd_link s h x y <-> (hf_is_open s x = false /\ sigma s h x = Some y).
Proof.
  unfold fwd_link, sigma. split.
  - intros [O A]. rewrite O, A. simpl. rewrite opp_involutive. auto.
  - intros [O S]. rewrite O in S. split; [exact O|].
    destruct (adjacent_halfface_in_cell s x h) as [a|]; [|discriminate]. simpl in S. inversion S. rewrite opp_involutive. reflexivity.
Qed.

(* brute-force incidence: live halffaces containing the halfedge *)
Definition incident_hf (s : mesh) (h hf : nat) : Prop := live_hf s hf = true /\ In h (halfface s hf).

(* a closed ring: every halfface is followed by the next one, the last by the first *)
Definition fan_cycle (s : mesh) (h : nat) (l : list nat) : Prop :=
  linked (fwd_link s h) l /\ fwd_link s h (last l 0) (hd 0 l).
(* an open chain: forward and backward links agree along the chain, it ends at a boundary halfface and
   nothing precedes its first element *)
Definition fan_chain (s : mesh) (h : nat) (l : list nat) : Prop :=
  linked (fwd_link s h) l /\ linked (bwd_link s h) l /\
  hf_is_open s (last l 0) = true /\ hf_is_open s (opp (hd 0 l)) = true.

(* the sigma-graph on the brute-force incident halffaces of halfedge 2e is one cycle or one chain *)
Definition single_fan (s : mesh) (e : nat) : Prop :=
  exists l, l <> [] /\ NoDup l /\ (forall hf, In hf l <-> incident_hf s (2 * e) hf) /\
            (fan_cycle s (2 * e) l \/ fan_chain s (2 * e) l).

(* the halfedge->halfface cache of halfedge h holds exactly the live incident halffaces, each once
   (faces are simple at this edge), and the two sides of the edge have lists of the same length *)
Definition he_cache_exact (s : mesh) (h : nat) : Prop :=
  NoDup (hfs_at s h) /\ (forall hf, In hf (hfs_at s h) <-> incident_hf s h hf).
Definition edge_cache_exact (s : mesh) (e : nat) : Prop :=
  he_cache_exact s (2 * e) /\ (forall hf, In hf (hfs_at s (2 * e + 1)) <-> incident_hf s (2 * e + 1) hf) /\
  length (hfs_at s (2 * e + 1)) = length (hfs_at s (2 * e)).

(* rotational order of a list L around halfedge h: each non-boundary halfface is followed (cyclically) by
   sigma of it; a boundary halfface can only come last *)
Definition rotational (s : mesh) (h : nat) (L : list nat) : Prop :=
  forall i, i < length L ->
    (hf_is_open s (nth i L 0) = false ->
       adjacent_halfface_in_cell s (nth i L 0) h = Some (opp (nth (circ_next (length L) i) L 0))) /\
    (hf_is_open s (nth i L 0) = true -> i = length L - 1).

(* ================================================================== the two walks *)

Lemma fwd_walk s n h start : forall w cur acc fuel,
  linked (fwd_link s h) (cur :: w) -> (forall y, In y w -> y <> start) ->
  length acc + S (length w) <= n -> S (length w) <= fuel ->
  (hf_is_open s (last (cur :: w) 0) = true \/ fwd_link s h (last (cur :: w) 0) start) ->
  reorder_fwd fuel s n h start cur acc = Some (acc ++ cur :: w).
Proof.
  induction w as [|y w IH]; intros cur acc fuel Hl Hne Hlen Hfuel Hend.
  - destruct fuel as [|fuel]; [simpl in Hfuel; lia|]. simpl.
    rewrite app_length. simpl length. destruct (Nat.ltb_spec n (length acc + 1)); [simpl in Hlen; lia|].
    simpl in Hend. destruct Hend as [O|[O A]].
    + rewrite O. reflexivity.
    + rewrite O, A, opp_involutive, Nat.eqb_refl. reflexivity.
  - destruct fuel as [|fuel]; [simpl in Hfuel; lia|]. simpl.
    rewrite app_length. simpl length. simpl in Hlen. destruct (Nat.ltb_spec n (length acc + 1)); [lia|].
    apply linked_inv in Hl. destruct Hl as [[O A] Hl]. rewrite O, A, opp_involutive.
    destruct (Nat.eqb_spec y start) as [E|_]; [exfalso; apply (Hne y); [left; reflexivity|exact E]|].
    rewrite (IH y (acc ++ [cur]) fuel Hl).
    + rewrite <- app_assoc. reflexivity.
    + intros z Hz. apply Hne. right. exact Hz.
    + rewrite app_length. simpl. lia.
    + simpl in Hfuel. lia.
    + rewrite last_cons_cons in Hend. exact Hend.
Qed.

(* rpre = the predecessors of cur, nearest first *)
Lemma bwd_walk s n h : forall rpre cur acc fuel,
  linked (fun x y => bwd_link s h y x) (cur :: rpre) ->
  hf_is_open s (opp (last (cur :: rpre) 0)) = true ->
  length acc + length rpre <= n -> length rpre < fuel ->
  reorder_bwd fuel s n (opp h) cur acc = Some (rev rpre ++ acc).
Proof.
  induction rpre as [|p r IH]; intros cur acc fuel Hl Hopen Hlen Hfuel.
  - destruct fuel as [|fuel]; [simpl in Hfuel; lia|]. simpl. simpl in Hopen. rewrite Hopen. reflexivity.
  - destruct fuel as [|fuel]; [simpl in Hfuel; lia|]. simpl.
    apply linked_inv in Hl. destruct Hl as [[O A] Hl]. rewrite O, A.
    simpl in Hlen. destruct (Nat.ltb_spec n (S (length acc))); [lia|].
    rewrite (IH p (p :: acc) fuel Hl).
    + rewrite <- app_assoc. reflexivity.
    + rewrite last_cons_cons in Hopen. exact Hopen.
    + simpl. lia.
    + simpl in Hfuel. lia.
Qed.

(* ================================================================== what reorder_list computes on a fan *)

Lemma hd_app_cons {A} (a : list A) x b d : hd d (a ++ x :: b) = hd x a.
Proof. destruct a; reflexivity. Qed.

Lemma NoDup_app_cons_notin (pre : list nat) x post : NoDup (pre ++ x :: post) -> ~ In x pre /\ ~ In x post.
Proof.
  intros H. apply NoDup_remove_2 in H. split; intros Hin; apply H; apply in_or_app; auto.
Qed.

Section Fan.
(* (a Section only to share the many parameters; everything is discharged as explicit hypotheses) *)
Context (s : mesh) (e : nat).
Let h := 2 * e.
Let inc := hfs_at s h.
Let n := length inc.

Lemma reorder_list_chain pre start post :
  2 <= n -> hd 0 inc = start -> length (pre ++ start :: post) = n -> NoDup (pre ++ start :: post) ->
  fan_chain s h (pre ++ start :: post) ->
  reorder_list s e = Some (pre ++ start :: post).
Proof.
  intros Hn Hstart Hlen Hnd [Hf [Hb [Olast Ofirst]]].
  unfold reorder_list. fold h. fold inc. fold n.
  destruct (Nat.ltb_spec n 2); [lia|].
  destruct inc as [|st rest] eqn:Einc; [simpl in n; lia|]. simpl in Hstart. subst st.
  destruct (NoDup_app_cons_notin _ _ _ Hnd) as [Npre Npost].
  assert (Hlen' : length pre + S (length post) = n) by (rewrite app_length in Hlen; simpl in Hlen; lia).
  rewrite (fwd_walk s n h start post start [] (n + 2)).
  - simpl app. simpl length.
    destruct (Nat.eqb_spec (S (length post)) n) as [E|E].
    + assert (pre = []) by (apply length0_nil; lia). subst pre. cbn [app length]. rewrite E, Nat.eqb_refl. reflexivity.
    + rewrite (bwd_walk s n h (rev pre) start (start :: post) (n + 2)).
      * rewrite rev_involutive. rewrite Hlen, Nat.eqb_refl. reflexivity.
      * replace (start :: rev pre) with (rev (pre ++ [start])) by (rewrite rev_app_distr; reflexivity).
        apply (linked_rev (bwd_link s h)). apply (linked_app_l _ (pre ++ [start]) post).
        rewrite <- app_assoc. exact Hb.
      * rewrite hd_app_cons in Ofirst. destruct pre as [|p pre']; [simpl in *; lia|].
        simpl hd in Ofirst. replace (start :: rev (p :: pre')) with ((start :: rev pre') ++ [p]) by (simpl; reflexivity).
        rewrite last_snoc. exact Ofirst.
      * rewrite rev_length. simpl. lia.
      * rewrite rev_length. lia.
  - exact (linked_app_r _ _ _ Hf).
  - intros y Hy E. subst y. contradiction.
  - simpl. lia.
  - lia.
  - left. rewrite last_app_cons in Olast. exact Olast.
Qed.

Lemma reorder_list_cycle pre start post :
  2 <= n -> hd 0 inc = start -> length (pre ++ start :: post) = n -> NoDup (pre ++ start :: post) ->
  fan_cycle s h (pre ++ start :: post) ->
  reorder_list s e = Some (start :: post ++ pre) /\ fan_cycle s h (start :: post ++ pre).
Proof.
  intros Hn Hstart Hlen Hnd [Hf Hclose].
  destruct (NoDup_app_cons_notin _ _ _ Hnd) as [Npre Npost].
  rewrite last_app_cons, hd_app_cons in Hclose.
  (* the rotated list is again a closed ring *)
  assert (Hrot : linked (fwd_link s h) (start :: post ++ pre) /\
                 fwd_link s h (last (start :: post ++ pre) 0) start).
  { destruct pre as [|p pre'].
    - rewrite app_nil_r. simpl in Hf, Hclose. split; [exact Hf|exact Hclose].
    - simpl hd in Hclose. split.
      + change (start :: post ++ p :: pre') with ((start :: post) ++ p :: pre').
        apply (linked_join _ _ _ 0).
        * exact (linked_app_r _ _ _ Hf).
        * exact (linked_app_l _ (p :: pre') (start :: post) Hf).
        * intros _ _. exact Hclose.
      + change (start :: post ++ p :: pre') with ((start :: post) ++ p :: pre').
        rewrite last_app_cons.
        (* the junction of the original list *)
        clear - Hf. revert p Hf. induction pre' as [|q r IH]; intros p Hf.
        * simpl in *. apply linked_inv in Hf. tauto.
        * rewrite last_cons_cons. apply IH. simpl in Hf. apply linked_inv in Hf. tauto. }
  split; [|split; [exact (proj1 Hrot) | simpl hd; exact (proj2 Hrot)]].
  unfold reorder_list. fold h. fold inc. fold n.
  destruct (Nat.ltb_spec n 2); [lia|].
  destruct inc as [|st rest] eqn:Einc; [simpl in n; lia|]. simpl in Hstart. subst st.
  assert (Hlen' : S (length (post ++ pre)) = n).
  { rewrite app_length in *. simpl in Hlen. lia. }
  rewrite (fwd_walk s n h start (post ++ pre) start [] (n + 2)).
  - cbn [app length]. rewrite !Hlen', !Nat.eqb_refl. cbn [length]. rewrite !Hlen', !Nat.eqb_refl. reflexivity.
  - exact (proj1 Hrot).
  - intros y Hy E. subst y. apply in_app_or in Hy. destruct Hy; contradiction.
  - simpl. lia.
  - lia.
  - right. exact (proj2 Hrot).
Qed.

End Fan.

(* ================================================================== rotational order from the fan shape *)

Lemma rotational_of_cycle s h L : L <> [] -> fan_cycle s h L -> rotational s h L.
Proof.
  intros Hne [Hl Hc] i Hi.
  assert (P : fwd_link s h (nth i L 0) (nth (circ_next (length L) i) L 0)).
  { unfold circ_next. destruct (Nat.eqb_spec (S i) (length L)) as [E|E].
    - rewrite (last_nth L 0 Hne) in Hc. replace (length L - 1) with i in Hc by lia.
      destruct L; [congruence|]. exact Hc.
    - apply linked_nth; [exact Hl|lia]. }
  destruct P as [O A]. split; [intros _; exact A|]. intros O'. congruence.
Qed.

Lemma rotational_of_chain s h L : L <> [] -> fan_chain s h L -> rotational s h L.
Proof.
  intros Hne [Hl [_ [Olast _]]] i Hi.
  destruct (Nat.eq_dec (S i) (length L)) as [E|E].
  - rewrite (last_nth L 0 Hne) in Olast. replace (length L - 1) with i in Olast by lia.
    split; [intros O; congruence|]. intros _. lia.
  - assert (P : fwd_link s h (nth i L 0) (nth (S i) L 0)) by (apply linked_nth; [exact Hl|lia]).
    destruct P as [O A]. split.
    + intros _. unfold circ_next. destruct (Nat.eqb_spec (S i) (length L)); [lia|exact A].
    + intros O'. congruence.
Qed.

(* ================================================================== C09_reorder_post *)

Lemma incident_hf_opp s h hf : incident_hf s h hf -> incident_hf s (opp h) (opp hf).
Proof.
  intros [L I]. split.
  - unfold live_hf in *. rewrite opp_div2. exact L.
  - rewrite halfface_opp, <- in_rev. apply in_map. exact I.
Qed.

Lemma opp_double e : opp (2 * e) = 2 * e + 1.
Proof. rewrite opp_spec. lia. Qed.

Theorem reorder_post s e :
  edge_cache_exact s e -> single_fan s e ->
  let s' := reorder_incident_halffaces e s in
  let L := hfs_at s' (2 * e) in
  rotational s' (2 * e) L /\
  hfs_at s' (2 * e + 1) = rev (map opp L) /\
  Permutation L (hfs_at s (2 * e)) /\
  (fan_cycle s (2 * e) L \/ fan_chain s (2 * e) L).
Proof.
  intros [[Hnd Hex] [Hex1 Hlen1]] [l [Hne [Hndl [Hmem Hshape]]]]. cbv zeta.
  set (h := 2 * e) in *. set (inc := hfs_at s h) in *. set (n := length inc) in *.
  assert (Hsame : forall hf, In hf l <-> In hf inc) by (intros hf; rewrite Hmem, Hex; reflexivity).
  assert (Hln : length l = n) by (apply NoDup_same_length; assumption).
  assert (Hn1 : 1 <= n) by (destruct l; [congruence|simpl in Hln; lia]).
  (* rotational order does not look at the halfedge->halfface cache *)
  assert (Hrot_s' : forall L, rotational s h L -> rotational (reorder_incident_halffaces e s) h L).
  { intros L R. unfold reorder_incident_halffaces. destruct (reorder_list s e); [|exact R]. exact R. }
  destruct (Nat.lt_ge_cases n 2) as [Hsmall|Hbig].
  - (* fewer than two incident halffaces: nothing is reordered *)
    assert (Hnone : reorder_list s e = None).
    { unfold reorder_list. fold h. fold inc. fold n. destruct (Nat.ltb_spec n 2); [reflexivity|lia]. }
    unfold reorder_incident_halffaces. rewrite Hnone. fold h. fold inc.
    assert (n = 1) by lia.
    destruct l as [|x [|y t]]; simpl in Hln; try lia.
    assert (Einc : inc = [x]) by (apply length1_In; [lia|apply Hsame; left; reflexivity]).
    rewrite Einc. split; [|split; [|split]].
    + destruct Hshape as [C|C]; [apply rotational_of_cycle | apply rotational_of_chain]; auto.
    + change (rev (map opp [x])) with [opp x]. apply length1_In; [rewrite Hlen1; exact H|].
      apply Hex1. unfold h. rewrite <- opp_double. apply incident_hf_opp. apply Hmem. left. reflexivity.
    + apply Permutation_refl.
    + exact Hshape.
  - (* the walks *)
    destruct inc as [|start rest] eqn:Einc; [simpl in n; lia|].
    assert (Hst : In start l) by (apply Hsame; left; reflexivity).
    destruct (in_split _ _ Hst) as [pre [post El]]. subst l.
    assert (Hh : h < length (inc_hfs s)).
    { apply nth_nonnil_lt. unfold inc, hfs_at in Einc. rewrite Einc. discriminate. }
    assert (Hh1 : h + 1 < length (inc_hfs s)).
    { apply nth_nonnil_lt. intros E0.
      assert (Z : length (hfs_at s (h + 1)) = 0) by (unfold hfs_at; rewrite E0; reflexivity).
      rewrite Hlen1 in Z. lia. }
    assert (Hwrite : forall L, length L = n -> reorder_list s e = Some L ->
              hfs_at (reorder_incident_halffaces e s) h = L /\
              hfs_at (reorder_incident_halffaces e s) (h + 1) = rev (map opp L)).
    { intros L HL HR. unfold reorder_incident_halffaces. rewrite HR. fold h. unfold hfs_at. simpl inc_hfs. split.
      - rewrite nth_upd_other by lia. apply nth_upd_same. exact Hh.
      - rewrite nth_upd_same by (rewrite upd_length; exact Hh1).
        rewrite map_length, rev_length, HL.
        replace (skipn n (nth (h + 1) (inc_hfs s) [])) with (@nil nat).
        + rewrite app_nil_r, map_rev. reflexivity.
        + symmetry. apply skipn_all2. change (nth (h + 1) (inc_hfs s) []) with (hfs_at s (h + 1)). rewrite Hlen1. lia. }
    destruct Hshape as [C|C].
    + destruct (reorder_list_cycle s e pre start post) as [HR HC]; fold h; fold inc; try rewrite Einc; auto.
      destruct (Hwrite (start :: post ++ pre)) as [W0 W1]; [simpl; rewrite app_length in *; simpl in Hln; lia|exact HR|].
      rewrite W0. fold h. split; [|split; [|split]].
      * apply Hrot_s'. apply rotational_of_cycle; [discriminate|exact HC].
      * exact W1.
      * apply NoDup_Permutation.
        -- apply (Permutation_NoDup (l := pre ++ start :: post)); [|exact Hndl].
           change (start :: post ++ pre) with ((start :: post) ++ pre). apply Permutation_app_comm.
        -- exact Hnd.
        -- intros x. rewrite <- Hsame. change (start :: post ++ pre) with ((start :: post) ++ pre).
           rewrite !in_app_iff. tauto.
      * left. exact HC.
    + pose proof (reorder_list_chain s e pre start post) as HR. fold h in HR. fold inc in HR. rewrite Einc in HR.
      specialize (HR Hbig eq_refl Hln Hndl C).
      destruct (Hwrite (pre ++ start :: post) Hln HR) as [W0 W1].
      rewrite W0. fold h. split; [|split; [|split]].
      * apply Hrot_s'. apply rotational_of_chain; [exact Hne|exact C].
      * exact W1.
      * apply NoDup_Permutation; [exact Hndl|exact Hnd|exact Hsame].
      * right. exact C.
Qed.

(* ================================================================== backward links from closed cells *)

Lemma linked_impl_in (R R' : nat -> nat -> Prop) l :
  (forall x y, In x l -> R x y -> R' x y) -> linked R l -> linked R' l.
Proof.
  intros H Hl. induction Hl; try constructor.
  - apply H; [left; reflexivity|assumption].
  - apply IHHl. intros a b Ha. apply H. right. exact Ha.
Qed.

(* in a closed cell the backward walk finds exactly the predecessor the forward link came from *)
Lemma bwd_of_fwd_closed s h x y c :
  fwd_link s h x y -> cell_of s x = Some c -> closed_cell s c -> In x (cell_at s c) -> In h (halfface s x) ->
  bwd_link s h x y.
Proof.
  intros [O A] Hc Hcl Hin Hh.
  destruct (adjacent_closed_cell s c x h Hcl Hin Hh) as [hf' [E [[C1 _] [_ Back]]]].
  rewrite A in E. inversion E; subst hf'. split; [|exact Back].
  unfold hf_is_open in *. rewrite (proj1 (Hcl (opp y) C1)). rewrite Hc in O. exact O.
Qed.

Lemma linked_bwd_of_closed s h l :
  (forall x, In x l -> In h (halfface s x)) ->
  (forall x c, In x l -> cell_of s x = Some c -> closed_cell s c /\ In x (cell_at s c)) ->
  linked (fwd_link s h) l -> linked (bwd_link s h) l.
Proof.
  intros Hh Hc. apply linked_impl_in. intros x y Hx F.
  destruct (cell_of s x) as [c|] eqn:E.
  - destruct (Hc x c Hx E) as [Hcl Hin]. exact (bwd_of_fwd_closed s h x y c F E Hcl Hin (Hh x Hx)).
  - destruct F as [O _]. unfold hf_is_open in O. rewrite E in O. discriminate.
Qed.

(* ================================================================== checking a concrete fan by computation *)

Lemma incident_hf_bound s h hf : incident_hf s h hf -> hf < 2 * nf s.
Proof.
  intros [L _]. unfold live_hf, live_f in L. apply andb_true_iff in L. destruct L as [L _].
  apply Nat.ltb_lt in L. lia.
Qed.

Lemma incident_list_check s h l :
  forallb (fun hf => Bool.eqb (memb hf l) (live_hf s hf && memb h (halfface s hf))) (seq 0 (2 * nf s)) = true ->
  forallb (fun hf => hf <? 2 * nf s) l = true ->
  forall hf, In hf l <-> incident_hf s h hf.
Proof.
  intros T B hf. rewrite forallb_forall in T, B.
  assert (K : hf < 2 * nf s -> (In hf l <-> incident_hf s h hf)).
  { intros Hb. specialize (T hf ltac:(apply in_seq; lia)). apply eqb_prop in T.
    unfold incident_hf. rewrite <- memb_In, T, andb_true_iff, memb_In. reflexivity. }
  split.
  - intros Hin. apply K; [|exact Hin]. specialize (B hf Hin). apply Nat.ltb_lt in B. exact B.
  - intros Hi. apply K; [|exact Hi]. exact (incident_hf_bound s h hf Hi).
Qed.

(* ================================================================== reorder is idempotent on a fan *)
(* (a step towards the history-level invariant: re-running reorder on an edge that is already in rotational
   order changes nothing, so the extra reorder calls of delete_face_core / enable_* are harmless) *)

Lemma reorder_write s e L :
  reorder_list s e = Some L -> length L = length (hfs_at s (2 * e)) ->
  length (hfs_at s (2 * e + 1)) = length (hfs_at s (2 * e)) -> 2 <= length L ->
  hfs_at (reorder_incident_halffaces e s) (2 * e) = L /\
  hfs_at (reorder_incident_halffaces e s) (2 * e + 1) = rev (map opp L).
Proof.
  intros HR HL Hlen1 Hbig. set (h := 2 * e) in *.
  assert (Hh : h < length (inc_hfs s)).
  { apply nth_nonnil_lt. intros E0. unfold hfs_at in HL. rewrite E0 in HL. simpl in HL. lia. }
  assert (Hh1 : h + 1 < length (inc_hfs s)).
  { apply nth_nonnil_lt. intros E0. unfold hfs_at in Hlen1 at 1. rewrite E0 in Hlen1. simpl in Hlen1. lia. }
  unfold reorder_incident_halffaces. rewrite HR. fold h. unfold hfs_at. simpl inc_hfs. split.
  - rewrite nth_upd_other by lia. apply nth_upd_same. exact Hh.
  - rewrite nth_upd_same by (rewrite upd_length; exact Hh1).
    rewrite map_length, rev_length.
    replace (skipn (length L) (nth (h + 1) (inc_hfs s) [])) with (@nil nat).
    + rewrite app_nil_r, map_rev. reflexivity.
    + symmetry. apply skipn_all2. change (nth (h + 1) (inc_hfs s) []) with (hfs_at s (h + 1)). lia.
Qed.

Lemma reorder_state_links s e h x y :
  (fwd_link (reorder_incident_halffaces e s) h x y <-> fwd_link s h x y) /\
  (bwd_link (reorder_incident_halffaces e s) h x y <-> bwd_link s h x y).
Proof. unfold reorder_incident_halffaces. destruct (reorder_list s e); split; reflexivity. Qed.

Lemma reorder_state_open s e x : hf_is_open (reorder_incident_halffaces e s) x = hf_is_open s x.
Proof. unfold reorder_incident_halffaces. destruct (reorder_list s e); reflexivity. Qed.

Lemma linked_iff (R R' : nat -> nat -> Prop) l : (forall x y, R x y <-> R' x y) -> linked R l -> linked R' l.
Proof. intros H. apply linked_impl_in. intros x y _. apply H. Qed.

Theorem reorder_idempotent s e :
  edge_cache_exact s e -> single_fan s e ->
  let s' := reorder_incident_halffaces e s in
  hfs_at (reorder_incident_halffaces e s') (2 * e) = hfs_at s' (2 * e) /\
  hfs_at (reorder_incident_halffaces e s') (2 * e + 1) = hfs_at s' (2 * e + 1).
Proof.
  intros Hex Hfan. pose proof (reorder_post s e Hex Hfan) as [_ [Hmir [Hperm Hshape]]]. cbv zeta in *.
  set (s' := reorder_incident_halffaces e s) in *. set (h := 2 * e) in *. set (L := hfs_at s' h) in *.
  destruct Hex as [[Hnd _] [_ Hlen1]].
  assert (HndL : NoDup L) by (apply (Permutation_NoDup (Permutation_sym Hperm)); exact Hnd).
  destruct (Nat.lt_ge_cases (length L) 2) as [Hsmall|Hbig].
  - assert (Hnone : reorder_list s' e = None).
    { unfold reorder_list. fold h. fold L. destruct (Nat.ltb_spec (length L) 2); [reflexivity|lia]. }
    assert (E : reorder_incident_halffaces e s' = s') by (unfold reorder_incident_halffaces at 1; rewrite Hnone; reflexivity).
    rewrite E. split; reflexivity.
  - destruct L as [|start tl] eqn:EL; [simpl in Hbig; lia|].
    assert (Hlen1' : length (hfs_at s' (h + 1)) = length (hfs_at s' h)).
    { rewrite Hmir. fold L. rewrite EL, rev_length, map_length. reflexivity. }
    assert (HR : reorder_list s' e = Some (start :: tl)).
    { destruct Hshape as [[Hl Hc]|[Hf [Hb [O1 O2]]]].
      - destruct (reorder_list_cycle s' e [] start tl) as [HR _]; fold h; fold L; try rewrite EL; auto.
        + split.
          * simpl. apply (linked_iff (fwd_link s h)); [intros x y; symmetry; apply (reorder_state_links s e h x y)|exact Hl].
          * simpl app. apply (reorder_state_links s e h). exact Hc.
        + rewrite app_nil_r in HR. exact HR.
      - apply (reorder_list_chain s' e [] start tl); fold h; fold L; try rewrite EL; auto.
        split; [|split; [|split]].
        + simpl. apply (linked_iff (fwd_link s h)); [intros x y; symmetry; apply (reorder_state_links s e h x y)|exact Hf].
        + simpl. apply (linked_iff (bwd_link s h)); [intros x y; symmetry; apply (reorder_state_links s e h x y)|exact Hb].
        + simpl app. unfold s'. rewrite reorder_state_open. exact O1.
        + simpl app. unfold s'. rewrite reorder_state_open. exact O2. }
    destruct (reorder_write s' e (start :: tl) HR) as [W0 W1]; fold h; fold L; try rewrite EL; auto.
    + fold h in Hlen1'. fold L in Hlen1'. rewrite EL in Hlen1'. exact Hlen1'.
    + fold h in W0, W1. rewrite W0, W1. split; [reflexivity|]. rewrite Hmir. reflexivity.
Qed.
