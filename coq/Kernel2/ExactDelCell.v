(* Kernel2/ExactDelCell.v -- C01: delete_cell_core / delete_cell in deferred mode keep bu_inv2.
   delete_cell_core clears the halfface->cell entries of the dying cell, re-runs reorder on its edges and only then
   flags the cell.  Because no cache entry points to the dying cell any more, flagging commutes with the walks
   (reorder_flag_commute); the state "cleared + flagged" is exact, and reorder_edges keeps exactness. *)
From Coq Require Import ZArith Lia Bool Arith List ZifyNat ZifyBool Permutation.
From OVM Require Import Kernel.State Kernel.Ops Kernel.Mirror Kernel.Recompute Kernel.Closure Kernel.ExactInv
                        Kernel2.LookupModel Kernel2.ListAux Kernel2.AdjacentProofs Kernel2.RotationProofs Kernel2.ReorderExact
                        Kernel2.ExactBase Kernel2.ExactAddCell.
Import ListNotations.
Ltac Zify.zify_post_hook ::= Z.div_mod_to_equations.
Local Open Scope nat_scope.

(* ================================================================== the pieces of delete_cell_core *)

Definition clear_step (h : nat) (l : list (option nat)) (hf : nat) : list (option nat) :=
  match nth hf l None with
  | Some c => if c =? h then upd hf None l else l
  | None => l
  end.
Definition cleared (s : mesh) (h : nat) : mesh := set_inc_cell (fold_left (clear_step h) (cell_at s h) (inc_cell s)) s.
Definition flagc (h : nat) (t : mesh) : mesh :=
  set_cdel (upd h true (cdel t)) (set_counts (ndv t) (nde t) (ndf t) (S (ndc t)) t).

Lemma deferred_reorder_edges es s : deferred (reorder_edges es s) = deferred s.
Proof. destruct (reorder_edges_frame2 es s) as [x [-> _]]. reflexivity. Qed.

Lemma delete_cell_core_eq h s : deferred s = true -> fbu s = true -> ebu s = true ->
  exists es, delete_cell_core h s = flagc h (reorder_edges es (cleared s h)).
Proof.
  intros D F E. unfold delete_cell_core. rewrite D. cbn [negb]. rewrite andb_false_r. rewrite F.
  cbv zeta. fold (clear_step h). fold (cleared s h).
  change (ebu (cleared s h)) with (ebu s). rewrite E.
  match goal with |- context [reorder_edges ?es (cleared s h)] => exists es end.
  rewrite deferred_reorder_edges. change (deferred (cleared s h)) with (deferred s). rewrite D. reflexivity.
Qed.

(* ================================================================== flagging commutes with the walks *)

Definition no_entry_to (t : mesh) (h : nat) : Prop := forall x, cell_of t x <> Some h.

Lemma hf_is_open_flagc h t x : no_entry_to t h -> hf_is_open (flagc h t) x = hf_is_open t x.
Proof.
  intros N. unfold hf_is_open. change (cell_of (flagc h t) x) with (cell_of t x).
  destruct (cell_of t x) as [c|] eqn:C; [|reflexivity].
  unfold c_deleted, flagc. cbn [cdel set_cdel set_counts]. rewrite Base.ListLemmas.nth_upd.
  destruct (Nat.eqb_spec h c) as [->|]; [exfalso; exact (N x C)|reflexivity].
Qed.

Lemma reorder_fwd_flagc h t n hh start : no_entry_to t h -> forall fuel cur acc,
  reorder_fwd fuel (flagc h t) n hh start cur acc = reorder_fwd fuel t n hh start cur acc.
Proof.
  intros N. induction fuel as [|fuel IH]; intros cur acc; [reflexivity|]. cbn [reorder_fwd].
  rewrite hf_is_open_flagc by exact N.
  change (adjacent_halfface_in_cell (flagc h t) cur hh) with (adjacent_halfface_in_cell t cur hh).
  destruct (n <? length (acc ++ [cur])); [reflexivity|]. destruct (hf_is_open t cur); [reflexivity|].
  destruct (adjacent_halfface_in_cell t cur hh); [|reflexivity]. destruct (opp n0 =? start); [reflexivity|]. apply IH.
Qed.

Lemma reorder_bwd_flagc h t n hh : no_entry_to t h -> forall fuel cur acc,
  reorder_bwd fuel (flagc h t) n hh cur acc = reorder_bwd fuel t n hh cur acc.
Proof.
  intros N. induction fuel as [|fuel IH]; intros cur acc; [reflexivity|]. cbn [reorder_bwd].
  rewrite hf_is_open_flagc by exact N.
  change (adjacent_halfface_in_cell (flagc h t) (opp cur) hh) with (adjacent_halfface_in_cell t (opp cur) hh).
  destruct (hf_is_open t (opp cur)); [reflexivity|].
  destruct (adjacent_halfface_in_cell t (opp cur) hh); [|reflexivity]. rewrite IH. reflexivity.
Qed.

Lemma reorder_list_flagc h t e : no_entry_to t h -> reorder_list (flagc h t) e = reorder_list t e.
Proof.
  intros N. unfold reorder_list. change (hfs_at (flagc h t) (2 * e)) with (hfs_at t (2 * e)).
  destruct (length (hfs_at t (2 * e)) <? 2); [reflexivity|]. destruct (hfs_at t (2 * e)) as [|start rest]; [reflexivity|].
  rewrite reorder_fwd_flagc by exact N.
  destruct (reorder_fwd _ t _ _ start start []) as [acc|]; [|reflexivity].
  rewrite reorder_bwd_flagc by exact N. reflexivity.
Qed.

Lemma reorder_one_flagc h t e : no_entry_to t h ->
  reorder_incident_halffaces e (flagc h t) = flagc h (reorder_incident_halffaces e t).
Proof.
  intros N. unfold reorder_incident_halffaces. rewrite (reorder_list_flagc h t e N).
  destruct (reorder_list t e); reflexivity.
Qed.

Lemma no_entry_reorder h t e : no_entry_to t h -> no_entry_to (reorder_incident_halffaces e t) h.
Proof. intros N. destruct (reorder_frame e t) as [x ->]. exact N. Qed.

Theorem reorder_flag_commute h es : forall t, no_entry_to t h ->
  reorder_edges es (flagc h t) = flagc h (reorder_edges es t).
Proof.
  unfold reorder_edges. induction es as [|e es IH]; intros t N; [reflexivity|]. cbn [fold_left].
  rewrite (reorder_one_flagc h t e N). apply IH. apply no_entry_reorder. exact N.
Qed.

(* ================================================================== what clearing does *)

Definition is_h (h : nat) (o : option nat) : bool := match o with Some c => c =? h | None => false end.

Lemma length_clear_step h l hf : length (clear_step h l hf) = length l.
Proof. unfold clear_step. destruct (nth hf l None) as [c|]; [|reflexivity]. destruct (c =? h); [apply upd_length|reflexivity]. Qed.

Lemma length_clear_fold h hfs : forall l, length (fold_left (clear_step h) hfs l) = length l.
Proof. induction hfs as [|x t IH]; intros l; [reflexivity|]. cbn [fold_left]. rewrite IH. apply length_clear_step. Qed.

Lemma nth_clear_step h l hf x :
  nth x (clear_step h l hf) None = if (x =? hf) && is_h h (nth x l None) then None else nth x l None.
Proof.
  unfold clear_step. destruct (Nat.eqb_spec x hf) as [->|N]; cbn [andb].
  - destruct (nth hf l None) as [c|] eqn:E; [|rewrite E; reflexivity]. cbn [is_h]. destruct (c =? h); [|exact E].
    apply Base.ListLemmas.nth_upd_eq. destruct (Nat.lt_ge_cases hf (length l)); [assumption|].
    rewrite nth_overflow in E by assumption. discriminate.
  - destruct (nth hf l None) as [c|]; [|reflexivity]. destruct (c =? h); [|reflexivity].
    apply Base.ListLemmas.nth_upd_neq. congruence.
Qed.

Lemma nth_clear_fold h hfs : forall l x,
  nth x (fold_left (clear_step h) hfs l) None = if memb x hfs && is_h h (nth x l None) then None else nth x l None.
Proof.
  induction hfs as [|hf t IH]; intros l x; [reflexivity|]. cbn [fold_left]. rewrite IH, nth_clear_step.
  cbn [memb existsb]. fold (memb x t).
  destruct (Nat.eqb_spec x hf) as [->|N]; cbn [orb andb].
  - destruct (is_h h (nth hf l None)) eqn:I; [rewrite andb_false_r; destruct (memb hf t); reflexivity|].
    rewrite I. rewrite !andb_false_r. reflexivity.
  - reflexivity.
Qed.

(* ================================================================== the exact state "cleared and flagged" *)

Theorem bu_inv2_cleared_flagged s h : bu_inv2 s -> h < nc s -> c_deleted s h = false ->
  bu_inv2 (flagc h (cleared s h)) /\ no_entry_to (cleared s h) h.
Proof.
  rewrite !bu_inv2_iff.
  intros [(E & F & D & VO & FO & (R1 & R2 & R3) & (L1 & L2 & L3 & L4 & L5 & L6) & CL & CC & FS) SP] Hh Hlive.
  set (u := flagc h (cleared s h)).
  assert (CO : forall x, cell_of (cleared s h) x = if is_h h (cell_of s x) then None else cell_of s x).
  { intros x. unfold cleared, cell_of. cbn [inc_cell set_inc_cell]. rewrite nth_clear_fold. fold (cell_of s x).
    destruct (is_h h (cell_of s x)) eqn:I; [|rewrite andb_false_r; reflexivity].
    replace (memb x (cell_at s h)) with true; [reflexivity|]. symmetry. apply Base.ListLemmas.memb_In.
    unfold is_h in I. destruct (cell_of s x) as [c|] eqn:Cx; [|discriminate]. apply Nat.eqb_eq in I. subst c.
    assert (x < 2 * nf s).
    { destruct (Nat.lt_ge_cases x (2 * nf s)); [assumption|]. unfold cell_of in Cx. rewrite nth_overflow in Cx by (rewrite (L3 F); lia). discriminate. }
    apply (FO F x H h). exact Cx. }
  assert (NE : no_entry_to (cleared s h) h).
  { intros x. rewrite CO. destruct (cell_of s x) as [c|] eqn:Cx; cbn [is_h]; [|discriminate].
    destruct (Nat.eqb_spec c h) as [->|N]; [discriminate|]. intros H. inversion H. contradiction. }
  assert (CD : forall c, c_deleted u c = if c =? h then true else c_deleted s c).
  { intros c. unfold u, flagc, cleared, c_deleted. cbn [cdel set_cdel set_counts set_inc_cell]. rewrite Base.ListLemmas.nth_upd, L6.
    destruct (Nat.eqb_spec h c) as [->|N]; cbn [andb].
    - replace (c <? nc s) with true by (symmetry; apply Nat.ltb_lt; exact Hh). rewrite Nat.eqb_refl. reflexivity.
    - destruct (Nat.eqb_spec c h); [congruence|reflexivity]. }
  assert (COu : forall x, cell_of u x = cell_of (cleared s h) x) by reflexivity.
  split; [|exact NE]. split.
  - unfold core_inv. split; [exact E|]. split; [exact F|]. split; [exact D|]. split; [exact VO|].
    split; [|split; [|split; [|split; [|split]]]].
    + (* fbu_ok *)
      intros _ hf Hhf c. change (nf u) with (nf s) in Hhf. change (nc u) with (nc s). change (cell_at u c) with (cell_at s c).
      rewrite COu, CO, CD. split.
      * intros H. destruct (cell_of s hf) as [c0|] eqn:C0; cbn [is_h] in H; [|discriminate].
        destruct (Nat.eqb_spec c0 h) as [->|N]; [discriminate|]. inversion H; subst c0.
        destruct (proj1 (FO F hf Hhf c) C0) as (A & B & Cc). destruct (Nat.eqb_spec c h); [contradiction|]. auto.
      * intros (A & B & Cc). destruct (Nat.eqb_spec c h) as [->|N]; [discriminate|].
        rewrite (proj2 (FO F hf Hhf c) (conj A (conj B Cc))). cbn [is_h]. destruct (Nat.eqb_spec c h); [contradiction|reflexivity].
    + (* refs_ok *)
      split; [exact R1|]. split; [exact R2|]. intros c Hc Hd hf Hhf. rewrite CD in Hd. destruct (c =? h); [discriminate|].
      exact (R3 c Hc Hd hf Hhf).
    + (* lens_ok *)
      unfold lens_ok. split; [exact L1|]. split; [exact L2|]. split; [|split; [exact L4|split; [exact L5|]]].
      * intros _. unfold u, flagc, cleared. cbn [inc_cell set_cdel set_counts set_inc_cell]. rewrite length_clear_fold. exact (L3 F).
      * unfold u, flagc, cleared. cbn [cdel set_cdel set_counts set_inc_cell]. rewrite upd_length. exact L6.
    + (* cells_ref_live *)
      intros c hf Hc Hd Hhf. rewrite CD in Hd. destruct (c =? h); [discriminate|]. exact (CL c hf Hc Hd Hhf).
    + (* live_cells_closed: the other cells read nothing that changed *)
      intros c Hc Hd. rewrite CD in Hd. destruct (Nat.eqb_spec c h) as [->|N]; [discriminate|].
      pose proof (CC c Hc Hd) as Hcl. intros hf Hhf. change (cell_at u c) with (cell_at s c) in Hhf.
      destruct (Hcl hf Hhf) as [A B]. split; [|exact B].
      rewrite COu, CO, A. cbn [is_h]. destruct (Nat.eqb_spec c h); [contradiction|reflexivity].
    + exact FS.
  - exact SP.
Qed.

Theorem bu_inv2_delete_cell_core h s : bu_inv2 s -> h < nc s -> c_deleted s h = false -> bu_inv2 (delete_cell_core h s).
Proof.
  intros H Hh Hl. pose proof H as (_ & E & F & D & _).
  destruct (delete_cell_core_eq h s D F E) as [es ->].
  destruct (bu_inv2_cleared_flagged s h H Hh Hl) as [B N].
  rewrite <- (reorder_flag_commute h es _ N). apply bu_inv2_reorder_edges. exact B.
Qed.

Theorem bu_inv2_delete_cell c s : bu_inv2 s -> c < nc s -> c_deleted s c = false -> bu_inv2 (delete_cell c s).
Proof. exact (bu_inv2_delete_cell_core c s). Qed.

(* what the deletion leaves alone (used when deletions are chained) *)
Lemma delete_cell_core_view h s : deferred s = true -> fbu s = true -> ebu s = true ->
  let s' := delete_cell_core h s in
  nv s' = nv s /\ edges s' = edges s /\ faces s' = faces s /\ cells s' = cells s /\ edel s' = edel s /\ fdel s' = fdel s /\
  cdel s' = upd h true (cdel s) /\ out_hes s' = out_hes s /\ vbu s' = vbu s.
Proof.
  intros D F E. cbv zeta. destruct (delete_cell_core_eq h s D F E) as [es ->].
  destruct (reorder_edges_frame2 es (cleared s h)) as [x [-> _]]. repeat split; reflexivity.
Qed.
