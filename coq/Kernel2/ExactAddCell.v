(* Kernel2/ExactAddCell.v -- C01: add_cell with topology check keeps the strengthened invariant bu_inv2, provided the
   new cell's halffaces are live, belong to no cell yet, and the list does not contain a halfface together with its
   opposite.  The state after "append the cell + update the halfface->cell cache" is exact; the reorder_edges that
   follows is covered by Kernel2/ExactBase.v bu_inv2_reorder_edges. *)
From Coq Require Import ZArith Lia Bool Arith List ZifyNat ZifyBool Permutation.
From OVM Require Import Kernel.State Kernel.Ops Kernel.Mirror Kernel.Recompute Kernel.Closure Kernel.ExactInv Kernel.CellCheck
                        Kernel2.LookupModel Kernel2.ListAux Kernel2.AdjacentProofs Kernel2.RotationProofs Kernel2.ReorderExact
                        Kernel2.ExactBase.
Import ListNotations.
Ltac Zify.zify_post_hook ::= Z.div_mod_to_equations.
Local Open Scope nat_scope.

(* ================================================================== list facts *)

Lemma nth_fold_upd {A} (v : A) (d : A) hfs : forall l x,
  nth x (fold_left (fun l hf => upd hf v l) hfs l) d = if memb x hfs && (x <? length l) then v else nth x l d.
Proof.
  induction hfs as [|h t IH]; intros l x; [reflexivity|]. cbn [fold_left]. rewrite IH, upd_length, Base.ListLemmas.nth_upd.
  cbn [memb existsb]. fold (memb x t). rewrite (Nat.eqb_sym x h).
  destruct (memb x t); destruct (x <? length l) eqn:L; destruct (Nat.eqb_spec h x) as [->|]; simpl; rewrite ?L; simpl; reflexivity.
Qed.

Lemma length_fold_upd {A} (v : A) hfs : forall l, length (fold_left (fun l hf => upd hf v l) hfs l) = length l.
Proof. induction hfs as [|h t IH]; intros l; [reflexivity|]. cbn [fold_left]. rewrite IH. apply upd_length. Qed.

Lemma filter_unique_length (p : nat -> bool) a l :
  NoDup l -> In a l -> (forall x, p x = true <-> x = a) -> length (filter p l) = 1.
Proof.
  intros N I Hp. induction l as [|y t IH]; [destruct I|]. inversion N as [|? ? Hn Nt]; subst. simpl.
  destruct (p y) eqn:Py.
  - apply Hp in Py. subst y. simpl. f_equal.
    assert (Z : filter p t = []).
    { destruct (filter p t) as [|z r] eqn:Ez; [reflexivity|]. exfalso.
      assert (Hz : In z (filter p t)) by (rewrite Ez; left; reflexivity). apply filter_In in Hz. destruct Hz as [Hz Pz].
      apply Hp in Pz. subst z. contradiction. }
    rewrite Z. reflexivity.
  - destruct I as [->|I]; [|apply IH; assumption]. assert (p a = true) by (apply Hp; reflexivity). congruence.
Qed.

(* ================================================================== a checked cell is closed *)

Lemma halfface_simple s x he : simple_hes (face_at s (x / 2)) -> In he (halfface s x) -> ~ In (opp he) (halfface s x).
Proof.
  intros [_ S]. rewrite !In_halfface. destruct (Nat.even x); [apply S|].
  intros H. rewrite opp_involutive. intros H'. apply (S _ H). rewrite opp_involutive. exact H'.
Qed.

Lemma adj_matches_count s c hf he :
  (forall g, In g (cell_at s c) -> (g = hf \/ g = opp hf) -> filter (fun heh => opp heh =? he) (halfface s g) = []) ->
  length (adj_matches s c hf he) = length (filter (fun heh => opp heh =? he) (concat (map (halfface s) (cell_at s c)))).
Proof.
  unfold adj_matches. induction (cell_at s c) as [|g l IH]; intros H; [reflexivity|].
  cbn [flat_map map concat]. rewrite filter_app, !app_length. rewrite IH by (intros g' Hg'; apply H; right; exact Hg').
  f_equal. destruct (Nat.eqb_spec g hf) as [E|N1]; [|destruct (Nat.eqb_spec g (opp hf)) as [E|N2]]; cbn [orb].
  - rewrite (H g (or_introl eq_refl) (or_introl E)). reflexivity.
  - rewrite (H g (or_introl eq_refl) (or_intror E)). reflexivity.
  - apply map_length.
Qed.

Theorem closed_cell_of_check s c :
  (forall hf, In hf (cell_at s c) -> cell_of s hf = Some c) ->
  matched_once (concat (map (halfface s) (cell_at s c))) ->
  (forall hf, In hf (cell_at s c) -> simple_hes (face_at s (hf / 2))) ->
  (forall hf, In hf (cell_at s c) -> ~ In (opp hf) (cell_at s c)) ->
  closed_cell s c.
Proof.
  intros Hc [ND CL] Hs Hno hf Hin. split; [exact (Hc hf Hin)|]. intros he Hhe.
  rewrite adj_matches_count.
  - apply (filter_unique_length _ (opp he)); [exact ND| |].
    + apply CL. apply in_concat. exists (halfface s hf). split; [apply in_map; exact Hin|exact Hhe].
    + intros x. rewrite Nat.eqb_eq. apply opp_eq_iff.
  - intros g Hg [->| ->].
    + destruct (filter (fun heh => opp heh =? he) (halfface s hf)) as [|z r] eqn:Ez; [reflexivity|]. exfalso.
      assert (Hz : In z (filter (fun heh => opp heh =? he) (halfface s hf))) by (rewrite Ez; left; reflexivity).
      apply filter_In in Hz. destruct Hz as [Hz Pz]. apply Nat.eqb_eq in Pz. apply opp_eq_iff in Pz. subst z.
      exact (halfface_simple s hf he (Hs hf Hin) Hhe Hz).
    + exfalso. exact (Hno hf Hin Hg).
Qed.

(* ================================================================== the state add_cell hands to reorder_edges *)

Definition cell_added (s : mesh) (hfs : list nat) : mesh :=
  set_inc_cell (fold_left (fun l hf => upd hf (Some (nc s)) l) hfs (inc_cell s))
    (resize_cprops (S (nc s)) (set_cdel (cdel s ++ [false]) (set_cells (cells s ++ [hfs]) s))).

Lemma append_cell_eq s hfs : fbu s = true -> ebu s = true ->
  exists es, append_cell s hfs = (reorder_edges es (cell_added s hfs), nc s).
Proof.
  intros F E. unfold append_cell. cbv zeta.
  change (fbu (resize_cprops (S (nc s)) (set_cdel (cdel s ++ [false]) (set_cells (cells s ++ [hfs]) s)))) with (fbu s).
  rewrite F.
  match goal with |- context [if ebu ?t then _ else _] => change (ebu t) with (ebu s) end. rewrite E.
  eexists. reflexivity.
Qed.

(* what the new cell must satisfy (the Prop behind valid_op2 for AddCell) *)
Definition new_cell_ok (s : mesh) (hfs : list nat) : Prop :=
  cell_check s hfs = true /\
  (forall hf, In hf hfs -> hf / 2 < nf s /\ f_deleted s (hf / 2) = false /\ cell_of s hf = None /\ ~ In (opp hf) hfs).

Theorem bu_inv2_cell_added s hfs : bu_inv2 s -> new_cell_ok s hfs -> bu_inv2 (cell_added s hfs).
Proof.
  rewrite !bu_inv2_iff.
  intros [(E & F & D & VO & FO & (R1 & R2 & R3) & (L1 & L2 & L3 & L4 & L5 & L6) & CL & CC & FS) SP] [Hchk Hnew].
  set (t := cell_added s hfs). set (c := nc s) in *.
  assert (NCt : nc t = S c) by (unfold t, cell_added, nc; cbn [cells set_inc_cell resize_cprops resize_props set_props set_cdel set_cells]; rewrite app_length; simpl; fold (nc s); lia).
  assert (CAt : forall c', cell_at t c' = if c' <? c then cell_at s c' else if c' =? c then hfs else []).
  { intros c'. unfold t, cell_added, cell_at. cbn [cells set_inc_cell resize_cprops resize_props set_props set_cdel set_cells]. apply nth_app_last. }
  assert (CDt : forall c', c_deleted t c' = if c' <? c then c_deleted s c' else false).
  { intros c'. unfold t, cell_added, c_deleted. cbn [cdel set_inc_cell resize_cprops resize_props set_props set_cdel set_cells].
    rewrite nth_app_last, L6. fold c. destruct (c' <? c); [reflexivity|]. destruct (c' =? c); reflexivity. }
  assert (COt : forall x, cell_of t x = if memb x hfs && (x <? 2 * nf s) then Some c else cell_of s x).
  { intros x. unfold t, cell_added, cell_of. cbn [inc_cell set_inc_cell]. rewrite nth_fold_upd, (L3 F). reflexivity. }
  assert (Hlt : forall hf, In hf hfs -> hf < 2 * nf s) by (intros hf Hhf; destruct (Hnew hf Hhf) as [A _]; lia).
  assert (COin : forall hf, In hf hfs -> cell_of t hf = Some c).
  { intros hf Hhf. rewrite COt. apply Base.ListLemmas.memb_In in Hhf. rewrite Hhf.
    replace (hf <? 2 * nf s) with true; [reflexivity|]. symmetry. apply Nat.ltb_lt. apply Hlt. apply Base.ListLemmas.memb_In. exact Hhf. }
  assert (COout : forall x, ~ In x hfs -> cell_of t x = cell_of s x).
  { intros x Hx. rewrite COt. destruct (memb x hfs) eqn:M; [apply Base.ListLemmas.memb_In in M; contradiction|reflexivity]. }
  assert (Hold : forall c' hf, c' < c -> c_deleted s c' = false -> In hf (cell_at s c') -> ~ In hf hfs).
  { intros c' hf Hc' Hd Hin Hhf. destruct (Hnew hf Hhf) as (A & _ & N & _).
    assert (cell_of s hf = Some c') by (apply (FO F hf ltac:(lia) c'); auto). congruence. }
  split.
  - unfold core_inv. split; [exact E|]. split; [exact F|]. split; [exact D|]. split; [exact VO|].
    split; [|split; [|split; [|split; [|split]]]].
    + (* fbu_ok *)
      intros _ hf Hhf c'. change (nf t) with (nf s) in Hhf. rewrite NCt, CDt, CAt.
      destruct (in_dec Nat.eq_dec hf hfs) as [Hin|Hout].
      * rewrite (COin hf Hin). destruct (Hnew hf Hin) as (_ & _ & N & _). split.
        -- intros H. inversion H; subst c'. rewrite Nat.ltb_irrefl, Nat.eqb_refl. repeat split; auto; lia.
        -- intros (A & B & Cc). destruct (Nat.ltb_spec c' c) as [Hl|Hg].
           ++ exfalso. exact (Hold c' hf Hl B Cc Hin).
           ++ f_equal. lia.
      * rewrite (COout hf Hout). rewrite (FO F hf Hhf c'). fold c. split.
        -- intros (A & B & Cc). replace (c' <? c) with true by (symmetry; apply Nat.ltb_lt; exact A). repeat split; auto; lia.
        -- intros (A & B & Cc). destruct (Nat.ltb_spec c' c) as [Hl|Hg]; [tauto|].
           destruct (Nat.eqb_spec c' c); [contradiction|destruct Cc].
    + (* refs_ok *)
      split; [exact R1|]. split; [exact R2|]. intros c' Hc' Hd hf Hhf. change (nf t) with (nf s). rewrite NCt in Hc'.
      rewrite CDt in Hd. rewrite CAt in Hhf. destruct (Nat.ltb_spec c' c) as [Hl|Hg]; [exact (R3 c' Hl Hd hf Hhf)|].
      replace (c' =? c) with true in Hhf by (symmetry; apply Nat.eqb_eq; lia). exact (Hlt hf Hhf).
    + (* lens_ok *)
      unfold lens_ok. split; [exact L1|]. split; [exact L2|]. split; [|split; [exact L4|split; [exact L5|]]].
      * intros _. unfold t, cell_added. cbn [inc_cell set_inc_cell]. rewrite length_fold_upd. exact (L3 F).
      * rewrite NCt. unfold t, cell_added. cbn [cdel set_inc_cell resize_cprops resize_props set_props set_cdel set_cells].
        rewrite app_length, L6. simpl. fold c. lia.
    + (* cells_ref_live *)
      intros c' hf Hc' Hd Hhf. change (nf t) with (nf s). change (f_deleted t (hf / 2)) with (f_deleted s (hf / 2)).
      rewrite NCt in Hc'. rewrite CDt in Hd. rewrite CAt in Hhf. destruct (Nat.ltb_spec c' c) as [Hl|Hg]; [exact (CL c' hf Hl Hd Hhf)|].
      replace (c' =? c) with true in Hhf by (symmetry; apply Nat.eqb_eq; lia). destruct (Hnew hf Hhf) as (A & B & _). auto.
    + (* live_cells_closed *)
      intros c' Hc' Hd. rewrite NCt in Hc'. rewrite CDt in Hd. destruct (Nat.ltb_spec c' c) as [Hl|Hg].
      * (* an old cell: nothing it reads has changed *)
        pose proof (CC c' Hl Hd) as Hcl.
        assert (CA' : cell_at t c' = cell_at s c') by (rewrite CAt; replace (c' <? c) with true by (symmetry; apply Nat.ltb_lt; exact Hl); reflexivity).
        intros hf Hhf. rewrite CA' in Hhf. destruct (Hcl hf Hhf) as [A B]. split.
        -- rewrite (COout hf (Hold c' hf Hl Hd Hhf)). exact A.
        -- intros he Hhe. unfold adj_matches. rewrite CA'. exact (B he Hhe).
      * assert (c' = c) by lia. subst c'.
        assert (CA' : cell_at t c = hfs) by (rewrite CAt, Nat.ltb_irrefl, Nat.eqb_refl; reflexivity).
        apply closed_cell_of_check; rewrite CA'.
        -- exact COin.
        -- apply (cell_check_spec s hfs). exact Hchk.
        -- intros hf Hhf. destruct (Hnew hf Hhf) as (A & B & _). exact (FS (hf / 2) A B).
        -- intros hf Hhf. destruct (Hnew hf Hhf) as (_ & _ & _ & N). exact N.
    + exact FS.
  - exact SP.
Qed.

Theorem bu_inv2_add_cell s hfs : bu_inv2 s -> new_cell_ok s hfs -> bu_inv2 (fst (add_cell s hfs true)).
Proof.
  intros H [Hchk Hnew]. unfold add_cell. rewrite Hchk. cbn [andb negb].
  pose proof H as (_ & E & F & _). destruct (append_cell_eq s hfs F E) as [es ->]. cbn [fst].
  apply bu_inv2_reorder_edges. apply bu_inv2_cell_added; [exact H|split; assumption].
Qed.

(* a rejected add_cell changes nothing *)
Lemma add_cell_rejected_state s hfs : cell_check s hfs = false -> fst (add_cell s hfs true) = s.
Proof. intros H. unfold add_cell. rewrite H. reflexivity. Qed.
