(* Kernel2/ReorderExact.v -- reorder_incident_halffaces and cache exactness (C01 meets C09).
   (R1) reorder_incident_halffaces e s differs from s at most in inc_hfs at the two slots 2e and 2e+1.
   (R2) LOCAL FORM (reorder_permutes_local): if the list L at 2e is duplicate-free, closed under the forward and the
        backward walk step (walk_closed), the two steps are inverse to each other on L (adj_involutive_on) and the
        list at 2e+1 is a permutation of map opp L, then the new lists are PERMUTATIONS of the old ones.
        walk_closed follows from what the cells the walk READS contribute to the edge (walk_closed_of_cells), or from
        completeness of L (cells_feed_slot_of_complete); the involution follows from closedness of the read cells
        (adj_involutive_of_read_closed).  GLOBAL FORM (reorder_permutes): ebu_ok-exact duplicate-free slots, fbu_ok,
        live cells closed (closed_cell_b) and referencing live faces.
        Without closed cells this is FALSE, also in reachable states: reorder_permutation_refuted (two cells, accepted
        by add_cell without topology check, each with three halffaces at one edge).
   (R3) the bundle reorder_inv is preserved by reorder_incident_halffaces e and by reorder_edges es, for any e, es;
        in particular ebu_ok, fbu_ok, vbu_ok (reorder_edges_keeps_caches_exact). *)
From Coq Require Import ZArith Lia Bool Arith List ZifyNat ZifyBool Permutation.
From OVM Require Import Kernel.State Kernel.Ops Kernel.Mirror Kernel.Closure Kernel.InvB
                        Kernel2.LookupModel Kernel2.ListAux Kernel2.AdjacentProofs Kernel2.RotationProofs.
Import ListNotations.
Ltac Zify.zify_post_hook ::= Z.div_mod_to_equations.
Local Open Scope nat_scope.

(* ================================================================== R1: the frame *)

Lemma set_inc_hfs_self s : set_inc_hfs (inc_hfs s) s = s.
Proof. destruct s; reflexivity. Qed.

Lemma reorder_is_set_inc_hfs e s : exists x, reorder_incident_halffaces e s = set_inc_hfs x s /\ length x = length (inc_hfs s).
Proof.
  unfold reorder_incident_halffaces. destruct (reorder_list s e) as [l|].
  - eexists. split; [reflexivity|]. rewrite !upd_length. reflexivity.
  - exists (inc_hfs s). split; [symmetry; apply set_inc_hfs_self|reflexivity].
Qed.

(* every slot other than 2e and 2e+1 is untouched *)
Theorem reorder_other_slots e s k :
  k <> 2 * e -> k <> 2 * e + 1 -> hfs_at (reorder_incident_halffaces e s) k = hfs_at s k.
Proof.
  intros H0 H1. unfold reorder_incident_halffaces. destruct (reorder_list s e) as [l|]; [|reflexivity].
  unfold hfs_at. simpl inc_hfs. rewrite !nth_upd_other by lia. reflexivity.
Qed.

Theorem reorder_inc_hfs_length e s : length (inc_hfs (reorder_incident_halffaces e s)) = length (inc_hfs s).
Proof. destruct (reorder_is_set_inc_hfs e s) as [x [-> L]]. exact L. Qed.

(* every component other than inc_hfs is untouched (same content as Kernel/Construct.v
   reorder_incident_halffaces_frame, in the form the proofs below use) *)
Theorem reorder_frame e s : exists x, reorder_incident_halffaces e s = set_inc_hfs x s.
Proof. destruct (reorder_is_set_inc_hfs e s) as [x [E _]]. eauto. Qed.

(* ================================================================== the walks, read backwards *)

Lemma fwd_inv s n h start : forall fuel cur acc r,
  reorder_fwd fuel s n h start cur acc = Some r ->
  exists w, r = acc ++ cur :: w /\ linked (fwd_link s h) (cur :: w) /\ (forall y, In y w -> y <> start) /\
            (hf_is_open s (last (cur :: w) 0) = true \/ fwd_link s h (last (cur :: w) 0) start).
Proof.
  induction fuel as [|fuel IH]; intros cur acc r; simpl; [discriminate|].
  destruct (n <? length (acc ++ [cur])); [discriminate|].
  destruct (hf_is_open s cur) eqn:O.
  - intros H. inversion H; subst r. exists []. split; [reflexivity|]. split; [constructor|]. split; [intros y []|].
    left. exact O.
  - destruct (adjacent_halfface_in_cell s cur h) as [a|] eqn:A; [|discriminate].
    destruct (Nat.eqb_spec (opp a) start) as [E|E].
    + intros H. inversion H; subst r. exists []. split; [reflexivity|]. split; [constructor|]. split; [intros y []|].
      right. split; [exact O|]. simpl. rewrite A. f_equal. apply opp_eq_iff. exact E.
    + intros H. destruct (IH _ _ _ H) as [w [Er [Hl [Hne Hend]]]]. exists (opp a :: w).
      split; [rewrite Er, <- app_assoc; reflexivity|]. split.
      * constructor; [|exact Hl]. split; [exact O|]. rewrite A, opp_involutive. reflexivity.
      * split; [intros y [<-|Hy]; auto|]. exact Hend.
Qed.

Lemma bwd_inv s n h : forall fuel cur acc r,
  reorder_bwd fuel s n (opp h) cur acc = Some r ->
  exists rpre, r = rev rpre ++ acc /\ linked (fun x y => bwd_link s h y x) (cur :: rpre) /\
               hf_is_open s (opp (last (cur :: rpre) 0)) = true.
Proof.
  induction fuel as [|fuel IH]; intros cur acc r; simpl; [discriminate|].
  destruct (hf_is_open s (opp cur)) eqn:O.
  - intros H. inversion H; subst r. exists []. split; [reflexivity|]. split; [constructor|exact O].
  - destruct (adjacent_halfface_in_cell s (opp cur) (opp h)) as [a|] eqn:A; [|discriminate].
    destruct (n <? S (length acc)); [discriminate|].
    intros H. destruct (IH _ _ _ H) as [rpre [Er [Hl Hend]]]. exists (a :: rpre).
    split; [rewrite Er; simpl; rewrite <- app_assoc; reflexivity|]. split.
    + constructor; [|exact Hl]. split; assumption.
    + exact Hend.
Qed.

(* ================================================================== two ways a linked list has no repetition *)

Lemma hd_nth (l : list nat) : hd 0 l = nth 0 l 0.
Proof. destruct l; reflexivity. Qed.

(* a deterministic relation: the walk stops at the first element without successor, or at the first return to
   its head *)
Lemma nodup_deterministic (R : nat -> nat -> Prop) L :
  (forall x y y', R x y -> R x y' -> y = y') -> linked R L ->
  ((forall y, ~ R (last L 0) y) \/ (R (last L 0) (hd 0 L) /\ forall i, 0 < i < length L -> nth i L 0 <> hd 0 L)) ->
  NoDup L.
Proof.
  intros Hdet Hl Hend. destruct L as [|x0 t]; [constructor|]. set (L := x0 :: t) in *.
  assert (Hne : L <> []) by discriminate.
  assert (K : forall d j i, j + d = length L - 1 -> i < j -> nth i L 0 = nth j L 0 -> False).
  { induction d as [|d IH]; intros j i Hj Hij E.
    - assert (R (nth i L 0) (nth (S i) L 0)) as Ri by (apply linked_nth; [exact Hl|lia]).
      rewrite E in Ri. replace j with (length L - 1) in Ri by lia. rewrite <- (last_nth L 0 Hne) in Ri.
      destruct Hend as [Hno|[Hback Hhd]].
      + exact (Hno _ Ri).
      + apply (Hhd (S i)); [lia|]. exact (Hdet _ _ _ Ri Hback).
    - apply (IH (S j) (S i)); [lia|lia|].
      assert (R (nth i L 0) (nth (S i) L 0)) as Ri by (apply linked_nth; [exact Hl|lia]).
      assert (R (nth j L 0) (nth (S j) L 0)) as Rj by (apply linked_nth; [exact Hl|lia]).
      rewrite E in Ri. exact (Hdet _ _ _ Ri Rj). }
  apply (proj2 (NoDup_nth L 0)). intros i j Hi Hj E.
  destruct (Nat.lt_trichotomy i j) as [Hlt|[Heq|Hgt]]; [|exact Heq|].
  - exfalso. apply (K (length L - 1 - j) j i); [lia|exact Hlt|exact E].
  - exfalso. apply (K (length L - 1 - i) i j); [lia|exact Hgt|symmetry; exact E].
Qed.

(* an injective relation and a head without predecessor *)
Lemma nodup_injective (R : nat -> nat -> Prop) L :
  (forall x x' y, In x L -> In x' L -> R x y -> R x' y -> x = x') -> linked R L ->
  (forall a, In a L -> ~ R a (hd 0 L)) -> NoDup L.
Proof.
  intros Hinj Hl Hhd.
  assert (K : forall i d, i + d < length L -> nth i L 0 = nth (i + d) L 0 -> d = 0).
  { induction i as [|i IH]; intros d Hb E.
    - destruct d as [|d]; [reflexivity|]. exfalso. simpl in E.
      assert (R (nth d L 0) (nth (S d) L 0)) as Rd by (apply linked_nth; [exact Hl|lia]).
      rewrite <- E, <- hd_nth in Rd. apply (Hhd (nth d L 0)); [apply nth_In; lia|exact Rd].
    - apply IH; [lia|].
      assert (R (nth i L 0) (nth (S i) L 0)) as Ri by (apply linked_nth; [exact Hl|lia]).
      assert (R (nth (i + d) L 0) (nth (S (i + d)) L 0)) as Rj by (apply linked_nth; [exact Hl|lia]).
      replace (S i + d) with (S (i + d)) in E by lia. rewrite <- E in Rj.
      apply (Hinj (nth i L 0) (nth (i + d) L 0) (nth (S i) L 0)); [apply nth_In; lia|apply nth_In; lia|exact Ri|exact Rj]. }
  apply (proj2 (NoDup_nth L 0)). intros i j Hi Hj E.
  destruct (Nat.le_ge_cases i j) as [H|H].
  - pose proof (K i (j - i) ltac:(lia)) as Kd. replace (i + (j - i)) with j in Kd by lia. specialize (Kd E). lia.
  - pose proof (K j (i - j) ltac:(lia)) as Kd. replace (j + (i - j)) with i in Kd by lia. specialize (Kd (eq_sym E)). lia.
Qed.

Lemma fwd_link_det s h x y y' : fwd_link s h x y -> fwd_link s h x y' -> y = y'.
Proof. intros [_ A] [_ A']. rewrite A in A'. inversion A'. apply opp_inj. assumption. Qed.

Lemma bwd_link_inj s h x x' y : bwd_link s h x y -> bwd_link s h x' y -> x = x'.
Proof. intros [_ A] [_ A']. rewrite A in A'. inversion A'. reflexivity. Qed.

(* all elements of a linked list stay in a set closed under the relation *)
Lemma linked_closed (R : nat -> nat -> Prop) (S : nat -> Prop) : forall l x0,
  S x0 -> (forall x y, S x -> R x y -> S y) -> linked R (x0 :: l) -> forall z, In z (x0 :: l) -> S z.
Proof.
  induction l as [|y l IH]; intros x0 H0 Hcl Hl z [<-|Hz]; auto; [destruct Hz|].
  apply linked_inv in Hl. destruct Hl as [Rxy Hl]. apply (IH y); auto. apply (Hcl x0); assumption.
Qed.

(* ================================================================== R2: hypotheses *)

(* a live cell references live, in-range faces *)
Definition cells_ref_live (s : mesh) : Prop :=
  forall c hf, c < nc s -> c_deleted s c = false -> In hf (cell_at s c) -> hf / 2 < nf s /\ f_deleted s (hf / 2) = false.

(* the cache of halfedge h: exact (the instance of ebu_ok at h) and duplicate-free *)
Definition slot_exact (s : mesh) (h : nat) : Prop :=
  NoDup (hfs_at s h) /\
  forall x, In x (hfs_at s h) <-> (x / 2 < nf s /\ f_deleted s (x / 2) = false /\ In h (halfface s x)).

(* adjacency across the edge is an involution on the halffaces around halfedge h: walking forward and then
   backward (or backward and then forward) returns to the start *)
Definition adj_involutive_on (s : mesh) (h : nat) (L : list nat) : Prop :=
  (forall x y, In x L -> fwd_link s h x y -> bwd_link s h x y) /\
  (forall x y, In y L -> bwd_link s h x y -> fwd_link s h x y).
Definition adj_involutive_at (s : mesh) (h : nat) : Prop := adj_involutive_on s h (hfs_at s h).

(* the list is closed under the two walk steps wherever they are defined *)
Definition walk_closed (s : mesh) (h : nat) (L : list nat) : Prop :=
  (forall x y, In x L -> fwd_link s h x y -> In y L) /\ (forall x y, In y L -> bwd_link s h x y -> In x L).

Definition live_cells_closed (s : mesh) : Prop :=
  forall c, c < nc s -> c_deleted s c = false -> closed_cell s c.

Lemma In_halfface_opp s x h : In h (halfface s x) <-> In (opp h) (halfface s (opp x)).
Proof.
  rewrite halfface_opp, <- in_rev, in_map_iff. split.
  - intros H. exists h. auto.
  - intros [y [E Hy]]. apply opp_inj in E. subst. exact Hy.
Qed.

Lemma not_open_cell s x : hf_is_open s x = false -> exists c, cell_of s x = Some c /\ c_deleted s c = false.
Proof. unfold hf_is_open. destruct (cell_of s x) as [c|]; [eauto|discriminate]. Qed.

Lemma div2_lt_bound x n : x / 2 < n -> x < 2 * n.
Proof. lia. Qed.

(* ---- local hypotheses: only what the walk reads ---- *)

(* (a) the halfface->cell cache is sound where the walk reads it (at in-range halffaces that are not open): the halfface
   belongs to the cell it is mapped to, that cell is closed, and it references live faces.  Nothing is asked of
   cells no cache entry points to (e.g. a dying cell whose entries have been cleared already). *)
Definition cell_read_ok (s : mesh) : Prop :=
  forall x c, x / 2 < nf s -> cell_of s x = Some c -> c_deleted s c = false ->
    In x (cell_at s c) /\ closed_cell s c /\
    (forall hf, In hf (cell_at s c) -> hf / 2 < nf s /\ f_deleted s (hf / 2) = false).

(* (b) about the list L itself *)
Definition slot_sound (s : mesh) (h : nat) (L : list nat) : Prop :=
  forall x, In x L -> x / 2 < nf s /\ In h (halfface s x).
Definition slot_complete (s : mesh) (h : nat) (L : list nat) : Prop :=
  forall x, x / 2 < nf s -> f_deleted s (x / 2) = false -> In h (halfface s x) -> In x L.

(* closure under the walk steps FOLLOWS from completeness of the list (every live halfface containing h is in L) *)
Lemma walk_closed_of_complete s h L :
  cell_read_ok s -> slot_sound s h L -> slot_complete s h L -> walk_closed s h L.
Proof.
  intros Hcr Hs Hc. split.
  - intros x y Hx [O A]. destruct (Hs x Hx) as [Hlt Hh].
    destruct (not_open_cell s x O) as [c [Hcx Hd]]. destruct (Hcr x c Hlt Hcx Hd) as [_ [_ Hlive]].
    destruct (adjacent_result_spec s x h (opp y) A) as [c' [he1 [Hc' [Hr [Hin [_ [_ Hopp]]]]]]].
    rewrite Hcx in Hc'. inversion Hc'; subst c'.
    rewrite (resolve_he_member s x h Hh) in Hr. inversion Hr; subst he1.
    destruct (Hlive (opp y) Hin) as [L1 L2]. rewrite opp_div2 in L1, L2.
    apply Hc; [exact L1|exact L2|]. apply In_halfface_opp. exact Hopp.
  - intros x y Hy [O A]. destruct (Hs y Hy) as [Hlt Hh].
    destruct (not_open_cell s (opp y) O) as [c [Hcy Hd]].
    assert (Hlt' : opp y / 2 < nf s) by (rewrite opp_div2; exact Hlt).
    destruct (Hcr (opp y) c Hlt' Hcy Hd) as [_ [_ Hlive]].
    destruct (adjacent_result_spec s (opp y) (opp h) x A) as [c' [he1 [Hc' [Hr [Hin [_ [_ Hopp]]]]]]].
    rewrite Hcy in Hc'. inversion Hc'; subst c'.
    rewrite (resolve_he_member s (opp y) (opp h) (proj1 (In_halfface_opp s y h) Hh)) in Hr. inversion Hr; subst he1.
    destruct (Hlive x Hin) as [L1 L2]. rewrite opp_involutive in Hopp. apply Hc; assumption.
Qed.

(* (a'), the part of (a) the involution needs *)
Definition cell_read_closed (s : mesh) : Prop :=
  forall x c, x / 2 < nf s -> cell_of s x = Some c -> c_deleted s c = false -> In x (cell_at s c) /\ closed_cell s c.

Lemma cell_read_ok_closed s : cell_read_ok s -> cell_read_closed s.
Proof. intros H x c A B C. destruct (H x c A B C) as [P [Q _]]. auto. Qed.

(* closed cells give the involution *)
Lemma adj_involutive_of_read_closed s h L : cell_read_closed s -> slot_sound s h L -> adj_involutive_on s h L.
Proof.
  intros Hcr Hs. split.
  - intros x y Hx F. destruct (Hs x Hx) as [Hlt Hh]. destruct F as [O A].
    destruct (not_open_cell s x O) as [c [Hc Hd]]. destruct (Hcr x c Hlt Hc Hd) as [Hin Hcl].
    exact (bwd_of_fwd_closed s h x y c (conj O A) Hc Hcl Hin Hh).
  - intros x y Hy [O A]. destruct (Hs y Hy) as [Hlt Hh].
    destruct (not_open_cell s (opp y) O) as [c [Hc Hd]].
    assert (Hlt' : opp y / 2 < nf s) by (rewrite opp_div2; exact Hlt).
    destruct (Hcr (opp y) c Hlt' Hc Hd) as [Hin Hclc].
    destruct (adjacent_closed_cell s c (opp y) (opp h) Hclc Hin (proj1 (In_halfface_opp s y h) Hh))
      as [hf' [E [[C1 _] [_ Back]]]].
    rewrite A in E. inversion E; subst hf'. rewrite opp_involutive in Back. split; [|exact Back].
    unfold hf_is_open. rewrite (proj1 (Hclc x C1)). exact Hd.
Qed.
Lemma adj_involutive_of_closed s h L : cell_read_ok s -> slot_sound s h L -> adj_involutive_on s h L.
Proof. intros H. apply adj_involutive_of_read_closed. apply cell_read_ok_closed. exact H. Qed.

(* (b'): closure under the walk steps needs completeness only for the halffaces of the cells the walk reads: whatever a
   read cell contributes to the edge is in the list (an entity in no read cell, e.g. the face being deleted, is free) *)
Definition cells_feed_slot (s : mesh) (h : nat) (L : list nat) : Prop :=
  forall z c g, z / 2 < nf s -> cell_of s z = Some c -> c_deleted s c = false -> In g (cell_at s c) ->
    (In h (halfface s g) -> In g L) /\ (In (opp h) (halfface s g) -> In (opp g) L).

Lemma walk_closed_of_cells s h L : slot_sound s h L -> cells_feed_slot s h L -> walk_closed s h L.
Proof.
  intros Hs Hfeed. split.
  - intros x y Hx [O A]. destruct (Hs x Hx) as [Hlt Hh].
    destruct (not_open_cell s x O) as [c [Hcx Hd]].
    destruct (adjacent_result_spec s x h (opp y) A) as [c' [he1 [Hc' [Hr [Hin [_ [_ Hopp]]]]]]].
    rewrite Hcx in Hc'. inversion Hc'; subst c'.
    rewrite (resolve_he_member s x h Hh) in Hr. inversion Hr; subst he1.
    destruct (Hfeed x c (opp y) Hlt Hcx Hd Hin) as [_ F]. specialize (F Hopp). rewrite opp_involutive in F. exact F.
  - intros x y Hy [O A]. destruct (Hs y Hy) as [Hlt Hh].
    destruct (not_open_cell s (opp y) O) as [c [Hcy Hd]].
    assert (Hlt' : opp y / 2 < nf s) by (rewrite opp_div2; exact Hlt).
    destruct (adjacent_result_spec s (opp y) (opp h) x A) as [c' [he1 [Hc' [Hr [Hin [_ [_ Hopp]]]]]]].
    rewrite Hcy in Hc'. inversion Hc'; subst c'.
    rewrite (resolve_he_member s (opp y) (opp h) (proj1 (In_halfface_opp s y h) Hh)) in Hr. inversion Hr; subst he1.
    rewrite opp_involutive in Hopp. destruct (Hfeed (opp y) c x Hlt' Hcy Hd Hin) as [F _]. exact (F Hopp).
Qed.

Lemma cells_feed_slot_of_complete s h L : cell_read_ok s -> slot_complete s h L -> cells_feed_slot s h L.
Proof.
  intros Hcr Hc z c g Hz Hcz Hd Hg. destruct (Hcr z c Hz Hcz Hd) as [_ [_ Hlive]]. destruct (Hlive g Hg) as [L1 L2]. split.
  - intros Hh. apply Hc; assumption.
  - intros Hh. apply Hc; rewrite ?opp_div2; try assumption. apply In_halfface_opp. rewrite !opp_involutive. exact Hh.
Qed.

(* the global invariants give the local hypothesis *)
Lemma cell_read_ok_of_global s :
  fbu s = true -> fbu_ok s -> cells_ref_live s -> live_cells_closed s -> cell_read_ok s.
Proof.
  intros Hf Hfb Hlive Hcl x c Hlt Hc Hd.
  destruct (proj1 (Hfb Hf x (div2_lt_bound _ _ Hlt) c) Hc) as [Hcn [_ Hin]].
  split; [exact Hin|]. split; [exact (Hcl c Hcn Hd)|]. intros hf Hhf. exact (Hlive c hf Hcn Hd Hhf).
Qed.

(* ================================================================== R2: the list that is written is a permutation *)

Lemma hd_rev_app (rpre : list nat) x w : hd 0 (rev rpre ++ x :: w) = last (x :: rpre) 0.
Proof.
  destruct rpre as [|p r] using rev_ind; [reflexivity|].
  rewrite rev_app_distr. change (x :: r ++ [p]) with ((x :: r) ++ [p]). rewrite last_snoc. reflexivity.
Qed.

(* LOCAL FORM -- only what the walk itself needs of the state: the list at 2e is duplicate-free, closed under the
   forward and the backward step, and on it the two steps are inverse to each other *)
Theorem reorder_list_permutation_local s e l :
  NoDup (hfs_at s (2 * e)) -> walk_closed s (2 * e) (hfs_at s (2 * e)) ->
  adj_involutive_on s (2 * e) (hfs_at s (2 * e)) ->
  reorder_list s e = Some l -> Permutation l (hfs_at s (2 * e)).
Proof.
  intros Hnd [Hwf Hwb] [Hfb_inv Hbf_inv].
  unfold reorder_list. set (h := 2 * e) in *. set (inc := hfs_at s h) in *. set (n := length inc) in *.
  destruct (n <? 2); [discriminate|].
  destruct inc as [|start rest] eqn:Einc; [discriminate|].
  assert (Hstart : In start (hfs_at s h)) by (fold inc; rewrite Einc; left; reflexivity).
  assert (Hcache : forall z, In z (hfs_at s h) -> In z (start :: rest)).
  { intros z Hz. change (hfs_at s h) with inc in Hz. rewrite Einc in Hz. exact Hz. }
  assert (Hcache' : forall z, In z (start :: rest) -> In z (hfs_at s h)).
  { intros z Hz. change (hfs_at s h) with inc. rewrite Einc. exact Hz. }
  destruct (reorder_fwd (n + 2) s n h start start []) as [acc|] eqn:Efwd; [|discriminate].
  destruct (fwd_inv s n h start _ _ _ _ Efwd) as [w [Eacc [Hl [Hne Hend]]]]. simpl in Eacc. subst acc.
  (* everything the forward walk collects is in the cache *)
  assert (Hin_fwd : forall z, In z (start :: w) -> In z (hfs_at s h)).
  { apply (linked_closed (fwd_link s h) (fun z => In z (hfs_at s h)) w start Hstart); [|exact Hl].
    intros x y Hx F. apply Hcache'. exact (Hwf x y (Hcache x Hx) F). }
  assert (Hperm : forall L, NoDup L -> (forall z, In z L -> In z (hfs_at s h)) -> length L = n -> Permutation L (start :: rest)).
  { intros L HndL Hincl HlenL. apply NoDup_Permutation_bis; [exact HndL| |].
    - rewrite HlenL. unfold n. apply Nat.le_refl.
    - intros z Hz. specialize (Hincl z Hz). change (hfs_at s h) with inc in Hincl. rewrite Einc in Hincl. exact Hincl. }
  destruct (Nat.eqb_spec (length (start :: w)) n) as [En|En].
  - (* the forward walk found everything *)
    rewrite En, Nat.eqb_refl. intros H. inversion H; subst l. apply Hperm; [|exact Hin_fwd|exact En].
    apply (nodup_deterministic (fwd_link s h)); [apply fwd_link_det|exact Hl|].
    destruct Hend as [O|F].
    + left. intros y [O' _]. congruence.
    + right. simpl hd. split; [exact F|]. intros i [Hi0 Hi]. destruct i as [|i]; [lia|]. simpl.
      apply Hne. apply nth_In. simpl in Hi. lia.
  - (* boundary edge: backward walk *)
    destruct (reorder_bwd (n + 2) s n (opp h) start (start :: w)) as [acc2|] eqn:Ebwd; [|discriminate].
    destruct (Nat.eqb_spec (length acc2) n) as [En2|_]; [|discriminate].
    intros H. inversion H; subst l.
    destruct (bwd_inv s n h _ _ _ _ Ebwd) as [rpre [Eacc2 [Hlb Hopen]]]. subst acc2.
    assert (Hin_bwd : forall z, In z (start :: rpre) -> In z (hfs_at s h)).
    { apply (linked_closed (fun x y => bwd_link s h y x) (fun z => In z (hfs_at s h)) rpre start Hstart); [|exact Hlb].
      intros x y Hx B. apply Hcache'. exact (Hwb y x (Hcache x Hx) B). }
    assert (Hin_all : forall z, In z (rev rpre ++ start :: w) -> In z (hfs_at s h)).
    { intros z Hz. apply in_app_or in Hz. destruct Hz as [Hz|Hz]; [|apply Hin_fwd; exact Hz].
      apply Hin_bwd. right. apply in_rev. exact Hz. }
    apply Hperm; [|exact Hin_all|exact En2].
    (* the backward part, read forward, is linked by fwd_link too *)
    assert (Hl_flip : linked (fun x y => fwd_link s h y x) (start :: rpre)).
    { apply (linked_impl_in (fun x y => bwd_link s h y x)); [|exact Hlb].
      intros x y Hx B. apply Hbf_inv; [apply Hcache, Hin_bwd; exact Hx|exact B]. }
    pose proof (linked_rev _ _ Hl_flip) as Hl_pre. simpl rev in Hl_pre.
    assert (HlT : linked (fwd_link s h) (rev rpre ++ start :: w)).
    { replace (rev rpre ++ start :: w) with ((rev rpre ++ [start]) ++ w) by (rewrite <- app_assoc; reflexivity).
      apply (linked_join _ _ _ 0); [exact Hl_pre|exact (linked_tail _ _ _ Hl)|].
      intros _ Hw. rewrite last_snoc. destruct w as [|y w']; [congruence|]. simpl hd.
      apply linked_inv in Hl. tauto. }
    apply (nodup_injective (fwd_link s h)); [|exact HlT|].
    + intros x x' y Hx Hx' F F'.
      apply (bwd_link_inj s h x x' y); apply Hfb_inv; auto.
    + intros a Ha F. rewrite hd_rev_app in F.
      destruct (Hfb_inv a _ (Hcache a (Hin_all a Ha)) F) as [O _]. congruence.
Qed.

(* ================================================================== R2: both slots are permuted *)

Lemma opp_double' e : opp (2 * e) = 2 * e + 1.
Proof. rewrite opp_spec. lia. Qed.

Lemma NoDup_map_opp l : NoDup l -> NoDup (map opp l).
Proof. apply FinFun.Injective_map_NoDup. intros a b. apply opp_inj. Qed.

(* LOCAL FORM.  (c): the old list at 2e+1 is a permutation of the mirrored old list at 2e. *)
Theorem reorder_permutes_local s e :
  let L := hfs_at s (2 * e) in
  NoDup L -> walk_closed s (2 * e) L -> adj_involutive_on s (2 * e) L ->
  Permutation (hfs_at s (2 * e + 1)) (map opp L) ->
  let s' := reorder_incident_halffaces e s in
  Permutation (hfs_at s' (2 * e)) L /\
  Permutation (hfs_at s' (2 * e + 1)) (map opp L) /\
  Permutation (hfs_at s' (2 * e + 1)) (hfs_at s (2 * e + 1)) /\
  (hfs_at s' (2 * e) = L /\ hfs_at s' (2 * e + 1) = hfs_at s (2 * e + 1) \/
   hfs_at s' (2 * e + 1) = rev (map opp (hfs_at s' (2 * e)))).
Proof.
  cbv zeta. intros Hnd Hwc Hinv Hmir.
  destruct (reorder_list s e) as [l|] eqn:HR.
  - pose proof (reorder_list_permutation_local s e l Hnd Hwc Hinv HR) as Hp.
    assert (HL : length l = length (hfs_at s (2 * e))) by (apply Permutation_length; exact Hp).
    assert (Hlen1 : length (hfs_at s (2 * e + 1)) = length (hfs_at s (2 * e))).
    { rewrite (Permutation_length Hmir). apply map_length. }
    destruct (Nat.lt_ge_cases (length l) 2) as [Hsmall|Hbig].
    + exfalso. unfold reorder_list in HR. rewrite <- HL in HR.
      destruct (Nat.ltb_spec (length l) 2); [discriminate|lia].
    + destruct (reorder_write s e l HR HL Hlen1 Hbig) as [W0 W1]. rewrite W0, W1.
      assert (P1 : Permutation (rev (map opp l)) (map opp (hfs_at s (2 * e)))).
      { apply (Permutation_trans (Permutation_sym (Permutation_rev _))). apply Permutation_map. exact Hp. }
      split; [exact Hp|]. split; [exact P1|]. split; [|right; reflexivity].
      apply (Permutation_trans P1). apply Permutation_sym. exact Hmir.
  - unfold reorder_incident_halffaces. rewrite HR.
    split; [apply Permutation_refl|]. split; [exact Hmir|]. split; [apply Permutation_refl|]. left. split; reflexivity.
Qed.

(* the mirror relation (c) follows from exactness of both slots *)
Lemma mirror_of_slot_exact s h : slot_exact s h -> slot_exact s (opp h) -> Permutation (hfs_at s (opp h)) (map opp (hfs_at s h)).
Proof.
  intros [N0 E0] [N1 E1]. apply NoDup_Permutation; [exact N1|apply NoDup_map_opp; exact N0|].
  intros y. rewrite in_map_iff, E1. split.
  - intros [A [B C]]. exists (opp y). rewrite opp_involutive. split; [reflexivity|]. apply E0.
    rewrite opp_div2. split; [exact A|]. split; [exact B|]. apply In_halfface_opp. rewrite opp_involutive. exact C.
  - intros [x [<- Hx]]. apply E0 in Hx. destruct Hx as [A [B C]]. rewrite opp_div2.
    split; [exact A|]. split; [exact B|]. apply (proj1 (In_halfface_opp s x h)). exact C.
Qed.

Lemma slot_exact_sound_complete s h : slot_exact s h -> slot_sound s h (hfs_at s h) /\ slot_complete s h (hfs_at s h).
Proof.
  intros [_ E]. split.
  - intros x Hx. apply E in Hx. tauto.
  - intros x A B C. apply E. auto.
Qed.

(* GLOBAL FORM: exact duplicate-free slots, exact cell cache, closed live cells *)
Theorem reorder_permutes s e :
  fbu s = true -> fbu_ok s -> cells_ref_live s -> live_cells_closed s ->
  slot_exact s (2 * e) -> slot_exact s (2 * e + 1) ->
  Permutation (hfs_at (reorder_incident_halffaces e s) (2 * e)) (hfs_at s (2 * e)) /\
  Permutation (hfs_at (reorder_incident_halffaces e s) (2 * e + 1)) (hfs_at s (2 * e + 1)).
Proof.
  intros Hf Hfb Hlive Hcl S0 S1.
  pose proof (cell_read_ok_of_global s Hf Hfb Hlive Hcl) as Hcr.
  destruct (slot_exact_sound_complete s _ S0) as [Hs Hc].
  assert (Hmir : Permutation (hfs_at s (2 * e + 1)) (map opp (hfs_at s (2 * e)))).
  { rewrite <- opp_double'. apply mirror_of_slot_exact; [exact S0|rewrite opp_double'; exact S1]. }
  destruct (reorder_permutes_local s e (proj1 S0) (walk_closed_of_complete s _ _ Hcr Hs Hc)
              (adj_involutive_of_closed s _ _ Hcr Hs) Hmir) as [P0 [_ [P1 _]]].
  exact (conj P0 P1).
Qed.

(* ================================================================== R3: the invariant bundle *)

Definition slots_nodup (s : mesh) : Prop := forall h, h < 2 * ne s -> NoDup (hfs_at s h).

(* what reorder needs of a state; every part except ebu_ok / slots_nodup does not mention inc_hfs *)
Definition reorder_inv (s : mesh) : Prop :=
  ebu s = true /\ fbu s = true /\ ebu_ok s /\ slots_nodup s /\ fbu_ok s /\ cells_ref_live s /\ live_cells_closed s.

Lemma reorder_inv_slot s h : reorder_inv s -> h < 2 * ne s -> slot_exact s h.
Proof. intros (He & _ & Hok & Hnd & _) Hh. split; [apply Hnd; exact Hh|apply (Hok He h Hh)]. Qed.

(* observers that do not read inc_hfs *)
Lemma closed_cell_set_inc_hfs x s c : closed_cell (set_inc_hfs x s) c <-> closed_cell s c.
Proof. reflexivity. Qed.

Theorem reorder_inv_preserved e s : reorder_inv s -> reorder_inv (reorder_incident_halffaces e s).
Proof.
  intros I. pose proof I as (He & Hf & Hok & Hnd & Hfb & Hlive & Hcl).
  destruct (reorder_frame e s) as [x Ex].
  assert (Hslots : forall h, h < 2 * ne s ->
            NoDup (hfs_at (reorder_incident_halffaces e s) h) /\
            (forall y, In y (hfs_at (reorder_incident_halffaces e s) h) <-> In y (hfs_at s h))).
  { intros h Hh.
    destruct (Nat.eq_dec h (2 * e)) as [E0|N0]; [|destruct (Nat.eq_dec h (2 * e + 1)) as [E1|N1]].
    - assert (Hlt : e < ne s) by lia.
      pose proof (reorder_inv_slot s (2 * e) I) as S0. specialize (S0 ltac:(lia)).
      pose proof (reorder_inv_slot s (2 * e + 1) I) as S1. specialize (S1 ltac:(lia)).
      destruct (reorder_permutes s e Hf Hfb Hlive Hcl S0 S1) as [P0 _]. subst h. split.
      + apply (Permutation_NoDup (Permutation_sym P0)). apply Hnd. exact Hh.
      + intros y. split; apply Permutation_in; [exact P0|apply Permutation_sym; exact P0].
    - assert (Hlt : e < ne s) by lia.
      pose proof (reorder_inv_slot s (2 * e) I) as S0. specialize (S0 ltac:(lia)).
      pose proof (reorder_inv_slot s (2 * e + 1) I) as S1. specialize (S1 ltac:(lia)).
      destruct (reorder_permutes s e Hf Hfb Hlive Hcl S0 S1) as [_ P1]. subst h. split.
      + apply (Permutation_NoDup (Permutation_sym P1)). apply Hnd. exact Hh.
      + intros y. split; apply Permutation_in; [exact P1|apply Permutation_sym; exact P1].
    - rewrite (reorder_other_slots e s h N0 N1). split; [apply Hnd; exact Hh|reflexivity]. }
  rewrite Ex in *. unfold reorder_inv.
  split; [exact He|]. split; [exact Hf|]. split; [|split; [|split; [exact Hfb|split; [exact Hlive|exact Hcl]]]].
  - intros _ h Hh y. rewrite (proj2 (Hslots h Hh) y). exact (Hok He h Hh y).
  - intros h Hh. exact (proj1 (Hslots h Hh)).
Qed.

Theorem reorder_edges_inv_preserved es : forall s, reorder_inv s -> reorder_inv (reorder_edges es s).
Proof.
  unfold reorder_edges. induction es as [|e es IH]; intros s I; simpl; [exact I|].
  apply IH. apply reorder_inv_preserved. exact I.
Qed.

(* the corollary asked for: the three exactness predicates of Kernel/Closure.v survive reorder_edges *)
Theorem reorder_edges_keeps_caches_exact es s :
  ebu_ok s -> fbu_ok s -> vbu_ok s ->
  (ebu s = true -> fbu s = true /\ slots_nodup s /\ cells_ref_live s /\ live_cells_closed s) ->
  let s' := reorder_edges es s in
  ebu_ok s' /\ fbu_ok s' /\ vbu_ok s' /\ (ebu s = true -> slots_nodup s').
Proof.
  intros Hok Hfb Hvb Hyp. cbv zeta.
  assert (Fr : exists x, reorder_edges es s = set_inc_hfs x s).
  { clear. revert s. unfold reorder_edges. induction es as [|e es IH]; intros s; simpl.
    - exists (inc_hfs s). symmetry. apply set_inc_hfs_self.
    - destruct (reorder_frame e s) as [x Ex]. rewrite Ex. destruct (IH (set_inc_hfs x s)) as [y Ey]. rewrite Ey.
      exists y. reflexivity. }
  destruct (ebu s) eqn:He.
  - destruct (Hyp eq_refl) as (Hf & Hnd & Hlive & Hcl).
    pose proof (reorder_edges_inv_preserved es s (conj He (conj Hf (conj Hok (conj Hnd (conj Hfb (conj Hlive Hcl))))))) as I.
    destruct I as (_ & _ & Hok' & Hnd' & Hfb' & _ & _).
    destruct Fr as [x Ex]. rewrite Ex in *.
    split; [exact Hok'|]. split; [exact Hfb'|]. split; [exact Hvb|]. intros _. exact Hnd'.
  - destruct Fr as [x Ex]. rewrite Ex.
    split; [intros E; change (ebu (set_inc_hfs x s)) with (ebu s) in E; congruence|].
    split; [exact Hfb|]. split; [exact Hvb|]. intros E. discriminate.
Qed.

(* closed_cell_b is the executable form of the hypothesis *)
Lemma live_cells_closed_b s :
  forallb (fun c => c_deleted s c || closed_cell_b s c) (seq 0 (nc s)) = true -> live_cells_closed s.
Proof.
  rewrite forallb_forall. intros H c Hc Hd. specialize (H c ltac:(apply in_seq; lia)). rewrite Hd in H. simpl in H.
  apply closed_cell_b_spec. exact H.
Qed.

(* ================================================================== executable forms, witness, example *)

Definition cells_ref_live_b (s : mesh) : bool :=
  forallb (fun c => c_deleted s c || forallb (fun hf => (hf / 2 <? nf s) && negb (f_deleted s (hf / 2))) (cell_at s c))
          (seq 0 (nc s)).
Lemma cells_ref_live_b_sound s : cells_ref_live_b s = true -> cells_ref_live s.
Proof.
  unfold cells_ref_live_b. rewrite forallb_forall. intros H c hf Hc Hd Hin.
  specialize (H c ltac:(apply in_seq; lia)). rewrite Hd in H. simpl in H. rewrite forallb_forall in H.
  specialize (H hf Hin). apply andb_true_iff in H. destruct H as [A B]. apply Nat.ltb_lt in A.
  apply negb_true_iff in B. auto.
Qed.

Definition slots_nodup_b (s : mesh) : bool := forallb (fun h => nodup_b (hfs_at s h)) (seq 0 (2 * ne s)).
Lemma slots_nodup_b_sound s : slots_nodup_b s = true -> slots_nodup s.
Proof.
  unfold slots_nodup_b. rewrite forallb_forall. intros H h Hh. apply nodup_b_spec. apply H. apply in_seq. lia.
Qed.

Definition reorder_inv_b (s : mesh) : bool :=
  ebu s && fbu s && ebu_ok_b s && slots_nodup_b s && fbu_ok_b s && cells_ref_live_b s
  && forallb (fun c => c_deleted s c || closed_cell_b s c) (seq 0 (nc s)).
Lemma reorder_inv_b_sound s : reorder_inv_b s = true -> reorder_inv s.
Proof.
  unfold reorder_inv_b. rewrite !andb_true_iff. intros [[[[[[A B] C] D] E] F] G].
  split; [exact A|]. split; [exact B|]. split; [apply ebu_ok_b_sound; exact C|].
  split; [apply slots_nodup_b_sound; exact D|]. split; [apply fbu_ok_b_sound; exact E|].
  split; [apply cells_ref_live_b_sound; exact F|apply live_cells_closed_b; exact G].
Qed.

(* WITNESS: without closed cells reorder can lose a halfface.  Five triangles share the edge 0-1; two cells (accepted by
   add_cell without topology check) contain three of their halffaces each.  add_cell of the second cell re-runs the
   walk on the edge and writes [6;2;0;2;4]: halfface 2 twice, halfface 8 lost. *)
Definition nonmanifold_ops : list op :=
  [AddVertices 7; AddFaceV [0; 1; 2]; AddFaceV [0; 1; 3]; AddFaceV [0; 1; 4]; AddFaceV [0; 1; 5]; AddFaceV [0; 1; 6];
   AddCell [3; 6; 0] false].
Definition nonmanifold_before : mesh := run nonmanifold_ops.
Definition nonmanifold_after : mesh := run (nonmanifold_ops ++ [AddCell [2; 5; 1] false]).
(* the state add_cell hands to reorder_incident_halffaces 0: both cells registered, cache still in the old order *)
Definition nonmanifold_mid : mesh := set_inc_hfs (inc_hfs nonmanifold_before) nonmanifold_after.

Lemma reorder_permutation_refuted :
  ebu_ok_b nonmanifold_before = true /\ fbu_ok_b nonmanifold_before = true /\
  ebu_ok_b nonmanifold_mid = true /\ slots_nodup_b nonmanifold_mid = true /\ fbu_ok_b nonmanifold_mid = true /\
  cells_ref_live_b nonmanifold_mid = true /\
  closed_cell_b nonmanifold_mid 0 = false /\ closed_cell_b nonmanifold_mid 1 = false /\
  hfs_at nonmanifold_mid 0 = [0; 2; 4; 6; 8] /\
  hfs_at (reorder_incident_halffaces 0 nonmanifold_mid) 0 = [6; 2; 0; 2; 4] /\
  ~ Permutation (hfs_at (reorder_incident_halffaces 0 nonmanifold_mid) 0) (hfs_at nonmanifold_mid 0) /\
  hfs_at nonmanifold_after 0 = [6; 2; 0; 2; 4] /\ ebu_ok_b nonmanifold_after = false.
Proof.
  repeat (split; [vm_compute; reflexivity|]).
  split; [|split; vm_compute; reflexivity].
  intros P. assert (H : In 8 (hfs_at (reorder_incident_halffaces 0 nonmanifold_mid) 0)).
  { apply (Permutation_in _ (Permutation_sym P)). vm_compute. tauto. }
  vm_compute in H. intuition discriminate.
Qed.

(* EXAMPLE: a reachable state satisfying all hypotheses -- three tetrahedra closing a ring around edge 0 *)
Definition ring3_state : mesh :=
  run [AddVertices 5; AddFaceV [0; 1; 3]; AddFaceV [0; 3; 4]; AddFaceV [0; 4; 1]; AddFaceV [1; 4; 3]; AddCell [2; 0; 6; 4] true;
       AddFaceV [0; 4; 2]; AddFaceV [0; 2; 1]; AddFaceV [1; 2; 4]; AddCell [10; 12; 5; 8] false;
       AddFaceV [0; 2; 3]; AddFaceV [1; 3; 2]; AddCell [14; 1; 16; 11] false].

Example reorder_inv_satisfiable : reorder_inv ring3_state /\ reorder_inv (reorder_edges [0; 1; 2; 3; 4; 5; 6; 7; 8; 9] ring3_state).
Proof.
  assert (I : reorder_inv ring3_state) by (apply reorder_inv_b_sound; vm_compute; reflexivity).
  split; [exact I|]. apply reorder_edges_inv_preserved. exact I.
Qed.
