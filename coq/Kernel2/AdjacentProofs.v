(* Kernel2/AdjacentProofs.v -- adjacent_halfface_in_cell (Kernel/Ops.v, TopologyKernel.cc 2228-2295):
   what the search loop returns, for every state.
     adjacent_result_spec : any returned halfface lies in the incident cell of the argument, differs from the
                            argument and from its opposite, and contains the opposite of the (resolved) halfedge;
     adjacent_unique      : if exactly one halfface of the cell matches (counted per occurrence), it is returned;
     closed cells         : the result is THE other halfface at that edge, and applying the function again
                            across the same edge returns the start (C09_adjacent). *)
From Coq Require Import ZArith Lia Bool Arith List ZifyNat ZifyBool.
From OVM Require Import Kernel.State Kernel.Ops Kernel.Mirror Kernel2.LookupModel Kernel2.ListAux.
Import ListNotations.
Ltac Zify.zify_post_hook ::= Z.div_mod_to_equations.
Local Open Scope nat_scope.

(* ------------------------------------------------------------------ small facts *)

Lemma opp_eq_iff a b : opp a = b <-> a = opp b.
Proof. split; [intros <- | intros ->]; rewrite opp_involutive; reflexivity. Qed.

Lemma opp_inj a b : opp a = opp b -> a = b.
Proof. intros H. apply (f_equal opp) in H. rewrite !opp_involutive in H. exact H. Qed.

Lemma filter_nil_forall {A} (p : A -> bool) l : filter p l = [] -> forall x, In x l -> p x = false.
Proof.
  intros E x Hx. destruct (p x) eqn:Px; [|reflexivity].
  assert (In x (filter p l)) by (apply filter_In; auto). rewrite E in H. destruct H.
Qed.

Lemma length0_nil {A} (l : list A) : length l = 0 -> l = [].
Proof. destruct l; [reflexivity|discriminate]. Qed.

(* the halfedge the C++ settles on ("legacy" flip): the given one if the halfface has it, else its
   opposite if the halfface has that, else none *)
Definition resolve_he (s : mesh) (hf he : nat) : option nat :=
  if memb he (halfface s hf) then Some he
  else if memb (opp he) (halfface s hf) then Some (opp he) else None.

Definition adj_fold (s : mesh) (hf he1 : nat) (l : list nat) (st : adj_state) : adj_state :=
  fold_left (adj_outer s hf he1) l st.

Lemma adjacent_unfold s hf he :
  adjacent_halfface_in_cell s hf he =
  match cell_of s hf with
  | None => None
  | Some ch =>
      match resolve_he s hf he with
      | None => None
      | Some he1 => match adj_fold s hf he1 (cell_at s ch) (AdjRun false None) with
                    | AdjRet r => r
                    | AdjRun _ _ => None
                    end
      end
  end.
Proof.
  unfold adjacent_halfface_in_cell, resolve_he, adj_fold. destruct (cell_of s hf); [|reflexivity].
  destruct (memb he (halfface s hf)); [reflexivity|]. destruct (memb (opp he) (halfface s hf)); reflexivity.
Qed.

(* "the halfedge orientation can be arbitrary": if exactly one of he / opp he lies in the halfface both
   calls are the same call *)
Lemma resolve_he_flip s hf he :
  memb he (halfface s hf) = negb (memb (opp he) (halfface s hf)) -> resolve_he s hf (opp he) = resolve_he s hf he.
Proof.
  unfold resolve_he. rewrite opp_involutive. intros E. rewrite E.
  destruct (memb (opp he) (halfface s hf)); reflexivity.
Qed.

Lemma adjacent_flip s hf he :
  memb he (halfface s hf) = negb (memb (opp he) (halfface s hf)) ->
  adjacent_halfface_in_cell s hf (opp he) = adjacent_halfface_in_cell s hf he.
Proof. intros E. rewrite !adjacent_unfold, (resolve_he_flip s hf he E). reflexivity. Qed.

(* ------------------------------------------------------------------ the loops *)

Lemma adj_inner_ret s hf he hfh r hes : fold_left (adj_inner s hf he hfh) hes (AdjRet r) = AdjRet r.
Proof. induction hes as [|a t IH]; simpl; auto. Qed.

Lemma adj_outer_ret s hf he r l : fold_left (adj_outer s hf he) l (AdjRet r) = AdjRet r.
Proof. induction l as [|a t IH]; simpl; auto. Qed.

(* the test of the inner loop *)
Definition inner_hit (hf he hfh heh : nat) : bool := (opp heh =? he) && negb (hfh =? opp hf).

Lemma adj_inner_miss s hf he hfh st heh : inner_hit hf he hfh heh = false -> adj_inner s hf he hfh st heh = st.
Proof. unfold inner_hit, adj_inner. intros E. destruct st; [rewrite E|]; reflexivity. Qed.

Lemma inner_nomatch s hf he hfh hes st :
  (forall heh, In heh hes -> inner_hit hf he hfh heh = false) -> fold_left (adj_inner s hf he hfh) hes st = st.
Proof.
  induction hes as [|a t IH]; simpl; intros H; [reflexivity|].
  rewrite adj_inner_miss by (apply H; auto). apply IH. intros x Hx. apply H. auto.
Qed.

Lemma adj_inner_hit s hf he hfh sk heh : inner_hit hf he hfh heh = true ->
  adj_inner s hf he hfh (AdjRun sk None) heh = if sk then AdjRet (Some hfh) else AdjRun sk (Some hfh).
Proof. unfold inner_hit, adj_inner. intros ->. reflexivity. Qed.

Lemma inner_one s hf he hfh hes sk :
  length (filter (inner_hit hf he hfh) hes) = 1 ->
  fold_left (adj_inner s hf he hfh) hes (AdjRun sk None) = if sk then AdjRet (Some hfh) else AdjRun false (Some hfh).
Proof.
  induction hes as [|a t IH]; [simpl; discriminate|].
  cbn [filter fold_left]. destruct (inner_hit hf he hfh a) eqn:E.
  - cbn [length]. intros L. assert (Ft : filter (inner_hit hf he hfh) t = []) by (apply length0_nil; lia).
    rewrite adj_inner_hit by exact E.
    destruct sk.
    + apply adj_inner_ret.
    + apply inner_nomatch. apply filter_nil_forall. exact Ft.
  - intros L. rewrite adj_inner_miss by exact E. apply IH. exact L.
Qed.

Lemma adj_outer_self_none s hf he sk : adj_outer s hf he (AdjRun sk None) hf = AdjRun true None.
Proof. unfold adj_outer. rewrite Nat.eqb_refl. reflexivity. Qed.
Lemma adj_outer_self_some s hf he sk i : adj_outer s hf he (AdjRun sk (Some i)) hf = AdjRet (Some i).
Proof. unfold adj_outer. rewrite Nat.eqb_refl. reflexivity. Qed.

(* the candidates contributed by one halfface of the cell *)
Definition hf_matches (s : mesh) (hf he hfh : nat) : list nat :=
  if (hfh =? hf) || (hfh =? opp hf) then []
  else map (fun _ => hfh) (filter (fun heh => opp heh =? he) (halfface s hfh)).

Lemma adj_matches_flat s c hf he : adj_matches s c hf he = flat_map (hf_matches s hf he) (cell_at s c).
Proof. reflexivity. Qed.

Lemma hf_matches_self s hf he : hf_matches s hf he hf = [].
Proof. unfold hf_matches. rewrite Nat.eqb_refl. reflexivity. Qed.

Lemma outer_nomatch s hf he x st :
  x <> hf -> hf_matches s hf he x = [] -> adj_outer s hf he st x = st.
Proof.
  intros Nx M. destruct st as [sk idx|r]; [|reflexivity]. unfold adj_outer.
  destruct (Nat.eqb_spec x hf) as [->|_]; [congruence|].
  apply inner_nomatch. intros heh Hh. unfold inner_hit. unfold hf_matches in M.
  destruct (Nat.eqb_spec x hf) as [->|_]; [congruence|].
  destruct (Nat.eqb_spec x (opp hf)) as [->|_]; simpl in *; [apply andb_false_r|].
  rewrite andb_true_r. apply (filter_nil_forall (fun heh => opp heh =? he) (halfface s x)); [|exact Hh].
  destruct (filter (fun heh0 => opp heh0 =? he) (halfface s x)); [reflexivity|discriminate].
Qed.

Lemma outer_onematch s hf he x y sk :
  x <> hf -> hf_matches s hf he x = [y] ->
  y = x /\ adj_outer s hf he (AdjRun sk None) x = if sk then AdjRet (Some x) else AdjRun false (Some x).
Proof.
  intros Nx M. unfold hf_matches in M.
  destruct (Nat.eqb_spec x hf) as [->|_]; [congruence|].
  destruct (Nat.eqb_spec x (opp hf)) as [->|Nopp]; simpl in M; [discriminate|].
  assert (L : length (filter (fun heh => opp heh =? he) (halfface s x)) = 1).
  { apply (f_equal (@length nat)) in M. rewrite map_length in M. exact M. }
  split.
  - destruct (filter (fun heh => opp heh =? he) (halfface s x)); simpl in M; [discriminate|]. congruence.
  - unfold adj_outer. destruct (Nat.eqb_spec x hf) as [->|_]; [congruence|].
    apply inner_one. rewrite <- L. f_equal. apply filter_ext. intros a. unfold inner_hit.
    destruct (Nat.eqb_spec x (opp hf)); [congruence|]. apply andb_true_r.
Qed.

Lemma fold_found s hf he i : forall l,
  flat_map (hf_matches s hf he) l = [] -> In hf l -> adj_fold s hf he l (AdjRun false (Some i)) = AdjRet (Some i).
Proof.
  unfold adj_fold. induction l as [|x t IH]; intros M Hin; [destruct Hin|].
  cbn [flat_map fold_left] in *.
  apply app_eq_nil in M. destruct M as [M1 M2].
  destruct (Nat.eq_dec x hf) as [->|Nx].
  - rewrite adj_outer_self_some. apply adj_outer_ret.
  - rewrite outer_nomatch by assumption. apply IH; [exact M2|]. destruct Hin; [congruence|assumption].
Qed.

Lemma fold_seen s hf he hf' : forall l,
  flat_map (hf_matches s hf he) l = [hf'] -> adj_fold s hf he l (AdjRun true None) = AdjRet (Some hf').
Proof.
  unfold adj_fold. induction l as [|x t IH]; intros M; [simpl in M; discriminate|].
  cbn [flat_map fold_left] in *.
  destruct (Nat.eq_dec x hf) as [->|Nx].
  - rewrite hf_matches_self in M. simpl in M. rewrite adj_outer_self_none. apply IH. exact M.
  - apply app_eq_unit in M. destruct M as [[M1 M2]|[M1 M2]].
    + rewrite outer_nomatch by assumption. apply IH. exact M2.
    + destruct (outer_onematch s hf he x hf' true Nx M1) as [-> E]. rewrite E. apply adj_outer_ret.
Qed.

Lemma fold_fresh s hf he hf' : forall l,
  flat_map (hf_matches s hf he) l = [hf'] -> In hf l -> adj_fold s hf he l (AdjRun false None) = AdjRet (Some hf').
Proof.
  induction l as [|x t IH]; intros M Hin; [destruct Hin|].
  unfold adj_fold in *. cbn [flat_map fold_left] in *.
  destruct (Nat.eq_dec x hf) as [->|Nx].
  - rewrite hf_matches_self in M. simpl in M. rewrite adj_outer_self_none.
    apply (fold_seen s hf he hf' t M).
  - assert (Ht : In hf t) by (destruct Hin; [congruence|assumption]).
    apply app_eq_unit in M. destruct M as [[M1 M2]|[M1 M2]].
    + rewrite outer_nomatch by assumption. apply IH; assumption.
    + destruct (outer_onematch s hf he x hf' false Nx M1) as [-> E]. rewrite E.
      apply (fold_found s hf he x t M2 Ht).
Qed.

(* if exactly one halfface of the incident cell matches, it is the result *)
Theorem adjacent_unique s hf he c he1 hf' :
  cell_of s hf = Some c -> In hf (cell_at s c) -> resolve_he s hf he = Some he1 ->
  adj_matches s c hf he1 = [hf'] ->
  adjacent_halfface_in_cell s hf he = Some hf'.
Proof.
  intros Hc Hin Hr M. rewrite adjacent_unfold, Hc, Hr.
  rewrite adj_matches_flat in M. rewrite (fold_fresh s hf he1 hf' _ M Hin). reflexivity.
Qed.

(* ------------------------------------------------------------------ every result is a genuine candidate *)

Definition cand (s : mesh) (hf he1 : nat) (L : list nat) (o : option nat) : Prop :=
  forall x, o = Some x -> In x L /\ x <> hf /\ x <> opp hf /\ In (opp he1) (halfface s x).

Definition st_cand (s : mesh) (hf he1 : nat) (L : list nat) (st : adj_state) : Prop :=
  match st with AdjRun _ idx => cand s hf he1 L idx | AdjRet r => cand s hf he1 L r end.

Lemma cand_None s hf he1 L : cand s hf he1 L None.
Proof. intros x H. discriminate. Qed.

Lemma inner_cand s hf he1 L hfh : In hfh L -> hfh <> hf ->
  forall hes st, (forall heh, In heh hes -> In heh (halfface s hfh)) ->
  st_cand s hf he1 L st -> st_cand s hf he1 L (fold_left (adj_inner s hf he1 hfh) hes st).
Proof.
  intros HL Nhf. induction hes as [|a t IH]; simpl; intros st Hsub Hst; [exact Hst|].
  apply IH; [intros x Hx; apply Hsub; auto|].
  destruct st as [sk idx|r]; simpl; [|exact Hst].
  destruct ((opp a =? he1) && negb (hfh =? opp hf)) eqn:E; [|exact Hst].
  apply andb_true_iff in E. destruct E as [E1 E2]. apply Nat.eqb_eq in E1.
  apply negb_true_iff in E2. apply Nat.eqb_neq in E2.
  assert (G : cand s hf he1 L (Some hfh)).
  { intros x Hx. inversion Hx; subst x. repeat split; auto.
    apply opp_eq_iff in E1. rewrite <- E1. apply Hsub. auto. }
  destruct idx; simpl; [apply cand_None|]. destruct sk; simpl; exact G.
Qed.

Lemma outer_cand s hf he1 L : forall l st, incl l L ->
  st_cand s hf he1 L st -> st_cand s hf he1 L (fold_left (adj_outer s hf he1) l st).
Proof.
  induction l as [|x t IH]; simpl; intros st Hincl Hst; [exact Hst|].
  apply IH; [intros y Hy; apply Hincl; right; exact Hy|].
  destruct st as [sk idx|r]; simpl; [|exact Hst].
  destruct (Nat.eqb_spec x hf) as [->|Nx].
  - destruct idx; simpl; [exact Hst|apply cand_None].
  - apply inner_cand; auto. apply Hincl. left. reflexivity.
Qed.

Theorem adjacent_result_spec s hf he hf' :
  adjacent_halfface_in_cell s hf he = Some hf' ->
  exists c he1, cell_of s hf = Some c /\ resolve_he s hf he = Some he1 /\
                In hf' (cell_at s c) /\ hf' <> hf /\ hf' <> opp hf /\ In (opp he1) (halfface s hf').
Proof.
  rewrite adjacent_unfold. destruct (cell_of s hf) as [c|] eqn:Hc; [|discriminate].
  destruct (resolve_he s hf he) as [he1|] eqn:Hr; [|discriminate].
  intros H. exists c, he1. split; [reflexivity|]. split; [reflexivity|].
  pose proof (outer_cand s hf he1 (cell_at s c) (cell_at s c) (AdjRun false None) (incl_refl _) (cand_None _ _ _ _)) as G.
  unfold adj_fold in H. destruct (fold_left (adj_outer s hf he1) (cell_at s c) (AdjRun false None)) as [sk idx|r]; [discriminate|].
  simpl in G. subst r. exact (G hf' eq_refl).
Qed.

Lemma resolve_he_In s hf he he1 : resolve_he s hf he = Some he1 -> In he1 (halfface s hf) /\ (he1 = he \/ he1 = opp he).
Proof.
  unfold resolve_he. destruct (memb he (halfface s hf)) eqn:E1.
  - intros H. inversion H; subst. split; [apply memb_In; exact E1|auto].
  - destruct (memb (opp he) (halfface s hf)) eqn:E2; [|discriminate].
    intros H. inversion H; subst. split; [apply memb_In; exact E2|auto].
Qed.

Lemma resolve_he_member s hf he : In he (halfface s hf) -> resolve_he s hf he = Some he.
Proof. intros H. unfold resolve_he. apply memb_In in H. rewrite H. reflexivity. Qed.

(* ------------------------------------------------------------------ closed cells *)

Lemma in_adj_matches s c hf he x :
  In x (adj_matches s c hf he) <-> In x (cell_at s c) /\ x <> hf /\ x <> opp hf /\ In (opp he) (halfface s x).
Proof.
  unfold adj_matches. rewrite in_flat_map. split.
  - intros [y [Hy Hx]].
    destruct (Nat.eqb_spec y hf) as [->|N1]; simpl in Hx; [destruct Hx|].
    destruct (Nat.eqb_spec y (opp hf)) as [->|N2]; simpl in Hx; [destruct Hx|].
    apply in_map_iff in Hx. destruct Hx as [heh [<- Hf]]. apply filter_In in Hf. destruct Hf as [Hin E].
    apply Nat.eqb_eq in E. apply opp_eq_iff in E. subst heh. auto.
  - intros [H1 [H2 [H3 H4]]]. exists x. split; [exact H1|].
    destruct (Nat.eqb_spec x hf); [congruence|]. destruct (Nat.eqb_spec x (opp hf)); [congruence|]. simpl.
    apply in_map_iff. exists (opp he). split; [reflexivity|]. apply filter_In. split; [exact H4|].
    rewrite opp_involutive. apply Nat.eqb_refl.
Qed.

(* the contract "closed cell": the halfface->cell cache maps the halffaces of c to c, and every halfedge of
   every halfface of c is matched exactly once (per occurrence) by its opposite in another halfface of c
   that is not the opposite halfface *)
Definition closed_cell (s : mesh) (c : nat) : Prop :=
  forall hf, In hf (cell_at s c) ->
    cell_of s hf = Some c /\ forall he, In he (halfface s hf) -> length (adj_matches s c hf he) = 1.

Lemma closed_cell_b_spec s c : closed_cell_b s c = true <-> closed_cell s c.
Proof.
  unfold closed_cell_b, closed_cell. rewrite forallb_forall. split.
  - intros H hf Hin. specialize (H hf Hin). apply andb_true_iff in H. destruct H as [H1 H2]. split.
    + destruct (cell_of s hf) as [c'|]; [|discriminate]. apply Nat.eqb_eq in H1. congruence.
    + rewrite forallb_forall in H2. intros he Hhe. apply Nat.eqb_eq. apply H2. exact Hhe.
  - intros H hf Hin. destruct (H hf Hin) as [H1 H2]. apply andb_true_iff. split.
    + rewrite H1. apply Nat.eqb_refl.
    + rewrite forallb_forall. intros he Hhe. apply Nat.eqb_eq. apply H2. exact Hhe.
Qed.

Lemma length1_singleton {A} (l : list A) : length l = 1 -> exists x, l = [x].
Proof. destruct l as [|x [|y t]]; simpl; try discriminate. eauto. Qed.

(* C09, second half: inside a closed cell adjacent_halfface_in_cell across an edge returns the unique other
   halfface of the cell at that edge, and applying it twice returns the start *)
Theorem adjacent_closed_cell s c hf he :
  closed_cell s c -> In hf (cell_at s c) -> In he (halfface s hf) ->
  exists hf',
    adjacent_halfface_in_cell s hf he = Some hf' /\
    (In hf' (cell_at s c) /\ hf' <> hf /\ hf' <> opp hf /\ In (opp he) (halfface s hf')) /\
    (forall x, In x (cell_at s c) -> x <> hf -> x <> opp hf -> In (opp he) (halfface s x) -> x = hf') /\
    adjacent_halfface_in_cell s hf' (opp he) = Some hf.
Proof.
  intros Hcl Hin Hhe. destruct (Hcl hf Hin) as [Hc Hm]. specialize (Hm he Hhe).
  destruct (length1_singleton _ Hm) as [hf' M]. exists hf'.
  assert (Hcand : In hf' (adj_matches s c hf he)) by (rewrite M; left; reflexivity).
  apply in_adj_matches in Hcand. destruct Hcand as [C1 [C2 [C3 C4]]].
  split; [|split; [|split]].
  - apply (adjacent_unique s hf he c he hf'); auto. apply resolve_he_member. exact Hhe.
  - auto.
  - intros x X1 X2 X3 X4. assert (In x (adj_matches s c hf he)) by (apply in_adj_matches; auto).
    rewrite M in H. destruct H as [<-|[]]. reflexivity.
  - destruct (Hcl hf' C1) as [Hc' Hm']. specialize (Hm' (opp he) C4).
    destruct (length1_singleton _ Hm') as [y M'].
    assert (In hf (adj_matches s c hf' (opp he))).
    { apply in_adj_matches. repeat split; auto.
      - intros E. apply C3. rewrite E. rewrite opp_involutive. reflexivity.
      - rewrite opp_involutive. exact Hhe. }
    rewrite M' in H. destruct H as [->|[]].
    apply (adjacent_unique s hf' (opp he) c (opp he) hf); auto. apply resolve_he_member. exact C4.
Qed.

(* "accepting either orientation of the halfedge when unambiguous" *)
Theorem adjacent_closed_cell_either_orientation s c hf he :
  closed_cell s c -> In hf (cell_at s c) -> In he (halfface s hf) -> ~ In (opp he) (halfface s hf) ->
  adjacent_halfface_in_cell s hf (opp he) = adjacent_halfface_in_cell s hf he.
Proof.
  intros _ _ H1 H2. apply adjacent_flip. apply memb_In in H1. apply memb_false in H2. rewrite H1, H2. reflexivity.
Qed.

Lemma adjacent_total_closed s c hf he :
  closed_cell s c -> In hf (cell_at s c) -> In he (halfface s hf) -> adjacent_halfface_in_cell s hf he <> None.
Proof.
  intros H1 H2 H3. destruct (adjacent_closed_cell s c hf he H1 H2 H3) as [x [E _]]. congruence.
Qed.

(* adjacency and openness do not read the halfedge->halfface cache *)
Lemma adjacent_set_inc_hfs x s hf he :
  adjacent_halfface_in_cell (set_inc_hfs x s) hf he = adjacent_halfface_in_cell s hf he.
Proof. reflexivity. Qed.
Lemma hf_is_open_set_inc_hfs x s hf : hf_is_open (set_inc_hfs x s) hf = hf_is_open s hf.
Proof. reflexivity. Qed.
