(* Kernel2/LookupModel.v -- the lookup queries of TopologyKernel as functions of the [mesh] state,
   following TopologyKernel.cc line by line (find_halfedge ... prev_halfedge_in_halfface,
   get_halfface_vertices x3, is_incident) and TopologyKernel.hh (n_vertices_in_cell).
   Handles returned by the C++ are [option nat] (None = InvalidHandle = -1).  No proofs in this file.

   Iterators used by the lookups (Iterators/VertexOHalfEdgeIter.cc, HalfEdgeHalfFaceIter.cc,
   HalfFaceVertexIter.cc): a circulator constructed on a mesh WITHOUT the corresponding bottom-up
   incidences, on a handle beyond the cache, or on an empty list is invalid from the start; otherwise
   one lap visits the cached list front to back.

   Calls outside the documented contract (fewer than 3 vertices / 2 halfedges) index a std::vector out
   of range in the C++ (abort under _GLIBCXX_ASSERTIONS, undefined otherwise); the model returns
   None for them and no theorem speaks about them. *)
From OVM Require Export Kernel.Ops.
Local Open Scope nat_scope.

(* ------------------------------------------------------------------ iterator ranges *)

(* voh_iter(v): outgoing_hes_per_vertex_[v] if vertex bottom-up incidences are on *)
Definition voh_list (s : mesh) (v : nat) : list nat := if vbu s then out_at s v else [].
(* hehf_iter(h): incident_hfs_per_he_[h] if edge bottom-up incidences are on *)
Definition hehf_list (s : mesh) (h : nat) : list nat := if ebu s then hfs_at s h else [].

(* first element of [l] on which [f] "returns" *)
Fixpoint first_some {A B : Type} (f : A -> option B) (l : list A) : option B :=
  match l with
  | [] => None
  | x :: t => match f x with Some r => Some r | None => first_some f t end
  end.

(* A read through an invalid handle: with NDEBUG, halfface(-1) / halfedge(-1) compute
   idx/2 = 0 (C++ division truncates) and idx%2 != 0 resp. idx&1 = 1, i.e. they read the entity 0
   mirrored -- exactly what handle 1 reads.  Only reachable outside the contract (non-closed cell). *)
Definition rd (o : option nat) : nat := match o with Some h => h | None => 1 end.

(* ------------------------------------------------------------------ find_halfedge (1934-1946) *)

Definition find_halfedge (s : mesh) (v1 v2 : nat) : option nat :=
  find (fun h => he_to s h =? v2) (voh_list s v1).

(* ------------------------------------------------------------------ find_halfedge_in_cell (1950-1967) *)

Fixpoint fhec_hes (s : mesh) (v1 v2 : nat) (hes : list nat) : option nat :=
  match hes with
  | [] => None
  | heh :: t =>
      if (he_from s heh =? v1) && (he_to s heh =? v2) then Some heh
      else if (he_from s heh =? v2) && (he_to s heh =? v1) then Some (opp heh)
      else fhec_hes s v1 v2 t
  end.

Definition find_halfedge_in_cell (s : mesh) (v1 v2 c : nat) : option nat :=
  first_some (fun hf => fhec_hes s v1 v2 (halfface s hf)) (cell_at s c).

(* ------------------------------------------------------------------ next / prev_halfedge_in_halfface (2119-2155) *)

Definition next_halfedge_in_halfface (s : mesh) (he hf : nat) : option nat :=
  let hes := halfface s hf in
  match find_index (Nat.eqb he) hes with
  | Some i => if S i =? length hes then Some (nth 0 hes 0) else Some (nth (S i) hes 0)
  | None => None
  end.

Definition prev_halfedge_in_halfface (s : mesh) (he hf : nat) : option nat :=
  let hes := halfface s hf in
  match find_index (Nat.eqb he) hes with
  | Some i => if i =? 0 then Some (nth (length hes - 1) hes 0) else Some (nth (i - 1) hes 0)
  | None => None
  end.

(* ------------------------------------------------------------------ find_halfface(halfedges) (2097-2115) *)

(* only _hes[0] and _hes[1] are read *)
Definition find_halfface_hes (s : mesh) (hes : list nat) : option nat :=
  match hes with
  | he0 :: he1 :: _ => find (fun hf => memb he1 (halfface s hf)) (hehf_list s he0)
  | _ => None
  end.

(* ------------------------------------------------------------------ find_halfface(vertices) (1978-1996) *)

(* only _vs[0], _vs[1], _vs[2] are read *)
Definition find_halfface_vs (s : mesh) (vs : list nat) : option nat :=
  match vs with
  | v0 :: v1 :: v2 :: _ =>
      match find_halfedge s v0 v1 with
      | None => None
      | Some he0 =>
          match find_halfedge s v1 v2 with
          | None => None
          | Some he1 => find_halfface_hes s [he0; he1]
          end
      end
  | _ => None
  end.

(* ------------------------------------------------------------------ find_halfface_in_cell (2000-2029) *)

(* one iteration of the inner loop: Some r = "return r" (r may be the invalid handle), None = continue *)
Definition fhfc_he (s : mesh) (v0 v1 v2 hfh heh : nat) : option (option nat) :=
  if (he_from s heh =? v0) && (he_to s heh =? v1)
     && (he_to s (rd (next_halfedge_in_halfface s heh hfh)) =? v2)
  then Some (Some hfh)
  else if (he_from s heh =? v1) && (he_to s heh =? v0) then
    let heh_opp := opp heh in
    let hfh_opp := adjacent_halfface_in_cell s hfh heh in
    if he_to s (rd (next_halfedge_in_halfface s heh_opp (rd hfh_opp))) =? v2 then Some hfh_opp else None
  else None.

Definition find_halfface_in_cell (s : mesh) (vs : list nat) (c : nat) : option nat :=
  match vs with
  | v0 :: v1 :: v2 :: _ =>
      match first_some (fun hfh => first_some (fhfc_he s v0 v1 v2 hfh) (halfface s hfh)) (cell_at s c) with
      | Some r => r
      | None => None
      end
  | _ => None
  end.

(* ------------------------------------------------------------------ find_halfface_extensive (2043-2086) *)

(* "int offset = 0; for (i = 0; i < hes.size(); ++i) if (hes[i] == he0) offset = i;":
   the LAST position of he0, 0 if absent *)
Fixpoint ext_offset_from (he0 : nat) (hes : list nat) (i off : nat) : nat :=
  match hes with
  | [] => off
  | h :: t => ext_offset_from he0 t (S i) (if h =? he0 then i else off)
  end.
Definition ext_offset (he0 : nat) (hes : list nat) : nat := ext_offset_from he0 hes 0 0.

Definition ext_match (s : mesh) (vs : list nat) (he0 hf : nat) : bool :=
  let hes := halfface s hf in
  let n := length hes in
  if negb (n =? length vs) then false
  else
    let offset := ext_offset he0 hes in
    forallb (fun i => he_from s (nth ((i + offset) mod n) hes 0) =? nth i vs 0) (seq 0 n).

Definition find_halfface_extensive (s : mesh) (vs : list nat) : option nat :=
  match vs with
  | v0 :: v1 :: _ =>       (* only _vs[0], _vs[1] are read before the size comparison (the assert asks for > 2) *)
      match find_halfedge s v0 v1 with
      | None => None
      | Some he0 => find (ext_match s vs he0) (hehf_list s he0)
      end
  | _ => None
  end.

(* ------------------------------------------------------------------ get_halfface_vertices (2161-2206) *)

(* HalfFaceVertexIter::cur_vh(): from-vertex of the i-th stored halfedge for the original side,
   to-vertex of the (n-1-i)-th stored halfedge for the reversed side *)
Definition hfv_cur (s : mesh) (hf i : nat) : nat :=
  let f := face_at s (hf / 2) in
  if Nat.even hf then he_from s (nth i f 0) else he_to s (nth (length f - 1 - i) f 0).

(* operator++ on the index (the lap counter never invalidates a read here: at most 2 laps are used
   and hfv_iter(hfh, 2) allows 2) *)
Definition circ_next (n i : nat) : nat := if S i =? n then 0 else S i.

(* get_halfface_vertices(hfh): one lap of halfface_vertices(hfh) *)
Definition get_halfface_vertices (s : mesh) (hf : nat) : list nat :=
  map (hfv_cur s hf) (seq 0 (length (face_at s (hf / 2)))).

(* first loop of get_halfface_vertices(hfh, vh): at most n steps, break at the first hit *)
Fixpoint ghv_seek (s : mesh) (hf v n k i : nat) : nat :=
  match k with
  | 0 => i
  | S k' => if hfv_cur s hf i =? v then i else ghv_seek s hf v n k' (circ_next n i)
  end.
(* second loop: push n vertices *)
Fixpoint ghv_take (s : mesh) (hf n k i : nat) : list nat :=
  match k with
  | 0 => []
  | S k' => hfv_cur s hf i :: ghv_take s hf n k' (circ_next n i)
  end.

Definition get_halfface_vertices_v (s : mesh) (hf v : nat) : list nat :=
  let n := length (face_at s (hf / 2)) in
  ghv_take s hf n n (ghv_seek s hf v n n 0).

Definition get_halfface_vertices_he (s : mesh) (hf he : nat) : list nat :=
  get_halfface_vertices_v s hf (he_from s he).

(* ------------------------------------------------------------------ is_incident (2212-2222) *)

Definition is_incident (s : mesh) (f e : nat) : bool :=
  existsb (fun h => h / 2 =? e) (face_at s f).

(* ------------------------------------------------------------------ n_vertices_in_cell (TopologyKernel.hh 1098-1108) *)

Definition n_vertices_in_cell (s : mesh) (c : nat) : nat :=
  length (set_of_list (map (he_to s) (concat (map (halfface s) (cell_at s c))))).

(* ------------------------------------------------------------------ the "closed cell" contract, executable *)

(* the halffaces of cell c, other than hf and its opposite, that contain the opposite of he --
   one entry per occurrence (this is exactly what the search loop of adjacent_halfface_in_cell sees) *)
Definition adj_matches (s : mesh) (c hf he : nat) : list nat :=
  flat_map (fun hfh => if (hfh =? hf) || (hfh =? opp hf) then []
                       else map (fun _ => hfh) (filter (fun heh => opp heh =? he) (halfface s hfh)))
           (cell_at s c).

(* every halfedge of every halfface of c is matched exactly once by its opposite within c, and the
   face->cell cache sends the halffaces of c to c *)
Definition closed_cell_b (s : mesh) (c : nat) : bool :=
  forallb (fun hf => (match cell_of s hf with Some c' => c' =? c | None => false end)
                     && forallb (fun he => length (adj_matches s c hf he) =? 1) (halfface s hf))
          (cell_at s c).
