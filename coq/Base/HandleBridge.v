(* Base/HandleBridge.v -- the nat handle arithmetic used by the kernel model IS the regenerated
   C++ leaf (Gen/Handles.v) on every representable index.  If a leaf changes in /repo, Gen/Handles.v
   changes and these lemmas (hence every theorem resting on the conversions) stop checking. *)
From Coq Require Import ZArith Lia Bool Arith ZifyNat ZifyBool.
From OVM Require Import Base.Int32 Gen.Handles Kernel.State Kernel.Ops.
Ltac Zify.zify_post_hook ::= Z.div_mod_to_equations.
Local Open Scope Z_scope.

Definition rep (n : nat) : Prop := Z.of_nat n < 2 ^ 30.

Lemma pow30 : 2 ^ 30 = 1073741824. Proof. reflexivity. Qed.
Lemma pow31 : 2 ^ 31 = 2147483648. Proof. reflexivity. Qed.

Ltac small := unfold in_int32; rewrite ?pow31, ?pow30 in *; lia.

Lemma even_nat_Z n : Z.even (Z.of_nat n) = Nat.even n.
Proof.
  destruct (Nat.even n) eqn:E.
  - apply Nat.even_spec in E. destruct E as [k ->].
    rewrite Nat2Z.inj_mul. apply Z.even_spec. exists (Z.of_nat k). reflexivity.
  - assert (O : Nat.odd n = true) by (rewrite <- Nat.negb_even, E; reflexivity).
    apply Nat.odd_spec in O. destruct O as [k ->].
    replace (Z.of_nat (2 * k + 1)) with (1 + 2 * Z.of_nat k) by lia.
    rewrite Z.even_add_mul_2. reflexivity.
Qed.

(* ---- Z level: the C08 conversion algebra, for every 0 <= i < 2^30 and s in {0,1} *)

Lemma half_in_range i s : 0 <= i < 2 ^ 30 -> 0 <= s <= 1 -> EH_half i s = 2 * i + s /\ in_int32 (EH_half i s).
Proof.
  intros Hi Hs. unfold EH_half. rewrite (c_int_id (2 * i)) by small. rewrite c_int_id by small.
  split; [reflexivity | small].
Qed.

Lemma full_half i s : 0 <= i < 2 ^ 30 -> 0 <= s <= 1 -> HEH_full (EH_half i s) = i.
Proof.
  intros Hi Hs. destruct (half_in_range i s Hi Hs) as [-> _]. unfold HEH_full.
  rewrite quot_2_nonneg by small. rewrite c_int_id by small. rewrite pow30 in *. lia.
Qed.

Lemma subidx_half i s : 0 <= i < 2 ^ 30 -> 0 <= s <= 1 -> HEH_subidx (EH_half i s) = s.
Proof.
  intros Hi Hs. destruct (half_in_range i s Hi Hs) as [-> _]. unfold HEH_subidx.
  rewrite land_1. rewrite c_int_id by small. rewrite pow30 in *. lia.
Qed.

Lemma opp_half i s : 0 <= i < 2 ^ 30 -> 0 <= s <= 1 -> HEH_opp (EH_half i s) = EH_half i (1 - s).
Proof.
  intros Hi Hs. destruct (half_in_range i s Hi Hs) as [-> _].
  destruct (half_in_range i (1 - s) Hi ltac:(lia)) as [-> _]. unfold HEH_opp.
  assert (s = 0 \/ s = 1) as [-> | ->] by lia.
  - rewrite Z.add_0_r, lxor_1_even. rewrite c_int_id by small. lia.
  - rewrite lxor_1_odd. rewrite c_int_id by small. lia.
Qed.

Lemma opp_opp h : 0 <= h < 2 ^ 31 -> HEH_opp (HEH_opp h) = h.
Proof.
  intros Hh. unfold HEH_opp. rewrite (lxor_1 h).
  destruct (Z.even h) eqn:E.
  - assert (E' := E). apply Z.even_spec in E'. destruct E' as [q Hq].
    assert (R : in_int32 (h + 1)) by small.
    rewrite (c_int_id _ R). rewrite lxor_1. replace (Z.even (h + 1)) with false.
    + rewrite c_int_id by small. lia.
    + rewrite Z.even_add, E. reflexivity.
  - assert (O : Z.odd h = true) by (rewrite <- Z.negb_even, E; reflexivity).
    assert (O' := O). apply Z.odd_spec in O'. destruct O' as [q Hq].
    assert (R : in_int32 (h - 1)) by small.
    rewrite (c_int_id _ R). rewrite lxor_1. replace (Z.even (h - 1)) with true.
    + rewrite c_int_id by small. lia.
    + rewrite Z.even_sub, E. reflexivity.
Qed.

(* the face family and the static TopologyKernel functions are the same functions *)
Lemma face_family_same :
  (forall i, HFH_full i = HEH_full i) /\ (forall i, HFH_opp i = HEH_opp i) /\
  (forall i, HFH_subidx i = HEH_subidx i) /\ (forall i s, FH_half i s = EH_half i s).
Proof. repeat split. Qed.

Lemma statics_agree :
  (forall h, TK_edge_handle h = HEH_full h) /\ (forall h, TK_face_handle h = HFH_full h) /\
  (forall h, TK_opposite_halfedge_handle h = HEH_opp h) /\ (forall h, TK_opposite_halfface_handle h = HFH_opp h) /\
  (forall e s, 0 <= s <= 1 -> TK_halfedge_handle e s = EH_half e s) /\
  (forall f s, 0 <= s <= 1 -> TK_halfface_handle f s = FH_half f s).
Proof.
  repeat split; intros; unfold TK_halfedge_handle, TK_halfface_handle, EH_half, FH_half;
    assert (s = 0 \/ s = 1) as [-> | ->] by lia; reflexivity.
Qed.

(* ---- nat level: what the kernel model computes is what the leaves compute *)

Lemma bridge_full n : rep n -> Z.of_nat (n / 2) = HEH_full (Z.of_nat n).
Proof.
  unfold rep, HEH_full. intros H. rewrite quot_2_nonneg by lia. rewrite c_int_id by small.
  rewrite Nat2Z.inj_div. reflexivity.
Qed.

Lemma bridge_subidx n : rep n -> Z.of_nat (n mod 2) = HEH_subidx (Z.of_nat n).
Proof.
  unfold rep, HEH_subidx. intros H. rewrite land_1. rewrite c_int_id by small.
  rewrite Nat2Z.inj_mod. reflexivity.
Qed.

Lemma bridge_opp n : rep n -> Z.of_nat (opp n) = HEH_opp (Z.of_nat n).
Proof.
  unfold rep, HEH_opp, opp. intros H. rewrite lxor_1, even_nat_Z.
  destruct (Nat.even n) eqn:E.
  - rewrite c_int_id by small. lia.
  - assert (n <> 0%nat) by (intros ->; discriminate).
    rewrite c_int_id by small. lia.
Qed.

Lemma bridge_half e s : rep e -> (s <= 1)%nat -> Z.of_nat (2 * e + s) = EH_half (Z.of_nat e) (Z.of_nat s).
Proof.
  unfold rep. intros H Hs. destruct (half_in_range (Z.of_nat e) (Z.of_nat s)) as [-> _]; lia.
Qed.

Lemma bridge_cor2 t x : rep x -> Z.of_nat (cor2 t x) = HECorr_correctValue (Z.of_nat t) (Z.of_nat x)
                                 \/ (x < 2)%nat.
Proof.
  unfold rep, cor2, HECorr_correctValue. intros H.
  destruct (Nat.ltb_spec t x); destruct (Z.gtb_spec (Z.of_nat x) (Z.of_nat t)); try lia.
  all: try (left; reflexivity).
  all: destruct (Nat.lt_ge_cases x 2); [right; assumption | left]; rewrite c_int_id by small; lia.
Qed.

Lemma bridge_cor1 t x : rep x -> Z.of_nat (cor1 t x) = CCorr_correctValue (Z.of_nat t) (Z.of_nat x).
Proof.
  unfold rep, cor1, CCorr_correctValue. intros H.
  destruct (Nat.ltb_spec t x); destruct (Z.gtb_spec (Z.of_nat x) (Z.of_nat t)); try lia.
  all: try reflexivity.
  all: rewrite c_int_id by small; lia.
Qed.

Lemma corrections_same :
  (forall t h, VCorr_correctValue t h = CCorr_correctValue t h) /\
  (forall t h, HFCorr_correctValue t h = HECorr_correctValue t h).
Proof. split; reflexivity. Qed.
