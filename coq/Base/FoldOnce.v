(* Base/FoldOnce.v -- the "processed set" loop of the cache-guided swaps: a fold over a list of items, each naming
   (at most) one slot of an array, that rewrites a slot with [f] the FIRST time it is named and remembers it in a
   [done] list.  Result: [f] applied exactly once at exactly the slots that are named. *)
From Coq Require Import ZArith Lia Bool Arith List ZifyNat ZifyBool.
From OVM Require Import Base.ListX Base.ListLemmas.
Import ListNotations.
Local Open Scope nat_scope.

Definition once_step {A X : Type} (key : X -> option nat) (f : A -> A) (d : A)
           (acc : list A * list nat) (x : X) : list A * list nat :=
  match key x with
  | None => acc
  | Some k => if memb k (snd acc) then acc
              else (upd k (f (nth k (fst acc) d)) (fst acc), k :: snd acc)
  end.

(* slot k is named by some item of the list *)
Definition named {X : Type} (key : X -> option nat) (k : nat) (xs : list X) : bool :=
  existsb (fun x => match key x with Some j => j =? k | None => false end) xs.

Lemma named_iff {X} (key : X -> option nat) k xs : named key k xs = true <-> exists x, In x xs /\ key x = Some k.
Proof.
  unfold named. rewrite existsb_exists. split.
  - intros [x [H E]]. exists x. split; [exact H|]. destruct (key x) as [j|]; [|discriminate]. apply Nat.eqb_eq in E. congruence.
  - intros [x [H E]]. exists x. split; [exact H|]. rewrite E. apply Nat.eqb_refl.
Qed.

Lemma named_false_iff {X} (key : X -> option nat) k xs : named key k xs = false <-> forall x, In x xs -> key x <> Some k.
Proof.
  split.
  - intros H x Hx E. assert (named key k xs = true) by (apply named_iff; exists x; tauto). congruence.
  - intros H. destruct (named key k xs) eqn:E; [|reflexivity]. apply named_iff in E. destruct E as [x [Hx E]]. exfalso. exact (H x Hx E).
Qed.

Lemma fold_once_length {A X} (key : X -> option nat) (f : A -> A) d xs : forall acc,
  length (fst (fold_left (once_step key f d) xs acc)) = length (fst acc).
Proof.
  induction xs as [|x t IH]; intros acc; simpl; [reflexivity|]. rewrite IH. unfold once_step.
  destruct (key x) as [k|]; [|reflexivity]. destruct (memb k (snd acc)); [reflexivity|]. simpl. apply upd_length.
Qed.

Lemma fold_once_spec_gen {A X} (key : X -> option nat) (f : A -> A) d xs : forall l done k, k < length l ->
  nth k (fst (fold_left (once_step key f d) xs (l, done))) d =
    if named key k xs && negb (memb k done) then f (nth k l d) else nth k l d.
Proof.
  induction xs as [|x t IH]; intros l done k Hk; [reflexivity|].
  cbn [fold_left named existsb]. fold (named key k t). unfold once_step at 2. cbn [fst snd].
  destruct (key x) as [j|] eqn:K.
  - destruct (memb j done) eqn:M.
    + rewrite IH by exact Hk. destruct (Nat.eqb_spec j k) as [->|N]; [|reflexivity].
      rewrite M. simpl. rewrite andb_false_r. reflexivity.
    + rewrite IH by (rewrite upd_length; exact Hk).
      unfold memb at 1. cbn [existsb]. fold (memb k done). rewrite nth_upd.
      destruct (Nat.eqb_spec j k) as [->|N].
      * rewrite Nat.eqb_refl. simpl. rewrite andb_false_r. rewrite M. simpl.
        replace (k <? length l) with true by (symmetry; apply Nat.ltb_lt; exact Hk). reflexivity.
      * destruct (Nat.eqb_spec k j); [congruence|]. reflexivity.
  - apply IH. exact Hk.
Qed.

(* the key lemma: starting with an empty processed set *)
Theorem fold_once_spec {A X} (key : X -> option nat) (f : A -> A) d xs l k : k < length l ->
  nth k (fst (fold_left (once_step key f d) xs (l, []))) d = if named key k xs then f (nth k l d) else nth k l d.
Proof. intros Hk. rewrite fold_once_spec_gen by exact Hk. simpl. rewrite andb_true_r. reflexivity. Qed.

(* whole-array form: if [f] fixes every slot that is not named, the loop computes [map f] *)
Theorem fold_once_is_map {A X} (key : X -> option nat) (f : A -> A) d xs l :
  (forall k, k < length l -> named key k xs = false -> f (nth k l d) = nth k l d) ->
  fst (fold_left (once_step key f d) xs (l, [])) = map f l.
Proof.
  intros H. apply (list_ext_nth _ _ d).
  - rewrite fold_once_length, map_length. reflexivity.
  - intros k Hk. rewrite fold_once_length in Hk. cbn [fst] in Hk. rewrite fold_once_spec by exact Hk.
    rewrite (nth_indep (map f l) d (f d)) by (rewrite map_length; exact Hk). rewrite map_nth.
    destruct (named key k xs) eqn:E; [reflexivity|]. symmetry. apply H; assumption.
Qed.

(* and conversely: the loop computes [map f] only if f fixes every slot that is not named *)
Theorem fold_once_is_map_only_if {A X} (key : X -> option nat) (f : A -> A) d xs l :
  fst (fold_left (once_step key f d) xs (l, [])) = map f l ->
  forall k, k < length l -> named key k xs = false -> f (nth k l d) = nth k l d.
Proof.
  intros H k Hk N. assert (Q : nth k (fst (fold_left (once_step key f d) xs (l, []))) d = nth k (map f l) d) by (rewrite H; reflexivity).
  rewrite fold_once_spec in Q by exact Hk. rewrite N in Q.
  rewrite (nth_indep (map f l) d (f d)) in Q by (rewrite map_length; exact Hk). rewrite map_nth in Q. symmetry. exact Q.
Qed.

Lemma fold_left_ext {A B} (f g : A -> B -> A) : (forall a x, f a x = g a x) -> forall l a, fold_left f l a = fold_left g l a.
Proof. intros H. induction l as [|x t IH]; intros a; simpl; [reflexivity|]. rewrite H. apply IH. Qed.

Lemma map_fixed {A} (f : A -> A) l : (forall x, In x l -> f x = x) -> map f l = l.
Proof. intros H. rewrite <- (map_id l) at 2. apply map_ext_in. exact H. Qed.
