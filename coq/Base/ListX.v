(* Base/ListX.v -- list primitives used by every model file (definitions only; lemmas live in
   Base/ListLemmas.v so that the models still build and run when a proof breaks). *)
From Coq Require Export List Arith Bool ZArith.
Export ListNotations.
Local Open Scope nat_scope.

Section Gen.
  Context {A : Type}.

  (* std::vector::operator[] with a totalising default; every use is under a range invariant *)
  Definition nthd (l : list A) (i : nat) (d : A) : A := nth i l d.

  Fixpoint upd (i : nat) (x : A) (l : list A) : list A :=
    match l, i with
    | [], _ => []
    | _ :: t, 0 => x :: t
    | h :: t, S j => h :: upd j x t
    end.

  (* vector::erase(begin()+i) *)
  Fixpoint remove_nth (i : nat) (l : list A) : list A :=
    match l, i with
    | [], _ => []
    | _ :: t, 0 => t
    | h :: t, S j => h :: remove_nth j t
    end.

  (* std::swap(v[i], v[j]) *)
  Definition swap_nth (i j : nat) (d : A) (l : list A) : list A :=
    let xi := nth i l d in
    let xj := nth j l d in
    upd j xi (upd i xj l).

  (* vector::resize(n, d) *)
  Definition resize (n : nat) (d : A) (l : list A) : list A :=
    firstn n l ++ repeat d (n - length l).

  Definition last_opt (l : list A) : option A :=
    match rev l with [] => None | x :: _ => Some x end.

  Fixpoint find_index_from (p : A -> bool) (l : list A) (i : nat) : option nat :=
    match l with
    | [] => None
    | x :: t => if p x then Some i else find_index_from p t (S i)
    end.
  Definition find_index (p : A -> bool) (l : list A) : option nat := find_index_from p l 0.
End Gen.

(* erase(remove(begin, end, x), end) *)
Definition remove_val (x : nat) (l : list nat) : list nat :=
  filter (fun y => negb (Nat.eqb y x)) l.

Definition memb (x : nat) (l : list nat) : bool := existsb (Nat.eqb x) l.

(* std::set<int> as a strictly ascending list *)
Fixpoint set_insert (x : nat) (l : list nat) : list nat :=
  match l with
  | [] => [x]
  | y :: t => if x <? y then x :: l else if x =? y then l else y :: set_insert x t
  end.
Definition set_of_list (l : list nat) : list nat := fold_left (fun acc x => set_insert x acc) l [].

(* std::sort on ints keeps duplicates *)
Fixpoint sorted_insert (x : nat) (l : list nat) : list nat :=
  match l with
  | [] => [x]
  | y :: t => if x <=? y then x :: l else y :: sorted_insert x t
  end.
Definition sort_nat (l : list nat) : list nat := fold_right sorted_insert [] l.

(* std::adjacent_find(...) != end *)
Fixpoint has_adjacent_dup (l : list nat) : bool :=
  match l with
  | x :: ((y :: _) as t) => (x =? y) || has_adjacent_dup t
  | _ => false
  end.

(* std::unique with a binary predicate: every element is compared with the last element kept *)
Fixpoint unique_from (eq : nat -> nat -> bool) (x : nat) (l : list nat) : list nat :=
  match l with
  | [] => [x]
  | y :: t => if eq x y then unique_from eq x t else x :: unique_from eq y t
  end.
Definition unique_by (eq : nat -> nat -> bool) (l : list nat) : list nat :=
  match l with [] => [] | x :: t => unique_from eq x t end.
